package main

// Group TsBatch (properties C04 and C17): what the batch / deadline models take from the
// source of $VERIF_REPO/testscript, re-read from the AST on every run:
//
//   - setup(): the entries of the Env.Vars literal (name and where the value comes from), the
//     pass-through names of the range loop, the non-Windows tail ("exe="), the ".tmp" directory;
//   - RunT: the minimum grace period, the divisor of `timeout / N`, the factor of
//     `timeout -= N * gracePeriod`, whether retention returns before removeAll;
//   - condition(): whether the key passed to execCache.Do mentions the PATH of the script;
//   - exec / cmdExec: the kill delays handed to waitOrStop, the timed-out message;
//   - waitOrStop: the name of the interrupt signal; whether the helper goroutine's value wins
//     unconditionally over cmd.Wait's;
//   - RunT: whether gracePeriod is a local of RunT or package-level state;
//   - removeAll: whether the chmod pass is for directories only.
//
// Every helper here is prefixed tsb to stay clear of the other groups of this package.

import (
	"fmt"
	"go/ast"
	"go/token"
	"strconv"
	"strings"
)

func init() {
	groups["TsBatch"] = genTsBatch
}

type tsbEntry struct {
	name string
	kind string // work | tmp | host | lit
	arg  string
}

func tsbFlattenAdd(e ast.Expr, out *[]ast.Expr) {
	if p, ok := e.(*ast.ParenExpr); ok {
		tsbFlattenAdd(p.X, out)
		return
	}
	if be, ok := e.(*ast.BinaryExpr); ok && be.Op == token.ADD {
		tsbFlattenAdd(be.X, out)
		tsbFlattenAdd(be.Y, out)
		return
	}
	*out = append(*out, e)
}

func tsbIsSel(e ast.Expr, x, sel string) bool {
	se, ok := e.(*ast.SelectorExpr)
	if !ok || se.Sel.Name != sel {
		return false
	}
	id, ok := se.X.(*ast.Ident)
	return ok && id.Name == x
}

func tsbStrLit(e ast.Expr) (string, bool) {
	bl, ok := e.(*ast.BasicLit)
	if !ok || bl.Kind != token.STRING {
		return "", false
	}
	s, err := strconv.Unquote(bl.Value)
	return s, err == nil
}

// tsbCallName returns f for a call f() without arguments.
func tsbCallName(e ast.Expr) (string, bool) {
	ce, ok := e.(*ast.CallExpr)
	if !ok || len(ce.Args) != 0 {
		return "", false
	}
	id, ok := ce.Fun.(*ast.Ident)
	if !ok {
		return "", false
	}
	return id.Name, true
}

// tsbDefaultReturn evaluates a function of the form `switch runtime.GOOS { case ...: return
// "x"; default: return "y" }` for a non-Windows, non-Plan 9 system: the default clause.
func (g *gen) tsbDefaultReturn(fn string) (string, bool) {
	fd := g.funcDecl("testscript", fn)
	if fd == nil {
		return "", false
	}
	res, found := "", false
	ast.Inspect(fd.Body, func(n ast.Node) bool {
		cc, ok := n.(*ast.CaseClause)
		if !ok || cc.List != nil { // default clause has a nil list
			return true
		}
		for _, st := range cc.Body {
			if rs, ok := st.(*ast.ReturnStmt); ok && len(rs.Results) == 1 {
				if s, ok := tsbStrLit(rs.Results[0]); ok {
					res, found = s, true
				}
			}
		}
		return true
	})
	return res, found
}

// tsbValue classifies the value part of an Env.Vars element (Linux reading).
func tsbValue(ops []ast.Expr) (kind, arg string, ok bool) {
	if len(ops) == 0 {
		return "lit", "", true
	}
	if len(ops) != 1 {
		return "", "", false
	}
	e := ops[0]
	if s, ok := tsbStrLit(e); ok {
		return "lit", s, true
	}
	if tsbIsSel(e, "ts", "workdir") {
		return "work", "", true
	}
	if id, ok := e.(*ast.Ident); ok && id.Name == "tmpDir" {
		return "tmp", "", true
	}
	if tsbIsSel(e, "os", "DevNull") {
		return "lit", "/dev/null", true
	}
	if ce, ok := e.(*ast.CallExpr); ok && len(ce.Args) == 1 {
		if tsbIsSel(ce.Fun, "os", "Getenv") {
			if s, ok := tsbStrLit(ce.Args[0]); ok {
				return "host", s, true
			}
		}
		if id, ok := ce.Fun.(*ast.Ident); ok && id.Name == "string" {
			if tsbIsSel(ce.Args[0], "os", "PathSeparator") {
				return "lit", "/", true
			}
			if tsbIsSel(ce.Args[0], "os", "PathListSeparator") {
				return "lit", ":", true
			}
		}
	}
	return "", "", false
}

// tsbVarsEntry decodes one element of the Vars literal: "NAME=" + value, f() + "=" + value,
// or a single literal "NAME=value".
func (g *gen) tsbVarsEntry(e ast.Expr) (tsbEntry, bool) {
	var ops []ast.Expr
	tsbFlattenAdd(e, &ops)
	if len(ops) == 0 {
		return tsbEntry{}, false
	}
	name := ""
	rest := ops[1:]
	if s, ok := tsbStrLit(ops[0]); ok {
		// the name ends at the first '=' that is not the first byte (so "/=" names "/", "$=$" names "$")
		i := strings.Index(s[1:], "=")
		if len(s) < 2 || i < 0 {
			return tsbEntry{}, false
		}
		name = s[:i+1]
		if tail := s[i+2:]; tail != "" {
			if len(rest) != 0 {
				return tsbEntry{}, false
			}
			return tsbEntry{name, "lit", tail}, true
		}
	} else if fn, ok := tsbCallName(ops[0]); ok {
		n, ok := g.tsbDefaultReturn(fn)
		if !ok || len(rest) == 0 {
			return tsbEntry{}, false
		}
		s, ok := tsbStrLit(rest[0])
		if !ok || !strings.HasPrefix(s, "=") {
			return tsbEntry{}, false
		}
		name = n
		if s != "=" {
			if len(rest) != 1 {
				return tsbEntry{}, false
			}
			return tsbEntry{name, "lit", s[1:]}, true
		}
		rest = rest[1:]
	} else {
		return tsbEntry{}, false
	}
	kind, arg, ok := tsbValue(rest)
	if !ok {
		return tsbEntry{}, false
	}
	return tsbEntry{name, kind, arg}, true
}

func (g *gen) tsbEmitEntries(coqName, comment string, es []tsbEntry) {
	var parts []string
	for _, e := range es {
		src := ""
		switch e.kind {
		case "work":
			src = "SrcWork"
		case "tmp":
			src = "SrcTmp"
		case "host":
			src = "SrcHost " + coqBytes(e.arg)
		default:
			src = "SrcLit " + coqBytes(e.arg)
		}
		parts = append(parts, fmt.Sprintf("(* %s *) (%s, %s)", strings.ReplaceAll(e.name, "*", "."), coqBytes(e.name), src))
	}
	fmt.Fprintf(&g.buf, "(* %s *)\nDefinition %s : list (list byte * env_src) :=\n  [%s].\n\n", comment, coqName, strings.Join(parts, ";\n   "))
}

func (g *gen) tsbEmitBool(coqName, comment string, b bool) {
	fmt.Fprintf(&g.buf, "(* %s *)\nDefinition %s : bool := %v.\n\n", comment, coqName, b)
}

func tsbIntLit(e ast.Expr) (int64, bool) {
	neg := false
	if ue, ok := e.(*ast.UnaryExpr); ok && ue.Op == token.SUB {
		neg = true
		e = ue.X
	}
	bl, ok := e.(*ast.BasicLit)
	if !ok || bl.Kind != token.INT {
		return 0, false
	}
	v, err := strconv.ParseInt(bl.Value, 0, 64)
	if neg {
		v = -v
	}
	return v, err == nil
}

// tsbCalls collects the calls of the plain function fn inside n.
func tsbCalls(n ast.Node, fn string) []*ast.CallExpr {
	var out []*ast.CallExpr
	ast.Inspect(n, func(x ast.Node) bool {
		if ce, ok := x.(*ast.CallExpr); ok {
			if id, ok := ce.Fun.(*ast.Ident); ok && id.Name == fn {
				out = append(out, ce)
			}
		}
		return true
	})
	return out
}

func tsbMentionsGetenv(n ast.Node, name string) bool {
	found := false
	ast.Inspect(n, func(x ast.Node) bool {
		ce, ok := x.(*ast.CallExpr)
		if !ok || len(ce.Args) != 1 {
			return true
		}
		se, ok := ce.Fun.(*ast.SelectorExpr)
		if !ok || se.Sel.Name != "Getenv" {
			return true
		}
		if s, ok := tsbStrLit(ce.Args[0]); ok && s == name {
			found = true
		}
		return true
	})
	return found
}

func genTsBatch(g *gen) {
	const dir = "testscript"
	fmt.Fprintf(&g.buf, "(* where the value of an entry of the initial Env.Vars comes from *)\n")
	fmt.Fprintf(&g.buf, "Inductive env_src :=\n  | SrcWork                     (* ts.workdir *)\n  | SrcTmp                      (* tmpDir = workdir/.tmp *)\n  | SrcHost (name : list byte)  (* os.Getenv(name) of the test process *)\n  | SrcLit (v : list byte).     (* a literal *)\n\n")

	// ---------------------------------------------------------------- setup()
	setup := g.funcDecl(dir, "TestScript.setup")
	if setup != nil {
		var head []tsbEntry
		okHead := false
		ast.Inspect(setup.Body, func(n ast.Node) bool {
			kv, ok := n.(*ast.KeyValueExpr)
			if !ok {
				return true
			}
			if id, ok := kv.Key.(*ast.Ident); !ok || id.Name != "Vars" {
				return true
			}
			cl, ok := kv.Value.(*ast.CompositeLit)
			if !ok {
				return true
			}
			okHead = true
			for _, el := range cl.Elts {
				en, ok := g.tsbVarsEntry(el)
				if !ok {
					g.fail("setup: an element of the Env.Vars literal is not of a known shape: %s", exprString(g.fset, el))
					okHead = false
					continue
				}
				head = append(head, en)
			}
			return false
		})
		if !okHead || len(head) == 0 {
			g.fail("setup: the Env{Vars: []string{...}} literal was not found")
		} else {
			g.tsbEmitEntries("setup_env_head", "testscript.setup: Env.Vars literal, in order (non-Windows, non-Plan 9 reading of homeEnvName/tempEnvName/os.DevNull/separators)", head)
		}

		// tmpDir := filepath.Join(ts.workdir, ".tmp")
		tmpName, okTmp := "", false
		ast.Inspect(setup.Body, func(n ast.Node) bool {
			as, ok := n.(*ast.AssignStmt)
			if !ok || len(as.Lhs) != 1 || len(as.Rhs) != 1 {
				return true
			}
			if id, ok := as.Lhs[0].(*ast.Ident); !ok || id.Name != "tmpDir" {
				return true
			}
			ce, ok := as.Rhs[0].(*ast.CallExpr)
			if ok && tsbIsSel(ce.Fun, "filepath", "Join") && len(ce.Args) == 2 && tsbIsSel(ce.Args[0], "ts", "workdir") {
				tmpName, okTmp = tsbStrLit(ce.Args[1])
			}
			return true
		})
		if !okTmp {
			g.fail("setup: tmpDir := filepath.Join(ts.workdir, \"<lit>\") not found")
		} else {
			g.emitBytesLit("tmp_dir_name", "testscript.setup: tmpDir = workdir/<this>", tmpName)
		}

		// for _, name := range []string{...} { if val := os.Getenv(name); val != "" {...} }
		var pass []string
		okPass := false
		ast.Inspect(setup.Body, func(n ast.Node) bool {
			rs, ok := n.(*ast.RangeStmt)
			if !ok {
				return true
			}
			cl, ok := rs.X.(*ast.CompositeLit)
			if !ok {
				return true
			}
			v, ok := rs.Value.(*ast.Ident)
			if !ok {
				return true
			}
			uses := false
			ast.Inspect(rs.Body, func(m ast.Node) bool {
				if ce, ok := m.(*ast.CallExpr); ok && tsbIsSel(ce.Fun, "os", "Getenv") && len(ce.Args) == 1 {
					if id, ok := ce.Args[0].(*ast.Ident); ok && id.Name == v.Name {
						uses = true
					}
				}
				return true
			})
			nonEmpty := false
			ast.Inspect(rs.Body, func(m ast.Node) bool {
				if be, ok := m.(*ast.BinaryExpr); ok && be.Op == token.NEQ {
					if s, ok := tsbStrLit(be.Y); ok && s == "" {
						nonEmpty = true
					}
				}
				return true
			})
			if !uses || !nonEmpty {
				return true
			}
			okPass = true
			for _, el := range cl.Elts {
				s, ok := tsbStrLit(el)
				if !ok {
					okPass = false
					return false
				}
				pass = append(pass, s)
			}
			return false
		})
		if !okPass {
			g.fail("setup: the pass-through loop `for _, name := range []string{...} { if val := os.Getenv(name); val != \"\" ...` was not found")
		} else {
			g.emitBytesList("passthrough_names", "testscript.setup: host variables passed through when set to a non-empty value", pass)
		}

		// if runtime.GOOS == "windows" {...} else { env.Vars = append(env.Vars, "exe=") }
		var tail []tsbEntry
		okTail := false
		ast.Inspect(setup.Body, func(n ast.Node) bool {
			is, ok := n.(*ast.IfStmt)
			if !ok {
				return true
			}
			be, ok := is.Cond.(*ast.BinaryExpr)
			if !ok || be.Op != token.EQL || !tsbIsSel(be.X, "runtime", "GOOS") {
				return true
			}
			if s, ok := tsbStrLit(be.Y); !ok || s != "windows" {
				return true
			}
			eb, ok := is.Else.(*ast.BlockStmt)
			if !ok {
				return true
			}
			okTail = true
			for _, ce := range tsbCalls(eb, "append") {
				for _, a := range ce.Args[1:] {
					en, ok := g.tsbVarsEntry(a)
					if !ok {
						okTail = false
						continue
					}
					tail = append(tail, en)
				}
			}
			return false
		})
		if !okTail {
			g.fail("setup: the non-Windows branch appending \"exe=\" was not found")
		} else {
			g.tsbEmitEntries("setup_env_tail", "testscript.setup: entries appended after the pass-through on non-Windows systems", tail)
		}
	}

	// Are the initial variables visible to ts.expand when the archive entry names are expanded?
	// true iff, in source order before the loop over a.Files, setup() assigns ts.envMap (directly
	// or through a method of ts that does).
	if setup != nil {
		var loopPos = setup.Body.End()
		foundLoop := false
		ast.Inspect(setup.Body, func(n ast.Node) bool {
			if rs, ok := n.(*ast.RangeStmt); ok && tsbIsSel(rs.X, "a", "Files") && !foundLoop {
				loopPos, foundLoop = rs.Pos(), true
			}
			return true
		})
		if !foundLoop {
			g.fail("setup: the loop `for _, f := range a.Files` that unpacks the archive was not found")
		}
		assignsEnvMap := func(n ast.Node) bool {
			hit := false
			ast.Inspect(n, func(m ast.Node) bool {
				if as, ok := m.(*ast.AssignStmt); ok {
					for _, l := range as.Lhs {
						if tsbIsSel(l, "ts", "envMap") {
							hit = true
						}
					}
				}
				return true
			})
			return hit
		}
		sees := false
		for _, st := range setup.Body.List {
			if st.Pos() >= loopPos {
				break
			}
			if assignsEnvMap(st) {
				sees = true
			}
			ast.Inspect(st, func(m ast.Node) bool {
				if ce, ok := m.(*ast.CallExpr); ok {
					if se, ok := ce.Fun.(*ast.SelectorExpr); ok {
						if id, ok := se.X.(*ast.Ident); ok && id.Name == "ts" {
							for _, f := range g.files(dir) {
								for _, d := range f.Decls {
									if fd, ok := d.(*ast.FuncDecl); ok && fd.Recv != nil && fd.Name.Name == se.Sel.Name && fd.Body != nil && assignsEnvMap(fd.Body) {
										sees = true
									}
								}
							}
						}
					}
				}
				return true
			})
		}
		// the names are expanded at all (ts.expand(f.Name)); without expansion "$WORK/x" would be a literal name
		expands := false
		ast.Inspect(setup.Body, func(n ast.Node) bool {
			if ce, ok := n.(*ast.CallExpr); ok && tsbIsSel(ce.Fun, "ts", "expand") && len(ce.Args) == 1 && tsbIsSel(ce.Args[0], "f", "Name") {
				expands = true
			}
			return true
		})
		if !expands {
			g.fail("setup: ts.expand(f.Name) not found")
		}
		// Does the loop refuse a name that is not below the work directory before it writes the file?
		// (an if whose condition calls filepath.IsLocal and whose body fails the setup, before writeFile)
		contained := false
		ast.Inspect(setup.Body, func(n ast.Node) bool {
			rs, ok := n.(*ast.RangeStmt)
			if !ok || !tsbIsSel(rs.X, "a", "Files") {
				return true
			}
			writePos := rs.End()
			for _, c := range tsbCalls(rs.Body, "writeFile") {
				if c.Pos() < writePos {
					writePos = c.Pos()
				}
			}
			for _, st := range rs.Body.List {
				is, ok := st.(*ast.IfStmt)
				if !ok || is.Pos() > writePos {
					continue
				}
				usesLocal, fails := false, false
				ast.Inspect(is.Cond, func(m ast.Node) bool {
					if ce, ok := m.(*ast.CallExpr); ok && tsbIsSel(ce.Fun, "filepath", "IsLocal") {
						usesLocal = true
					}
					return true
				})
				ast.Inspect(is.Body, func(m ast.Node) bool {
					if ce, ok := m.(*ast.CallExpr); ok && (tsbIsSel(ce.Fun, "ts", "Fatalf") || tsbIsSel(ce.Fun, "ts", "Check")) {
						fails = true
					}
					return true
				})
				if usesLocal && fails {
					contained = true
				}
			}
			return false
		})
		g.tsbEmitBool("entry_names_contained", "testscript.setup: an archive entry whose expanded name is not local to the work directory (filepath.IsLocal) fails the setup before anything is written", contained)
		g.tsbEmitBool("entry_names_see_env", "testscript.setup: ts.envMap is built before the archive entry names are expanded (a name $WORK/x is then a file of the work directory, not /x)", sees)
	}

	// ---------------------------------------------------------------- RunT
	runT := g.funcDecl(dir, "RunT")
	if runT != nil {
		// gracePeriod = 100 * time.Millisecond: a variable of RunT's own body (a fresh one for every call).
		// Declared at package level instead, it is state that one RunT call hands to the next.
		okG, local := false, false
		emitGrace := func(e ast.Expr) {
			if v, ok := g.constVal(dir, e); ok && !okG {
				fmt.Fprintf(&g.buf, "(* testscript.RunT: gracePeriod = %s (ns) *)\nDefinition min_grace : Z := (%s)%%Z.\n\n", exprString(g.fset, e), v.ExactString())
				okG = true
			}
		}
		ast.Inspect(runT.Body, func(n ast.Node) bool {
			vs, ok := n.(*ast.ValueSpec)
			if !ok {
				return true
			}
			for i, id := range vs.Names {
				if id.Name == "gracePeriod" && i < len(vs.Values) {
					emitGrace(vs.Values[i])
					local = okG
				}
			}
			return true
		})
		ast.Inspect(runT.Body, func(n ast.Node) bool {
			// gracePeriod := <constant duration> inside RunT is local too
			if as, ok := n.(*ast.AssignStmt); ok && as.Tok == token.DEFINE && len(as.Lhs) == 1 && len(as.Rhs) == 1 && !okG {
				if id, ok := as.Lhs[0].(*ast.Ident); ok && id.Name == "gracePeriod" {
					emitGrace(as.Rhs[0])
					local = okG
				}
			}
			return true
		})
		if !okG {
			if e := g.valueExprQuiet(dir, "gracePeriod"); e != nil {
				emitGrace(e)
			}
		}
		if !okG {
			g.fail("RunT: `gracePeriod = <constant duration>` not found (neither in RunT nor at package level)")
		}
		g.tsbEmitBool("grace_period_is_local", "testscript.RunT: gracePeriod is a variable declared inside RunT (a fresh one per call), not package-level state that a call scales up in place for the calls after it", local)
		// gp := timeout / 20 ; gp > gracePeriod
		okD, okF := false, false
		ast.Inspect(runT.Body, func(n ast.Node) bool {
			switch x := n.(type) {
			case *ast.BinaryExpr:
				if x.Op == token.QUO {
					if id, ok := x.X.(*ast.Ident); ok && id.Name == "timeout" {
						if v, ok := tsbIntLit(x.Y); ok && !okD {
							g.emitZLit("grace_divisor", "testscript.RunT: gp := timeout / <this>", v)
							okD = true
						}
					}
				}
			case *ast.AssignStmt:
				if x.Tok == token.SUB_ASSIGN && len(x.Lhs) == 1 && len(x.Rhs) == 1 {
					if id, ok := x.Lhs[0].(*ast.Ident); ok && id.Name == "timeout" {
						if be, ok := x.Rhs[0].(*ast.BinaryExpr); ok && be.Op == token.MUL {
							if id2, ok := be.Y.(*ast.Ident); ok && id2.Name == "gracePeriod" {
								if v, ok := tsbIntLit(be.X); ok && !okF {
									g.emitZLit("grace_reserve", "testscript.RunT: timeout -= <this> * gracePeriod", v)
									okF = true
								}
							}
						}
					}
				}
			}
			return true
		})
		if !okD {
			g.fail("RunT: `timeout / <int literal>` not found")
		}
		if !okF {
			g.fail("RunT: `timeout -= <int literal> * gracePeriod` not found")
		}
		// the grace period is raised only when gp > gracePeriod
		okCmp := false
		ast.Inspect(runT.Body, func(n ast.Node) bool {
			if be, ok := n.(*ast.BinaryExpr); ok && be.Op == token.GTR {
				a, ok1 := be.X.(*ast.Ident)
				b, ok2 := be.Y.(*ast.Ident)
				if ok1 && ok2 && a.Name == "gp" && b.Name == "gracePeriod" {
					okCmp = true
				}
			}
			return true
		})
		if !okCmp {
			g.fail("RunT: `gp > gracePeriod` not found")
		}
		// retention: `if p.TestWork || *testWork { return }` precedes removeAll in the deferred function;
		// `atomic.AddInt32(&refCount, -1) == 0` guards os.Remove(testTempDir) and cancel()
		okRet, okRef := false, false
		ast.Inspect(runT.Body, func(n ast.Node) bool {
			fl, ok := n.(*ast.FuncLit)
			if !ok {
				return true
			}
			direct := false
			for _, st := range fl.Body.List {
				if es, ok := st.(*ast.ExprStmt); ok {
					if c, ok := es.X.(*ast.CallExpr); ok {
						if id, ok := c.Fun.(*ast.Ident); ok && id.Name == "removeAll" {
							direct = true
						}
					}
				}
			}
			if !direct {
				return true
			}
			for _, st := range fl.Body.List {
				if is, ok := st.(*ast.IfStmt); ok {
					mentionsTW := false
					ast.Inspect(is.Cond, func(m ast.Node) bool {
						if tsbIsSelNode(m, "p", "TestWork") {
							mentionsTW = true
						}
						return true
					})
					if mentionsTW && len(is.Body.List) == 1 {
						if _, ok := is.Body.List[0].(*ast.ReturnStmt); ok {
							okRet = true
						}
					}
					// the refcount test
					if be, ok := is.Cond.(*ast.BinaryExpr); ok && be.Op == token.EQL {
						if ce, ok := be.X.(*ast.CallExpr); ok && tsbIsSel(ce.Fun, "atomic", "AddInt32") && len(ce.Args) == 2 {
							d, ok1 := tsbIntLit(ce.Args[1])
							z, ok2 := tsbIntLit(be.Y)
							removes, cancels := false, false
							ast.Inspect(is.Body, func(m ast.Node) bool {
								if c, ok := m.(*ast.CallExpr); ok {
									if tsbIsSel(c.Fun, "os", "Remove") {
										removes = true
									}
									if id, ok := c.Fun.(*ast.Ident); ok && id.Name == "cancel" {
										cancels = true
									}
								}
								return true
							})
							if ok1 && ok2 && d == -1 && z == 0 && removes && cancels && okRet {
								okRef = true
							}
						}
					}
				}
			}
			return false
		})
		if !okRet {
			g.fail("RunT: the deferred function no longer starts with `if p.TestWork || *testWork { return }`")
		}
		if !okRef {
			g.fail("RunT: `if atomic.AddInt32(&refCount, -1) == 0 { os.Remove(testTempDir); cancel() }` after removeAll not found")
		}
		g.tsbEmitBool("retention_skips_cleanup", "testscript.RunT: with TestWork / -testwork (WorkdirRoot sets TestWork) the deferred function returns before removeAll and the ref-count", okRet)
		g.tsbEmitBool("last_script_removes_root_and_cancels", "testscript.RunT: the subtest that brings refCount to 0 removes the root and cancels the context", okRef)
		// the count starts at the number of scripts, before any subtest is started (a T may run the
		// subtests inside Run: a count that grows as they are started would reach 0 after the first)
		okInit := false
		ast.Inspect(runT.Body, func(n ast.Node) bool {
			as, ok := n.(*ast.AssignStmt)
			if !ok || len(as.Lhs) != 1 || len(as.Rhs) != 1 {
				return true
			}
			if id, ok := as.Lhs[0].(*ast.Ident); !ok || id.Name != "refCount" {
				return true
			}
			conv, ok := as.Rhs[0].(*ast.CallExpr)
			if !ok || len(conv.Args) != 1 {
				return true
			}
			if l, ok := conv.Args[0].(*ast.CallExpr); ok && len(l.Args) == 1 {
				if f, ok := l.Fun.(*ast.Ident); ok && f.Name == "len" {
					if a, ok := l.Args[0].(*ast.Ident); ok && a.Name == "files" {
						okInit = true
					}
				}
			}
			return true
		})
		if !okInit {
			g.fail("RunT: `refCount := int32(len(files))` not found (the reference count must start at the number of scripts)")
		}
		g.tsbEmitBool("refcount_starts_at_len", "testscript.RunT: refCount starts at len(files)", okInit)
		// no script at all: does RunT itself remove the root? (a statement of RunT's own body, not of a subtest)
		emptyCleans := false
		for _, st := range runT.Body.List {
			is, ok := st.(*ast.IfStmt)
			if !ok {
				continue
			}
			zero, removes := false, false
			ast.Inspect(is.Cond, func(m ast.Node) bool {
				if be, ok := m.(*ast.BinaryExpr); ok && be.Op == token.EQL {
					if v, ok := tsbIntLit(be.Y); ok && v == 0 {
						ast.Inspect(be.X, func(k ast.Node) bool {
							if id, ok := k.(*ast.Ident); ok && (id.Name == "refCount" || id.Name == "files") {
								zero = true
							}
							return true
						})
					}
				}
				return true
			})
			ast.Inspect(is.Body, func(m ast.Node) bool {
				if c, ok := m.(*ast.CallExpr); ok && tsbIsSel(c.Fun, "os", "Remove") && len(c.Args) == 1 {
					if id, ok := c.Args[0].(*ast.Ident); ok && id.Name == "testTempDir" {
						removes = true
					}
				}
				return true
			})
			if zero && removes {
				emptyCleans = true
			}
		}
		g.tsbEmitBool("empty_batch_removes_root", "testscript.RunT: with no script at all RunT removes the temporary root itself", emptyCleans)
		// the shared context: created once, in RunT's own body (not inside the function handed to t.Run), and
		// cancelled by RunT itself - like the removal of the root - only under a condition that requires
		// that there is no script at all
		{
			type span struct{ lo, hi token.Pos }
			var lits []span
			ast.Inspect(runT.Body, func(n ast.Node) bool {
				if fl, ok := n.(*ast.FuncLit); ok {
					lits = append(lits, span{fl.Pos(), fl.End()})
				}
				return true
			})
			inLit := func(p token.Pos) bool {
				for _, l := range lits {
					if p >= l.lo && p < l.hi {
						return true
					}
				}
				return false
			}
			outside, inside := 0, 0
			ast.Inspect(runT.Body, func(n ast.Node) bool {
				if c, ok := n.(*ast.CallExpr); ok && (tsbIsSel(c.Fun, "context", "WithTimeout") || tsbIsSel(c.Fun, "context", "WithDeadline")) {
					if inLit(c.Pos()) {
						inside++
					} else {
						outside++
					}
				}
				return true
			})
			g.tsbEmitBool("ctx_created_once_in_runt", "testscript.RunT: context.WithTimeout is called once, in RunT's own body before any subtest is started (not inside the function handed to t.Run, where the time-out would count from the start of the subtest)", outside == 1 && inside == 0)

			var conjuncts func(e ast.Expr, out *[]ast.Expr)
			conjuncts = func(e ast.Expr, out *[]ast.Expr) {
				if p, ok := e.(*ast.ParenExpr); ok {
					conjuncts(p.X, out)
					return
				}
				if be, ok := e.(*ast.BinaryExpr); ok && be.Op == token.LAND {
					conjuncts(be.X, out)
					conjuncts(be.Y, out)
					return
				}
				*out = append(*out, e)
			}
			requiresNoScript := func(cond ast.Expr) bool {
				var cs []ast.Expr
				conjuncts(cond, &cs)
				for _, c := range cs {
					be, ok := c.(*ast.BinaryExpr)
					if !ok || be.Op != token.EQL {
						continue
					}
					if v, ok := tsbIntLit(be.Y); !ok || v != 0 {
						continue
					}
					names := false
					ast.Inspect(be.X, func(k ast.Node) bool {
						if id, ok := k.(*ast.Ident); ok && (id.Name == "refCount" || id.Name == "files") {
							names = true
						}
						return true
					})
					if names {
						return true
					}
				}
				return false
			}
			var ifs []*ast.IfStmt
			ast.Inspect(runT.Body, func(n ast.Node) bool {
				if is, ok := n.(*ast.IfStmt); ok && !inLit(is.Pos()) {
					ifs = append(ifs, is)
				}
				return true
			})
			guardedAll := true
			ast.Inspect(runT.Body, func(n ast.Node) bool {
				c, ok := n.(*ast.CallExpr)
				if !ok || inLit(c.Pos()) {
					return true
				}
				isCancel := false
				if id, ok := c.Fun.(*ast.Ident); ok && id.Name == "cancel" && len(c.Args) == 0 {
					isCancel = true
				}
				if tsbIsSel(c.Fun, "os", "Remove") && len(c.Args) == 1 {
					if id, ok := c.Args[0].(*ast.Ident); ok && id.Name == "testTempDir" {
						isCancel = true
					}
				}
				if !isCancel {
					return true
				}
				guarded := false
				for _, is := range ifs {
					if c.Pos() >= is.Body.Pos() && c.Pos() < is.Body.End() && requiresNoScript(is.Cond) {
						guarded = true
					}
				}
				if !guarded {
					guardedAll = false
				}
				return true
			})
			g.tsbEmitBool("early_cleanup_only_without_scripts", "testscript.RunT: outside the subtests RunT calls cancel() / os.Remove(testTempDir) only under a condition that requires refCount == 0 (no script at all), whatever the retention settings", guardedAll)
		}
		// WorkdirRoot != "" sets p.TestWork = true
		okWR := false
		ast.Inspect(runT.Body, func(n ast.Node) bool {
			if as, ok := n.(*ast.AssignStmt); ok && len(as.Lhs) == 1 && len(as.Rhs) == 1 && tsbIsSel(as.Lhs[0], "p", "TestWork") {
				if id, ok := as.Rhs[0].(*ast.Ident); ok && id.Name == "true" {
					okWR = true
				}
			}
			return true
		})
		if !okWR {
			g.fail("RunT: `p.TestWork = true` (for a given WorkdirRoot) not found")
		}
	}

	// ---------------------------------------------------------------- condition(): execCache key
	cond := g.funcDecl(dir, "TestScript.condition")
	if cond != nil {
		found, hasPath := false, false
		ast.Inspect(cond.Body, func(n ast.Node) bool {
			ce, ok := n.(*ast.CallExpr)
			if !ok || !tsbIsSel(ce.Fun, "execCache", "Do") || len(ce.Args) != 2 {
				return true
			}
			found = true
			hasPath = tsbMentionsGetenv(ce.Args[0], "PATH")
			if id, ok := ce.Args[0].(*ast.Ident); ok && !hasPath {
				// key := <expr> in the same function
				ast.Inspect(cond.Body, func(m ast.Node) bool {
					if as, ok := m.(*ast.AssignStmt); ok && len(as.Lhs) == 1 && len(as.Rhs) == 1 {
						if l, ok := as.Lhs[0].(*ast.Ident); ok && l.Name == id.Name && tsbMentionsGetenv(as.Rhs[0], "PATH") {
							hasPath = true
						}
					}
					return true
				})
			}
			return false
		})
		if !found {
			// no cache at all: every lookup is computed afresh, which is the corrected behaviour too
			hasPath = true
			uses := false
			ast.Inspect(cond.Body, func(n ast.Node) bool {
				if ce, ok := n.(*ast.CallExpr); ok && tsbIsSel(ce.Fun, "execpath", "Look") {
					uses = true
				}
				return true
			})
			if !uses {
				g.fail("condition: neither execCache.Do(key, ...) nor a direct execpath.Look found for exec:prog")
			}
		}
		g.tsbEmitBool("exec_cache_key_has_path", "testscript.condition: the key of execCache.Do for [exec:prog] mentions the script's PATH (ts.Getenv(\"PATH\")), or there is no cache", hasPath)
	}

	// ---------------------------------------------------------------- kill delays handed to waitOrStop
	ex := g.funcDecl(dir, "TestScript.exec")
	if ex != nil {
		ok := false
		for _, ce := range tsbCalls(ex.Body, "waitOrStop") {
			if len(ce.Args) == 3 && tsbIsSel(ce.Args[0], "ts", "ctxt") && tsbIsSel(ce.Args[2], "ts", "gracePeriod") {
				ok = true
			}
		}
		if !ok {
			g.fail("exec: waitOrStop(ts.ctxt, cmd, ts.gracePeriod) not found")
		}
		g.tsbEmitBool("fg_kill_delay_is_grace", "testscript.exec: foreground commands are waited for with waitOrStop(ts.ctxt, cmd, ts.gracePeriod)", ok)
	}
	// ---------------------------------------------------------------- the environment of started programs
	{
		// cmd.Env = append(ts.env, "PWD="+ts.cd) in exec and in execBackground: the appended entry is what keeps
		// the slice from being nil (os/exec replaces a nil Env by the environment of the test process)
		appends := func(fd *ast.FuncDecl) bool {
			found := false
			ast.Inspect(fd.Body, func(n ast.Node) bool {
				as, ok := n.(*ast.AssignStmt)
				if !ok || len(as.Lhs) != 1 || len(as.Rhs) != 1 || !tsbIsSel(as.Lhs[0], "cmd", "Env") {
					return true
				}
				call, ok := as.Rhs[0].(*ast.CallExpr)
				if !ok || len(call.Args) != 2 {
					return true
				}
				if fn, ok := call.Fun.(*ast.Ident); !ok || fn.Name != "append" || !tsbIsSel(call.Args[0], "ts", "env") {
					return true
				}
				var ops []ast.Expr
				tsbFlattenAdd(call.Args[1], &ops)
				if len(ops) == 2 {
					if lit, ok := tsbStrLit(ops[0]); ok && lit == "PWD=" && tsbIsSel(ops[1], "ts", "cd") {
						found = true
					}
				}
				return true
			})
			return found
		}
		fg, bg := g.funcDecl(dir, "TestScript.exec"), g.funcDecl(dir, "TestScript.execBackground")
		if fg != nil && bg != nil {
			g.tsbEmitBool("exec_env_appends_pwd", "testscript.exec and testscript.execBackground: cmd.Env = append(ts.env, \"PWD=\"+ts.cd) (never a nil slice, which os/exec would replace by the environment of the test process)", appends(fg) && appends(bg))
		}
	}

	// ---------------------------------------------------------------- a Fatalf inside a deferred function
	if run := g.funcDecl(dir, "TestScript.run"); run != nil {
		// defer func() { defer catchFailNow(func() { ts.t.FailNow() }); ts.deferred() }()
		caught := false
		for _, st := range run.Body.List {
			ds, ok := st.(*ast.DeferStmt)
			if !ok {
				continue
			}
			fl, ok := ds.Call.Fun.(*ast.FuncLit)
			if !ok {
				continue
			}
			callsDeferred, catchBefore := false, false
			for _, inner := range fl.Body.List {
				switch x := inner.(type) {
				case *ast.DeferStmt:
					if id, ok := x.Call.Fun.(*ast.Ident); ok && id.Name == "catchFailNow" && len(x.Call.Args) == 1 && !callsDeferred {
						failsNow := false
						ast.Inspect(x.Call.Args[0], func(n ast.Node) bool {
							if c, ok := n.(*ast.CallExpr); ok {
								if se, ok := c.Fun.(*ast.SelectorExpr); ok && se.Sel.Name == "FailNow" {
									failsNow = true
								}
							}
							return true
						})
						if failsNow {
							catchBefore = true
						}
					}
				case *ast.ExprStmt:
					if c, ok := x.X.(*ast.CallExpr); ok && tsbIsSel(c.Fun, "ts", "deferred") {
						callsDeferred = true
					}
				}
			}
			if callsDeferred && catchBefore {
				caught = true
			}
		}
		g.tsbEmitBool("deferred_failnow_caught", "testscript.run: the deferred call of ts.deferred() is wrapped in `defer catchFailNow(func() { ts.t.FailNow() })`: a Fatalf or Check inside a function registered with Defer fails the run instead of letting the failNow panic escape RunT", caught)
	}

	ce := g.funcDecl(dir, "TestScript.cmdExec")
	if ce != nil {
		okBg := false
		for _, c := range tsbCalls(ce.Body, "waitOrStop") {
			if len(c.Args) == 3 {
				if v, ok := tsbIntLit(c.Args[2]); ok {
					g.emitZLit("bg_kill_delay", "testscript.cmdExec: background commands are waited for with waitOrStop(ts.ctxt, cmd, <this>)", v)
					okBg = true
				}
			}
		}
		if !okBg {
			g.fail("cmdExec: waitOrStop(ts.ctxt, cmd, <int literal>) for background commands not found")
		}
		// if err != nil { ...; if ts.ctxt.Err() != nil { ts.Fatalf("test timed out ...") } else if !neg {...} }
		msg, okMsg := "", false
		ast.Inspect(ce.Body, func(n ast.Node) bool {
			is, ok := n.(*ast.IfStmt)
			if !ok {
				return true
			}
			be, ok := is.Cond.(*ast.BinaryExpr)
			if !ok || be.Op != token.NEQ {
				return true
			}
			c, ok := be.X.(*ast.CallExpr)
			if !ok {
				return true
			}
			se, ok := c.Fun.(*ast.SelectorExpr)
			if !ok || se.Sel.Name != "Err" || !tsbIsSel(se.X, "ts", "ctxt") {
				return true
			}
			if len(is.Body.List) == 1 {
				if es, ok := is.Body.List[0].(*ast.ExprStmt); ok {
					if fc, ok := es.X.(*ast.CallExpr); ok && tsbIsSel(fc.Fun, "ts", "Fatalf") && len(fc.Args) == 1 {
						msg, okMsg = tsbStrLit(fc.Args[0])
					}
				}
			}
			return true
		})
		if !okMsg {
			g.fail("cmdExec: `if ts.ctxt.Err() != nil { ts.Fatalf(\"<message>\") }` not found")
		} else {
			g.emitBytesLit("timed_out_message", "testscript.cmdExec: failure message when the context has expired", msg)
		}
	}

	// ---------------------------------------------------------------- waitOrStop
	wos := g.funcDecl(dir, "waitOrStop")
	if wos != nil {
		sig, okSig := "", false
		kdPos := false
		ast.Inspect(wos.Body, func(n ast.Node) bool {
			switch x := n.(type) {
			case *ast.ValueSpec:
				for i, id := range x.Names {
					if id.Name == "interrupt" && i < len(x.Values) {
						if se, ok := x.Values[i].(*ast.SelectorExpr); ok {
							if p, ok := se.X.(*ast.Ident); ok && p.Name == "syscall" {
								sig, okSig = se.Sel.Name, true
							}
						}
					}
				}
			case *ast.BinaryExpr:
				if x.Op == token.GTR {
					if id, ok := x.X.(*ast.Ident); ok && id.Name == "killDelay" {
						if v, ok := tsbIntLit(x.Y); ok && v == 0 {
							kdPos = true
						}
					}
				}
			}
			return true
		})
		if !okSig {
			g.fail("waitOrStop: `var interrupt os.Signal = syscall.<SIG>` not found")
		} else {
			g.emitBytesLit("interrupt_signal", "testscript.waitOrStop: the signal sent when the context is done (non-Windows)", sig)
		}
		if !kdPos {
			g.fail("waitOrStop: `if killDelay > 0` not found")
		}
		g.tsbEmitBool("kill_only_if_delay_positive", "testscript.waitOrStop: os.Kill is sent only when killDelay > 0", kdPos)
		// waitErr := cmd.Wait(); if interruptErr := <-errc; interruptErr != nil { return interruptErr }; return waitErr
		// -- the helper goroutine's value is returned whenever it is not nil, with no further condition
		found, wins := false, false
		ast.Inspect(wos.Body, func(n ast.Node) bool {
			is, ok := n.(*ast.IfStmt)
			if !ok || is.Init == nil {
				return true
			}
			as, ok := is.Init.(*ast.AssignStmt)
			if !ok || len(as.Lhs) != 1 || len(as.Rhs) != 1 {
				return true
			}
			v, ok := as.Lhs[0].(*ast.Ident)
			if !ok {
				return true
			}
			ue, ok := as.Rhs[0].(*ast.UnaryExpr)
			if !ok || ue.Op != token.ARROW {
				return true
			}
			if ch, ok := ue.X.(*ast.Ident); !ok || ch.Name != "errc" {
				return true
			}
			found = true
			// the condition is exactly `v != nil` and the body returns v
			if be, ok := is.Cond.(*ast.BinaryExpr); ok && be.Op == token.NEQ {
				x, ok1 := be.X.(*ast.Ident)
				y, ok2 := be.Y.(*ast.Ident)
				if ok1 && ok2 && x.Name == v.Name && y.Name == "nil" && len(is.Body.List) == 1 && is.Else == nil {
					if rs, ok := is.Body.List[0].(*ast.ReturnStmt); ok && len(rs.Results) == 1 {
						if r, ok := rs.Results[0].(*ast.Ident); ok && r.Name == v.Name {
							wins = true
						}
					}
				}
			}
			return true
		})
		if !found {
			g.fail("waitOrStop: `if interruptErr := <-errc; ... { return interruptErr }` not found")
		}
		g.tsbEmitBool("interrupt_error_wins", "testscript.waitOrStop: after cmd.Wait, `if interruptErr := <-errc; interruptErr != nil { return interruptErr }` with no further condition (the exit status of the command plays no part)", wins)
	}

	// ---------------------------------------------------------------- removeAll
	ra := g.funcDecl(dir, "removeAll")
	if ra != nil {
		// filepath.WalkDir(dir, func(path string, entry fs.DirEntry, err error) error { ...
		//     if entry.IsDir() { os.Chmod(path, 0o777) } ... })
		// os.Chmod follows symbolic links and WalkDir reports a link as a non-directory entry: every
		// os.Chmod of the walk function has to sit under `if <entry>.IsDir()`.
		foundWalk, chmods, guarded := false, 0, 0
		ast.Inspect(ra.Body, func(n ast.Node) bool {
			ce, ok := n.(*ast.CallExpr)
			if !ok || !(tsbIsSel(ce.Fun, "filepath", "WalkDir") || tsbIsSel(ce.Fun, "filepath", "Walk")) || len(ce.Args) != 2 {
				return true
			}
			fl, ok := ce.Args[1].(*ast.FuncLit)
			if !ok || fl.Type.Params == nil {
				return true
			}
			var names []string
			for _, f := range fl.Type.Params.List {
				for _, id := range f.Names {
					names = append(names, id.Name)
				}
			}
			if len(names) != 3 {
				return true
			}
			foundWalk = true
			entry := names[1]
			isDirCond := func(e ast.Expr) bool {
				c, ok := e.(*ast.CallExpr)
				return ok && len(c.Args) == 0 && tsbIsSel(c.Fun, entry, "IsDir")
			}
			var walk func(n ast.Node, under bool)
			walk = func(n ast.Node, under bool) {
				ast.Inspect(n, func(m ast.Node) bool {
					switch x := m.(type) {
					case *ast.IfStmt:
						if x.Init != nil {
							walk(x.Init, under)
						}
						walk(x.Cond, under)
						walk(x.Body, under || isDirCond(x.Cond))
						if x.Else != nil {
							walk(x.Else, under)
						}
						return false
					case *ast.CallExpr:
						if tsbIsSel(x.Fun, "os", "Chmod") || tsbIsSel(x.Fun, "os", "Lchmod") {
							chmods++
							if under {
								guarded++
							}
						}
					}
					return true
				})
			}
			walk(fl.Body, false)
			return false
		})
		if !foundWalk {
			g.fail("removeAll: filepath.WalkDir(dir, func(path, entry, err) ...) not found")
		}
		g.tsbEmitBool("remove_all_chmods_dirs_only", "testscript.removeAll: the function handed to filepath.WalkDir calls os.Chmod only under `if entry.IsDir()` (os.Chmod follows symbolic links; WalkDir reports a link as a non-directory)", foundWalk && chmods == guarded)
	}
}

// valueExprQuiet: the initialiser of a package-level var or const, nil when there is none.
func (g *gen) valueExprQuiet(dir, name string) ast.Expr {
	for _, f := range g.files(dir) {
		for _, d := range f.Decls {
			gd, ok := d.(*ast.GenDecl)
			if !ok {
				continue
			}
			for _, sp := range gd.Specs {
				vs, ok := sp.(*ast.ValueSpec)
				if !ok {
					continue
				}
				for i, id := range vs.Names {
					if id.Name == name && i < len(vs.Values) {
						return vs.Values[i]
					}
				}
			}
		}
	}
	return nil
}

func tsbIsSelNode(n ast.Node, x, sel string) bool {
	e, ok := n.(ast.Expr)
	return ok && tsbIsSel(e, x, sel)
}

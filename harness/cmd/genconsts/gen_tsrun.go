package main

// Group TsRun (properties C01 and C16): what the interpreter model takes from the source of
// <repo>/testscript, re-read from the AST on every run:
//
//   - cmd.go: the key set of the scriptCmds table, in source order, and the name of the method
//     that implements each key;
//   - for every key, whether its implementation rejects the `!` prefix, i.e. contains
//     `if neg { ts.Fatalf("unsupported: ! ...") }` (neg being the method's first parameter);
//   - testscript.go, condition(): the condition names compared with `cond == "..."` and the
//     prefixes tested with strings.HasPrefix(cond, "...");
//   - Fatalf: the text in front of the file name in the failure line of the log ("FAIL: ");
//   - cmd.go: the source text of the backgroundSpecifier regular expression;
//   - imports/build.go: the keys of KnownOS, KnownArch and UnixOS, which condition() consults for the
//     GOOS / GOARCH / unix conditions, and the source text of goVersionRegex.
//
// Every helper here is prefixed tsr to stay clear of the other groups of this package.

import (
	"fmt"
	"go/ast"
	"go/token"
	"strconv"
	"strings"
)

func init() {
	groups["TsRun"] = genTsRun
}

func tsrStr(e ast.Expr) (string, bool) {
	bl, ok := e.(*ast.BasicLit)
	if !ok || bl.Kind != token.STRING {
		return "", false
	}
	s, err := strconv.Unquote(bl.Value)
	return s, err == nil
}

// tsrRejectsNeg: the body has an `if <negParam> { ... ts.Fatalf("unsupported: ! ...") ... }`.
func tsrRejectsNeg(fd *ast.FuncDecl) bool {
	if fd.Type.Params == nil || len(fd.Type.Params.List) == 0 || len(fd.Type.Params.List[0].Names) == 0 {
		return false
	}
	negName := fd.Type.Params.List[0].Names[0].Name
	found := false
	ast.Inspect(fd.Body, func(n ast.Node) bool {
		is, ok := n.(*ast.IfStmt)
		if !ok {
			return true
		}
		id, ok := is.Cond.(*ast.Ident)
		if !ok || id.Name != negName {
			return true
		}
		ast.Inspect(is.Body, func(m ast.Node) bool {
			ce, ok := m.(*ast.CallExpr)
			if !ok || len(ce.Args) == 0 {
				return true
			}
			se, ok := ce.Fun.(*ast.SelectorExpr)
			if !ok || se.Sel.Name != "Fatalf" {
				return true
			}
			if s, ok := tsrStr(ce.Args[0]); ok && strings.HasPrefix(s, "unsupported: ! ") {
				found = true
			}
			return true
		})
		return true
	})
	return found
}

func genTsRun(g *gen) {
	const dir = "testscript"
	// ---- scriptCmds
	e := g.valueExpr(dir, "scriptCmds")
	var names, methods []string
	if cl, ok := e.(*ast.CompositeLit); ok {
		for _, el := range cl.Elts {
			kv, ok := el.(*ast.KeyValueExpr)
			if !ok {
				g.fail("scriptCmds: element is not key: value")
				continue
			}
			k, ok := tsrStr(kv.Key)
			if !ok {
				g.fail("scriptCmds: key is not a string literal")
				continue
			}
			// value: (*TestScript).cmdX
			m := ""
			if se, ok := kv.Value.(*ast.SelectorExpr); ok {
				m = se.Sel.Name
			}
			if m == "" {
				g.fail("scriptCmds[%q]: value is not a method expression (*TestScript).cmdX", k)
				continue
			}
			names = append(names, k)
			methods = append(methods, m)
		}
	} else if e != nil {
		g.fail("scriptCmds is not a map literal any more")
	}
	if len(names) == 0 {
		g.fail("scriptCmds has no entries")
		return
	}
	var rejecting []string
	var comment []string
	for i, k := range names {
		fd := g.funcDecl(dir, "TestScript."+methods[i])
		if fd == nil {
			continue
		}
		rej := tsrRejectsNeg(fd)
		if rej {
			rejecting = append(rejecting, k)
		}
		comment = append(comment, fmt.Sprintf("%s=%s%s", k, methods[i], map[bool]string{true: "[rejects !]", false: ""}[rej]))
	}
	g.emitBytesList("script_cmd_names", "testscript.scriptCmds keys: "+strings.Join(comment, " "), names)
	g.emitBytesList("neg_rejecting_cmds", "keys whose implementation has `if neg { ts.Fatalf(\"unsupported: ! ...\") }`", rejecting)

	// ---- condition()
	if fd := g.funcDecl(dir, "TestScript.condition"); fd != nil {
		var exact, prefixes []string
		ast.Inspect(fd.Body, func(n ast.Node) bool {
			cc, ok := n.(*ast.CaseClause)
			if !ok {
				return true
			}
			for _, ce := range cc.List {
				ast.Inspect(ce, func(m ast.Node) bool {
					switch x := m.(type) {
					case *ast.BinaryExpr:
						if x.Op == token.EQL {
							if id, ok := x.X.(*ast.Ident); ok && id.Name == "cond" {
								if s, ok := tsrStr(x.Y); ok {
									exact = append(exact, s)
								}
							}
						}
					case *ast.CallExpr:
						if se, ok := x.Fun.(*ast.SelectorExpr); ok && se.Sel.Name == "HasPrefix" && len(x.Args) == 2 {
							if id, ok := x.Args[0].(*ast.Ident); ok && id.Name == "cond" {
								if s, ok := tsrStr(x.Args[1]); ok {
									prefixes = append(prefixes, s)
								}
							}
						}
					}
					return true
				})
			}
			return true
		})
		if len(exact) == 0 {
			g.fail("condition(): no `cond == \"...\"` case found")
		}
		g.emitBytesList("cond_exact_names", "testscript condition(): names compared with cond == \"...\"", exact)
		g.emitBytesList("cond_prefixes", "testscript condition(): strings.HasPrefix(cond, \"...\")", prefixes)
	}

	// ---- the name lists condition() consults (imports.KnownOS / KnownArch / UnixOS) and goVersionRegex
	g.emitKnown("known_os_names", "imports", "KnownOS", "goosList")
	g.emitKnown("known_arch_names", "imports", "KnownArch", "goarchList")
	g.emitKnown("unix_os_names", "imports", "UnixOS", "unixList")
	if e := g.valueExpr(dir, "goVersionRegex"); e != nil {
		src := ""
		if ce, ok := e.(*ast.CallExpr); ok && len(ce.Args) == 1 {
			src, _ = tsrStr(ce.Args[0])
		}
		if src == "" {
			g.fail("goVersionRegex is not regexp.MustCompile(<literal>) any more")
		} else {
			// (the text is not repeated in the comment: it contains the characters that close a Coq comment)
			fmt.Fprintf(&g.buf, "(* the source text of testscript.goVersionRegex *)\nDefinition go_version_regex : list byte := %s.\n\n", coqBytes(src))
		}
	} else {
		g.fail("testscript.goVersionRegex not found")
	}

	// ---- Fatalf: "FAIL: %s:%d: %s\n"
	if fd := g.funcDecl(dir, "TestScript.Fatalf"); fd != nil {
		format := ""
		ast.Inspect(fd.Body, func(n ast.Node) bool {
			ce, ok := n.(*ast.CallExpr)
			if !ok || len(ce.Args) < 2 {
				return true
			}
			if se, ok := ce.Fun.(*ast.SelectorExpr); ok && se.Sel.Name == "Fprintf" {
				if s, ok := tsrStr(ce.Args[1]); ok && strings.Contains(s, "%s:%d") {
					format = s
				}
			}
			return true
		})
		i := strings.Index(format, "%s:%d")
		if i < 0 {
			g.fail("Fatalf: no Fprintf format with %%s:%%d (file:line) found")
		} else {
			g.emitBytesLit("fail_log_prefix", "testscript Fatalf log format "+strconv.Quote(format)+": text before file:line", format[:i])
		}
	}

	// ---- backgroundSpecifier
	if e := g.valueExpr(dir, "backgroundSpecifier"); e != nil {
		src := ""
		if ce, ok := e.(*ast.CallExpr); ok && len(ce.Args) == 1 {
			src, _ = tsrStr(ce.Args[0])
		}
		if src == "" {
			g.fail("backgroundSpecifier is not regexp.MustCompile(<literal>) any more")
		} else {
			g.emitBytesLit("background_specifier_re", "testscript.backgroundSpecifier", src)
		}
	}
}

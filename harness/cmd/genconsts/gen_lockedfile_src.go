package main

import (
	"fmt"
	"go/ast"
	"os"
	"strings"
	"syscall"

	"verif/harness/go2coq"
)

// Group LockedFileSrc: lockedfile's API and its flock back end translated to Gallina by
// harness/go2coq in WORLD MODE (go2coq/world.go), written to Gen/LockedFileSrc.v:
//
//	lockedfile/internal/filelock (filelock.go, filelock_unix.go): lockType.String, lock (with its
//	    EINTR retry loop), unlock, Lock, RLock, Unlock
//	lockedfile (lockedfile_filelock.go, lockedfile.go, mutex.go): openFile, closeFile, OpenFile,
//	    Open, Create, Edit, (*File).Close, Read, Write, Transform, (*Mutex).Lock and the unlock
//	    function it returns
//
// Every operating-system / library call of these functions is an UNINTERPRETED operation of the
// record LockedFile/SrcLib.os_ops on an abstract world: the generated functions are
// state-passing functions over any behaviour of the operating system.  LockedFile/SrcFacts.v
// proves each of them equal, for every world and every interpretation of the operations, to
// running the hand-written program term of LockedFile/LockedFile.v (open_file_prog, close_prog,
// client_prog ...) with the interpreter SrcLib.run_prog over the same operations.  A change of
// the source that reorders, drops or adds a call changes the generated term and re-opens those
// proofs.  This file holds only the table.
//
// What the table claims beyond the translator's own checks (LockedFile/SrcLib.v states each
// denotation next to its definition): (*os.File).Stat is a query that changes nothing;
// (*os.File).Fd / Name and FileInfo.Mode / FileMode.IsRegular are functions of their receiver;
// os.File.WriteAt with an empty slice performs no operation; io.Copy(f, r) performs one write
// per non-empty chunk the reader delivers and ends with the reader's own error;
// runtime.SetFinalizer has no effect on the denoted state; a sync.Mutex is the bool "locked";
// the function handed to Transform is a pure function of the bytes read; the conversion
// int(f.Fd()) does not change the value.

func init() {
	outFile["LockedFileSrc"] = "LockedFileSrc.v"
	stubOnFailure["LockedFileSrc"] = true
	groups["LockedFileSrc"] = func(g *gen) {
		const flPath = "github.com/rogpeppe/go-internal/lockedfile/internal/filelock"
		const lfPath = "github.com/rogpeppe/go-internal/lockedfile"
		// only the files compiled on this platform (the flock back end; LockedFileConsts asserts
		// with the build constraints that these are the ones)
		pick := func(dir string, names ...string) []*ast.File {
			var out []*ast.File
			for _, f := range g.files(dir) {
				fn := g.fset.Position(f.Pos()).Filename
				for _, n := range names {
					if strings.HasSuffix(fn, "/"+n) {
						out = append(out, f)
					}
				}
			}
			if len(out) != len(names) && len(g.errs) == 0 {
				g.fail("%s: expected the files %v", dir, names)
			}
			return out
		}
		flFiles := pick("lockedfile/internal/filelock", "filelock.go", "filelock_unix.go")
		lfFiles := pick("lockedfile", "lockedfile.go", "lockedfile_filelock.go", "mutex.go")
		if len(g.errs) > 0 {
			return
		}
		stubs := map[string]string{
			"errors":  "package errors\nfunc New(text string) error\n",
			"fmt":     "package fmt\nfunc Sprintf(format string, a ...any) string\n",
			"sync":    "package sync\ntype Mutex struct{ _ int }\nfunc (m *Mutex) Lock()\nfunc (m *Mutex) Unlock()\n",
			"runtime": "package runtime\nfunc SetFinalizer(obj any, finalizer any)\n",
			"io": "package io\ntype Reader interface{ Read(p []byte) (n int, err error) }\ntype Writer interface{ Write(p []byte) (n int, err error) }\n" +
				"func ReadAll(r Reader) ([]byte, error)\nfunc Copy(dst Writer, src Reader) (written int64, err error)\n",
			"io/fs": "package fs\ntype FileMode uint32\nfunc (m FileMode) IsRegular() bool\n" +
				"type FileInfo interface{ Mode() FileMode }\ntype PathError struct { Op string; Path string; Err error }\nfunc (e *PathError) Error() string\nvar ErrClosed error\n",
			"syscall": fmt.Sprintf("package syscall\ntype Errno uintptr\nfunc (e Errno) Error() string\nconst (\n EINTR = Errno(%d)\n ENOSYS = Errno(%d)\n ENOTSUP = Errno(%d)\n EOPNOTSUPP = Errno(%d)\n)\n"+
				"const (\n LOCK_SH = %d\n LOCK_EX = %d\n LOCK_UN = %d\n)\nfunc Flock(fd int, how int) (err error)\n",
				int(syscall.EINTR), int(syscall.ENOSYS), int(syscall.ENOTSUP), int(syscall.EOPNOTSUPP), syscall.LOCK_SH, syscall.LOCK_EX, syscall.LOCK_UN),
			"os": fmt.Sprintf("package os\nimport \"io/fs\"\nconst (\n O_RDONLY int = %d\n O_WRONLY int = %d\n O_RDWR int = %d\n O_APPEND int = %d\n O_CREATE int = %d\n O_EXCL int = %d\n O_TRUNC int = %d\n)\n"+
				"type File struct{ _ int }\nfunc OpenFile(name string, flag int, perm fs.FileMode) (*File, error)\n"+
				"func (f *File) Close() error\nfunc (f *File) Truncate(size int64) error\nfunc (f *File) Stat() (fs.FileInfo, error)\n"+
				"func (f *File) Name() string\nfunc (f *File) Fd() uintptr\nfunc (f *File) Read(b []byte) (n int, err error)\n"+
				"func (f *File) Write(b []byte) (n int, err error)\nfunc (f *File) WriteAt(b []byte, off int64) (n int, err error)\n"+
				"type LinkError struct{ Err error }\nfunc (e *LinkError) Error() string\ntype SyscallError struct{ Err error }\nfunc (e *SyscallError) Error() string\n",
				os.O_RDONLY, os.O_WRONLY, os.O_RDWR, os.O_APPEND, os.O_CREATE, os.O_EXCL, os.O_TRUNC),
		}
		cfg := &go2coq.WorldConfig{
			Stubs: stubs,
			Lib: map[string]go2coq.WLib{
				"os.OpenFile":                {Coq: "(os_open OS)", Kind: go2coq.WWorld},
				"syscall.Flock":              {Coq: "(sys_flock OS)", Kind: go2coq.WWorld},
				"(*os.File).Truncate":        {Coq: "(os_ftruncate OS)", Kind: go2coq.WWorld},
				"(*os.File).Stat":            {Coq: "(os_fstat OS)", Kind: go2coq.WWorldRO},
				"(*os.File).Close":           {Coq: "(os_close OS)", Kind: go2coq.WWorld},
				"(*os.File).WriteAt":         {Coq: "(file_write_at OS)", Kind: go2coq.WWorld},
				"(*os.File).Name":            {Coq: "(h_name OS)", Kind: go2coq.WPure},
				"io.ReadAll":                 {Coq: "(os_read_all OS)", Kind: go2coq.WWorld},
				"io.Copy":                    {Coq: "(io_copy OS)", Kind: go2coq.WWorld},
				"(" + flPath + ".File).Fd":   {Coq: "(h_fd OS)", Kind: go2coq.WPure},
				"(" + flPath + ".File).Name": {Coq: "(h_name OS)", Kind: go2coq.WPure},
				"(io/fs.FileInfo).Mode":      {Coq: "(fi_mode OS)", Kind: go2coq.WPure},
				"(io/fs.FileMode).IsRegular": {Coq: "(fm_is_regular OS)", Kind: go2coq.WPure},
				"runtime.SetFinalizer":       {Kind: go2coq.WDrop},
				"(*sync.Mutex).Lock":         {Coq: "go_sync_Lock", Kind: go2coq.WUpdate},
				"(*sync.Mutex).Unlock":       {Coq: "go_sync_Unlock", Kind: go2coq.WUpdate},
			},
			Types: map[string]go2coq.WType{
				"*os.File":       {Coq: "(Handle OS)", Zero: "(nil_handle OS)"},
				flPath + ".File": {Coq: "(Handle OS)", Zero: "(nil_handle OS)"},
				"io/fs.FileInfo": {Coq: "(FileInfo OS)", Zero: "(nil_fileinfo OS)"},
				"io.Reader":      {Coq: "reader"},
				"sync.Mutex":     {Coq: "bool", Zero: "false"},
			},
			ExtVars:    map[string]string{"syscall.EINTR": "werr_EINTR", "io/fs.ErrClosed": "werr_ErrClosed"},
			ErrStructs: map[string][]string{"io/fs.PathError": {"Op", "Path", "Err"}},
			IntConv:    []string{"uintptr->int"},
			WorldType:  "(World OS)",
			WorldVar:   "w",
		}
		pkgs := []go2coq.WorldPkg{
			{Path: flPath, Prefix: "fl_", Files: flFiles, Funcs: []string{"lockType.String", "lock", "unlock", "Lock", "RLock", "Unlock"}},
			{Path: lfPath, Prefix: "lf_", Files: lfFiles, Funcs: []string{"closeFile", "openFile", "OpenFile", "Open", "Create", "Edit",
				"File.Close", "Read", "Write", "Transform", "Mutex.Lock"}},
		}
		res, err := go2coq.TranslateWorld(g.fset, pkgs, cfg)
		if err != nil {
			g.fail("lockedfile: %v", err)
			return
		}
		fmt.Fprintf(&g.buf, "(* lockedfile and lockedfile/internal/filelock translated by harness/go2coq in world mode\n   (table: harness/cmd/genconsts/gen_lockedfile_src.go).\n")
		fmt.Fprintf(&g.buf, "   Functions: %s.\n   Vocabulary: Lib/GoSem.v, Lib/GoSemWorld.v, LockedFile/SrcLib.v (the record of operations OS). *)\n", strings.Join(res.Funcs, ", "))
		fmt.Fprintf(&g.buf, "From Coq Require Import Bool.\nFrom GI Require Import Lib.Bytes Lib.GoSem Lib.GoSemWorld LockedFile.SrcLib.\nImport GoNotations.\nLocal Open Scope go_scope.\n\n")
		fmt.Fprintf(&g.buf, "Section Src.\nVariable OS : os_ops.\n\n")
		g.buf.WriteString(res.Text)
		fmt.Fprintf(&g.buf, "End Src.\n")
	}
}

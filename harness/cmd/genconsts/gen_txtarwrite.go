package main

// Group TxtarWrite (property C15): what the theorems about txtar.Write and the
// txtar-c / txtar-x commands depend on, re-read from the AST on every run:
//   - the rejection guard of Write (isAbs disjunct, exact-match strings, prefix strings)
//   - that the tested path is filepath.Clean(filepath.FromSlash(f.Name))
//   - the flags and permission bits of the os.OpenFile call, the MkdirAll permission
//   - txtar-c: the dot-file prefix tested with strings.HasPrefix(name, ".") && !*allFlag
//     and the "unquote " + filename + "\n" comment line.
// string(filepath.Separator) is evaluated for Unix ("/"): the model is the Unix model.

import (
	"fmt"
	"go/ast"
	"go/token"
	"strconv"
	"strings"
)

func init() {
	groups["TxtarWrite"] = genTxtarWrite
}

// twStr evaluates string expressions made of literals, +, []byte(..)/string(..)
// conversions and filepath.Separator.
func twStr(e ast.Expr) (string, bool) {
	switch e := e.(type) {
	case *ast.BasicLit:
		if e.Kind == token.STRING {
			s, err := strconv.Unquote(e.Value)
			return s, err == nil
		}
		if e.Kind == token.CHAR {
			s, err := strconv.Unquote(e.Value)
			return s, err == nil
		}
	case *ast.SelectorExpr:
		if x, ok := e.X.(*ast.Ident); ok && x.Name == "filepath" && e.Sel.Name == "Separator" {
			return "/", true
		}
	case *ast.CallExpr:
		if len(e.Args) == 1 {
			return twStr(e.Args[0])
		}
	case *ast.ParenExpr:
		return twStr(e.X)
	case *ast.BinaryExpr:
		if e.Op == token.ADD {
			a, ok1 := twStr(e.X)
			b, ok2 := twStr(e.Y)
			return a + b, ok1 && ok2
		}
	}
	return "", false
}

func twFlatten(e ast.Expr, op token.Token) []ast.Expr {
	switch x := e.(type) {
	case *ast.ParenExpr:
		return twFlatten(x.X, op)
	case *ast.BinaryExpr:
		if x.Op == op {
			return append(twFlatten(x.X, op), twFlatten(x.Y, op)...)
		}
	}
	return []ast.Expr{e}
}

func twCallName(e ast.Expr) string {
	c, ok := e.(*ast.CallExpr)
	if !ok {
		return ""
	}
	switch f := c.Fun.(type) {
	case *ast.Ident:
		return f.Name
	case *ast.SelectorExpr:
		if x, ok := f.X.(*ast.Ident); ok {
			return x.Name + "." + f.Sel.Name
		}
	}
	return ""
}

func twIdent(e ast.Expr) string {
	if id, ok := e.(*ast.Ident); ok {
		return id.Name
	}
	return ""
}

func coqBool(b bool) string {
	if b {
		return "true"
	}
	return "false"
}

func genTxtarWrite(g *gen) {
	fd := g.funcDecl("txtar", "Write")
	if fd == nil || fd.Body == nil {
		return
	}
	// ---- the guard
	var guard *ast.IfStmt
	var cleanedVar string
	cleans := false
	var openCall, mkdirCall *ast.CallExpr
	nOpen, nMkdir, nOtherOS := 0, 0, 0
	ast.Inspect(fd.Body, func(n ast.Node) bool {
		switch s := n.(type) {
		case *ast.IfStmt:
			if guard == nil {
				for _, d := range twFlatten(s.Cond, token.LOR) {
					if twCallName(d) == "isAbs" {
						guard = s
					}
				}
			}
		case *ast.AssignStmt:
			// fp := filepath.Clean(filepath.FromSlash(f.Name))
			if len(s.Lhs) == 1 && len(s.Rhs) == 1 && twCallName(s.Rhs[0]) == "filepath.Clean" {
				in := s.Rhs[0].(*ast.CallExpr).Args
				if len(in) == 1 && twCallName(in[0]) == "filepath.FromSlash" {
					a := in[0].(*ast.CallExpr).Args
					if len(a) == 1 {
						if sel, ok := a[0].(*ast.SelectorExpr); ok && sel.Sel.Name == "Name" {
							cleans = true
							cleanedVar = twIdent(s.Lhs[0])
						}
					}
				}
			}
		case *ast.CallExpr:
			switch twCallName(s) {
			case "os.OpenFile":
				openCall = s
				nOpen++
			case "os.MkdirAll":
				mkdirCall = s
				nMkdir++
			default:
				if n := twCallName(s); strings.HasPrefix(n, "os.") {
					nOtherOS++
				}
			}
		}
		return true
	})
	if !cleans {
		g.fail("txtar.Write: no `x := filepath.Clean(filepath.FromSlash(f.Name))` any more")
		return
	}
	if guard == nil {
		g.fail("txtar.Write: no if-statement with an isAbs(...) disjunct (the outside-directory guard)")
		return
	}
	abs := false
	var exact, prefix []string
	for _, d := range twFlatten(guard.Cond, token.LOR) {
		switch {
		case twCallName(d) == "isAbs":
			if a := d.(*ast.CallExpr).Args; len(a) == 1 && twIdent(a[0]) == cleanedVar {
				abs = true
			} else {
				g.fail("txtar.Write guard: isAbs is not applied to the cleaned name")
			}
		case twCallName(d) == "strings.HasPrefix":
			a := d.(*ast.CallExpr).Args
			if len(a) != 2 || twIdent(a[0]) != cleanedVar {
				g.fail("txtar.Write guard: strings.HasPrefix is not applied to the cleaned name")
				continue
			}
			s, ok := twStr(a[1])
			if !ok {
				g.fail("txtar.Write guard: prefix argument is not a literal string expression")
				continue
			}
			prefix = append(prefix, s)
		default:
			be, ok := d.(*ast.BinaryExpr)
			if ok && be.Op == token.EQL {
				if twIdent(be.X) == cleanedVar {
					if s, ok := twStr(be.Y); ok {
						exact = append(exact, s)
						continue
					}
				}
				if twIdent(be.Y) == cleanedVar {
					if s, ok := twStr(be.X); ok {
						exact = append(exact, s)
						continue
					}
				}
			}
			g.fail("txtar.Write guard: disjunct of an unknown shape (not isAbs / == literal / strings.HasPrefix)")
		}
	}
	// the guard must leave the function with an error
	returns := false
	for _, st := range guard.Body.List {
		if r, ok := st.(*ast.ReturnStmt); ok && len(r.Results) == 1 && twIdent(r.Results[0]) != "nil" {
			returns = true
		}
	}
	if !returns {
		g.fail("txtar.Write guard: body does not return an error")
	}
	fmt.Fprintf(&g.buf, "(* txtar.Write: the tested path is filepath.Clean(filepath.FromSlash(f.Name)); the guard\n   `if %s { return error }` read as: isAbs disjunct, ==-literals, HasPrefix-literals\n   (string(filepath.Separator) evaluated for Unix) *)\n", strings.ReplaceAll(exprText(guard.Cond), "*)", "* )"))
	fmt.Fprintf(&g.buf, "Definition write_guard_abs : bool := %s.\n\n", coqBool(abs))
	g.emitBytesList("write_guard_exact", fmt.Sprintf("cleaned names rejected by equality: %q", exact), exact)
	g.emitBytesList("write_guard_prefix", fmt.Sprintf("cleaned names rejected by prefix: %q", prefix), prefix)

	// ---- os.OpenFile(fp, flags, perm): the model has exactly one open per entry, one
	// MkdirAll, and no other file-system call of package os
	if nOpen != 1 || nMkdir != 1 || nOtherOS != 0 {
		g.fail("txtar.Write: %d os.OpenFile, %d os.MkdirAll and %d other os.* calls; the model has exactly one OpenFile and one MkdirAll per entry", nOpen, nMkdir, nOtherOS)
		return
	}
	if openCall == nil || len(openCall.Args) != 3 {
		g.fail("txtar.Write: no os.OpenFile(path, flags, perm) call")
		return
	}
	have := map[string]bool{}
	for _, fl := range twFlatten(openCall.Args[1], token.OR) {
		sel, ok := fl.(*ast.SelectorExpr)
		if !ok || twIdent(sel.X) != "os" {
			g.fail("txtar.Write: open flag that is not an os.O_* constant")
			continue
		}
		have[sel.Sel.Name] = true
	}
	known := map[string]bool{"O_WRONLY": true, "O_CREATE": true, "O_EXCL": true, "O_TRUNC": true, "O_APPEND": true, "O_RDWR": true}
	for k := range have {
		if !known[k] {
			g.fail("txtar.Write: open flag os.%s is not modelled", k)
		}
	}
	var names []string
	for _, k := range []string{"O_WRONLY", "O_RDWR", "O_CREATE", "O_EXCL", "O_TRUNC", "O_APPEND"} {
		if have[k] {
			names = append(names, "os."+k)
		}
	}
	fmt.Fprintf(&g.buf, "(* txtar.Write: os.OpenFile flags %s *)\n", strings.Join(names, "|"))
	fmt.Fprintf(&g.buf, "Definition write_open_wronly : bool := %s.\n", coqBool(have["O_WRONLY"] || have["O_RDWR"]))
	fmt.Fprintf(&g.buf, "Definition write_open_create : bool := %s.\n", coqBool(have["O_CREATE"]))
	fmt.Fprintf(&g.buf, "Definition write_open_excl : bool := %s.\n", coqBool(have["O_EXCL"]))
	fmt.Fprintf(&g.buf, "Definition write_open_trunc : bool := %s.\n", coqBool(have["O_TRUNC"]))
	fmt.Fprintf(&g.buf, "Definition write_open_append : bool := %s.\n\n", coqBool(have["O_APPEND"]))
	if v, ok := g.constVal("txtar", openCall.Args[2]); ok {
		fmt.Fprintf(&g.buf, "(* permission bits passed to os.OpenFile *)\nDefinition write_file_perm : N := (%s)%%N.\n\n", v.ExactString())
	} else {
		g.fail("txtar.Write: OpenFile permission is not a constant")
	}
	if mkdirCall == nil || len(mkdirCall.Args) != 2 {
		g.fail("txtar.Write: no os.MkdirAll(dir, perm) call")
		return
	}
	if twCallName(mkdirCall.Args[0]) != "filepath.Dir" {
		g.fail("txtar.Write: MkdirAll is not applied to filepath.Dir(path)")
	}
	if v, ok := g.constVal("txtar", mkdirCall.Args[1]); ok {
		fmt.Fprintf(&g.buf, "(* permission bits passed to os.MkdirAll *)\nDefinition write_dir_perm : N := (%s)%%N.\n\n", v.ExactString())
	} else {
		g.fail("txtar.Write: MkdirAll permission is not a constant")
	}

	// ---- cmd/txtar-c
	mainFn := g.funcDecl("cmd/txtar-c", "main")
	if mainFn == nil || mainFn.Body == nil {
		return
	}
	dotPrefix, dotOK := "", false
	unqPre, unqSuf, unqOK := "", "", false
	ast.Inspect(mainFn.Body, func(n ast.Node) bool {
		switch s := n.(type) {
		case *ast.IfStmt:
			// if strings.HasPrefix(name, ".") && !*allFlag { if info.IsDir() { return filepath.SkipDir }; return nil }
			ds := twFlatten(s.Cond, token.LAND)
			if len(ds) == 2 && twCallName(ds[0]) == "strings.HasPrefix" {
				if u, ok := ds[1].(*ast.UnaryExpr); ok && u.Op == token.NOT {
					if st, ok := u.X.(*ast.StarExpr); ok && twIdent(st.X) == "allFlag" {
						a := ds[0].(*ast.CallExpr).Args
						if len(a) == 2 {
							if p, ok := twStr(a[1]); ok {
								dotPrefix, dotOK = p, true
							}
						}
					}
				}
			}
		case *ast.BinaryExpr:
			// "unquote " + filename + "\n"
			if s.Op == token.ADD {
				parts := twFlatten(s, token.ADD)
				if len(parts) == 3 && twIdent(parts[1]) == "filename" {
					a, ok1 := twStr(parts[0])
					b, ok2 := twStr(parts[2])
					if ok1 && ok2 {
						unqPre, unqSuf, unqOK = a, b, true
					}
				}
			}
		}
		return true
	})
	if !dotOK {
		g.fail("cmd/txtar-c: no `strings.HasPrefix(name, <lit>) && !*allFlag` test any more")
	} else {
		g.emitBytesLit("savedir_dot_prefix", "cmd/txtar-c: entries whose name has this prefix are skipped unless -a", dotPrefix)
	}
	if !unqOK {
		g.fail("cmd/txtar-c: no `<lit> + filename + <lit>` comment line any more")
	} else {
		g.emitBytesLit("savedir_unquote_prefix", "cmd/txtar-c: comment line for a quoted file, text before the file name", unqPre)
		g.emitBytesLit("savedir_unquote_suffix", "cmd/txtar-c: comment line for a quoted file, text after the file name", unqSuf)
	}
}

func exprText(e ast.Expr) string {
	switch e := e.(type) {
	case *ast.BasicLit:
		return e.Value
	case *ast.Ident:
		return e.Name
	case *ast.ParenExpr:
		return "(" + exprText(e.X) + ")"
	case *ast.BinaryExpr:
		return exprText(e.X) + " " + e.Op.String() + " " + exprText(e.Y)
	case *ast.UnaryExpr:
		return e.Op.String() + exprText(e.X)
	case *ast.StarExpr:
		return "*" + exprText(e.X)
	case *ast.SelectorExpr:
		return exprText(e.X) + "." + e.Sel.Name
	case *ast.CallExpr:
		var as []string
		for _, a := range e.Args {
			as = append(as, exprText(a))
		}
		return exprText(e.Fun) + "(" + strings.Join(as, ", ") + ")"
	}
	return "?"
}

package main

// Group TxtarWrite (property C15): what the theorems about txtar.Write and the
// txtar-c / txtar-x commands depend on, re-read from the AST on every run:
//   - the rejection guard of Write (isAbs disjunct, exact-match strings, prefix strings)
//   - that the tested path is filepath.Clean(filepath.FromSlash(f.Name))
//   - the flags and permission bits of the os.OpenFile call, the MkdirAll permission
//   - txtar-c: the dot-file prefix tested with strings.HasPrefix(name, ".") && !*allFlag
//     and the "unquote " + filename + "\n" comment line.
// string(filepath.Separator) is evaluated for Unix ("/"): the model is the Unix model.

import (
	"fmt"
	"go/ast"
	"go/token"
	"strconv"
	"strings"
)

func init() {
	groups["TxtarWrite"] = genTxtarWrite
}

// twStr evaluates string expressions made of literals, +, []byte(..)/string(..)
// conversions and filepath.Separator.
func twStr(e ast.Expr) (string, bool) {
	switch e := e.(type) {
	case *ast.BasicLit:
		if e.Kind == token.STRING {
			s, err := strconv.Unquote(e.Value)
			return s, err == nil
		}
		if e.Kind == token.CHAR {
			s, err := strconv.Unquote(e.Value)
			return s, err == nil
		}
	case *ast.SelectorExpr:
		if x, ok := e.X.(*ast.Ident); ok && x.Name == "filepath" && e.Sel.Name == "Separator" {
			return "/", true
		}
	case *ast.CallExpr:
		if len(e.Args) == 1 {
			return twStr(e.Args[0])
		}
	case *ast.ParenExpr:
		return twStr(e.X)
	case *ast.BinaryExpr:
		if e.Op == token.ADD {
			a, ok1 := twStr(e.X)
			b, ok2 := twStr(e.Y)
			return a + b, ok1 && ok2
		}
	}
	return "", false
}

func twFlatten(e ast.Expr, op token.Token) []ast.Expr {
	switch x := e.(type) {
	case *ast.ParenExpr:
		return twFlatten(x.X, op)
	case *ast.BinaryExpr:
		if x.Op == op {
			return append(twFlatten(x.X, op), twFlatten(x.Y, op)...)
		}
	}
	return []ast.Expr{e}
}

func twCallName(e ast.Expr) string {
	c, ok := e.(*ast.CallExpr)
	if !ok {
		return ""
	}
	switch f := c.Fun.(type) {
	case *ast.Ident:
		return f.Name
	case *ast.SelectorExpr:
		if x, ok := f.X.(*ast.Ident); ok {
			return x.Name + "." + f.Sel.Name
		}
	}
	return ""
}

func twIdent(e ast.Expr) string {
	if id, ok := e.(*ast.Ident); ok {
		return id.Name
	}
	return ""
}

func coqBool(b bool) string {
	if b {
		return "true"
	}
	return "false"
}

func genTxtarWrite(g *gen) {
	fd := g.funcDecl("txtar", "Write")
	if fd == nil || fd.Body == nil {
		return
	}
	// ---- the guard
	var guard *ast.IfStmt
	var cleanedVar string
	cleans := false
	var openCall, mkdirCall *ast.CallExpr
	nOpen, nMkdir, nOtherOS := 0, 0, 0
	ast.Inspect(fd.Body, func(n ast.Node) bool {
		switch s := n.(type) {
		case *ast.IfStmt:
			if guard == nil {
				for _, d := range twFlatten(s.Cond, token.LOR) {
					if twCallName(d) == "isAbs" {
						guard = s
					}
				}
			}
		case *ast.AssignStmt:
			// fp := filepath.Clean(filepath.FromSlash(f.Name))
			if len(s.Lhs) == 1 && len(s.Rhs) == 1 && twCallName(s.Rhs[0]) == "filepath.Clean" {
				in := s.Rhs[0].(*ast.CallExpr).Args
				if len(in) == 1 && twCallName(in[0]) == "filepath.FromSlash" {
					a := in[0].(*ast.CallExpr).Args
					if len(a) == 1 {
						if sel, ok := a[0].(*ast.SelectorExpr); ok && sel.Sel.Name == "Name" {
							cleans = true
							cleanedVar = twIdent(s.Lhs[0])
						}
					}
				}
			}
		case *ast.CallExpr:
			switch twCallName(s) {
			case "os.OpenFile":
				openCall = s
				nOpen++
			case "os.MkdirAll":
				mkdirCall = s
				nMkdir++
			default:
				if n := twCallName(s); strings.HasPrefix(n, "os.") {
					nOtherOS++
				}
			}
		}
		return true
	})
	if !cleans {
		g.fail("txtar.Write: no `x := filepath.Clean(filepath.FromSlash(f.Name))` any more")
		return
	}
	if guard == nil {
		g.fail("txtar.Write: no if-statement with an isAbs(...) disjunct (the outside-directory guard)")
		return
	}
	abs := false
	var exact, prefix []string
	for _, d := range twFlatten(guard.Cond, token.LOR) {
		switch {
		case twCallName(d) == "isAbs":
			if a := d.(*ast.CallExpr).Args; len(a) == 1 && twIdent(a[0]) == cleanedVar {
				abs = true
			} else {
				g.fail("txtar.Write guard: isAbs is not applied to the cleaned name")
			}
		case twCallName(d) == "strings.HasPrefix":
			a := d.(*ast.CallExpr).Args
			if len(a) != 2 || twIdent(a[0]) != cleanedVar {
				g.fail("txtar.Write guard: strings.HasPrefix is not applied to the cleaned name")
				continue
			}
			s, ok := twStr(a[1])
			if !ok {
				g.fail("txtar.Write guard: prefix argument is not a literal string expression")
				continue
			}
			prefix = append(prefix, s)
		default:
			be, ok := d.(*ast.BinaryExpr)
			if ok && be.Op == token.EQL {
				if twIdent(be.X) == cleanedVar {
					if s, ok := twStr(be.Y); ok {
						exact = append(exact, s)
						continue
					}
				}
				if twIdent(be.Y) == cleanedVar {
					if s, ok := twStr(be.X); ok {
						exact = append(exact, s)
						continue
					}
				}
			}
			g.fail("txtar.Write guard: disjunct of an unknown shape (not isAbs / == literal / strings.HasPrefix)")
		}
	}
	// the guard must leave the function with an error
	returns := false
	for _, st := range guard.Body.List {
		if r, ok := st.(*ast.ReturnStmt); ok && len(r.Results) == 1 && twIdent(r.Results[0]) != "nil" {
			returns = true
		}
	}
	if !returns {
		g.fail("txtar.Write guard: body does not return an error")
	}
	fmt.Fprintf(&g.buf, "(* txtar.Write: the tested path is filepath.Clean(filepath.FromSlash(f.Name)); the guard\n   `if %s { return error }` read as: isAbs disjunct, ==-literals, HasPrefix-literals\n   (string(filepath.Separator) evaluated for Unix) *)\n", strings.ReplaceAll(exprText(guard.Cond), "*)", "* )"))
	fmt.Fprintf(&g.buf, "Definition write_guard_abs : bool := %s.\n\n", coqBool(abs))
	g.emitBytesList("write_guard_exact", fmt.Sprintf("cleaned names rejected by equality: %q", exact), exact)
	g.emitBytesList("write_guard_prefix", fmt.Sprintf("cleaned names rejected by prefix: %q", prefix), prefix)

	// ---- os.OpenFile(fp, flags, perm): the model has exactly one open per entry, one
	// MkdirAll, and no other file-system call of package os
	if nOpen != 1 || nMkdir != 1 || nOtherOS != 0 {
		g.fail("txtar.Write: %d os.OpenFile, %d os.MkdirAll and %d other os.* calls; the model has exactly one OpenFile and one MkdirAll per entry", nOpen, nMkdir, nOtherOS)
		return
	}
	if openCall == nil || len(openCall.Args) != 3 {
		g.fail("txtar.Write: no os.OpenFile(path, flags, perm) call")
		return
	}
	have := map[string]bool{}
	for _, fl := range twFlatten(openCall.Args[1], token.OR) {
		sel, ok := fl.(*ast.SelectorExpr)
		if !ok || twIdent(sel.X) != "os" {
			g.fail("txtar.Write: open flag that is not an os.O_* constant")
			continue
		}
		have[sel.Sel.Name] = true
	}
	known := map[string]bool{"O_WRONLY": true, "O_CREATE": true, "O_EXCL": true, "O_TRUNC": true, "O_APPEND": true, "O_RDWR": true}
	for k := range have {
		if !known[k] {
			g.fail("txtar.Write: open flag os.%s is not modelled", k)
		}
	}
	var names []string
	for _, k := range []string{"O_WRONLY", "O_RDWR", "O_CREATE", "O_EXCL", "O_TRUNC", "O_APPEND"} {
		if have[k] {
			names = append(names, "os."+k)
		}
	}
	fmt.Fprintf(&g.buf, "(* txtar.Write: os.OpenFile flags %s *)\n", strings.Join(names, "|"))
	fmt.Fprintf(&g.buf, "Definition write_open_wronly : bool := %s.\n", coqBool(have["O_WRONLY"] || have["O_RDWR"]))
	fmt.Fprintf(&g.buf, "Definition write_open_create : bool := %s.\n", coqBool(have["O_CREATE"]))
	fmt.Fprintf(&g.buf, "Definition write_open_excl : bool := %s.\n", coqBool(have["O_EXCL"]))
	fmt.Fprintf(&g.buf, "Definition write_open_trunc : bool := %s.\n", coqBool(have["O_TRUNC"]))
	fmt.Fprintf(&g.buf, "Definition write_open_append : bool := %s.\n\n", coqBool(have["O_APPEND"]))
	if v, ok := g.constVal("txtar", openCall.Args[2]); ok {
		fmt.Fprintf(&g.buf, "(* permission bits passed to os.OpenFile *)\nDefinition write_file_perm : N := (%s)%%N.\n\n", v.ExactString())
	} else {
		g.fail("txtar.Write: OpenFile permission is not a constant")
	}
	if mkdirCall == nil || len(mkdirCall.Args) != 2 {
		g.fail("txtar.Write: no os.MkdirAll(dir, perm) call")
		return
	}
	if twCallName(mkdirCall.Args[0]) != "filepath.Dir" {
		g.fail("txtar.Write: MkdirAll is not applied to filepath.Dir(path)")
	}
	if v, ok := g.constVal("txtar", mkdirCall.Args[1]); ok {
		fmt.Fprintf(&g.buf, "(* permission bits passed to os.MkdirAll *)\nDefinition write_dir_perm : N := (%s)%%N.\n\n", v.ExactString())
	} else {
		g.fail("txtar.Write: MkdirAll permission is not a constant")
	}

	// ---- the descriptor discipline of the loop body
	genWriteShape(g, fd)

	// ---- cmd/txtar-x and the flags of the two commands
	genTxtarX(g)
	genCmdFlags(g)

	// ---- cmd/txtar-c
	mainFn := g.funcDecl("cmd/txtar-c", "main")
	if mainFn == nil || mainFn.Body == nil {
		return
	}
	dotPrefix, dotOK := "", false
	unqPre, unqSuf, unqOK := "", "", false
	ast.Inspect(mainFn.Body, func(n ast.Node) bool {
		switch s := n.(type) {
		case *ast.IfStmt:
			// if strings.HasPrefix(name, ".") && !*allFlag { if info.IsDir() { return filepath.SkipDir }; return nil }
			ds := twFlatten(s.Cond, token.LAND)
			if len(ds) == 2 && twCallName(ds[0]) == "strings.HasPrefix" {
				if u, ok := ds[1].(*ast.UnaryExpr); ok && u.Op == token.NOT {
					if st, ok := u.X.(*ast.StarExpr); ok && twIdent(st.X) == "allFlag" {
						a := ds[0].(*ast.CallExpr).Args
						if len(a) == 2 {
							if p, ok := twStr(a[1]); ok {
								dotPrefix, dotOK = p, true
							}
						}
					}
				}
			}
		case *ast.BinaryExpr:
			// "unquote " + filename + "\n"
			if s.Op == token.ADD {
				parts := twFlatten(s, token.ADD)
				if len(parts) == 3 && twIdent(parts[1]) == "filename" {
					a, ok1 := twStr(parts[0])
					b, ok2 := twStr(parts[2])
					if ok1 && ok2 {
						unqPre, unqSuf, unqOK = a, b, true
					}
				}
			}
		}
		return true
	})
	if !dotOK {
		g.fail("cmd/txtar-c: no `strings.HasPrefix(name, <lit>) && !*allFlag` test any more")
	} else {
		g.emitBytesLit("savedir_dot_prefix", "cmd/txtar-c: entries whose name has this prefix are skipped unless -a", dotPrefix)
	}
	if !unqOK {
		g.fail("cmd/txtar-c: no `<lit> + filename + <lit>` comment line any more")
	} else {
		g.emitBytesLit("savedir_unquote_prefix", "cmd/txtar-c: comment line for a quoted file, text before the file name", unqPre)
		g.emitBytesLit("savedir_unquote_suffix", "cmd/txtar-c: comment line for a quoted file, text after the file name", unqSuf)
	}
}

// twContainsCall reports whether n contains the call recv.method(...).
func twContainsCall(n ast.Node, recv, method string) (found *ast.CallExpr) {
	ast.Inspect(n, func(x ast.Node) bool {
		if c, ok := x.(*ast.CallExpr); ok && found == nil {
			if sel, ok := c.Fun.(*ast.SelectorExpr); ok && twIdent(sel.X) == recv && sel.Sel.Name == method {
				found = c
			}
		}
		return found == nil
	})
	return
}

func twContainsReturn(n ast.Node) bool {
	found := false
	ast.Inspect(n, func(x ast.Node) bool {
		if _, ok := x.(*ast.ReturnStmt); ok {
			found = true
		}
		if _, ok := x.(*ast.FuncLit); ok {
			return false
		}
		return !found
	})
	return found
}

// genWriteShape reads how the loop body of txtar.Write treats the descriptor it opens:
//
//	write_close_deferred       the Close call sits in a defer statement (it then runs when
//	                           Write returns, not at the end of the iteration)
//	write_close_before_return  no return statement lies between the Write call and the Close
//	                           call (a failed write still closes the file)
//	write_close_error_returned the error of Close is returned
//
// and checks that the data written is the entry's Data, in one Write call.
func genWriteShape(g *gen, fd *ast.FuncDecl) {
	var loop *ast.RangeStmt
	ast.Inspect(fd.Body, func(n ast.Node) bool {
		if r, ok := n.(*ast.RangeStmt); ok && loop == nil {
			loop = r
		}
		return loop == nil
	})
	if loop == nil {
		g.fail("txtar.Write: no range loop over the files any more")
		return
	}
	body := loop.Body.List
	outVar := ""
	iOpen, iWrite, iClose := -1, -1, -1
	for i, st := range body {
		if as, ok := st.(*ast.AssignStmt); ok && len(as.Rhs) == 1 && twCallName(as.Rhs[0]) == "os.OpenFile" && len(as.Lhs) >= 1 {
			outVar, iOpen = twIdent(as.Lhs[0]), i
		}
	}
	if iOpen < 0 || outVar == "" || outVar == "_" {
		g.fail("txtar.Write: the result of os.OpenFile is not assigned to a variable in the loop body")
		return
	}
	deferred := false
	nWrite, nClose := 0, 0
	for i, st := range body {
		if i <= iOpen {
			continue
		}
		if c := twContainsCall(st, outVar, "Write"); c != nil {
			nWrite++
			if iWrite < 0 {
				iWrite = i
			}
			ok := false
			if len(c.Args) == 1 {
				if sel, isSel := c.Args[0].(*ast.SelectorExpr); isSel && sel.Sel.Name == "Data" {
					ok = true
				}
			}
			if !ok {
				g.fail("txtar.Write: the argument of %s.Write is not the entry's Data", outVar)
			}
		}
		if c := twContainsCall(st, outVar, "Close"); c != nil {
			nClose++
			if iClose < 0 {
				iClose = i
			}
			if _, isDefer := st.(*ast.DeferStmt); isDefer {
				deferred = true
			}
		}
	}
	if nWrite != 1 {
		g.fail("txtar.Write: %d statements call %s.Write; the model has exactly one write of the whole data", nWrite, outVar)
		return
	}
	if nClose != 1 {
		g.fail("txtar.Write: %d statements call %s.Close; the model has exactly one close per opened file", nClose, outVar)
		return
	}
	// is some other method of the file used (Sync, Truncate, ...)?  Not modelled.
	for i, st := range body {
		if i <= iOpen {
			continue
		}
		ast.Inspect(st, func(x ast.Node) bool {
			if c, ok := x.(*ast.CallExpr); ok {
				if sel, ok := c.Fun.(*ast.SelectorExpr); ok && twIdent(sel.X) == outVar && sel.Sel.Name != "Write" && sel.Sel.Name != "Close" {
					g.fail("txtar.Write: %s.%s is not modelled", outVar, sel.Sel.Name)
				}
			}
			return true
		})
	}
	beforeReturn := true
	if !deferred {
		if iClose < iWrite {
			g.fail("txtar.Write: the file is closed before it is written")
			return
		}
		for i := iWrite; i < iClose; i++ {
			if twContainsReturn(body[i]) {
				beforeReturn = false
			}
		}
		// a Close inside a conditional does not close on every path
		switch body[iClose].(type) {
		case *ast.AssignStmt, *ast.ExprStmt:
		case *ast.IfStmt:
			ifs := body[iClose].(*ast.IfStmt)
			if ifs.Init == nil || twContainsCall(ifs.Init, outVar, "Close") == nil {
				g.fail("txtar.Write: %s.Close is called conditionally", outVar)
			}
		case *ast.ReturnStmt:
		default:
			g.fail("txtar.Write: %s.Close is called in a statement of an unknown shape", outVar)
		}
	}
	// is the error of Close returned?
	cerrReturned := false
	if !deferred {
		switch st := body[iClose].(type) {
		case *ast.ReturnStmt:
			cerrReturned = true
		case *ast.IfStmt:
			cerrReturned = twContainsReturn(st.Body)
		case *ast.AssignStmt:
			if len(st.Lhs) == 1 {
				v := twIdent(st.Lhs[0])
				for i := iClose + 1; i < len(body); i++ {
					ast.Inspect(body[i], func(x ast.Node) bool {
						if r, ok := x.(*ast.ReturnStmt); ok && len(r.Results) == 1 && twIdent(r.Results[0]) == v && v != "_" && v != "" {
							cerrReturned = true
						}
						return true
					})
				}
			}
		}
	}
	fmt.Fprintf(&g.buf, "(* txtar.Write, the descriptor opened for an entry: `%s.Close()` is %s *)\n", outVar,
		map[bool]string{true: "DEFERRED to the return of Write", false: "called in the iteration that opened it"}[deferred])
	fmt.Fprintf(&g.buf, "Definition write_close_deferred : bool := %s.\n\n", coqBool(deferred))
	fmt.Fprintf(&g.buf, "(* no return statement between the Write call and the Close call *)\nDefinition write_close_before_return : bool := %s.\n\n", coqBool(beforeReturn))
	fmt.Fprintf(&g.buf, "(* the error of Close is returned by Write *)\nDefinition write_close_error_returned : bool := %s.\n\n", coqBool(cerrReturned))
}

// genTxtarX reads how cmd/txtar-x obtains the archive: from standard input through
// io.ReadAll(os.Stdin) (extract_stdin_limit = None) or through io.ReadAll(io.LimitReader(
// os.Stdin, n)) (Some n), parsed by txtar.Parse; or from the file named by the argument
// through txtar.ParseFile, which must be os.ReadFile + Parse.
func genTxtarX(g *gen) {
	mainFn := g.funcDecl("cmd/txtar-x", "main")
	if mainFn == nil || mainFn.Body == nil {
		g.fail("cmd/txtar-x: no main function")
		return
	}
	var readAll *ast.CallExpr
	dataVar := ""
	nReadAll := 0
	parseOfData, parseFileArg0, writeCall := false, false, false
	ast.Inspect(mainFn.Body, func(n ast.Node) bool {
		switch s := n.(type) {
		case *ast.AssignStmt:
			if len(s.Rhs) == 1 && twCallName(s.Rhs[0]) == "io.ReadAll" && len(s.Lhs) >= 1 {
				readAll = s.Rhs[0].(*ast.CallExpr)
				dataVar = twIdent(s.Lhs[0])
				nReadAll++
			}
		case *ast.CallExpr:
			switch twCallName(s) {
			case "txtar.Parse":
				if len(s.Args) == 1 && dataVar != "" && twIdent(s.Args[0]) == dataVar {
					parseOfData = true
				} else {
					g.fail("cmd/txtar-x: txtar.Parse is not applied to the bytes read from standard input as they are")
				}
			case "txtar.ParseFile":
				if len(s.Args) == 1 && twCallName(s.Args[0]) == "flag.Arg" {
					if a := s.Args[0].(*ast.CallExpr).Args; len(a) == 1 {
						if l, ok := a[0].(*ast.BasicLit); ok && l.Value == "0" {
							parseFileArg0 = true
						}
					}
				}
			case "txtar.Write":
				if len(s.Args) == 2 {
					if st, ok := s.Args[1].(*ast.StarExpr); ok && twIdent(st.X) == "extractDir" {
						writeCall = true
					}
				}
			}
		}
		return true
	})
	if nReadAll != 1 || readAll == nil || len(readAll.Args) != 1 {
		g.fail("cmd/txtar-x: standard input is not read by exactly one io.ReadAll call")
		return
	}
	limit := "None"
	limitText := "io.ReadAll(os.Stdin): everything"
	arg := readAll.Args[0]
	isStdin := func(e ast.Expr) bool {
		sel, ok := e.(*ast.SelectorExpr)
		return ok && twIdent(sel.X) == "os" && sel.Sel.Name == "Stdin"
	}
	switch {
	case isStdin(arg):
	case twCallName(arg) == "io.LimitReader":
		a := arg.(*ast.CallExpr).Args
		if len(a) != 2 || !isStdin(a[0]) {
			g.fail("cmd/txtar-x: io.LimitReader is not applied to os.Stdin")
			return
		}
		v, ok := g.constVal("cmd/txtar-x", a[1])
		if !ok {
			g.fail("cmd/txtar-x: the limit of io.LimitReader is not a constant")
			return
		}
		limit = fmt.Sprintf("(Some (%s)%%N)", v.ExactString())
		limitText = "io.ReadAll(io.LimitReader(os.Stdin, " + v.ExactString() + ")): at most that many bytes"
	default:
		g.fail("cmd/txtar-x: io.ReadAll is applied to something other than os.Stdin or io.LimitReader(os.Stdin, n)")
		return
	}
	if !parseOfData {
		g.fail("cmd/txtar-x: no txtar.Parse(<bytes read from standard input>) call")
	}
	if !parseFileArg0 {
		g.fail("cmd/txtar-x: no txtar.ParseFile(flag.Arg(0)) call")
	}
	if !writeCall {
		g.fail("cmd/txtar-x: no txtar.Write(a, *extractDir) call")
	}
	fmt.Fprintf(&g.buf, "(* cmd/txtar-x reads standard input with %s *)\nDefinition extract_stdin_limit : option N := %s.\n\n", limitText, limit)

	// txtar.ParseFile = os.ReadFile + Parse
	pf := g.funcDecl("txtar", "ParseFile")
	whole := false
	if pf != nil && pf.Body != nil && pf.Type.Params != nil && len(pf.Type.Params.List) == 1 && len(pf.Type.Params.List[0].Names) == 1 {
		param := pf.Type.Params.List[0].Names[0].Name
		v := ""
		nOS := 0
		ast.Inspect(pf.Body, func(n ast.Node) bool {
			switch s := n.(type) {
			case *ast.AssignStmt:
				if len(s.Rhs) == 1 && twCallName(s.Rhs[0]) == "os.ReadFile" {
					if a := s.Rhs[0].(*ast.CallExpr).Args; len(a) == 1 && twIdent(a[0]) == param && len(s.Lhs) >= 1 {
						v = twIdent(s.Lhs[0])
					}
				}
			case *ast.CallExpr:
				if strings.HasPrefix(twCallName(s), "os.") || strings.HasPrefix(twCallName(s), "io.") {
					nOS++
				}
				if twCallName(s) == "Parse" && len(s.Args) == 1 && v != "" && twIdent(s.Args[0]) == v {
					whole = true
				}
			}
			return true
		})
		if nOS != 1 {
			whole = false
		}
	}
	if !whole {
		g.fail("txtar.ParseFile is no longer `data, err := os.ReadFile(file); ...; Parse(data)`")
	}
	fmt.Fprintf(&g.buf, "(* txtar.ParseFile(file) is Parse of everything os.ReadFile(file) returns *)\nDefinition parsefile_reads_whole : bool := %s.\n\n", coqBool(whole))

	// flag.NArg() tests of main: `> n` -> usage; `== 0` -> standard input
	maxArgs, stdinWhen := int64(-1), int64(-1)
	ast.Inspect(mainFn.Body, func(n ast.Node) bool {
		ifs, ok := n.(*ast.IfStmt)
		if !ok {
			return true
		}
		be, ok := ifs.Cond.(*ast.BinaryExpr)
		if !ok || twCallName(be.X) != "flag.NArg" {
			return true
		}
		lit, ok := be.Y.(*ast.BasicLit)
		if !ok {
			return true
		}
		v, _ := strconv.ParseInt(lit.Value, 10, 64)
		callsUsage := false
		ast.Inspect(ifs.Body, func(x ast.Node) bool {
			if twCallName2(x) == "usage" {
				callsUsage = true
			}
			return true
		})
		switch {
		case be.Op == token.GTR && callsUsage:
			maxArgs = v
		case be.Op == token.EQL && !callsUsage && twContainsCallName(ifs.Body, "io.ReadAll"):
			stdinWhen = v
		}
		return true
	})
	if maxArgs < 0 || stdinWhen != 0 {
		g.fail("cmd/txtar-x: main no longer has `if flag.NArg() > n { usage() }` and `if flag.NArg() == 0 { ...io.ReadAll... }`")
		return
	}
	g.emitZLitN("extract_max_args", "cmd/txtar-x: more positional arguments than this is a usage error; none means standard input", maxArgs)
}

func twCallName2(n ast.Node) string {
	if e, ok := n.(ast.Expr); ok {
		return twCallName(e)
	}
	return ""
}

func twContainsCallName(n ast.Node, name string) bool {
	found := false
	ast.Inspect(n, func(x ast.Node) bool {
		if twCallName2(x) == name {
			found = true
		}
		return !found
	})
	return found
}

func (g *gen) emitZLitN(coqName, comment string, v int64) {
	fmt.Fprintf(&g.buf, "(* %s *)\nDefinition %s : N := (%d)%%N.\n\n", comment, coqName, v)
}

// genCmdFlags reads the flag definitions of the two commands (package-level
// `x = flag.String(name, default, ...)` / `flag.Bool(name, false, ...)`) and the
// positional-argument test of txtar-c.
func genCmdFlags(g *gen) {
	type fl struct {
		kind, name, def string
	}
	find := func(dir, varName string) (fl, bool) {
		e := g.valueExpr(dir, varName)
		c, ok := e.(*ast.CallExpr)
		if !ok || len(c.Args) < 2 {
			return fl{}, false
		}
		name, ok1 := twStr(c.Args[0])
		switch twCallName(c) {
		case "flag.String":
			def, ok2 := twStr(c.Args[1])
			return fl{"string", name, def}, ok1 && ok2
		case "flag.Bool":
			if twIdent(c.Args[1]) != "false" {
				return fl{}, false
			}
			return fl{"bool", name, "false"}, ok1
		}
		return fl{}, false
	}
	if f, ok := find("cmd/txtar-x", "extractDir"); ok && f.kind == "string" {
		g.emitBytesLit("extract_dir_flag", "cmd/txtar-x: name of the string flag that gives the directory", f.name)
		g.emitBytesLit("extract_dir_default", "cmd/txtar-x: its default", f.def)
	} else {
		g.fail("cmd/txtar-x: no `extractDir = flag.String(<name>, <default>, ...)` any more")
	}
	if f, ok := find("cmd/txtar-c", "quoteFlag"); ok && f.kind == "bool" {
		g.emitBytesLit("savedir_quote_flag", "cmd/txtar-c: name of the boolean flag (default false) that switches quoting on", f.name)
	} else {
		g.fail("cmd/txtar-c: no `quoteFlag = flag.Bool(<name>, false, ...)` any more")
	}
	if f, ok := find("cmd/txtar-c", "allFlag"); ok && f.kind == "bool" {
		g.emitBytesLit("savedir_all_flag", "cmd/txtar-c: name of the boolean flag (default false) that includes dot files", f.name)
	} else {
		g.fail("cmd/txtar-c: no `allFlag = flag.Bool(<name>, false, ...)` any more")
	}
	mainFn := g.funcDecl("cmd/txtar-c", "main")
	nargs := int64(-1)
	if mainFn != nil && mainFn.Body != nil {
		ast.Inspect(mainFn.Body, func(n ast.Node) bool {
			if ifs, ok := n.(*ast.IfStmt); ok {
				if be, ok := ifs.Cond.(*ast.BinaryExpr); ok && be.Op == token.NEQ && twCallName(be.X) == "flag.NArg" {
					if lit, ok := be.Y.(*ast.BasicLit); ok && twContainsCallName(ifs.Body, "usage") {
						nargs, _ = strconv.ParseInt(lit.Value, 10, 64)
					}
				}
			}
			return true
		})
	}
	if nargs < 0 {
		g.fail("cmd/txtar-c: main no longer has `if flag.NArg() != n { usage() }`")
		return
	}
	g.emitZLitN("savedir_nargs", "cmd/txtar-c: exactly this many positional arguments (the directory)", nargs)
}

func exprText(e ast.Expr) string {
	switch e := e.(type) {
	case *ast.BasicLit:
		return e.Value
	case *ast.Ident:
		return e.Name
	case *ast.ParenExpr:
		return "(" + exprText(e.X) + ")"
	case *ast.BinaryExpr:
		return exprText(e.X) + " " + e.Op.String() + " " + exprText(e.Y)
	case *ast.UnaryExpr:
		return e.Op.String() + exprText(e.X)
	case *ast.StarExpr:
		return "*" + exprText(e.X)
	case *ast.SelectorExpr:
		return exprText(e.X) + "." + e.Sel.Name
	case *ast.CallExpr:
		var as []string
		for _, a := range e.Args {
			as = append(as, exprText(a))
		}
		return exprText(e.Fun) + "(" + strings.Join(as, ", ") + ")"
	}
	return "?"
}

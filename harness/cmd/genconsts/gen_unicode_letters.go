package main

import (
	"fmt"
	"runtime"
	"strings"
	"unicode"
)

// Group UnicodeLetters: the range tables behind unicode.IsLetter and unicode.IsDigit, taken
// from the standard library this program is compiled with (the same toolchain compiles the
// runner and /repo's code), as (lo, hi, stride) triples of R16 then R32.  Lib/GoSemUnicode.v
// defines the denotation of the two calls as membership in these tables; that membership in
// the dumped table IS the library's answer is checked here for every code point (and the
// values just outside the rune range) before anything is written.
func init() {
	groups["UnicodeLetters"] = func(g *gen) {
		dump := func(name string, tab *unicode.RangeTable, lib func(rune) bool) {
			type rng struct{ lo, hi, stride int64 }
			var rs []rng
			for _, x := range tab.R16 {
				rs = append(rs, rng{int64(x.Lo), int64(x.Hi), int64(x.Stride)})
			}
			for _, x := range tab.R32 {
				rs = append(rs, rng{int64(x.Lo), int64(x.Hi), int64(x.Stride)})
			}
			member := func(r int64) bool {
				for _, x := range rs {
					if x.lo <= r && r <= x.hi && (r-x.lo)%x.stride == 0 {
						return true
					}
				}
				return false
			}
			if len(rs) == 0 {
				g.fail("unicode table %s is empty", name)
				return
			}
			for r := int64(0); r <= unicode.MaxRune+2; r++ {
				if member(r) != lib(rune(r)) {
					g.fail("unicode.%s: the dumped range table and the library function disagree on U+%04X", name, r)
					return
				}
			}
			var parts []string
			for _, x := range rs {
				parts = append(parts, fmt.Sprintf("(%d, %d, %d)", x.lo, x.hi, x.stride))
			}
			fmt.Fprintf(&g.buf, "(* unicode.%s: (lo, hi, stride) of R16 then R32, %s; membership = the library function on every code point (checked by the generator) *)\nDefinition %s_ranges : list (N * N * N) :=\n  [%s]%%N.\n\n",
				name, runtime.Version(), strings.ToLower(name), strings.Join(parts, ";\n   "))
		}
		dump("Letter", unicode.Letter, unicode.IsLetter)
		dump("Digit", unicode.Digit, unicode.IsDigit)
	}
}

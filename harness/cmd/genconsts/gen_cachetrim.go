package main

// Group "CacheTrim": every literal of cache/cache.go that the C13 model (used, Trim,
// trimSubdir) and its theorems depend on, re-read from the AST on every run.
//
//	mtime_interval, trim_interval, trim_limit   the three constants, in ns
//	used_threshold      C in `err == nil && c.now().Sub(info.ModTime()) < C`              (used)
//	window_upper/lower  A, B in `d := now.Sub(lastTrim); d < A && d > B`                  (Trim)
//	cutoff_offset       D in `cutoff := now.Add(D)`                                       (Trim)
//	trim_subdir_count   N in `for i := range N` of Trim;  open_subdir_count: same in Open
//	trim_file_name      the one string literal joined to c.dir in Trim (read and written)
//	parse_base/bits     BASE, BITS in strconv.ParseInt(strings.TrimSpace(string(data)), BASE, BITS)      (Trim)
//	                    (also checked: lastTrim := time.Unix(t, 0) with t the parsed value, and the
//	                    record written as fmt.Fprintf(&b, "%d", now.Unix()))
//	trim_suffixes       the literals of the strings.HasSuffix(name, LIT) tests of trimSubdir,
//	                    which must have the shape `!HasSuffix(..) && !HasSuffix(..) {continue}`
//	index_suffix        SEP+KEY with SEP from fileName's `...+"-"+key` and KEY from get's fileName(id, "a")
//	data_suffix         same with KEY from OutputFile's fileName(out, "d")
//	put_index_key / put_data_key   the keys putIndexEntry and copyFile use (must be the same ones)
//
// The comparison operators and the shape of the tests are checked here as well (a `<`
// that became `<=` is reported as MISSING, since the model writes the strict test).

import (
	"fmt"
	"go/ast"
	"go/token"
	"strconv"
	"strings"
)

func init() {
	groups["CacheTrim"] = genCacheTrim
}

// isSel reports whether e is the selector X.Sel with X an identifier named x ("" = any).
func isSel(e ast.Expr, x, sel string) bool {
	s, ok := e.(*ast.SelectorExpr)
	if !ok || s.Sel.Name != sel {
		return false
	}
	if x == "" {
		return true
	}
	id, ok := s.X.(*ast.Ident)
	return ok && id.Name == x
}

func strLit(e ast.Expr) (string, bool) {
	l, ok := e.(*ast.BasicLit)
	if !ok || l.Kind != token.STRING {
		return "", false
	}
	s, err := strconv.Unquote(l.Value)
	return s, err == nil
}

// methodCallOn: e is a call <anything>.name(args) and returns its args.
func methodCall(e ast.Expr, name string) ([]ast.Expr, ast.Expr, bool) {
	c, ok := e.(*ast.CallExpr)
	if !ok {
		return nil, nil, false
	}
	s, ok := c.Fun.(*ast.SelectorExpr)
	if !ok || s.Sel.Name != name {
		return nil, nil, false
	}
	return c.Args, s.X, true
}

func (g *gen) emitZExpr(coqName, comment, dir string, e ast.Expr) {
	v, ok := g.constVal(dir, e)
	if !ok {
		g.fail("%s: %s is not a constant expression any more", dir, comment)
		return
	}
	fmt.Fprintf(&g.buf, "(* %s: %s *)\nDefinition %s : Z := (%s)%%Z.\n\n", comment, exprString(g.fset, e), coqName, v.ExactString())
}

// fileNameKeys returns the string literals passed as second argument to <recv>.fileName
// anywhere in the body of fn.
func fileNameKeys(fn *ast.FuncDecl) []string {
	var keys []string
	ast.Inspect(fn.Body, func(n ast.Node) bool {
		if args, _, ok := methodCall(asExpr(n), "fileName"); ok && len(args) == 2 {
			if s, ok := strLit(args[1]); ok {
				keys = append(keys, s)
			} else {
				keys = append(keys, "\x00non-literal")
			}
		}
		return true
	})
	return keys
}

func asExpr(n ast.Node) ast.Expr {
	if e, ok := n.(ast.Expr); ok {
		return e
	}
	return nil
}

func allSame(xs []string) bool {
	for _, x := range xs {
		if x != xs[0] {
			return false
		}
	}
	return len(xs) > 0
}

func genCacheTrim(g *gen) {
	const dir = "cache"
	g.emitZ("mtime_interval", dir, "mtimeInterval")
	g.emitZ("trim_interval", dir, "trimInterval")
	g.emitZ("trim_limit", dir, "trimLimit")

	// ---- used: if err == nil && c.now().Sub(info.ModTime()) < C { return }; os.Chtimes(file, c.now(), c.now())
	if fn := g.funcDecl(dir, "Cache.used"); fn != nil && fn.Body != nil {
		found, chtimes := false, false
		for _, st := range fn.Body.List {
			switch st := st.(type) {
			case *ast.IfStmt:
				and, ok := st.Cond.(*ast.BinaryExpr)
				if !ok || and.Op != token.LAND || st.Else != nil || st.Init != nil {
					continue
				}
				l, ok1 := and.X.(*ast.BinaryExpr)
				r, ok2 := and.Y.(*ast.BinaryExpr)
				if !ok1 || !ok2 || l.Op != token.EQL || r.Op != token.LSS {
					continue
				}
				if id, ok := l.Y.(*ast.Ident); !ok || id.Name != "nil" {
					continue
				}
				args, recv, ok := methodCall(r.X, "Sub")
				if !ok || len(args) != 1 {
					continue
				}
				if _, _, ok := methodCall(recv, "now"); !ok {
					continue
				}
				if _, _, ok := methodCall(args[0], "ModTime"); !ok {
					continue
				}
				if len(st.Body.List) != 1 {
					continue
				}
				if ret, ok := st.Body.List[0].(*ast.ReturnStmt); !ok || len(ret.Results) != 0 {
					continue
				}
				g.emitZExpr("used_threshold", "used: refresh unless now.Sub(mtime) <", dir, r.Y)
				found = true
			case *ast.ExprStmt:
				if c, ok := st.X.(*ast.CallExpr); ok && isSel(c.Fun, "os", "Chtimes") && len(c.Args) == 3 {
					_, _, ok1 := methodCall(c.Args[1], "now")
					_, _, ok2 := methodCall(c.Args[2], "now")
					chtimes = found && ok1 && ok2
				}
			}
		}
		if !found {
			g.fail("cache: used no longer has the test `err == nil && c.now().Sub(info.ModTime()) < C { return }`")
		} else if !chtimes {
			g.fail("cache: used no longer ends in os.Chtimes(file, c.now(), c.now())")
		}
	}

	// ---- Trim
	if fn := g.funcDecl(dir, "Cache.Trim"); fn != nil && fn.Body != nil {
		var window, cutoff, rng bool
		names := map[string]int{}
		ast.Inspect(fn.Body, func(n ast.Node) bool {
			switch n := n.(type) {
			case *ast.IfStmt:
				// if d := now.Sub(lastTrim); d < A && d > B { return nil }
				as, ok := n.Init.(*ast.AssignStmt)
				if !ok || len(as.Lhs) != 1 || len(as.Rhs) != 1 {
					return true
				}
				dv, ok := as.Lhs[0].(*ast.Ident)
				if !ok {
					return true
				}
				if _, _, ok := methodCall(as.Rhs[0], "Sub"); !ok {
					return true
				}
				and, ok := n.Cond.(*ast.BinaryExpr)
				if !ok || and.Op != token.LAND {
					g.fail("cache: Trim's window test is no longer `d < A && d > B`")
					return true
				}
				l, ok1 := and.X.(*ast.BinaryExpr)
				r, ok2 := and.Y.(*ast.BinaryExpr)
				if !ok1 || !ok2 || l.Op != token.LSS || r.Op != token.GTR {
					g.fail("cache: Trim's window test is no longer `d < A && d > B` (operators changed)")
					return true
				}
				lx, ok1 := l.X.(*ast.Ident)
				rx, ok2 := r.X.(*ast.Ident)
				if !ok1 || !ok2 || lx.Name != dv.Name || rx.Name != dv.Name {
					g.fail("cache: Trim's window test no longer compares the duration on the left of both tests")
					return true
				}
				if len(n.Body.List) != 1 {
					g.fail("cache: Trim's window test no longer just returns")
					return true
				}
				if _, ok := n.Body.List[0].(*ast.ReturnStmt); !ok {
					g.fail("cache: Trim's window test no longer just returns")
					return true
				}
				g.emitZExpr("window_upper", "Trim: skip when d <", dir, l.Y)
				g.emitZExpr("window_lower", "Trim: skip when d >", dir, r.Y)
				window = true
			case *ast.AssignStmt:
				// cutoff := now.Add(D)
				if len(n.Lhs) == 1 && len(n.Rhs) == 1 {
					if id, ok := n.Lhs[0].(*ast.Ident); ok && id.Name == "cutoff" {
						if args, _, ok := methodCall(n.Rhs[0], "Add"); ok && len(args) == 1 {
							g.emitZExpr("cutoff_offset", "Trim: cutoff := now.Add", dir, args[0])
							cutoff = true
						}
					}
				}
			case *ast.RangeStmt:
				if lit, ok := n.X.(*ast.BasicLit); ok && lit.Kind == token.INT {
					g.emitZExpr("trim_subdir_count", "Trim: for i := range", dir, n.X)
					rng = true
				}
			case *ast.CallExpr:
				if isSel(n.Fun, "filepath", "Join") && len(n.Args) == 2 && isSel(n.Args[0], "", "dir") {
					if s, ok := strLit(n.Args[1]); ok {
						names[s]++
					}
				}
			}
			return true
		})
		// strconv.ParseInt(strings.TrimSpace(string(data)), 10, 64); time.Unix(t, 0); Fprintf(&b, "%d", now.Unix())
		parse, unix, record := false, false, false
		parsed := ""
		ast.Inspect(fn.Body, func(n ast.Node) bool {
			switch n := n.(type) {
			case *ast.IfStmt:
				if as, ok := n.Init.(*ast.AssignStmt); ok && len(as.Lhs) == 2 && len(as.Rhs) == 1 {
					if c, ok := as.Rhs[0].(*ast.CallExpr); ok && isSel(c.Fun, "strconv", "ParseInt") && len(c.Args) == 3 {
						if ts, ok := c.Args[0].(*ast.CallExpr); ok && isSel(ts.Fun, "strings", "TrimSpace") && len(ts.Args) == 1 {
							if conv, ok := ts.Args[0].(*ast.CallExpr); ok && len(conv.Args) == 1 {
								if f, ok := conv.Fun.(*ast.Ident); ok && f.Name == "string" {
									if id, ok := as.Lhs[0].(*ast.Ident); ok {
										if cond, ok := n.Cond.(*ast.BinaryExpr); ok && cond.Op == token.EQL {
											if y, ok := cond.Y.(*ast.Ident); ok && y.Name == "nil" {
												parsed = id.Name
												g.emitZExpr("parse_base", "Trim: ParseInt base", dir, c.Args[1])
												g.emitZExpr("parse_bits", "Trim: ParseInt bit size", dir, c.Args[2])
												parse = true
											}
										}
									}
								}
							}
						}
					}
				}
			case *ast.AssignStmt:
				if len(n.Lhs) == 1 && len(n.Rhs) == 1 {
					if c, ok := n.Rhs[0].(*ast.CallExpr); ok && isSel(c.Fun, "time", "Unix") && len(c.Args) == 2 {
						a0, ok0 := c.Args[0].(*ast.Ident)
						a1, ok1 := c.Args[1].(*ast.BasicLit)
						if ok0 && ok1 && a0.Name == parsed && parsed != "" && a1.Value == "0" {
							unix = true
						}
					}
				}
			case *ast.CallExpr:
				if isSel(n.Fun, "fmt", "Fprintf") && len(n.Args) == 3 {
					if s, ok := strLit(n.Args[1]); ok && s == "%d" {
						if _, recv, ok := methodCall(n.Args[2], "Unix"); ok {
							if id, ok := recv.(*ast.Ident); ok && id.Name == "now" {
								record = true
							}
						}
					}
				}
			}
			return true
		})
		if !parse {
			g.fail("cache: Trim no longer reads the record with `t, err := strconv.ParseInt(strings.TrimSpace(string(data)), BASE, BITS); err == nil`")
		}
		if !unix {
			g.fail("cache: Trim no longer has `lastTrim := time.Unix(t, 0)` with t the parsed record")
		}
		if !record {
			g.fail("cache: Trim no longer writes the record as fmt.Fprintf(&b, \"%%d\", now.Unix())")
		}
		if !window {
			g.fail("cache: Trim no longer has `if d := now.Sub(lastTrim); d < A && d > B { return nil }`")
		}
		if !cutoff {
			g.fail("cache: Trim no longer has `cutoff := now.Add(D)`")
		}
		if !rng {
			g.fail("cache: Trim no longer loops `for i := range <literal>`")
		}
		if len(names) != 1 {
			g.fail("cache: Trim no longer reads and writes one file filepath.Join(c.dir, <literal>) (found %d names)", len(names))
		} else {
			for s, n := range names {
				if n != 2 {
					g.fail("cache: Trim mentions %q %d times (expected: read once, written once)", s, n)
				}
				g.emitBytesLit("trim_file_name", "Trim: filepath.Join(c.dir, ...)", s)
			}
		}
	}

	// ---- Open: for i := range N
	if fn := g.funcDecl(dir, "Open"); fn != nil && fn.Body != nil {
		ok := false
		ast.Inspect(fn.Body, func(n ast.Node) bool {
			if r, isR := n.(*ast.RangeStmt); isR {
				if lit, isL := r.X.(*ast.BasicLit); isL && lit.Kind == token.INT {
					g.emitZExpr("open_subdir_count", "Open: for i := range", dir, r.X)
					ok = true
				}
			}
			return true
		})
		if !ok {
			g.fail("cache: Open no longer loops `for i := range <literal>`")
		}
	}

	// ---- trimSubdir: if !strings.HasSuffix(name, S1) && !strings.HasSuffix(name, S2) { continue }
	//      ... if err == nil && info.ModTime().Before(cutoff) { os.Remove(entry) }
	if fn := g.funcDecl(dir, "Cache.trimSubdir"); fn != nil && fn.Body != nil {
		var sufs []string
		shape, before := false, false
		ast.Inspect(fn.Body, func(n ast.Node) bool {
			ifs, ok := n.(*ast.IfStmt)
			if !ok {
				return true
			}
			// collect the conjuncts
			var conj []ast.Expr
			var flat func(e ast.Expr)
			flat = func(e ast.Expr) {
				if b, ok := e.(*ast.BinaryExpr); ok && b.Op == token.LAND {
					flat(b.X)
					flat(b.Y)
					return
				}
				conj = append(conj, e)
			}
			flat(ifs.Cond)
			isSuffixTest := true
			var here []string
			for _, c := range conj {
				u, ok := c.(*ast.UnaryExpr)
				if !ok || u.Op != token.NOT {
					isSuffixTest = false
					break
				}
				call, ok := u.X.(*ast.CallExpr)
				if !ok || !isSel(call.Fun, "strings", "HasSuffix") || len(call.Args) != 2 {
					isSuffixTest = false
					break
				}
				s, ok := strLit(call.Args[1])
				if !ok {
					isSuffixTest = false
					break
				}
				here = append(here, s)
			}
			if isSuffixTest && len(here) > 0 {
				if len(ifs.Body.List) == 1 {
					if b, ok := ifs.Body.List[0].(*ast.BranchStmt); ok && b.Tok == token.CONTINUE {
						shape = true
						sufs = here
					}
				}
				return true
			}
			// err == nil && info.ModTime().Before(cutoff) { os.Remove(entry) }
			if len(conj) == 2 {
				l, ok1 := conj[0].(*ast.BinaryExpr)
				args, recv, ok2 := methodCall(conj[1], "Before")
				if ok1 && ok2 && l.Op == token.EQL && len(args) == 1 {
					_, _, ok3 := methodCall(recv, "ModTime")
					id, ok4 := args[0].(*ast.Ident)
					if ok3 && ok4 && id.Name == "cutoff" && len(ifs.Body.List) == 1 {
						if es, ok := ifs.Body.List[0].(*ast.ExprStmt); ok {
							if c, ok := es.X.(*ast.CallExpr); ok && isSel(c.Fun, "os", "Remove") {
								before = true
							}
						}
					}
				}
			}
			return true
		})
		nHas := 0
		ast.Inspect(fn.Body, func(n ast.Node) bool {
			if c, ok := n.(*ast.CallExpr); ok && isSel(c.Fun, "strings", "HasSuffix") {
				nHas++
			}
			return true
		})
		if !shape || nHas != len(sufs) {
			g.fail("cache: trimSubdir no longer skips exactly the names with `!strings.HasSuffix(name, LIT) && ... { continue }`")
		} else {
			g.emitBytesList("trim_suffixes", "trimSubdir: names that are candidates end in one of", sufs)
		}
		if !before {
			g.fail("cache: trimSubdir no longer removes with `err == nil && info.ModTime().Before(cutoff) { os.Remove(entry) }`")
		}
	}

	// ---- fileName: ... fmt.Sprintf("%x", id)+SEP+key ; keys used by get / OutputFile / putIndexEntry / copyFile
	sep, haveSep := "", false
	if fn := g.funcDecl(dir, "Cache.fileName"); fn != nil && fn.Body != nil {
		ast.Inspect(fn.Body, func(n ast.Node) bool {
			b, ok := n.(*ast.BinaryExpr)
			if !ok || b.Op != token.ADD {
				return true
			}
			if id, ok := b.Y.(*ast.Ident); ok && id.Name == "key" {
				if inner, ok := b.X.(*ast.BinaryExpr); ok && inner.Op == token.ADD {
					if s, ok := strLit(inner.Y); ok {
						sep, haveSep = s, true
					}
				}
			}
			return true
		})
		if !haveSep {
			g.fail("cache: fileName no longer builds the name as <hex> + LIT + key")
		}
	}
	key := func(fnName string) (string, bool) {
		fn := g.funcDecl(dir, fnName)
		if fn == nil || fn.Body == nil {
			return "", false
		}
		ks := fileNameKeys(fn)
		if !allSame(ks) || strings.HasPrefix(ks[0], "\x00") {
			g.fail("cache: %s no longer calls fileName with one literal key (found %q)", fnName, ks)
			return "", false
		}
		return ks[0], true
	}
	if haveSep {
		ik, ok1 := key("Cache.get")
		dk, ok2 := key("Cache.OutputFile")
		pik, ok3 := key("Cache.putIndexEntry")
		pdk, ok4 := key("Cache.copyFile")
		if ok1 && ok2 && ok3 && ok4 {
			g.emitBytesLit("index_suffix", "fileName separator + the key get uses", sep+ik)
			g.emitBytesLit("data_suffix", "fileName separator + the key OutputFile uses", sep+dk)
			g.emitBytesLit("put_index_suffix", "fileName separator + the key putIndexEntry uses", sep+pik)
			g.emitBytesLit("put_data_suffix", "fileName separator + the key copyFile uses", sep+pdk)
		}
	}
}

package main

// Archives and trees of realistic size: thousands of entries, deep trees, names at
// NAME_MAX, paths near PATH_MAX, files of several MiB, tens of MiB in total.  They are
// described by a small generator record (so that a replay file stays small) and expanded
// deterministically.

import (
	"bytes"
	"fmt"
	"os"
	"path/filepath"
	"strings"

	"github.com/rogpeppe/go-internal/txtar"

	"verif/harness/common"
)

type bigSpec struct {
	Kind    string `json:"kind"`    // label only
	N       int    `json:"n"`       // number of entries
	Depth   int    `json:"depth"`   // directories above each file
	Fan     int    `json:"fan"`     // distinct directory names per level
	NameLen int    `json:"namelen"` // every path element is padded to this length (0: short names)
	DataLen int    `json:"datalen"` // bytes per entry (0: a short line; some entries empty)
	Marker  bool   `json:"marker"`  // every 7th file contains a marker look-alike line (needs -quote)
	NoNL    bool   `json:"nonl"`    // every 5th file lacks the final newline
}

func pad(s string, n int) string {
	if len(s) >= n {
		return s
	}
	return s + strings.Repeat("x", n-len(s))
}

func (b *bigSpec) path(i int) string {
	fan := b.Fan
	if fan <= 0 {
		fan = 1
	}
	// the directory chains share their upper part and branch near the files
	segs := make([]string, b.Depth+1)
	k := i
	for j := b.Depth - 1; j >= 0; j-- {
		segs[j] = pad(fmt.Sprintf("d%d_%d", j, k%fan), b.NameLen)
		k /= fan
	}
	segs[b.Depth] = pad(fmt.Sprintf("f%d", i), b.NameLen)
	return strings.Join(segs, "/")
}

func (b *bigSpec) data(i int) []byte {
	if b.DataLen == 0 {
		if i%11 == 3 {
			return []byte{}
		}
		return []byte(fmt.Sprintf("data of entry %d\n", i))
	}
	var buf bytes.Buffer
	buf.Grow(b.DataLen + 64)
	if b.Marker && i%7 == 2 {
		fmt.Fprintf(&buf, "-- inner%d --\n", i)
	}
	for l := 0; buf.Len() < b.DataLen; l++ {
		fmt.Fprintf(&buf, "entry %d line %d: the quick brown fox jumps over the lazy dog é%%s\n", i, l)
	}
	d := buf.Bytes()[:b.DataLen]
	// keep it valid UTF-8 and decide the last byte
	for len(d) > 0 && d[len(d)-1] >= 0x80 {
		d = d[:len(d)-1]
	}
	if len(d) > 0 {
		if b.NoNL && i%5 == 1 {
			d[len(d)-1] = '.'
		} else {
			d[len(d)-1] = '\n'
		}
	}
	return d
}

func (b *bigSpec) entries() []entry {
	es := make([]entry, 0, b.N)
	for i := 0; i < b.N; i++ {
		es = append(es, entry{Name: b.path(i), Data: b.data(i)})
	}
	return es
}

func (b *bigSpec) tfiles() []tfile {
	fs := make([]tfile, 0, b.N)
	for i := 0; i < b.N; i++ {
		fs = append(fs, tfile{Path: b.path(i), Data: b.data(i)})
	}
	return fs
}

func (b *bigSpec) total() int {
	t := 0
	for i := 0; i < b.N; i++ {
		t += len(b.data(i))
	}
	return t
}

func (b bigSpec) String() string {
	return fmt.Sprintf("%s: %d entries, %d directory levels (fan %d), elements padded to %d bytes, %d data bytes each", b.Kind, b.N, b.Depth, b.Fan, b.NameLen, b.DataLen)
}

// genBig draws one spec.  scale 1 = quick tier.
func genBig(r *common.RNG, kind int, scale int) bigSpec {
	switch kind % 6 {
	case 0: // thousands of small entries in one directory
		return bigSpec{Kind: "many-flat", N: (1500 + r.Intn(1500)) * scale}
	case 1: // thousands of entries over a few hundred directories
		return bigSpec{Kind: "many-dirs", N: (1200 + r.Intn(800)) * scale, Depth: 2 + r.Intn(2), Fan: 5 + r.Intn(6)}
	case 2: // deep trees
		return bigSpec{Kind: "deep", N: 150 + r.Intn(200), Depth: 40 + r.Intn(60), Fan: 2}
	case 3: // names at NAME_MAX, paths near PATH_MAX
		return bigSpec{Kind: "long-names", N: 100 + r.Intn(150), Depth: 8 + r.Intn(5), Fan: 2, NameLen: 255}
	case 4: // big data: files of several MiB
		return bigSpec{Kind: "big-data", N: 2 + r.Intn(2)*scale, Depth: 1, Fan: 2, DataLen: (5+r.Intn(3)*scale)<<19 + r.Intn(4096), Marker: true, NoNL: true}
	default: // many medium files
		return bigSpec{Kind: "medium-data", N: (120 + r.Intn(60)) * scale, Depth: 2, Fan: 4, DataLen: 40000 + r.Intn(30000), Marker: true, NoNL: true}
	}
}

// ------------------------------------------------------------------ txtar.Write on big archives

// bigWriteCase: Write of a valid archive (distinct relative names) into an empty
// directory, in a child process whose soft RLIMIT_NOFILE leaves room for `slack`
// descriptors (slack < 0: no limit), or under an RLIMIT_FSIZE of fsize bytes.
type bwcase struct {
	Spec  bigSpec `json:"spec"`
	Slack int     `json:"nofile_slack"`
	FSize int64   `json:"fsize"`
}

type bwresult struct {
	child  childResult
	before map[string]obj
	after  map[string]obj
	err    error
}

func runBigWrite(work string, c bwcase) bwresult {
	caseSeq++
	root := filepath.Join(work, fmt.Sprintf("b%d", caseSeq))
	defer os.RemoveAll(root)
	setupScenario(root, 0)
	var r bwresult
	r.before = snapshot(root)
	r.child, r.err = runWriteChild(childJob{Dir: root + "/" + targetRel, Big: &c.Spec, NoFileSlack: c.Slack, FSize: c.FSize})
	r.after = snapshot(root)
	return r
}

// bigWriteOracles: the property on a valid archive, and the descriptor budget.
func bigWriteOracles(c bwcase, r bwresult) []string {
	var bad []string
	es := c.Spec.entries()
	wr := wresult{res: r.child.Res, before: r.before, after: r.after}
	bad = append(bad, writeOracles(wcase{Entries: es}, wr)...)
	if c.FSize <= 0 && r.child.Res != "ok" {
		// a valid archive into an empty directory: nothing justifies an error, and with
		// the descriptor limit in force an error means Write needed more than O(1) of them
		if c.Slack >= 0 {
			bad = append(bad, "write/fd-budget")
		} else {
			bad = append(bad, "write/valid-archive-fails")
		}
	}
	if r.child.FdAfter != r.child.FdBefore {
		bad = append(bad, "write/fd-baseline")
	}
	return bad
}

func (rn *runner) bigWriteCase(c bwcase, tag string) {
	res := rn.res
	r := runBigWrite(rn.f.Work, c)
	if r.err != nil {
		res.Notes = appendNote(res.Notes, "big write: child process could not be run: "+r.err.Error())
		return
	}
	res.Case("bw:"+mustJSON(c), true)
	res.Count("bigwrite:src:" + tag)
	res.Count("bigwrite:kind:" + c.Spec.Kind)
	res.Count("bigwrite:result:" + r.child.Res)
	if c.Slack >= 0 {
		res.Count("bigwrite:under-nofile-limit")
	}
	if c.FSize > 0 {
		res.Count("bigwrite:under-fsize-limit")
	}
	failed := bigWriteOracles(c, r)
	for _, o := range failed {
		res.Count("oracle-fails:" + o)
		// shrink the number of entries while the same oracle fails
		cc := c
		for cc.Spec.N > 1 {
			c2 := cc
			c2.Spec.N = cc.Spec.N / 2
			r2 := runBigWrite(rn.f.Work, c2)
			if r2.err != nil || !contains(bigWriteOracles(c2, r2), o) {
				break
			}
			cc = c2
		}
		for cc.Spec.N > 1 {
			c2 := cc
			c2.Spec.N = cc.Spec.N - 1 - cc.Spec.N/10
			if c2.Spec.N < 1 {
				break
			}
			r2 := runBigWrite(rn.f.Work, c2)
			if r2.err != nil || !contains(bigWriteOracles(c2, r2), o) {
				break
			}
			cc = c2
		}
		r2 := runBigWrite(rn.f.Work, cc)
		in := map[string]string{"kind": "bigwrite", "case_json": mustJSON(cc), "archive": cc.Spec.String(),
			"first_names": fmt.Sprintf("%.300q", firstNames(cc.Spec.entries(), 4)),
			"limits":      fmt.Sprintf("soft RLIMIT_NOFILE = highest open descriptor + 1 + %d (= %d); RLIMIT_FSIZE = %d", cc.Slack, r2.child.Limit, cc.FSize)}
		res.Violate(common.Violation{Kind: "impl-violation", Oracle: o, Input: in,
			Impl: fmt.Sprintf("result=%s (%s); %d of %d files present afterwards; descriptors before/after the call: %d/%d",
				r2.child.Res, r2.child.Err, countFiles(r2.after)-countFiles(r2.before), cc.Spec.N, r2.child.FdBefore, r2.child.FdAfter),
			Key:    o + ":big:" + cc.Spec.Kind,
			Detail: "txtar.Write of a valid archive (distinct relative names) into the empty directory parent/target, in a child process with lowered resource limits: every entry must be written (C15: on success each file holds exactly the entry's data, for archives of any size) with O(1) descriptors"})
	}
}

func firstNames(es []entry, n int) []string {
	var out []string
	for i := 0; i < len(es) && i < n; i++ {
		out = append(out, es[i].Name)
	}
	return out
}

func countFiles(m map[string]obj) int {
	n := 0
	for _, o := range m {
		if !o.dir {
			n++
		}
	}
	return n
}

func contains(l []string, s string) bool {
	for _, x := range l {
		if x == s {
			return true
		}
	}
	return false
}

func appendNote(notes []string, n string) []string {
	for _, o := range notes {
		if o == n {
			return notes
		}
	}
	if len(notes) > 30 {
		return notes
	}
	return append(notes, n)
}

// ------------------------------------------------------------------ descriptor traces (inotify)

// tcase: entries written into parent/target, which holds the (empty) directories Pre;
// every entry lies directly in the target or in one of Pre, so that every file Write
// creates is in a watched directory.
type tcase struct {
	Pre     []string `json:"pre"`
	Entries []entry  `json:"entries"`
	ViaX    bool     `json:"via_txtar_x"` // through the txtar-x command instead of an in-process call
}

type tresult struct {
	res      string
	before   map[string]obj
	after    map[string]obj
	tr       fdTrace
	fdBefore int
	fdAfter  int
	ok       bool
	note     string
}

func runTrace(work string, c tcase) tresult {
	caseSeq++
	root := filepath.Join(work, fmt.Sprintf("t%d", caseSeq))
	defer os.RemoveAll(root)
	setupScenario(root, 0)
	target := filepath.Join(root, targetRel)
	for _, d := range c.Pre {
		os.MkdirAll(filepath.Join(target, d), 0o777)
	}
	var r tresult
	r.before = snapshot(root)
	w, err := newWatch(target, c.Pre)
	if err != nil {
		r.note = "inotify unavailable: " + err.Error()
		return r
	}
	defer w.close()
	w.drain()
	if c.ViaX {
		a := &txtar.Archive{}
		for _, e := range c.Entries {
			a.Files = append(a.Files, txtar.File{Name: e.Name, Data: e.Data})
		}
		_, rc := runCmd(root, txtar.Format(a), binX, "-C", target)
		r.res = "ok"
		if rc != 0 {
			r.res = "fail"
		}
	} else {
		a := &txtar.Archive{}
		for _, e := range c.Entries {
			a.Files = append(a.Files, txtar.File{Name: e.Name, Data: e.Data})
		}
		var werr error
		r.fdBefore, r.fdAfter = withFdProbe(func() { werr = txtar.Write(a, target) })
		r.res = classify(werr)
	}
	evs := w.drain()
	if w.over {
		r.note = "inotify queue overflow"
		return r
	}
	r.tr = traceOf(evs)
	r.after = snapshot(root)
	r.ok = true
	return r
}

func traceOracles(c tcase, r tresult) []string {
	var bad []string
	if !c.ViaX {
		bad = append(bad, writeOracles(wcase{Entries: c.Entries}, wresult{res: r.res, before: r.before, after: r.after})...)
		if r.fdBefore != r.fdAfter {
			bad = append(bad, "write/fd-baseline")
		}
	}
	if r.tr.maxOpen > 1 || r.tr.endOpen != 0 {
		bad = append(bad, "write/fd-bounded")
	}
	return bad
}

func (rn *runner) traceCase(c tcase, tag string) {
	res := rn.res
	r := runTrace(rn.f.Work, c)
	if !r.ok {
		res.Notes = appendNote(res.Notes, "descriptor trace not taken: "+r.note)
		return
	}
	res.Case("t:"+mustJSON(c), true)
	res.Count("trace:src:" + tag)
	res.Count("trace:result:" + r.res)
	res.Count(fmt.Sprintf("trace:max-open=%d", r.tr.maxOpen))
	if c.ViaX {
		res.Count("trace:via-txtar-x")
	}
	for _, o := range traceOracles(c, r) {
		res.Count("oracle-fails:" + o)
		cc := c
		cc.Entries = common.ShrinkList(c.Entries, func(es []entry) bool {
			c2 := c
			c2.Entries = es
			r2 := runTrace(rn.f.Work, c2)
			return r2.ok && contains(traceOracles(c2, r2), o)
		})
		r2 := runTrace(rn.f.Work, cc)
		in := entriesInput(cc.Entries)
		in["kind"] = "trace"
		in["case_json"] = mustJSON(cc)
		res.Violate(common.Violation{Kind: "impl-violation", Oracle: o, Input: in,
			Impl: fmt.Sprintf("result=%s; open/close events on the created files, in kernel order: %q; most files open at once: %d; still open at return: %d; descriptors of the process before/after: %d/%d",
				r2.res, r2.tr.seq, r2.tr.maxOpen, r2.tr.endOpen, r2.fdBefore, r2.fdAfter),
			Key:    o + ":trace:" + fmt.Sprint(c.ViaX),
			Detail: "txtar.Write into parent/target with the directories " + fmt.Sprintf("%q", cc.Pre) + " present and watched with inotify: Write must hold at most one output file open at any time and none when it returns (otherwise a valid archive with more entries than RLIMIT_NOFILE cannot be extracted)"})
	}
	if !c.ViaX {
		rn.traceCompare(c, r)
	}
}

func genTraceCase(r *common.RNG, maxN int) tcase {
	var c tcase
	for i, n := 0, r.Intn(4); i < n; i++ {
		c.Pre = append(c.Pre, fmt.Sprintf("p%d", i))
	}
	n := 2 + r.Intn(maxN-1)
	for i := 0; i < n; i++ {
		name := fmt.Sprintf("f%d", i)
		if len(c.Pre) > 0 && r.Chance(1, 2) {
			name = common.Pick(r, c.Pre) + "/" + name
		}
		if r.Chance(1, 6) {
			name = "./" + name
		}
		var data []byte
		switch r.Intn(5) {
		case 0:
			data = []byte{}
		case 1:
			data = bytes.Repeat([]byte("0123456789abcdef\n"), 1+r.Intn(60))
			if r.Chance(1, 25) {
				data = bytes.Repeat(data, 40)
			}
		default:
			data = []byte(fmt.Sprintf("data %d\n", i))
		}
		c.Entries = append(c.Entries, entry{Name: name, Data: data})
	}
	// every third case ends an archive early with an entry that fails
	if r.Chance(1, 3) {
		k := r.Intn(len(c.Entries) + 1)
		var bad entry
		switch r.Intn(5) {
		case 0:
			bad = entry{Name: "../escape", Data: []byte("E")}
		case 1:
			bad = entry{Name: "/abs", Data: []byte("E")}
		case 2:
			if k > 0 {
				bad = entry{Name: c.Entries[r.Intn(k)].Name, Data: []byte("again")}
			} else {
				bad = entry{Name: ".", Data: []byte("E")}
			}
		case 3:
			if k > 0 {
				bad = entry{Name: c.Entries[r.Intn(k)].Name + "/below", Data: []byte("E")}
			} else {
				bad = entry{Name: "..", Data: []byte("E")}
			}
		default:
			if len(c.Pre) > 0 {
				bad = entry{Name: c.Pre[0], Data: []byte("E")}
			} else {
				bad = entry{Name: "", Data: []byte("E")}
			}
		}
		c.Entries = append(c.Entries[:k], append([]entry{bad}, c.Entries[k:]...)...)
	}
	return c
}

// ------------------------------------------------------------------ comparison with the model's write_f

// writefReq: Write of entries into parent/target over the state `before`, with faults
// (entry index -> kind), through the model with descriptors and failing system calls.
func writefReq(before map[string]obj, entries []entry, faults []string) string {
	parts := []string{"writef", common.Hex([]byte(modelRoot)), common.Hex([]byte(modelRoot + "/" + targetRel)), fsReq(before), fmt.Sprint(len(entries))}
	for _, e := range entries {
		parts = append(parts, common.Hex([]byte(e.Name)), common.Hex(e.Data))
	}
	parts = append(parts, fmt.Sprint(len(faults)/2))
	parts = append(parts, faults...)
	return strings.Join(parts, " ")
}

// splitWritef separates "<res> <fs> T <m> <ev>*" into the state part and the open/close
// events relative to the target ("O rel" / "C rel").
func splitWritef(ans string) (state string, seq []string) {
	i := strings.Index(ans, " T ")
	if i < 0 {
		return ans, nil
	}
	state = ans[:i]
	f := strings.Fields(ans[i+3:])
	pre := modelRoot + "/" + targetRel + "/"
	for _, e := range f[1:] {
		p := strings.SplitN(e, ":", 3)
		if len(p) < 2 || p[0] == "W" {
			continue
		}
		seq = append(seq, p[0]+" "+strings.TrimPrefix(string(common.UnHex(p[1])), pre))
	}
	return
}

func (rn *runner) traceCompare(c tcase, r tresult) {
	ans := rn.m.Ask1(writefReq(r.before, c.Entries, nil))
	state, seq := splitWritef(ans)
	got := r.res + " " + fsAns(r.after)
	in := entriesInput(c.Entries)
	in["kind"] = "trace"
	in["case_json"] = mustJSON(c)
	if state != got {
		rn.res.Count("mismatch:writef")
		rn.res.Violate(common.Violation{Kind: "correspondence", Oracle: "writef", Input: in, Model: state, Impl: got,
			Key: "writef:" + mustJSON(c), Detail: "model write_f (no faults) and txtar.Write differ (result or resulting tree)"})
		return
	}
	if strings.Join(seq, "|") != strings.Join(r.tr.seq, "|") {
		rn.res.Count("mismatch:fd-events")
		rn.res.Violate(common.Violation{Kind: "correspondence", Oracle: "fd-events", Input: in,
			Model: fmt.Sprintf("%q", seq), Impl: fmt.Sprintf("%q", r.tr.seq),
			Key: "fd-events:" + mustJSON(c), Detail: "the order of open and close events on the files Write creates (inotify) differs from the model's event trace: the theorem about descriptors (C15_write_fd_bounded) no longer describes the code"})
	}
}

// ------------------------------------------------------------------ failing system calls

// fcase: Write of a small archive into the empty parent/target in a child process in which
// write(2) comes back short and then fails once a file reaches FSize bytes (RLIMIT_FSIZE),
// or in which no descriptor is left (OpenFault: soft RLIMIT_NOFILE = what is open).
type fcase struct {
	Entries   []entry `json:"entries"`
	FSize     int64   `json:"fsize"`
	OpenFault bool    `json:"openfault"`
}

func genFaultCase(r *common.RNG) fcase {
	var c fcase
	n := 1 + r.Intn(8)
	for i := 0; i < n; i++ {
		name := fmt.Sprintf("e%d", i)
		switch r.Intn(4) {
		case 0:
			name = fmt.Sprintf("d%d/e%d", r.Intn(2), i)
		case 1:
			name = fmt.Sprintf("d%d/s/e%d", r.Intn(2), i)
		}
		c.Entries = append(c.Entries, entry{Name: name, Data: bytes.Repeat([]byte{byte('a' + i)}, r.Intn(3000))})
	}
	if r.Chance(1, 6) {
		c.Entries = append(c.Entries, entry{Name: common.Pick(r, []string{"../x", "e0", "/abs", "d0"}), Data: []byte("late")})
	}
	if r.Chance(1, 5) {
		c.OpenFault = true
	} else {
		c.FSize = int64(1 + r.Intn(2500))
	}
	return c
}

func (rn *runner) faultCase(c fcase, tag string) {
	res := rn.res
	caseSeq++
	root := filepath.Join(rn.f.Work, fmt.Sprintf("f%d", caseSeq))
	defer os.RemoveAll(root)
	setupScenario(root, 0)
	before := snapshot(root)
	job := childJob{Dir: root + "/" + targetRel, Entries: c.Entries, NoFileSlack: -1, FSize: c.FSize}
	if c.OpenFault {
		job.NoFileSlack = 0
	}
	cr, err := runWriteChild(job)
	if err != nil {
		res.Notes = appendNote(res.Notes, "fault case: child process could not be run: "+err.Error())
		return
	}
	if cr.Note != "" {
		res.Notes = appendNote(res.Notes, "fault case: "+cr.Note)
		return
	}
	after := snapshot(root)
	res.Case("f:"+mustJSON(c), true)
	res.Count("fault:src:" + tag)
	res.Count("fault:result:" + cr.Res)
	in := entriesInput(c.Entries)
	in["kind"] = "fault"
	in["case_json"] = mustJSON(c)
	// the parts of the property that do not depend on success
	wr := wresult{res: cr.Res, before: before, after: after, fdBefore: cr.FdBefore, fdAfter: cr.FdAfter}
	for _, o := range writeOracles(wcase{Entries: c.Entries}, wr) {
		res.Count("oracle-fails:" + o)
		res.Violate(common.Violation{Kind: "impl-violation", Oracle: o, Input: in,
			Impl:   fmt.Sprintf("result=%s (%s); files afterwards: %q; descriptors before/after: %d/%d", cr.Res, cr.Err, fileSizes(after, before), cr.FdBefore, cr.FdAfter),
			Key:    o + ":fault:" + fmt.Sprint(c.OpenFault),
			Detail: fmt.Sprintf("txtar.Write into the empty parent/target in a child process with RLIMIT_FSIZE=%d (0: unlimited), no free descriptor=%v", c.FSize, c.OpenFault)})
	}
	// the model under the same faults
	var faults []string
	for i, e := range c.Entries {
		if c.OpenFault {
			faults = append(faults, fmt.Sprint(i), "open")
		} else if int64(len(e.Data)) > c.FSize {
			faults = append(faults, fmt.Sprint(i), fmt.Sprintf("short:%d", c.FSize))
		}
	}
	state, _ := splitWritef(rn.m.Ask1(writefReq(before, c.Entries, faults)))
	implRes := cr.Res
	switch implRes {
	case "write:EFBIG":
		implRes = "fault:write"
	case "open:EMFILE":
		implRes = "fault:open"
	}
	got := implRes + " " + fsAns(after)
	if state != got {
		res.Count("mismatch:writef-faults")
		res.Violate(common.Violation{Kind: "correspondence", Oracle: "writef-faults", Input: in, Model: state, Impl: got,
			Key: "writef-faults:" + mustJSON(c), Detail: "model write_f under the injected failures and txtar.Write under the resource limits differ (result or what is left on disk)"})
	}
}

func fileSizes(after, before map[string]obj) []string {
	var out []string
	for _, k := range sortedKeys(after) {
		if _, old := before[k]; !old && !after[k].dir {
			out = append(out, fmt.Sprintf("%s:%d", k, len(after[k].data)))
		}
	}
	return out
}

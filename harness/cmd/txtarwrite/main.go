// Command txtarwrite is the correspondence + oracle runner for C15:
//
//	(0) filepath.Clean / Join / Dir / IsAbs against the Coq path model,
//	(1) txtar.Write into sandbox directories with pre-existing files, against the
//	    model's write and against direct oracles (containment, no overwrite, errors
//	    for absolute / climbing names, contents, descriptor baseline),
//	(1b) symbolic links inside the target: a link in a directory component is out of
//	    scope (documented, tied to Symlink.v); a link in the last component must be
//	    refused like any existing object,
//	(1c) descriptors and failing system calls (fd.go, big.go): the open/close order of
//	    the created files observed with inotify, short writes and descriptor exhaustion
//	    provoked with resource limits in child processes, against the model's write_f;
//	    archives of thousands of entries / deep trees / long names / big data under a
//	    descriptor budget,
//	(2) the built txtar-c and txtar-x commands on generated trees (small ones against the
//	    model's txtar_c_main / txtar_x_main, big ones by the direct round-trip oracle only),
//	    through every input route of txtar-x, both kinds of standard output of txtar-c,
//	    every spelling of the flags and of the directory arguments.
package main

import (
	"bytes"
	"encoding/json"
	"errors"
	"fmt"
	"io/fs"
	"os"
	"os/exec"
	"path/filepath"
	"sort"
	"strings"
	"syscall"
	"time"
	"unicode/utf8"

	"github.com/rogpeppe/go-internal/txtar"

	"verif/harness/common"
)

// ------------------------------------------------------------------ snapshots

type obj struct {
	dir  bool
	data []byte
	mode os.FileMode // permission bits
}

// snapshot lists everything below root (root itself excluded), keyed by slash path.
func snapshot(root string) map[string]obj { return snapshotSkim(root, "") }

// snapshotSkim is snapshot, except that files below the directory skim (relative to root)
// are represented by their size and modification time instead of their contents.
func snapshotSkim(root, skim string) map[string]obj {
	m := map[string]obj{}
	filepath.Walk(root, func(p string, info os.FileInfo, err error) error {
		if err != nil || p == root {
			return nil
		}
		rel, _ := filepath.Rel(root, p)
		if info.IsDir() {
			m[rel] = obj{dir: true, mode: info.Mode().Perm()}
		} else if skim != "" && under(rel, skim) {
			m[rel] = obj{data: []byte(fmt.Sprintf("size=%d mtime=%d", info.Size(), info.ModTime().UnixNano())), mode: info.Mode().Perm()}
		} else {
			b, _ := os.ReadFile(p)
			m[rel] = obj{data: b, mode: info.Mode().Perm()}
		}
		return nil
	})
	return m
}

const modelRoot = "/r"

// fsReq renders a snapshot (plus the root) as the model's file-system argument.
func fsReq(snap map[string]obj) string {
	keys := sortedKeys(snap)
	parts := []string{fmt.Sprint(len(keys) + 1), common.Hex([]byte(modelRoot)), "D", "-"}
	for _, k := range keys {
		o := snap[k]
		if o.dir {
			parts = append(parts, common.Hex([]byte(modelRoot+"/"+k)), "D", "-")
		} else {
			parts = append(parts, common.Hex([]byte(modelRoot+"/"+k)), "F", common.Hex(o.data))
		}
	}
	return strings.Join(parts, " ")
}

// fsAns renders a snapshot the way the model driver prints a file system.
func fsAns(snap map[string]obj) string {
	type item struct {
		p string
		o obj
	}
	items := []item{{modelRoot, obj{dir: true}}}
	for k, o := range snap {
		items = append(items, item{modelRoot + "/" + k, o})
	}
	sort.Slice(items, func(i, j int) bool { return items[i].p < items[j].p })
	parts := []string{fmt.Sprint(len(items))}
	for _, it := range items {
		if it.o.dir {
			parts = append(parts, common.Hex([]byte(it.p)), "D", "-")
		} else {
			parts = append(parts, common.Hex([]byte(it.p)), "F", common.Hex(it.o.data))
		}
	}
	return strings.Join(parts, " ")
}

func sortedKeys(m map[string]obj) []string {
	var ks []string
	for k := range m {
		ks = append(ks, k)
	}
	sort.Strings(ks)
	return ks
}

// classify maps Write's error to the model's result enum without reading its text:
// a *fs.PathError gives op:errno, anything else is the "outside parent directory" refusal.
func classify(err error) string {
	if err == nil {
		return "ok"
	}
	var pe *fs.PathError
	if errors.As(err, &pe) {
		name := "OTHER"
		for _, c := range []struct {
			e syscall.Errno
			n string
		}{{syscall.EEXIST, "EEXIST"}, {syscall.ENOENT, "ENOENT"}, {syscall.ENOTDIR, "ENOTDIR"}, {syscall.EISDIR, "EISDIR"}, {syscall.EINVAL, "EINVAL"}, {syscall.ELOOP, "ELOOP"},
			{syscall.EMFILE, "EMFILE"}, {syscall.ENFILE, "ENFILE"}, {syscall.EFBIG, "EFBIG"}, {syscall.ENAMETOOLONG, "ENAMETOOLONG"}, {syscall.EACCES, "EACCES"}, {syscall.ENOSPC, "ENOSPC"}} {
			if errors.Is(pe.Err, c.e) {
				name = c.n
			}
		}
		return pe.Op + ":" + name
	}
	return "outside"
}

// ------------------------------------------------------------------ part 1: txtar.Write

type entry struct {
	Name string
	Data []byte
}

// wcase is one Write case: a scenario of pre-existing objects, a way of naming the
// target directory, and the archive entries.
type wcase struct {
	Scenario int     `json:"scenario"`
	DirForm  int     `json:"dirform"`
	Entries  []entry `json:"entries"`
}

const nScenarios = 6
const nDirForms = 8

// dirFormLink: the directory is reached through a symbolic link ABOVE it (root/plink ->
// parent); the link is not inside the target, so the property applies unchanged.  The plain
// file-system model has no links: this form is evaluated by the direct oracles only.
const dirFormLink = 7

// setup creates the scenario under root and returns what exists.  Layout:
// root/parent/target is the directory given to Write; root/parent holds siblings.
func setupScenario(root string, sc int) {
	w := func(rel, data string) {
		p := filepath.Join(root, rel)
		os.MkdirAll(filepath.Dir(p), 0o777)
		os.WriteFile(p, []byte(data), 0o666)
	}
	d := func(rel string) { os.MkdirAll(filepath.Join(root, rel), 0o777) }
	os.MkdirAll(root, 0o777)
	switch sc {
	case 0: // empty target, siblings in parent
		d("parent/target")
		w("parent/sib", "sibling")
		w("parent/sd/x", "sx")
		w("top", "top")
	case 1: // target with files, a directory, a dot file
		d("parent/target")
		w("parent/target/a", "old-a")
		w("parent/target/b/a", "old-ba")
		w("parent/target/.h", "old-h")
		w("parent/sib", "sibling")
		w("parent/a", "parent-a")
	case 2: // target missing
		d("parent")
		w("parent/sib", "sibling")
		w("parent/a", "parent-a")
	case 3: // parent missing too
		w("top", "top")
	case 4: // target is a regular file
		w("parent/target", "i am a file")
		w("parent/sib", "sibling")
	case 5: // a is a directory, b is a file
		d("parent/target/a")
		w("parent/target/b", "old-b")
		w("parent/target/a/a", "old-aa")
		w("parent/b", "parent-b")
	}
}

// existing lists, per scenario, names (relative to the target) that collide with a
// pre-existing file, directory, the target itself, or pass through a file, with the old
// contents where the object is a file.
func existing(sc int) map[string]string {
	switch sc {
	case 0:
		return map[string]string{".": ""}
	case 1:
		return map[string]string{".": "", "a": "old-a", "b": "", "b/a": "old-ba", ".h": "old-h", "a/x": "", "b/a/x": ""}
	case 2, 3:
		return map[string]string{"n": ""}
	case 4:
		return map[string]string{".": "i am a file", "x": "", "": "i am a file"}
	case 5:
		return map[string]string{".": "", "a": "", "a/a": "old-aa", "b": "old-b", "b/x": "", "a/a/x": ""}
	}
	return nil
}

// dataVariants: empty, equal to the old contents, shorter, longer, different
func dataVariants(old string) [][]byte {
	vs := [][]byte{{}, []byte(old), []byte(old + "+longer"), []byte("zz")}
	if len(old) > 1 {
		vs = append(vs, []byte(old[:len(old)/2]))
	}
	return vs
}

// dirArg returns the directory string handed to Write, the working directory to run
// in ("" = unchanged) and whether the form is usable in the scenario.
func dirArg(root string, sc, form int) (dir, cwd string, ok bool) {
	switch form {
	case 0:
		return root + "/parent/target", "", true
	case 1:
		return root + "/parent/./target/", "", true
	case 2:
		return root + "//parent/zz/../target", "", true
	case 3: // relative to the parent
		if sc == 3 {
			return "", "", false
		}
		return "target", root + "/parent", true
	case 4: // relative, through ..
		if sc == 3 {
			return "", "", false
		}
		return "../parent/./target", root + "/parent", true
	case 5: // "." from inside the target (txtar-x's default)
		if sc != 0 && sc != 1 && sc != 5 {
			return "", "", false
		}
		return ".", root + "/parent/target", true
	case 6: // relative with a trailing slash
		if sc == 3 {
			return "", "", false
		}
		return "target/", root + "/parent", true
	case dirFormLink:
		if sc == 3 {
			return "", "", false
		}
		return root + "/plink/target", "", true
	}
	return "", "", false
}

// modelDir translates the directory string into the model's name space.
func modelDir(root, dir string) string {
	if strings.HasPrefix(dir, root) {
		return modelRoot + dir[len(root):]
	}
	return dir
}

// lexical reading of "climbs out through ..", written without filepath.Clean
func climbs(name string) bool {
	depth := 0
	for _, seg := range strings.Split(name, "/") {
		switch seg {
		case "", ".":
		case "..":
			depth--
			if depth < 0 {
				return true
			}
		default:
			depth++
		}
	}
	return false
}

type wresult struct {
	res      string
	before   map[string]obj
	after    map[string]obj
	dirAbs   string
	fdBefore int // descriptors of this process before / after the call (collector off)
	fdAfter  int
}

var caseSeq int

func runWrite(work string, c wcase) (wresult, bool) {
	caseSeq++
	root := filepath.Join(work, fmt.Sprintf("w%d", caseSeq))
	defer os.RemoveAll(root)
	setupScenario(root, c.Scenario)
	dir, cwd, ok := dirArg(root, c.Scenario, c.DirForm)
	if !ok {
		return wresult{}, false
	}
	if c.DirForm == dirFormLink {
		if err := os.Symlink("parent", filepath.Join(root, "plink")); err != nil {
			return wresult{}, false
		}
	}
	before := snapshot(root)
	delete(before, "plink")
	a := &txtar.Archive{}
	for _, e := range c.Entries {
		a.Files = append(a.Files, txtar.File{Name: e.Name, Data: e.Data})
	}
	var err error
	var fdB, fdA int
	func() {
		if cwd != "" {
			old, _ := os.Getwd()
			if e := os.Chdir(cwd); e != nil {
				ok = false
				return
			}
			defer os.Chdir(old)
		}
		fdB, fdA = withFdProbe(func() { err = txtar.Write(a, dir) })
	}()
	if !ok {
		return wresult{}, false
	}
	after := snapshot(root)
	delete(after, "plink")
	return wresult{res: classify(err), before: before, after: after, dirAbs: root + "/parent/target", fdBefore: fdB, fdAfter: fdA}, true
}

func writeReq(root string, c wcase, before map[string]obj) string {
	dir, cwd, _ := dirArg(root, c.Scenario, c.DirForm)
	mcwd := modelRoot
	if cwd != "" {
		mcwd = modelDir(root, cwd)
	}
	parts := []string{"write", common.Hex([]byte(mcwd)), common.Hex([]byte(modelDir(root, dir))), fsReq(before), fmt.Sprint(len(c.Entries))}
	for _, e := range c.Entries {
		parts = append(parts, common.Hex([]byte(e.Name)), common.Hex(e.Data))
	}
	return strings.Join(parts, " ")
}

const targetRel = "parent/target"

func under(rel, dir string) bool { return rel == dir || strings.HasPrefix(rel, dir+"/") }

// writeOracles evaluates the property directly; it returns the names of the failed oracles.
func writeOracles(c wcase, r wresult) []string {
	var bad []string
	add := func(s string) {
		for _, b := range bad {
			if b == s {
				return
			}
		}
		bad = append(bad, s)
	}
	// no descriptor is left open, on success or on error
	if r.fdBefore != r.fdAfter {
		add("write/fd-baseline")
	}
	// nothing existing was changed or removed, anywhere
	for k, o := range r.before {
		n, ok := r.after[k]
		if !ok || n.dir != o.dir || !bytes.Equal(n.data, o.data) || n.mode != o.mode {
			add("write/never-overwrites")
		}
	}
	// every new object is the target directory or beneath it, except directories on
	// the way down to the target
	for k, n := range r.after {
		if _, ok := r.before[k]; ok {
			continue
		}
		if under(k, targetRel) {
			continue
		}
		if n.dir && under(targetRel, k) {
			continue
		}
		add("write/contained")
	}
	// an entry whose target existed before the call (file or directory) must be an error
	if r.res == "ok" {
		for _, e := range c.Entries {
			if strings.HasPrefix(e.Name, "/") || climbs(e.Name) {
				continue
			}
			if _, existed := r.before[filepath.Join(targetRel, e.Name)]; existed {
				add("write/existing-is-error")
			}
		}
	}
	// an absolute or climbing name stops Write with an error at that entry: whatever is new
	// afterwards is the file of an EARLIER entry or a directory above one
	for j, e := range c.Entries {
		if !(strings.HasPrefix(e.Name, "/") || climbs(e.Name)) {
			continue
		}
		if r.res == "ok" {
			add("write/rejects")
		}
		explained := map[string]bool{}
		for _, p := range c.Entries[:j] {
			for t := filepath.Join(targetRel, p.Name); t != "." && t != "/"; t = filepath.Dir(t) {
				explained[t] = true
			}
		}
		for t := targetRel; t != "." && t != "/"; t = filepath.Dir(t) {
			if j > 0 {
				explained[t] = true
			}
		}
		for k := range r.after {
			if _, old := r.before[k]; !old && !explained[k] {
				add("write/rejects")
			}
		}
		break
	}
	// on success each file holds exactly the entry's data
	if r.res == "ok" {
		for _, e := range c.Entries {
			rel := filepath.Join(targetRel, e.Name)
			if strings.HasPrefix(e.Name, "/") || climbs(e.Name) {
				continue
			}
			o, ok := r.after[rel]
			if !ok || o.dir || !bytes.Equal(o.data, e.Data) {
				add("write/contents")
			}
		}
	}
	return bad
}

// ------------------------------------------------------------------ part 2: txtar-c / txtar-x

type tfile struct {
	Path string
	Data []byte
}

type ccase struct {
	Files   []tfile  `json:"files"`
	Dirs    []string `json:"dirs"` // extra (possibly empty) directories
	Quote   bool     `json:"quote"`
	All     bool     `json:"all"`
	RelMode bool     `json:"relmode"` // legacy spelling of xin=1, xdir=2
	// a big tree given by its generator record instead of Files
	Big *bigSpec `json:"big,omitempty"`
	// how txtar-c is given the directory: 0 absolute, 1 "src" (relative), 2 "./src/",
	// 3 "." from inside the directory, 4 "../src" from inside it, 5 absolute with "//" and a trailing "/."
	CDir int `json:"cdir"`
	// where txtar-c's standard output goes: 0 a pipe, 1 a regular file
	COut int `json:"cout"`
	// how txtar-x gets the archive: 0 file argument, 1 standard input from a pipe,
	// 2 standard input redirected from a regular file
	XIn int `json:"xin"`
	// how txtar-x is told where to extract: 0 -C <absolute>, 1 -C out (relative), 2 no -C,
	// run inside the directory, 3 -C=<absolute>, 4 --C <absolute>
	XDir int `json:"xdir"`
	// spelling of the boolean flags: 0 -quote / -a when set, 1 --quote / --a when set,
	// 2 always explicit -quote=true|false -a=true|false
	FlagForm int `json:"flagform"`
	// hard RLIMIT_NOFILE for both commands (0: unchanged)
	NoFile int `json:"nofile"`
}

const nCDir, nXIn, nXDir, nFlagForm = 6, 3, 5, 3

func (c *ccase) normalise() {
	if c.RelMode {
		c.RelMode, c.XIn, c.XDir = false, 1, 2
	}
}

func (c *ccase) files() []tfile {
	if c.Big != nil {
		return c.Big.tfiles()
	}
	return c.Files
}

// describe: the input in words, for a violation record
func (c *ccase) describe() string {
	what := fmt.Sprintf("%d files", len(c.Files))
	if c.Big != nil {
		what = "generated tree (" + c.Big.String() + fmt.Sprintf("; %d bytes in total)", c.Big.total())
	}
	return fmt.Sprintf("%s; txtar-c flags quote=%v all=%v (spelling %d), directory form %d, stdout to %s; txtar-x reads %s, directory form %d; RLIMIT_NOFILE %d",
		what, c.Quote, c.All, c.FlagForm, c.CDir, []string{"a pipe", "a regular file"}[c.COut%2],
		[]string{"the file given as argument", "standard input (pipe)", "standard input (regular file)"}[c.XIn%3], c.XDir, c.NoFile)
}

var nameAtoms = []string{"a", "b.txt", "c", ".hid", ".d", "sub", "x y", "é", "a.b", "-q", "..x", "z-- q --", "UP", "0", "100%.txt", "a%20b", "%s", "%!", "%d%n"}
var lineAtoms = []string{"hello", "", "-- a --", "--a --", "-- a--", "-- --", "-- sub/x --", ">", ">-- a --", " -- a --", "-- a -- ", "unquote a", "x -- a --", "-- a --\r", "tab\there", "é", "-- é --", "%s %d %v", "100%", "-- %s --", "%!(EXTRA)"}

func genTree(r *common.RNG) ccase {
	var c ccase
	seen := map[string]bool{}
	isDir := map[string]bool{}
	nf := r.Intn(7)
	for i := 0; i < nf; i++ {
		depth := r.Intn(3)
		var segs []string
		for j := 0; j <= depth; j++ {
			segs = append(segs, common.Pick(r, nameAtoms))
		}
		p := strings.Join(segs, "/")
		// keep the tree a tree: no file where a directory is, no directory where a file is
		okp := !seen[p] && !isDir[p]
		for j := 1; j < len(segs); j++ {
			if seen[strings.Join(segs[:j], "/")] {
				okp = false
			}
		}
		if !okp {
			continue
		}
		seen[p] = true
		for j := 1; j < len(segs); j++ {
			isDir[strings.Join(segs[:j], "/")] = true
		}
		c.Files = append(c.Files, tfile{Path: p, Data: genContent(r)})
	}
	// regularly: two or three files that need quoting, in nested directories, with distinct
	// contents of different lengths (results of earlier Quote calls must survive later ones)
	if r.Chance(1, 2) {
		k := 2 + r.Intn(2)
		for i := 0; i < k; i++ {
			p := fmt.Sprintf("q%d/n%%d/%s", i, common.Pick(r, []string{"m.txt", "100%.txt", "%s", "x y"}))
			if i == 0 {
				p = fmt.Sprintf("q%d/%s", i, common.Pick(r, []string{"m.txt", "a%20b"}))
			}
			if seen[p] || seen[strings.Split(p, "/")[0]] || isDir[p] {
				continue
			}
			seen[p] = true
			segs := strings.Split(p, "/")
			for j := 1; j < len(segs); j++ {
				isDir[strings.Join(segs[:j], "/")] = true
			}
			body := fmt.Sprintf("file %d %%s\n-- marker%d --\n", i, i) + strings.Repeat(fmt.Sprintf("line %d of %d%%\n", i, i), 1+3*i)
			if r.Chance(1, 3) {
				body += "-- tail --"
			}
			c.Files = append(c.Files, tfile{Path: p, Data: []byte(body)})
		}
	}
	if r.Chance(1, 4) {
		d := common.Pick(r, nameAtoms) + "/" + common.Pick(r, nameAtoms)
		if !seen[d] && !seen[strings.Split(d, "/")[0]] {
			c.Dirs = append(c.Dirs, d)
		}
	}
	return c
}

// names txtar cannot represent (leading/trailing white space, newlines, marker look-alikes)
var hostileAtoms = []string{" a", "a ", "a\nb", "x\n-- y --", "-- x --", "a\r", "\ta", "a\u00a0", "\u3000", "x --", "-- ", "a\n", "\n", " ", "b\n-- .. --", "c\n-- . --", "ok"}

func genHostileTree(r *common.RNG) ccase {
	var c ccase
	seen := map[string]bool{}
	for i, n := 0, 1+r.Intn(4); i < n; i++ {
		p := common.Pick(r, hostileAtoms)
		if r.Chance(1, 3) {
			p = common.Pick(r, []string{"d", "sub", " d", "e\n"}) + "/" + p
		}
		top := strings.Split(p, "/")[0]
		if seen[p] || seen[top] {
			continue
		}
		seen[p], seen[top] = true, true
		c.Files = append(c.Files, tfile{Path: p, Data: genContent(r)})
	}
	return c
}

func genContent(r *common.RNG) []byte {
	switch r.Intn(12) {
	case 0:
		return nil
	case 1:
		return []byte{'o', 'k', 0xff, '\n'}
	case 2:
		return []byte("\xc3(")
	}
	n := r.Intn(5) + 1
	var b []byte
	for i := 0; i < n; i++ {
		b = append(b, common.Pick(r, lineAtoms)...)
		if i < n-1 || r.Chance(3, 4) {
			if r.Chance(1, 8) {
				b = append(b, '\r')
			}
			b = append(b, '\n')
		}
	}
	return b
}

// an independent, line-based reading of "contains a file marker line"
func hasMarkerLine(x []byte) bool {
	for _, l := range bytes.SplitAfter(x, []byte("\n")) {
		l = bytes.TrimSuffix(l, []byte("\n"))
		l = bytes.TrimSuffix(l, []byte("\r"))
		if len(l) >= 6 && bytes.HasPrefix(l, []byte("-- ")) && bytes.HasSuffix(l, []byte(" --")) &&
			strings.TrimSpace(string(l[3:len(l)-3])) != "" {
			return true
		}
	}
	return false
}

type cresult struct {
	archive []byte
	cRC     int
	xRC     int
	cErr    string // what the commands wrote to standard error (first bytes)
	xErr    string
	out     map[string]obj
	outDir  bool     // the output directory exists afterwards
	outFile *obj     // the output path is a regular file afterwards (an entry named "." does that)
	outside []string // objects outside the output directory that txtar-x changed or created
	root    string   // the sandbox the commands ran in
	cArgs   []string // argument lists as given to the commands
	xArgs   []string
	xCwd    string
}

var binC, binX string

type cmdSpec struct {
	dir       string
	stdin     []byte // through a pipe
	stdinFile string // or: redirected from this file
	stdout    string // "" = captured through a pipe; else the file to create
	nofile    int
	name      string
	args      []string
}

func runSpec(c cmdSpec) (out []byte, stderr string, rc int) {
	cmd := limitedCommand(c.nofile, c.name, c.args...)
	cmd.Dir = c.dir
	if c.stdinFile != "" {
		f, err := os.Open(c.stdinFile)
		if err != nil {
			return nil, err.Error(), 126
		}
		defer f.Close()
		cmd.Stdin = f
	} else if c.stdin != nil {
		cmd.Stdin = bytes.NewReader(c.stdin)
	}
	var ob, eb bytes.Buffer
	if c.stdout != "" {
		f, err := os.Create(c.stdout)
		if err != nil {
			return nil, err.Error(), 126
		}
		defer f.Close()
		cmd.Stdout = f
	} else {
		cmd.Stdout = &ob
	}
	cmd.Stderr = &eb
	err := cmd.Run()
	if err != nil {
		rc = 1
		var ee *exec.ExitError
		if errors.As(err, &ee) {
			rc = ee.ExitCode()
		}
	}
	es := eb.String()
	if len(es) > 300 {
		es = es[:300]
	}
	return ob.Bytes(), es, rc
}

func runCmd(dir string, stdin []byte, name string, args ...string) ([]byte, int) {
	out, _, rc := runSpec(cmdSpec{dir: dir, stdin: stdin, name: name, args: args})
	return out, rc
}

func boolFlags(c ccase) []string {
	var args []string
	switch c.FlagForm % nFlagForm {
	case 0, 1:
		dash := []string{"-", "--"}[c.FlagForm%nFlagForm]
		if c.Quote {
			args = append(args, dash+"quote")
		}
		if c.All {
			args = append(args, dash+"a")
		}
	case 2:
		args = append(args, fmt.Sprintf("-quote=%v", c.Quote), fmt.Sprintf("-a=%v", c.All))
	}
	return args
}

func runCLI(work string, c ccase) cresult {
	c.normalise()
	caseSeq++
	root := filepath.Join(work, fmt.Sprintf("c%d", caseSeq))
	defer os.RemoveAll(root)
	src := filepath.Join(root, "src")
	os.MkdirAll(src, 0o777)
	for _, f := range c.files() {
		p := filepath.Join(src, f.Path)
		os.MkdirAll(filepath.Dir(p), 0o777)
		os.WriteFile(p, f.Data, 0o666)
	}
	for _, d := range c.Dirs {
		os.MkdirAll(filepath.Join(src, d), 0o777)
	}
	args := boolFlags(c)
	cs := cmdSpec{dir: root, name: binC, nofile: c.NoFile}
	switch c.CDir % nCDir {
	case 0:
		args = append(args, src)
	case 1:
		args = append(args, "src")
	case 2:
		args = append(args, "./src/")
	case 3:
		args = append(args, ".")
		cs.dir = src
	case 4:
		args = append(args, "../src")
		cs.dir = src
	case 5:
		args = append(args, strings.Replace(src, "/src", "//src/.", 1))
	}
	cs.args = args
	af := filepath.Join(root, "a.txtar")
	var res cresult
	res.root, res.cArgs = root, args
	if c.COut%2 == 1 {
		cs.stdout = af
		_, res.cErr, res.cRC = runSpec(cs)
		res.archive, _ = os.ReadFile(af)
	} else {
		res.archive, res.cErr, res.cRC = runSpec(cs)
		if c.XIn%nXIn != 1 {
			os.WriteFile(af, res.archive, 0o666)
		}
	}
	out := filepath.Join(root, "out")
	xs := cmdSpec{dir: root, name: binX, nofile: c.NoFile}
	switch c.XDir % nXDir {
	case 0:
		xs.args = []string{"-C", out}
	case 1:
		xs.args = []string{"-C", "out"}
	case 2:
		os.MkdirAll(out, 0o777)
		xs.dir = out
	case 3:
		xs.args = []string{"-C=" + out}
	case 4:
		xs.args = []string{"--C", out}
	}
	switch c.XIn % nXIn {
	case 0:
		xs.args = append(xs.args, af)
	case 1:
		xs.stdin = res.archive
		if xs.stdin == nil {
			xs.stdin = []byte{}
		}
	case 2:
		xs.stdinFile = af
	}
	res.xArgs, res.xCwd = xs.args, xs.dir
	skim := ""
	if c.Big != nil {
		skim = "src" // the archived tree is only watched for changes
	}
	before := snapshotSkim(root, skim)
	_, res.xErr, res.xRC = runSpec(xs)
	after := snapshotSkim(root, skim)
	for _, k := range sortedKeys(after) {
		if under(k, "out") {
			continue
		}
		o, ok := before[k]
		n := after[k]
		if !ok || o.dir != n.dir || !bytes.Equal(o.data, n.data) || o.mode != n.mode {
			res.outside = append(res.outside, k)
		}
	}
	for _, k := range sortedKeys(before) {
		if _, ok := after[k]; !ok {
			res.outside = append(res.outside, k)
		}
	}
	res.out = map[string]obj{}
	for k, o := range after {
		if strings.HasPrefix(k, "out/") {
			res.out[k[len("out/"):]] = o
		}
	}
	if st, err := os.Stat(out); err == nil && st.IsDir() {
		res.outDir = true
	} else if err == nil {
		b, _ := os.ReadFile(out)
		res.outFile = &obj{data: b, mode: st.Mode().Perm()}
	}
	return res
}

// cliOracle: the round trip evaluated without the model.
func cliOracle(c ccase, r cresult) []string {
	var bad []string
	if r.cRC != 0 {
		return []string{"cli/txtar-c-exit"}
	}
	if r.xRC != 0 {
		return []string{"cli/txtar-x-exit"}
	}
	a := txtar.Parse(r.archive)
	unq := map[string]bool{}
	for _, l := range strings.Split(string(a.Comment), "\n") {
		if strings.HasPrefix(l, "unquote ") {
			unq[strings.TrimPrefix(l, "unquote ")] = true
		}
	}
	want := cliWant(c)
	nfiles := 0
	for k, o := range r.out {
		if o.dir {
			continue
		}
		nfiles++
		w, ok := want[k]
		if !ok {
			bad = append(bad, "cli/unexpected-file")
			continue
		}
		got := o.data
		if hasMarkerLine(w) {
			if !unq[k] {
				bad = append(bad, "cli/unquote-line-missing")
			}
			u, err := txtar.Unquote(got)
			if err != nil {
				bad = append(bad, "cli/unquote-fails")
				continue
			}
			got = u
		} else if unq[k] {
			bad = append(bad, "cli/unquote-line-spurious")
		}
		if !bytes.Equal(got, w) {
			bad = append(bad, "cli/content")
		}
	}
	if nfiles != len(want) {
		bad = append(bad, "cli/file-missing")
	}
	return bad
}

// ------------------------------------------------------------------ symbolic links (out of scope)

type lobj struct {
	kind string // D, F, L
	data []byte // contents or link target
}

func lsnapshot(root string) map[string]lobj {
	m := map[string]lobj{}
	filepath.Walk(root, func(p string, info os.FileInfo, err error) error {
		if err != nil || p == root {
			return nil
		}
		rel, _ := filepath.Rel(root, p)
		switch {
		case info.Mode()&os.ModeSymlink != 0:
			t, _ := os.Readlink(p)
			m[rel] = lobj{"L", []byte(t)}
		case info.IsDir():
			m[rel] = lobj{"D", nil}
		default:
			b, _ := os.ReadFile(p)
			m[rel] = lobj{"F", b}
		}
		return nil
	})
	return m
}

func lsortedKeys(m map[string]lobj) []string {
	var ks []string
	for k := range m {
		ks = append(ks, k)
	}
	sort.Strings(ks)
	return ks
}

func lfs(snap map[string]lobj, root string) (n int, parts []string) {
	var keys []string
	for k := range snap {
		keys = append(keys, k)
	}
	sort.Strings(keys)
	parts = append(parts, common.Hex([]byte(modelRoot)), "D", "-")
	for _, k := range keys {
		o := snap[k]
		d := o.data
		if o.kind == "L" && strings.HasPrefix(string(d), root) {
			d = []byte(modelRoot + string(d[len(root):]))
		}
		if o.kind == "D" {
			parts = append(parts, common.Hex([]byte(modelRoot+"/"+k)), "D", "-")
		} else {
			parts = append(parts, common.Hex([]byte(modelRoot+"/"+k)), o.kind, common.Hex(d))
		}
	}
	return len(keys) + 1, parts
}

// symlinkCases: the target directory contains symbolic links.  This is outside the scope
// of the property ("pre-existing files"); the cases document what the real code does
// (os.MkdirAll / os.OpenFile follow links in directory components, so an entry "link/x"
// creates a file where the link points) and tie the symlink variant of the model
// (Symlink.v, about which the refutation of containment is proved) to the code.  An escape
// is counted and noted, never reported as a violation.
func (rn *runner) symlinkCases() {
	entriesList := [][]entry{
		{{"link/x", []byte("DATA")}},
		{{"abs/sub/y", []byte("D2")}},
		{{"dangling/z", []byte("Z")}},
		{{"dangling", []byte("Z")}},
		{{"lf", []byte("X")}},
		{{"lf/x", []byte("X")}},
		{{"link", []byte("X")}},
		{{"loop/x", []byte("X")}},
		{{"loop", []byte("X")}},
		{{"ok/f", []byte("fine")}, {"link/../t2", []byte("lexical")}, {"link/x", []byte("DATA")}, {"link/x", []byte("again")}},
		{{"in/f", []byte("inside")}},
		{{"in/../up", []byte("u")}},
		{{"chain/q", []byte("Q")}},
		{{"dangling2", []byte("through a dangling link that points outside")}},
	}
	// more entries whose own name is a link (no link in a directory component), alone and
	// after ordinary entries, with empty data and with data
	for _, l := range []string{"dangling", "dangling2", "lf", "link", "abs", "loop", "in", "chain"} {
		entriesList = append(entriesList, []entry{{"real/ok", []byte("fine")}, {l, []byte{}}},
			[]entry{{"./" + l + "/", []byte("D")}, {"after", []byte("not reached")}})
	}
	for i, es := range entriesList {
		for form := 0; form < 2; form++ {
			rn.symlinkCase(i, es, form)
		}
	}
}

var symlinkEscapes int

func (rn *runner) symlinkCase(i int, es []entry, form int) {
	res := rn.res
	{
		{
			caseSeq++
			root := filepath.Join(rn.f.Work, fmt.Sprintf("s%d", caseSeq))
			os.MkdirAll(filepath.Join(root, "parent/target/real"), 0o777)
			os.MkdirAll(filepath.Join(root, "parent/out"), 0o777)
			os.WriteFile(filepath.Join(root, "parent/sib"), []byte("sibling"), 0o666)
			t := filepath.Join(root, "parent/target")
			os.Symlink("../out", filepath.Join(t, "link"))
			os.Symlink(filepath.Join(root, "parent/out"), filepath.Join(t, "abs"))
			os.Symlink("nowhere", filepath.Join(t, "dangling"))
			os.Symlink("../nowhere2", filepath.Join(t, "dangling2"))
			os.Symlink("../sib", filepath.Join(t, "lf"))
			os.Symlink("loop", filepath.Join(t, "loop"))
			os.Symlink("real", filepath.Join(t, "in"))
			os.Symlink("link", filepath.Join(t, "chain"))
			before := lsnapshot(root)
			a := &txtar.Archive{}
			for _, e := range es {
				a.Files = append(a.Files, txtar.File{Name: e.Name, Data: e.Data})
			}
			dir, mdir, mcwd := t, modelRoot+"/parent/target", modelRoot
			var err error
			if form == 1 {
				old, _ := os.Getwd()
				os.Chdir(filepath.Join(root, "parent"))
				dir, mdir, mcwd = "target", "target", modelRoot+"/parent"
				err = txtar.Write(a, dir)
				os.Chdir(old)
			} else {
				err = txtar.Write(a, dir)
			}
			after := lsnapshot(root)
			n, parts := lfs(before, root)
			req := []string{"swrite", common.Hex([]byte(mcwd)), common.Hex([]byte(mdir)), fmt.Sprint(n)}
			req = append(req, parts...)
			req = append(req, fmt.Sprint(len(es)))
			for _, e := range es {
				req = append(req, common.Hex([]byte(e.Name)), common.Hex(e.Data))
			}
			want := rn.m.Ask1(strings.Join(req, " "))
			n2, parts2 := lfs(after, root)
			got := classify(err) + " " + fmt.Sprint(n2) + " " + strings.Join(parts2, " ")
			res.Case(fmt.Sprintf("symlink:%d:%d", i, form), true)
			res.Count("symlink:cases")
			res.Count("symlink:result:" + classify(err))
			in := map[string]string{"kind": "symlink", "entries_text": entriesInput(es)["entries_text"], "entries_json": entriesInput(es)["entries_json"], "dirform": fmt.Sprint(form)}
			if want != got {
				res.Count("mismatch:swrite")
				res.Violate(common.Violation{Kind: "correspondence", Oracle: "swrite", Input: in, Model: want, Impl: got,
					Key: fmt.Sprintf("swrite:%d:%d", i, form), Detail: "symlink variant of the model and txtar.Write differ"})
			}
			for k, o := range after {
				if _, old := before[k]; !old && !under(k, targetRel) {
					symlinkEscapes++
					res.Count("symlink:object-created-outside-target")
					if symlinkEscapes == 1 {
						res.Notes = append(res.Notes, fmt.Sprintf("out of scope, not a violation: with a pre-existing symbolic link %s/link -> ../out inside the target directory, txtar.Write of the entry %q created %s %s outside the target (os.MkdirAll/os.OpenFile follow links in directory components; proved for the model as symlink_containment_refuted)", targetRel, es[0].Name, o.kind, k))
					}
				}
			}
			// a link only in the LAST component of an entry's path is no way out: the O_EXCL
			// create refuses it.  When no entry passes through a link in a directory
			// component, containment and "existing => error" are required as usual.
			through, finalLink := false, false
			for _, e := range es {
				if strings.HasPrefix(e.Name, "/") || climbs(e.Name) {
					continue
				}
				segs := strings.Split(filepath.Clean(e.Name), "/")
				for j := 1; j < len(segs); j++ {
					if o, ok := before[filepath.Join(targetRel, filepath.Join(segs[:j]...))]; ok && o.kind == "L" {
						through = true
					}
				}
				if o, ok := before[filepath.Join(targetRel, filepath.Clean(e.Name))]; ok && o.kind == "L" {
					finalLink = true
				}
			}
			if !through {
				res.Count("symlink:no-link-in-directory-components")
				var bad []string
				for k := range after {
					if _, old := before[k]; !old && !under(k, targetRel) {
						bad = append(bad, "write/contained")
					}
				}
				if finalLink && err == nil {
					bad = append(bad, "write/existing-is-error")
				}
				for _, o := range uniq(bad) {
					res.Count("oracle-fails:" + o)
					var news []string
					for _, k := range lsortedKeys(after) {
						if _, old := before[k]; !old {
							news = append(news, after[k].kind+" "+k)
						}
					}
					res.Violate(common.Violation{Kind: "impl-violation", Oracle: o, Input: in,
						Impl: fmt.Sprintf("result=%s; new objects relative to the sandbox root: %q", classify(err), news), Key: fmt.Sprintf("%s:symlink-final:%d:%d", o, i, form),
						Detail: "txtar.Write into parent/target, where the entry's name denotes an existing symbolic link (parent/target/dangling2 -> ../nowhere2 and others, see symlinkCases) and no directory component of any entry is a link: the entry must be refused (the path exists) and nothing may appear outside the target"})
				}
			}
			// what does hold with links: nothing that existed was changed
			for k, o := range before {
				if n, ok := after[k]; !ok || n.kind != o.kind || !bytes.Equal(n.data, o.data) {
					res.Violate(common.Violation{Kind: "impl-violation", Oracle: "write/never-overwrites", Input: in,
						Impl: fmt.Sprintf("%s changed", k), Key: fmt.Sprintf("symlink-overwrite:%d:%d", i, form),
						Detail: "an existing object changed in a sandbox whose target contains symbolic links"})
				}
			}
			os.RemoveAll(root)
		}
	}
}

// ------------------------------------------------------------------ permission bits

const harnessUmask = 0o022

var modelModeDir, modelModeFile os.FileMode

// checkModes compares the permission bits of every object that is new in after with the
// model's created_mode under the harness umask.
func (rn *runner) checkModes(before, after map[string]obj, in map[string]string, key string) {
	for _, k := range sortedKeys(after) {
		if _, old := before[k]; old {
			continue
		}
		o := after[k]
		want := modelModeFile
		if o.dir {
			want = modelModeDir
		}
		rn.res.Count("modes:checked")
		if o.mode != want {
			rn.res.Count("mismatch:modes")
			rn.res.Violate(common.Violation{Kind: "correspondence", Oracle: "modes", Input: in,
				Model: fmt.Sprintf("%o", want), Impl: fmt.Sprintf("%s has mode %o", k, o.mode), Key: "modes:" + key,
				Detail: "permission bits of a created object differ from the model's created_mode (perm constants of Write with the umask 022 cleared)"})
			return
		}
	}
}

// ------------------------------------------------------------------ main

type runner struct {
	f   *common.Flags
	res *common.Result
	m   *common.Model
}

func entriesInput(es []entry) map[string]string {
	in := map[string]string{}
	b, _ := json.Marshal(es)
	in["entries_json"] = string(b)
	var t []string
	for _, e := range es {
		t = append(t, fmt.Sprintf("%q=%q", e.Name, e.Data))
	}
	in["entries_text"] = strings.Join(t, " ")
	return in
}

func (rn *runner) writeCase(c wcase, tag string) {
	r, ok := runWrite(rn.f.Work, c)
	if !ok {
		return
	}
	res := rn.res
	res.Count("write:src:" + tag)
	res.Count(fmt.Sprintf("write:scenario%d", c.Scenario))
	res.Count(fmt.Sprintf("write:dirform%d", c.DirForm))
	res.Count("write:result:" + r.res)
	key := fmt.Sprintf("w:%d:%d:%v", c.Scenario, c.DirForm, c.Entries)
	nontrivial := false
	for _, e := range c.Entries {
		if strings.Contains(e.Name, "..") || strings.HasPrefix(e.Name, "/") || e.Name == "" || e.Name == "." {
			nontrivial = true
		}
	}
	if len(c.Entries) > 1 || c.Scenario != 0 {
		nontrivial = true
	}
	res.Case(key, nontrivial)
	// model
	root := filepath.Join(rn.f.Work, fmt.Sprintf("w%d", caseSeq))
	want, got := "", ""
	if c.DirForm != dirFormLink {
		want = rn.m.Ask1(writeReq(root, c, r.before))
		got = r.res + " " + fsAns(r.after)
	}
	input := func() map[string]string {
		in := entriesInput(c.Entries)
		in["case_json"] = mustJSON(c)
		in["kind"] = "write"
		return in
	}
	if c.DirForm != dirFormLink {
		// the translated txtar.Write on the same request (src.go)
		rn.srcWrite(writeReq(root, c, r.before), got, input, key, tag == "corpus" || tag == "replay")
	}
	for _, o := range writeOracles(c, r) {
		res.Count("oracle-fails:" + o)
		cc := c
		cc.Entries = common.ShrinkList(c.Entries, func(es []entry) bool {
			c2 := c
			c2.Entries = es
			r2, ok := runWrite(rn.f.Work, c2)
			if !ok {
				return false
			}
			for _, o2 := range writeOracles(c2, r2) {
				if o2 == o {
					return true
				}
			}
			return false
		})
		in := entriesInput(cc.Entries)
		in["case_json"] = mustJSON(cc)
		in["kind"] = "write"
		var names []string
		for _, e := range cc.Entries {
			names = append(names, e.Name)
		}
		var news []string
		if r2, ok := runWrite(rn.f.Work, cc); ok {
			for _, k := range sortedKeys(r2.after) {
				if _, old := r2.before[k]; !old {
					if r2.after[k].dir {
						news = append(news, "dir "+k)
					} else {
						news = append(news, fmt.Sprintf("file %s %q", k, r2.after[k].data))
					}
				}
			}
			in["existing_before"] = strings.Join(sortedKeys(r2.before), " ")
		}
		res.Violate(common.Violation{Kind: "impl-violation", Oracle: o, Input: in,
			Impl: fmt.Sprintf("result=%s; new objects relative to the sandbox root: %q", r.res, news), Key: fmt.Sprintf("%s:scenario%d:%q", o, c.Scenario, names),
			Detail: fmt.Sprintf("txtar.Write into %s (scenario %d: see setupScenario; dir form %d): property C15 evaluated directly on the implementation", targetRel, c.Scenario, c.DirForm)})
	}
	if c.DirForm == dirFormLink {
		res.Count("write:oracles-only-symlinked-parent")
		return
	}
	rn.checkModes(r.before, r.after, input(), key)
	if want != got {
		res.Count("mismatch:write")
		res.Violate(common.Violation{Kind: "correspondence", Oracle: "write", Input: input(),
			Model: want, Impl: got, Key: "write:" + key,
			Detail: "model write and txtar.Write differ (result enum or resulting tree)"})
	}
	if caseSeq%997 == 1 {
		res.Sample(map[string]any{"kind": "write", "case": c, "result": r.res})
	}
}

var phaseStart = time.Now()

// phase records how long each part of the run took (distribution bucket, whole seconds).
func (rn *runner) phase(name string) {
	rn.res.Distribution["seconds:"+name] += int(time.Since(phaseStart).Seconds() + 0.5)
	if os.Getenv("VERIF_DEBUG") != "" {
		fmt.Fprintf(os.Stderr, "phase %s: %.1fs\n", name, time.Since(phaseStart).Seconds())
	}
	phaseStart = time.Now()
}

func mustJSON(v any) string {
	b, _ := json.Marshal(v)
	return string(b)
}

// cliCase runs one txtar-c | txtar-x case.  With hostile (file names txtar cannot
// represent) the round-trip oracle does not apply: only "no crash" and "nothing outside
// the output directory" are required, and the model is still compared.
func (rn *runner) cliCase(c ccase, tag string) {
	c.normalise()
	hostile := tag == "hostile-names"
	r := runCLI(rn.f.Work, c)
	res := rn.res
	files := c.files()
	total := 0
	for _, f := range files {
		total += len(f.Data)
	}
	res.Count("cli:src:" + tag)
	res.Count(fmt.Sprintf("cli:quote=%v,all=%v", c.Quote, c.All))
	if c.Big == nil {
		res.Count(fmt.Sprintf("cli:files=%d", len(files)))
	} else {
		res.Count("cli:big:" + c.Big.Kind)
		res.Count(fmt.Sprintf("cli:big:archive-MiB=%d", len(r.archive)>>20))
	}
	res.Count(fmt.Sprintf("cli:txtar-c-dirform=%d,stdout=%d", c.CDir%nCDir, c.COut%2))
	res.Count(fmt.Sprintf("cli:txtar-x-input=%d,dirform=%d", c.XIn%nXIn, c.XDir%nXDir))
	if c.NoFile > 0 {
		res.Count("cli:under-nofile-limit")
	}
	nfiles := 0
	for _, o := range r.out {
		if !o.dir {
			nfiles++
		}
	}
	res.Case("c:"+mustJSON(c), len(files) > 0)
	if bytes.Contains(r.archive, []byte("unquote ")) {
		res.Count("cli:has-unquote-line")
	}
	if n := bytes.Count(r.archive, []byte("\nunquote ")) + b2i(bytes.HasPrefix(r.archive, []byte("unquote "))); n >= 2 {
		res.Count("cli:two-or-more-quoted-files")
	}
	in := map[string]string{"kind": "cli", "case_json": mustJSON(c), "what": c.describe()}
	if hostile {
		in["kind"] = "cli-hostile"
	}
	var failed []string
	if !hostile {
		failed = cliOracle(c, r)
	}
	if (r.cRC != 0 && r.cRC != 1) || (r.xRC != 0 && r.xRC != 1) {
		failed = append(failed, "cli/no-crash")
	}
	if len(r.outside) > 0 {
		failed = append(failed, "cli/txtar-x-contained")
	}
	res.Count(fmt.Sprintf("cli:txtar-x-rc=%d", r.xRC))
	failed = uniq(failed)
	for _, o := range failed {
		res.Count("oracle-fails:" + o)
		cc, rr := c, r
		if c.Big != nil && !hostile {
			cc, rr = rn.shrinkBigCLI(c, o)
			in = map[string]string{"kind": "cli", "case_json": mustJSON(cc), "what": cc.describe()}
		}
		arch := rr.archive
		if len(arch) > 1500 {
			arch = arch[:1500]
		}
		key := o + ":" + mustJSON(c.Files)
		if c.Big != nil {
			key = o + ":big:" + c.Big.Kind + fmt.Sprintf(":xin=%d", c.XIn%nXIn)
		}
		res.Violate(common.Violation{Kind: "impl-violation", Oracle: o, Input: in,
			Impl: fmt.Sprintf("txtar-c rc=%d stderr=%q; txtar-x rc=%d stderr=%q; changed outside=%q; archive of %d bytes begins %q; %d files extracted of %d expected; %s",
				rr.cRC, rr.cErr, rr.xRC, rr.xErr, rr.outside, len(rr.archive), arch, countFiles(rr.out), len(cliWant(cc)), cliDiff(cc, rr)),
			Key: key, Detail: "txtar-c then txtar-x does not reproduce the archived files"})
	}
	// the model is exercised on small and medium inputs (its byte strings are unary lists)
	nameBytes := 0
	for _, f := range files {
		nameBytes += len(f.Path)
	}
	if total+nameBytes > 96<<10 || len(files) > 300 {
		res.Count("cli:model-skipped-big-input")
		return
	}
	// model: the archive bytes
	parts := []string{"savedir", b01(c.Quote), b01(c.All), fmt.Sprint(len(files))}
	for _, f := range files {
		parts = append(parts, common.Hex([]byte(f.Path)), common.Hex(f.Data))
	}
	// txtar_c_main: the model parses the argument list the command was given
	cm := []string{"cmain", fmt.Sprint(len(r.cArgs))}
	for _, a := range r.cArgs {
		cm = append(cm, common.Hex([]byte(a)))
	}
	cm = append(cm, parts[3:]...)
	marc := rn.m.Ask1(strings.Join(cm, " "))
	implArc := common.Hex(r.archive)
	if r.cRC == 2 {
		implArc = "usage"
	}
	if marc != implArc {
		res.Count("mismatch:savedir")
		res.Violate(common.Violation{Kind: "correspondence", Oracle: "savedir", Input: in,
			Model: marc, Impl: implArc, Key: "savedir:" + mustJSON(c),
			Detail: "model txtar_c_main (flag parsing + savedir) and the bytes printed by txtar-c differ"})
		return
	}
	// model: the same through the rose-tree walk, with the empty directories
	tparts := append([]string{"savedirtree"}, parts[1:]...)
	tparts = append(tparts, fmt.Sprint(len(c.Dirs)))
	for _, d := range c.Dirs {
		tparts = append(tparts, common.Hex([]byte(d)))
	}
	if mt := rn.m.Ask1(strings.Join(tparts, " ")); mt != common.Hex(r.archive) {
		res.Count("mismatch:savedirtree")
		res.Violate(common.Violation{Kind: "correspondence", Oracle: "savedirtree", Input: in,
			Model: mt, Impl: common.Hex(r.archive), Key: "savedirtree:" + mustJSON(c),
			Detail: "model savedir_tree (filepath.Walk on the tree) and the bytes printed by txtar-c differ"})
	}
	// the translated walk function of txtar-c under the hand-modelled filepath.Walk (src.go)
	rn.srcSavedirTree(tparts, common.Hex(r.archive), in, mustJSON(c))
	// model: the txtar-x command line on those bytes, into an empty directory
	mext := rn.m.Ask1(rn.xmainReq(c, r))
	snap := map[string]obj{}
	for k, o := range r.out {
		snap["out/"+k] = o
	}
	if r.outDir {
		snap["out"] = obj{dir: true}
	} else if r.outFile != nil {
		snap["out"] = *r.outFile
	}
	if archiveOnDisk(c) {
		snap["a.txtar"] = obj{data: r.archive}
	}
	rn.checkModes(map[string]obj{}, r.out, in, "cli:"+mustJSON(c))
	rcs := "ok"
	if r.xRC != 0 {
		rcs = "fail"
	}
	got := rcs + " " + fsAns(snap)
	if !strings.HasPrefix(mext, "ok ") {
		mext = "fail " + strings.SplitN(mext, " ", 2)[1]
	}
	if mext != got {
		res.Count("mismatch:extract")
		res.Violate(common.Violation{Kind: "correspondence", Oracle: "extract", Input: in,
			Model: mext, Impl: got, Key: "extract:" + mustJSON(c),
			Detail: "model txtar_x_main (argument/stdin choice, -C) and txtar-x differ on the extracted tree"})
	}
	if caseSeq%211 == 1 {
		res.Sample(map[string]any{"kind": "cli", "case": c, "archive": string(r.archive), "extracted_files": nfiles})
	}
}

// xmainReq: the model request for the txtar-x command line of the case: the argument list
// as given (paths into the sandbox renamed into the model's name space), standard input,
// and a file system holding the root, the output directory when the command runs inside
// it, and the archive file when it is read by name or redirected.
func (rn *runner) xmainReq(c ccase, r cresult) string {
	h := func(s string) string { return common.Hex([]byte(s)) }
	tr := func(s string) string { return strings.ReplaceAll(s, r.root, modelRoot) }
	fsn := []string{h(modelRoot), "D", "-"}
	n := 1
	if c.XDir%nXDir == 2 {
		fsn = append(fsn, h(modelRoot+"/out"), "D", "-")
		n++
	}
	if archiveOnDisk(c) {
		fsn = append(fsn, h(modelRoot+"/a.txtar"), "F", common.Hex(r.archive))
		n++
	}
	req := []string{"xmain", h(tr(r.xCwd)), fmt.Sprint(n), strings.Join(fsn, " "), fmt.Sprint(len(r.xArgs))}
	for _, a := range r.xArgs {
		req = append(req, h(tr(a)))
	}
	req = append(req, common.Hex(r.archive))
	return strings.Join(req, " ")
}

// cliWant: what the round trip must produce (path -> contents after the final-newline fix),
// written without the model and without txtar's own predicates.
func cliWant(c ccase) map[string][]byte {
	want := map[string][]byte{}
	for _, f := range c.files() {
		dotted := false
		for _, seg := range strings.Split(f.Path, "/") {
			if strings.HasPrefix(seg, ".") {
				dotted = true
			}
		}
		if dotted && !c.All {
			continue
		}
		if !utf8.Valid(f.Data) {
			continue
		}
		d := f.Data
		if len(d) > 0 && d[len(d)-1] != '\n' {
			d = append(append([]byte{}, d...), '\n')
		}
		if hasMarkerLine(d) && !c.Quote {
			continue
		}
		want[f.Path] = d
	}
	return want
}

// cliDiff names the first file that is missing or differs.
func cliDiff(c ccase, r cresult) string {
	want := cliWant(c)
	var keys []string
	for k := range want {
		keys = append(keys, k)
	}
	sort.Strings(keys)
	for _, k := range keys {
		o, ok := r.out[k]
		if !ok {
			return fmt.Sprintf("first missing file: %.120q (%d bytes)", k, len(want[k]))
		}
		got := o.data
		if hasMarkerLine(want[k]) {
			if u, err := txtar.Unquote(got); err == nil {
				got = u
			}
		}
		if !bytes.Equal(got, want[k]) {
			return fmt.Sprintf("first differing file: %.120q has %d bytes, expected %d", k, len(got), len(want[k]))
		}
	}
	return "no expected file is missing"
}

// shrinkBigCLI lowers the number and the size of the files of a generated tree while the
// oracle keeps failing.
func (rn *runner) shrinkBigCLI(c ccase, o string) (ccase, cresult) {
	fails := func(c2 ccase) (cresult, bool) {
		r2 := runCLI(rn.f.Work, c2)
		return r2, contains(cliOracle(c2, r2), o)
	}
	cur := c
	spec := *c.Big
	cur.Big = &spec
	for i := 0; i < 40; i++ {
		progress := false
		for _, f := range []func(b *bigSpec) bool{
			func(b *bigSpec) bool {
				if b.N <= 1 {
					return false
				}
				b.N = b.N / 2
				return true
			},
			func(b *bigSpec) bool {
				if b.DataLen <= 1 {
					return false
				}
				b.DataLen = b.DataLen * 3 / 4
				return true
			},
			func(b *bigSpec) bool {
				if b.Depth <= 0 {
					return false
				}
				b.Depth--
				return true
			},
		} {
			s2 := *cur.Big
			if !f(&s2) {
				continue
			}
			c2 := cur
			c2.Big = &s2
			if _, bad := fails(c2); bad {
				cur = c2
				progress = true
			}
		}
		if !progress {
			break
		}
	}
	r, _ := fails(cur)
	return cur, r
}

// rootDirCase runs `txtar-c /` inside a chroot holding two files: the names come out
// absolute (TrimPrefix(path, "//") removes nothing), as the model's entry_name says, and
// txtar-x refuses the archive.  Skipped with a note when chroot is not permitted.
func (rn *runner) rootDirCase() {
	res := rn.res
	caseSeq++
	root := filepath.Join(rn.f.Work, fmt.Sprintf("root%d", caseSeq))
	defer os.RemoveAll(root)
	os.MkdirAll(filepath.Join(root, "a"), 0o777)
	os.WriteFile(filepath.Join(root, "a", "b"), []byte("hello\n"), 0o666)
	os.WriteFile(filepath.Join(root, "top"), []byte("t\n"), 0o666)
	bin, err := os.ReadFile(binC)
	if err != nil || os.WriteFile(filepath.Join(root, "txtar-c"), bin, 0o755) != nil {
		res.Notes = append(res.Notes, "txtar-c /: cannot stage the binary")
		return
	}
	cmd := exec.Command("/txtar-c", "/")
	cmd.Path = "/txtar-c"
	cmd.Dir = "/"
	cmd.SysProcAttr = &syscall.SysProcAttr{Chroot: root}
	var out bytes.Buffer
	cmd.Stdout = &out
	if err := cmd.Run(); err != nil {
		res.Notes = append(res.Notes, "txtar-c /: not run (chroot or static binary unavailable): "+err.Error())
		return
	}
	res.Case("rootdir", true)
	res.Count("cli:rootdir")
	a := txtar.Parse(out.Bytes())
	var names []string
	for _, f := range a.Files {
		names = append(names, f.Name)
	}
	var want []string
	for _, p := range []string{"a/b", "top"} {
		want = append(want, string(common.UnHex(rn.m.Ask1("entryname "+common.Hex([]byte("/"))+" "+common.Hex([]byte(p))))))
	}
	if strings.Join(names, "|") != strings.Join(want, "|") {
		res.Violate(common.Violation{Kind: "correspondence", Oracle: "entryname", Key: "entryname:/",
			Input: map[string]string{"kind": "rootdir"}, Model: fmt.Sprintf("%q", want), Impl: fmt.Sprintf("%q", names),
			Detail: "names in the archive printed by `txtar-c /` (in a chroot) differ from the model's entry_name"})
	}
	// txtar-x must refuse it and write nothing
	x := filepath.Join(rn.f.Work, fmt.Sprintf("rootx%d", caseSeq))
	os.MkdirAll(filepath.Join(x, "p"), 0o777)
	defer os.RemoveAll(x)
	before := snapshot(x)
	_, rc := runCmd(filepath.Join(x, "p"), out.Bytes(), binX)
	after := snapshot(x)
	if rc != 1 || len(after) != len(before) {
		res.Violate(common.Violation{Kind: "impl-violation", Oracle: "cli/txtar-x-contained", Key: "rootdir-extract",
			Input: map[string]string{"kind": "rootdir", "archive": out.String()}, Impl: fmt.Sprintf("rc=%d after=%v", rc, sortedKeys(after)),
			Detail: "txtar-x on the archive of `txtar-c /` (absolute names) must fail and write nothing"})
	}
}

// archiveOnDisk: the sandbox holds the file a.txtar (txtar-c's output was redirected to
// it, or txtar-x reads it by name or as redirected standard input)
func archiveOnDisk(c ccase) bool { return c.COut%2 == 1 || c.XIn%nXIn != 1 }

// archives that txtar-x -C q/t (run in the empty directory p) must refuse: names that leave
// the directory, including siblings whose path has the directory's path as a textual prefix
// and names that come back into it
var evilArchives = []string{"-- ../x --\nX\n", "-- /abs --\nX\n", "-- a/../../x --\nX\n", "-- .. --\nX\n",
	"-- ../tx --\nX\n", "-- ../t.bak/f --\nX\n", "-- ../t/f --\nX\n", "-- ok --\nfine\n-- ../t/../t2/f --\nX\n", "-- ../../q/t/f --\nX\n", "-- ../../qx --\nX\n"}

func (rn *runner) evilCase(evil string) {
	res, f := rn.res, rn.f
	caseSeq++
	root := filepath.Join(f.Work, fmt.Sprintf("e%d", caseSeq))
	defer os.RemoveAll(root)
	os.MkdirAll(filepath.Join(root, "p"), 0o777)
	before := snapshot(root)
	_, rc := runCmd(filepath.Join(root, "p"), []byte(evil), binX, "-C", "q/t")
	after := snapshot(root)
	res.Case("evil:"+evil, true)
	res.Count("cli:evil")
	badOut := rc == 0
	for k, o := range after {
		if _, ok := before[k]; !ok && !under(k, "p/q/t") && !(o.dir && under("p/q/t", k)) {
			badOut = true
		}
	}
	if badOut {
		res.Violate(common.Violation{Kind: "impl-violation", Oracle: "cli/txtar-x-contained",
			Input: map[string]string{"kind": "evil", "archive": evil}, Impl: fmt.Sprintf("rc=%d after=%v", rc, sortedKeys(after)),
			Key: "cli/txtar-x-contained:" + evil, Detail: "txtar-x -C q/t in an empty directory p: exit 0 or an object outside p/q/t"})
	}
}

func uniq(l []string) []string {
	var out []string
	for _, x := range l {
		if !contains(out, x) {
			out = append(out, x)
		}
	}
	return out
}

func b2i(b bool) int {
	if b {
		return 1
	}
	return 0
}

func b01(b bool) string {
	if b {
		return "1"
	}
	return "0"
}

func (rn *runner) pathCase(p string) {
	res := rn.res
	hx := common.Hex([]byte(p))
	reqs := []string{"clean " + hx, "dir " + hx, "isabs " + hx,
		"join " + common.Hex([]byte("/s/t")) + " " + hx, "join " + common.Hex([]byte("x/../..")) + " " + hx, "join - " + hx}
	impl := []string{common.Hex([]byte(filepath.Clean(p))), common.Hex([]byte(filepath.Dir(p))), fmt.Sprint(filepath.IsAbs(p)),
		common.Hex([]byte(filepath.Join("/s/t", p))), common.Hex([]byte(filepath.Join("x/../..", p))), common.Hex([]byte(filepath.Join("", p)))}
	pathBatch = append(pathBatch, pathPending{p, reqs, impl})
	res.Case("p:"+p, strings.Contains(p, ".."))
	res.Count("path:cases")
	if len(pathBatch) >= 2000 {
		rn.flushPaths()
	}
}

type pathPending struct {
	p    string
	reqs []string
	impl []string
}

var pathBatch []pathPending

func (rn *runner) flushPaths() {
	var reqs []string
	for _, b := range pathBatch {
		reqs = append(reqs, b.reqs...)
	}
	ans, err := rn.m.Ask(reqs)
	if err != nil {
		rn.res.Violate(common.Violation{Kind: "correspondence", Oracle: "model-process", Key: "model-died", Detail: err.Error(), Input: map[string]string{}})
		pathBatch = nil
		return
	}
	k := 0
	for _, b := range pathBatch {
		for i := range b.reqs {
			if ans[k] != b.impl[i] {
				fn := strings.Fields(b.reqs[i])[0]
				rn.res.Count("mismatch:" + fn)
				rn.res.Violate(common.Violation{Kind: "correspondence", Oracle: "path/" + fn,
					Input: map[string]string{"kind": "path", "p": common.Hex([]byte(b.p)), "p_text": fmt.Sprintf("%q", b.p), "request": b.reqs[i]},
					Model: ans[k], Impl: b.impl[i], Key: "path/" + fn + ":" + b.p})
			}
			k++
		}
	}
	pathBatch = nil
}

func enumerate(sigma []string, maxLen int, f func([]string)) {
	buf := make([]string, maxLen)
	var rec func(n, i int)
	rec = func(n, i int) {
		if i == n {
			f(buf[:n])
			return
		}
		for _, c := range sigma {
			buf[i] = c
			rec(n, i+1)
		}
	}
	for n := 1; n <= maxLen; n++ {
		rec(n, 0)
	}
}

var segSmall = []string{".", "..", "", "a", "b", ".h"}
var segBig = []string{".", "..", "", "a", "b", ".h", `a\b`, "...", "..a", "a.", " ", "é", "target", "parent", "sib", `..\a`, "x y", "%s", "a%20b", "100%.txt", "%!", "%d%n"}

// siblingNames: names that leave the directory through ".." and arrive at a path that has
// the directory's own path as a TEXTUAL prefix (a sibling whose name merely starts with the
// directory's name), or that come back into the directory after leaving it, or that go
// through the parent's name.  Every one of them climbs out and must be refused.  They are
// derived from the actual directory (.../parent/target).
func siblingNames() []string {
	base, par := filepath.Base(targetRel), filepath.Base(filepath.Dir(targetRel))
	var out []string
	for _, suf := range []string{"x", ".bak", "2", "-old", "_", "%s", " ", "/f", "/../" + base + "2/f", "x/deep/er"} {
		out = append(out, "../"+base+suf, "./../"+base+suf, "a/../../"+base+suf, "..//"+base+suf)
	}
	for _, suf := range []string{"", "/f", "x", "x/f", ".bak/" + base + "/f"} {
		out = append(out, "../../"+par+suf, "../../"+par+"/"+base+suf)
	}
	out = append(out, "../"+base, "../"+base+"/", "../"+base+"/.", "../"+base+"/a/b", "../sib", "../sibling", "../sd/x", "../sd/y")
	return out
}

func genEntries(r *common.RNG) []entry {
	n := 1 + r.Intn(4)
	var es []entry
	for i := 0; i < n; i++ {
		if len(es) > 0 && r.Chance(1, 6) { // duplicate name
			es = append(es, entry{Name: es[r.Intn(len(es))].Name, Data: []byte(fmt.Sprintf("dup%d", i))})
			continue
		}
		k := 1 + r.Intn(4)
		var segs []string
		for j := 0; j < k; j++ {
			if r.Chance(2, 3) {
				segs = append(segs, common.Pick(r, segSmall))
			} else {
				segs = append(segs, common.Pick(r, segBig))
			}
		}
		name := strings.Join(segs, "/")
		if r.Chance(1, 10) {
			name = common.Pick(r, siblingNames())
		}
		switch r.Intn(12) {
		case 0:
			name = "/" + name
		case 1:
			name = name + "/"
		case 2:
			name = strings.ReplaceAll(name, "/", "//")
		}
		var data []byte
		switch r.Intn(6) {
		case 0: // empty
			data = []byte{}
		case 1: // equal to something that exists in some scenario
			data = []byte(common.Pick(r, []string{"old-a", "old-ba", "old-b", "old-aa", "old-h", "i am a file", "sibling"}))
		default:
			data = []byte(fmt.Sprintf("data%d\n", i))
		}
		es = append(es, entry{Name: name, Data: data})
	}
	return es
}

func main() {
	if mode := os.Getenv(childEnv); mode != "" {
		childMain(mode)
		return
	}
	f := common.ParseFlags()
	prop := os.Getenv("VERIF_PROP")
	if prop == "" {
		prop = "C15"
	}
	res := common.NewResult(prop, f.Tier, f.Seed)
	if f.Work == "" {
		d, _ := os.MkdirTemp("", "txtarwrite")
		f.Work = d
		defer os.RemoveAll(d)
	}
	if w, err := filepath.EvalSymlinks(f.Work); err == nil {
		f.Work = w
	}
	f.Work = filepath.Clean(f.Work)
	m, err := common.StartModel(f.Model)
	if err != nil {
		fmt.Fprintln(os.Stderr, "cannot start model:", err)
		os.Exit(2)
	}
	defer m.Close()
	rn := &runner{f: f, res: res, m: m}
	startSrc(f, res) // src.go: the second model binary with the translated functions
	defer stopSrc()
	// permission bits are compared under a fixed umask
	syscall.Umask(harnessUmask)
	for _, k := range []struct {
		kind string
		dst  *os.FileMode
	}{{"D", &modelModeDir}, {"F", &modelModeFile}} {
		var v uint32
		if _, err := fmt.Sscanf(m.Ask1(fmt.Sprintf("mode %d %s", harnessUmask, k.kind)), "%d", &v); err != nil {
			res.Notes = append(res.Notes, "model did not answer the mode request: "+err.Error())
		}
		*k.dst = os.FileMode(v)
	}

	// build the two commands from the checked tree (import paths resolve through the
	// harness module's replace directive; GOFLAGS is inherited)
	binDir := filepath.Join(f.Work, "bin")
	os.MkdirAll(binDir, 0o777)
	binC, binX = filepath.Join(binDir, "txtar-c"), filepath.Join(binDir, "txtar-x")
	cliOK := true
	for _, b := range []struct{ out, pkg string }{{binC, "github.com/rogpeppe/go-internal/cmd/txtar-c"}, {binX, "github.com/rogpeppe/go-internal/cmd/txtar-x"}} {
		cmd := exec.Command("go", "build", "-o", b.out, b.pkg)
		if out, err := cmd.CombinedOutput(); err != nil {
			cliOK = false
			res.Notes = append(res.Notes, fmt.Sprintf("cannot build %s: %v: %s", b.pkg, err, out))
			res.Violate(common.Violation{Kind: "correspondence", Oracle: "build", Key: "build:" + b.pkg,
				Input: map[string]string{}, Detail: fmt.Sprintf("%v: %s", err, out)})
		}
	}

	replayCase := func(in map[string]string, tag string) {
		switch in["kind"] {
		case "write":
			var c wcase
			if json.Unmarshal([]byte(in["case_json"]), &c) == nil {
				rn.writeCase(c, tag)
			}
		case "cli":
			var c ccase
			if json.Unmarshal([]byte(in["case_json"]), &c) == nil && cliOK {
				rn.cliCase(c, tag)
			}
		case "cli-hostile":
			var c ccase
			if json.Unmarshal([]byte(in["case_json"]), &c) == nil && cliOK {
				rn.cliCase(c, "hostile-names")
			}
		case "path":
			rn.pathCase(string(common.UnHex(in["p"])))
			rn.flushPaths()
		case "bigwrite":
			var c bwcase
			if json.Unmarshal([]byte(in["case_json"]), &c) == nil {
				rn.bigWriteCase(c, tag)
			}
		case "trace":
			var c tcase
			if json.Unmarshal([]byte(in["case_json"]), &c) == nil && (cliOK || !c.ViaX) {
				rn.traceCase(c, tag)
			}
		case "fault":
			var c fcase
			if json.Unmarshal([]byte(in["case_json"]), &c) == nil {
				rn.faultCase(c, tag)
			}
		case "evil":
			if cliOK {
				rn.evilCase(in["archive"])
			}
		case "symlink":
			var es []entry
			form := 0
			fmt.Sscan(in["dirform"], &form)
			if json.Unmarshal([]byte(in["entries_json"]), &es) == nil {
				rn.symlinkCase(0, es, form)
			}
		}
	}

	if f.Replay != "" {
		rp, err := common.LoadReplay(f.Replay)
		if err != nil {
			fmt.Fprintln(os.Stderr, err)
			os.Exit(2)
		}
		replayCase(rp.Violation.Input, "replay")
		res.Rule = "replay of one recorded case"
		res.Write(f.Out)
		return
	}

	// 1. corpus first (replay-format JSON files)
	if f.Corpus != "" {
		ents, _ := filepath.Glob(filepath.Join(f.Corpus, "*.json"))
		sort.Strings(ents)
		for _, e := range ents {
			if rp, err := common.LoadReplay(e); err == nil {
				replayCase(rp.Violation.Input, "corpus")
			}
		}
	}
	thorough := f.Tier == "thorough"

	// 0. the path functions, exhaustively over a separator/dot alphabet
	maxLen := 7
	if thorough {
		maxLen = 9
	}
	enumerate([]string{"/", ".", "a", `\`}, maxLen, func(s []string) { rn.pathCase(strings.Join(s, "")) })
	rn.flushPaths()
	rn.phase("paths")

	// 2. Write: every name of up to 3 segments over the small alphabet, in every scenario
	enumerate(segSmall, 3, func(segs []string) {
		name := strings.Join(segs, "/")
		for sc := 0; sc < nScenarios; sc++ {
			form := 0
			rn.writeCase(wcase{Scenario: sc, DirForm: form, Entries: []entry{{Name: name, Data: []byte("DATA:" + name)}}}, "exhaustive")
		}
		// other ways of naming the directory, on two scenarios
		for form := 1; form < nDirForms; form++ {
			rn.writeCase(wcase{Scenario: (len(name) + form) % nScenarios, DirForm: form, Entries: []entry{{Name: name, Data: []byte("D")}}}, "exhaustive-dirforms")
		}
	})
	// the same names with EMPTY data
	enumerate(segSmall, 3, func(segs []string) {
		name := strings.Join(segs, "/")
		for sc := 0; sc < nScenarios; sc++ {
			rn.writeCase(wcase{Scenario: sc, DirForm: 0, Entries: []entry{{Name: name, Data: []byte{}}}}, "exhaustive-empty-data")
		}
	})
	// names colliding with what exists, with data empty / equal to / shorter / longer than
	// the old contents, alone and after a fresh entry, under every way of naming the directory
	for sc := 0; sc < nScenarios; sc++ {
		ex := existing(sc)
		var exNames []string
		for name := range ex {
			exNames = append(exNames, name)
		}
		sort.Strings(exNames)
		for _, name := range exNames {
			old := ex[name]
			for _, d := range dataVariants(old) {
				for form := 0; form < nDirForms; form++ {
					rn.writeCase(wcase{Scenario: sc, DirForm: form, Entries: []entry{{Name: name, Data: d}}}, "colliding")
				}
				rn.writeCase(wcase{Scenario: sc, DirForm: 0, Entries: []entry{{Name: "fresh", Data: []byte("f")}, {Name: "./" + name + "/", Data: d}}}, "colliding")
			}
		}
	}
	// names built from the directory's own name: textual-prefix siblings, re-entering names;
	// alone (so that nothing else decides the result), first and after a good entry, in
	// every scenario and under every way of naming the directory
	for i, name := range siblingNames() {
		for sc := 0; sc < nScenarios; sc++ {
			for form := 0; form < nDirForms; form++ {
				if form > 0 && (i+sc+form)%4 != 0 {
					continue
				}
				rn.writeCase(wcase{Scenario: sc, DirForm: form, Entries: []entry{{Name: name, Data: []byte("ESCAPED:" + name)}}}, "sibling-names")
			}
			rn.writeCase(wcase{Scenario: sc, DirForm: (i + sc) % nDirForms, Entries: []entry{{Name: "good", Data: []byte("g")}, {Name: name, Data: []byte("E")}, {Name: "late", Data: []byte("l")}}}, "sibling-names")
		}
	}
	// absolute / slash variants of the short names
	enumerate(segSmall, 2, func(segs []string) {
		name := strings.Join(segs, "/")
		for _, v := range []string{"/" + name, name + "/", "//" + name, name + "//" + name} {
			rn.writeCase(wcase{Scenario: len(v) % nScenarios, DirForm: 0, Entries: []entry{{Name: v, Data: []byte("V")}}}, "exhaustive-variants")
		}
	})
	// 3. random multi-entry archives, longer names, duplicates, collisions
	r := common.NewRNG(f.Seed)
	nRand := 2500
	if thorough {
		nRand = 60000
	}
	for i := 0; i < nRand; i++ {
		rn.writeCase(wcase{Scenario: r.Intn(nScenarios), DirForm: r.Intn(nDirForms), Entries: genEntries(r)}, "random")
	}

	rn.phase("write-exhaustive-and-random")
	// 3b. symbolic links inside the target (out of scope: documented and tied to Symlink.v)
	rn.symlinkCases()

	rn.phase("symlinks")
	// 3c. descriptors: open/close order of the created files (inotify), in-process
	if !fdProbeOK {
		res.Notes = append(res.Notes, "/proc/self/fd is not readable: descriptor counts not taken")
	}
	nTrace, maxTrace := 120, 40
	if thorough {
		nTrace, maxTrace = 1500, 300
	}
	for i := 0; i < nTrace; i++ {
		rn.traceCase(genTraceCase(r, maxTrace), "generated")
	}
	rn.phase("descriptor-traces")
	// 3d. failing system calls (short write under RLIMIT_FSIZE, no descriptor left)
	nFault := 60
	if thorough {
		nFault = 600
	}
	for i := 0; i < nFault; i++ {
		rn.faultCase(genFaultCase(r), "generated")
	}
	rn.phase("failing-syscalls")
	// 3e. archives of realistic size under a descriptor budget (child process)
	nBig, scale := 6, 1
	if thorough {
		nBig, scale = 24, 3
	}
	for i := 0; i < nBig; i++ {
		rn.bigWriteCase(bwcase{Spec: genBig(r, i, scale), Slack: 4 + r.Intn(8)}, "generated")
	}

	rn.phase("big-archives")
	// 4. txtar-c | txtar-x on generated trees
	if cliOK {
		nTrees := 240
		if thorough {
			nTrees = 5000
		}
		for i := 0; i < nTrees; i++ {
			c := genTree(r)
			for q := 0; q < 2; q++ {
				for a := 0; a < 2; a++ {
					c.Quote, c.All = q == 1, a == 1
					c.CDir, c.COut, c.XIn, c.XDir, c.FlagForm = r.Intn(nCDir), r.Intn(2), r.Intn(nXIn), r.Intn(nXDir), r.Intn(nFlagForm)
					rn.cliCase(c, "generated")
				}
			}
		}
		// trees with names txtar cannot represent: no round trip is promised, but txtar-x
		// must not crash and must not touch anything outside its directory
		nHostile := 150
		if thorough {
			nHostile = 3000
		}
		for i := 0; i < nHostile; i++ {
			c := genHostileTree(r)
			c.Quote, c.All = r.Bool(), r.Bool()
			c.CDir, c.COut, c.XIn, c.XDir, c.FlagForm = r.Intn(nCDir), r.Intn(2), r.Intn(nXIn), r.Intn(nXDir), r.Intn(nFlagForm)
			rn.cliCase(c, "hostile-names")
		}
		rn.phase("cli-generated-trees")
		// the same through txtar-x, watched with inotify
		for i := 0; i < nTrace/10; i++ {
			c := genTraceCase(r, maxTrace)
			c.ViaX = true
			rn.traceCase(c, "generated")
		}
		// big trees: every kind, through every input route of txtar-x and both kinds of
		// standard output of txtar-c, all flag combinations, some under a descriptor limit
		rounds := 1
		if thorough {
			rounds = 4
		}
		for round := 0; round < rounds; round++ {
			for kind := 0; kind < 6; kind++ {
				spec := genBig(r, kind, 1)
				if spec.N > 1500 && kind < 2 {
					spec.N = 800 + r.Intn(700) // the tree is read back several times
				}
				combos := 2
				if kind == 4 {
					combos = 6
				} else if kind == 5 {
					combos = 3
				}
				if kind == 4 && round == 0 {
					spec.N, spec.DataLen = 5, 4<<20+777 // tens of MiB in total once per run
				}
				for j := 0; j < combos; j++ {
					if kind == 4 && j == 1 {
						spec = genBig(r, kind, 1)
					}
					spec := spec
					c := ccase{Big: &spec, Quote: r.Bool(), All: r.Bool(), CDir: r.Intn(nCDir), COut: j % 2, XIn: (j + round) % nXIn,
						XDir: r.Intn(nXDir), FlagForm: r.Intn(nFlagForm)}
					if kind >= 4 && j < 3 {
						c.Quote = true
					}
					if kind < 4 && j == 1 {
						c.NoFile = 40 + r.Intn(24)
					}
					t0 := time.Now()
					rn.cliCase(c, "big-tree")
					if os.Getenv("VERIF_DEBUG") != "" {
						fmt.Fprintf(os.Stderr, "  big tree %s nofile=%d xin=%d cout=%d: %.1fs\n", spec.String(), c.NoFile, c.XIn, c.COut, time.Since(t0).Seconds())
					}
				}
			}
		}
		rn.phase("cli-big-trees")
		rn.rootDirCase()
		// the command built on Write refuses escaping archives too
		for _, evil := range evilArchives {
			rn.evilCase(evil)
		}
	}
	res.Rule = fmt.Sprintf("corpus; descriptor traces (inotify) of %d archives of up to %d entries, %d fault cases (RLIMIT_FSIZE / no free descriptor) in child processes, %d big archives under a descriptor budget, big trees through every route of the commands; ", nTrace, maxTrace, nFault, nBig) + fmt.Sprintf("every string over {/ . a \\} up to length %d for Clean/Dir/IsAbs/Join; txtar.Write of every name of 1..3 segments over %q in %d sandbox scenarios (plus slash/absolute variants and %d ways of naming the directory), then %d random archives of 1..4 entries with names of up to 4 segments over %q incl. duplicates; txtar-c|txtar-x on generated trees x {-quote} x {-a}; a Write case is non-trivial when a name contains \"..\", is absolute, empty or \".\", or the archive has several entries or the scenario has pre-existing objects in the target; distinct = distinct case", maxLen, segSmall, nScenarios, nDirForms, nRand, segBig)
	res.Rule += "; the functions translated from the source (src.go: txtar.Write on every third Write case and on the corpus, the walk function of txtar-c under the hand-modelled Walk on every generated tree of up to ~100 entries; all of them in the thorough tier) are run over the file-system model and compared with the implementation"
	srcTimes(res)
	res.Write(f.Out)
}

// Command txtarwrite is the correspondence + oracle runner for C15:
//
//	(0) filepath.Clean / Join / Dir / IsAbs against the Coq path model,
//	(1) txtar.Write into sandbox directories with pre-existing files, against the
//	    model's write and against direct oracles (containment, no overwrite, errors
//	    for absolute / climbing names, contents),
//	(2) the built txtar-c and txtar-x commands on generated trees, against the
//	    model's savedir/extract and against a direct round-trip oracle.
//
// Symbolic links inside the target directory are out of scope (none are created).
package main

import (
	"bytes"
	"encoding/json"
	"errors"
	"fmt"
	"io/fs"
	"os"
	"os/exec"
	"path/filepath"
	"sort"
	"strings"
	"syscall"
	"unicode/utf8"

	"github.com/rogpeppe/go-internal/txtar"

	"verif/harness/common"
)

// ------------------------------------------------------------------ snapshots

type obj struct {
	dir  bool
	data []byte
	mode os.FileMode // permission bits
}

// snapshot lists everything below root (root itself excluded), keyed by slash path.
func snapshot(root string) map[string]obj {
	m := map[string]obj{}
	filepath.Walk(root, func(p string, info os.FileInfo, err error) error {
		if err != nil || p == root {
			return nil
		}
		rel, _ := filepath.Rel(root, p)
		if info.IsDir() {
			m[rel] = obj{dir: true, mode: info.Mode().Perm()}
		} else {
			b, _ := os.ReadFile(p)
			m[rel] = obj{data: b, mode: info.Mode().Perm()}
		}
		return nil
	})
	return m
}

const modelRoot = "/r"

// fsReq renders a snapshot (plus the root) as the model's file-system argument.
func fsReq(snap map[string]obj) string {
	keys := sortedKeys(snap)
	parts := []string{fmt.Sprint(len(keys) + 1), common.Hex([]byte(modelRoot)), "D", "-"}
	for _, k := range keys {
		o := snap[k]
		if o.dir {
			parts = append(parts, common.Hex([]byte(modelRoot+"/"+k)), "D", "-")
		} else {
			parts = append(parts, common.Hex([]byte(modelRoot+"/"+k)), "F", common.Hex(o.data))
		}
	}
	return strings.Join(parts, " ")
}

// fsAns renders a snapshot the way the model driver prints a file system.
func fsAns(snap map[string]obj) string {
	type item struct {
		p string
		o obj
	}
	items := []item{{modelRoot, obj{dir: true}}}
	for k, o := range snap {
		items = append(items, item{modelRoot + "/" + k, o})
	}
	sort.Slice(items, func(i, j int) bool { return items[i].p < items[j].p })
	parts := []string{fmt.Sprint(len(items))}
	for _, it := range items {
		if it.o.dir {
			parts = append(parts, common.Hex([]byte(it.p)), "D", "-")
		} else {
			parts = append(parts, common.Hex([]byte(it.p)), "F", common.Hex(it.o.data))
		}
	}
	return strings.Join(parts, " ")
}

func sortedKeys(m map[string]obj) []string {
	var ks []string
	for k := range m {
		ks = append(ks, k)
	}
	sort.Strings(ks)
	return ks
}

// classify maps Write's error to the model's result enum without reading its text:
// a *fs.PathError gives op:errno, anything else is the "outside parent directory" refusal.
func classify(err error) string {
	if err == nil {
		return "ok"
	}
	var pe *fs.PathError
	if errors.As(err, &pe) {
		name := "OTHER"
		for _, c := range []struct {
			e syscall.Errno
			n string
		}{{syscall.EEXIST, "EEXIST"}, {syscall.ENOENT, "ENOENT"}, {syscall.ENOTDIR, "ENOTDIR"}, {syscall.EISDIR, "EISDIR"}, {syscall.EINVAL, "EINVAL"}, {syscall.ELOOP, "ELOOP"}} {
			if errors.Is(pe.Err, c.e) {
				name = c.n
			}
		}
		return pe.Op + ":" + name
	}
	return "outside"
}

// ------------------------------------------------------------------ part 1: txtar.Write

type entry struct {
	Name string
	Data []byte
}

// wcase is one Write case: a scenario of pre-existing objects, a way of naming the
// target directory, and the archive entries.
type wcase struct {
	Scenario int     `json:"scenario"`
	DirForm  int     `json:"dirform"`
	Entries  []entry `json:"entries"`
}

const nScenarios = 6
const nDirForms = 5

// setup creates the scenario under root and returns what exists.  Layout:
// root/parent/target is the directory given to Write; root/parent holds siblings.
func setupScenario(root string, sc int) {
	w := func(rel, data string) {
		p := filepath.Join(root, rel)
		os.MkdirAll(filepath.Dir(p), 0o777)
		os.WriteFile(p, []byte(data), 0o666)
	}
	d := func(rel string) { os.MkdirAll(filepath.Join(root, rel), 0o777) }
	os.MkdirAll(root, 0o777)
	switch sc {
	case 0: // empty target, siblings in parent
		d("parent/target")
		w("parent/sib", "sibling")
		w("parent/sd/x", "sx")
		w("top", "top")
	case 1: // target with files, a directory, a dot file
		d("parent/target")
		w("parent/target/a", "old-a")
		w("parent/target/b/a", "old-ba")
		w("parent/target/.h", "old-h")
		w("parent/sib", "sibling")
		w("parent/a", "parent-a")
	case 2: // target missing
		d("parent")
		w("parent/sib", "sibling")
		w("parent/a", "parent-a")
	case 3: // parent missing too
		w("top", "top")
	case 4: // target is a regular file
		w("parent/target", "i am a file")
		w("parent/sib", "sibling")
	case 5: // a is a directory, b is a file
		d("parent/target/a")
		w("parent/target/b", "old-b")
		w("parent/target/a/a", "old-aa")
		w("parent/b", "parent-b")
	}
}

// existing lists, per scenario, names (relative to the target) that collide with a
// pre-existing file, directory, the target itself, or pass through a file, with the old
// contents where the object is a file.
func existing(sc int) map[string]string {
	switch sc {
	case 0:
		return map[string]string{".": ""}
	case 1:
		return map[string]string{".": "", "a": "old-a", "b": "", "b/a": "old-ba", ".h": "old-h", "a/x": "", "b/a/x": ""}
	case 2, 3:
		return map[string]string{"n": ""}
	case 4:
		return map[string]string{".": "i am a file", "x": "", "": "i am a file"}
	case 5:
		return map[string]string{".": "", "a": "", "a/a": "old-aa", "b": "old-b", "b/x": "", "a/a/x": ""}
	}
	return nil
}

// dataVariants: empty, equal to the old contents, shorter, longer, different
func dataVariants(old string) [][]byte {
	vs := [][]byte{{}, []byte(old), []byte(old + "+longer"), []byte("zz")}
	if len(old) > 1 {
		vs = append(vs, []byte(old[:len(old)/2]))
	}
	return vs
}

// dirArg returns the directory string handed to Write, the working directory to run
// in ("" = unchanged) and whether the form is usable in the scenario.
func dirArg(root string, sc, form int) (dir, cwd string, ok bool) {
	switch form {
	case 0:
		return root + "/parent/target", "", true
	case 1:
		return root + "/parent/./target/", "", true
	case 2:
		return root + "//parent/zz/../target", "", true
	case 3: // relative to the parent
		if sc == 3 {
			return "", "", false
		}
		return "target", root + "/parent", true
	case 4: // relative, through ..
		if sc == 3 {
			return "", "", false
		}
		return "../parent/./target", root + "/parent", true
	}
	return "", "", false
}

// modelDir translates the directory string into the model's name space.
func modelDir(root, dir string) string {
	if strings.HasPrefix(dir, root) {
		return modelRoot + dir[len(root):]
	}
	return dir
}

// lexical reading of "climbs out through ..", written without filepath.Clean
func climbs(name string) bool {
	depth := 0
	for _, seg := range strings.Split(name, "/") {
		switch seg {
		case "", ".":
		case "..":
			depth--
			if depth < 0 {
				return true
			}
		default:
			depth++
		}
	}
	return false
}

type wresult struct {
	res    string
	before map[string]obj
	after  map[string]obj
	dirAbs string
}

var caseSeq int

func runWrite(work string, c wcase) (wresult, bool) {
	caseSeq++
	root := filepath.Join(work, fmt.Sprintf("w%d", caseSeq))
	defer os.RemoveAll(root)
	setupScenario(root, c.Scenario)
	dir, cwd, ok := dirArg(root, c.Scenario, c.DirForm)
	if !ok {
		return wresult{}, false
	}
	before := snapshot(root)
	a := &txtar.Archive{}
	for _, e := range c.Entries {
		a.Files = append(a.Files, txtar.File{Name: e.Name, Data: e.Data})
	}
	var err error
	func() {
		if cwd != "" {
			old, _ := os.Getwd()
			if e := os.Chdir(cwd); e != nil {
				ok = false
				return
			}
			defer os.Chdir(old)
		}
		err = txtar.Write(a, dir)
	}()
	if !ok {
		return wresult{}, false
	}
	after := snapshot(root)
	return wresult{res: classify(err), before: before, after: after, dirAbs: root + "/parent/target"}, true
}

func writeReq(root string, c wcase, before map[string]obj) string {
	dir, cwd, _ := dirArg(root, c.Scenario, c.DirForm)
	mcwd := modelRoot
	if cwd != "" {
		mcwd = modelDir(root, cwd)
	}
	parts := []string{"write", common.Hex([]byte(mcwd)), common.Hex([]byte(modelDir(root, dir))), fsReq(before), fmt.Sprint(len(c.Entries))}
	for _, e := range c.Entries {
		parts = append(parts, common.Hex([]byte(e.Name)), common.Hex(e.Data))
	}
	return strings.Join(parts, " ")
}

const targetRel = "parent/target"

func under(rel, dir string) bool { return rel == dir || strings.HasPrefix(rel, dir+"/") }

// writeOracles evaluates the property directly; it returns the names of the failed oracles.
func writeOracles(c wcase, r wresult) []string {
	var bad []string
	add := func(s string) {
		for _, b := range bad {
			if b == s {
				return
			}
		}
		bad = append(bad, s)
	}
	// nothing existing was changed or removed, anywhere
	for k, o := range r.before {
		n, ok := r.after[k]
		if !ok || n.dir != o.dir || !bytes.Equal(n.data, o.data) || n.mode != o.mode {
			add("write/never-overwrites")
		}
	}
	// every new object is the target directory or beneath it, except directories on
	// the way down to the target
	for k, n := range r.after {
		if _, ok := r.before[k]; ok {
			continue
		}
		if under(k, targetRel) {
			continue
		}
		if n.dir && under(targetRel, k) {
			continue
		}
		add("write/contained")
	}
	// an entry whose target existed before the call (file or directory) must be an error
	if r.res == "ok" {
		for _, e := range c.Entries {
			if strings.HasPrefix(e.Name, "/") || climbs(e.Name) {
				continue
			}
			if _, existed := r.before[filepath.Join(targetRel, e.Name)]; existed {
				add("write/existing-is-error")
			}
		}
	}
	// success implies no absolute and no climbing name
	if r.res == "ok" {
		for _, e := range c.Entries {
			if strings.HasPrefix(e.Name, "/") || climbs(e.Name) {
				add("write/rejects")
			}
		}
		for _, e := range c.Entries {
			rel := filepath.Join(targetRel, e.Name)
			if strings.HasPrefix(e.Name, "/") || climbs(e.Name) {
				continue
			}
			o, ok := r.after[rel]
			if !ok || o.dir || !bytes.Equal(o.data, e.Data) {
				add("write/contents")
			}
		}
	}
	return bad
}

// ------------------------------------------------------------------ part 2: txtar-c / txtar-x

type tfile struct {
	Path string
	Data []byte
}

type ccase struct {
	Files   []tfile  `json:"files"`
	Dirs    []string `json:"dirs"` // extra (possibly empty) directories
	Quote   bool     `json:"quote"`
	All     bool     `json:"all"`
	RelMode bool     `json:"relmode"` // txtar-x run inside the output directory without -C
}

var nameAtoms = []string{"a", "b.txt", "c", ".hid", ".d", "sub", "x y", "é", "a.b", "-q", "..x", "z-- q --", "UP", "0", "100%.txt", "a%20b", "%s", "%!", "%d%n"}
var lineAtoms = []string{"hello", "", "-- a --", "--a --", "-- a--", "-- --", "-- sub/x --", ">", ">-- a --", " -- a --", "-- a -- ", "unquote a", "x -- a --", "-- a --\r", "tab\there", "é", "-- é --", "%s %d %v", "100%", "-- %s --", "%!(EXTRA)"}

func genTree(r *common.RNG) ccase {
	var c ccase
	seen := map[string]bool{}
	isDir := map[string]bool{}
	nf := r.Intn(7)
	for i := 0; i < nf; i++ {
		depth := r.Intn(3)
		var segs []string
		for j := 0; j <= depth; j++ {
			segs = append(segs, common.Pick(r, nameAtoms))
		}
		p := strings.Join(segs, "/")
		// keep the tree a tree: no file where a directory is, no directory where a file is
		okp := !seen[p] && !isDir[p]
		for j := 1; j < len(segs); j++ {
			if seen[strings.Join(segs[:j], "/")] {
				okp = false
			}
		}
		if !okp {
			continue
		}
		seen[p] = true
		for j := 1; j < len(segs); j++ {
			isDir[strings.Join(segs[:j], "/")] = true
		}
		c.Files = append(c.Files, tfile{Path: p, Data: genContent(r)})
	}
	// regularly: two or three files that need quoting, in nested directories, with distinct
	// contents of different lengths (results of earlier Quote calls must survive later ones)
	if r.Chance(1, 2) {
		k := 2 + r.Intn(2)
		for i := 0; i < k; i++ {
			p := fmt.Sprintf("q%d/n%%d/%s", i, common.Pick(r, []string{"m.txt", "100%.txt", "%s", "x y"}))
			if i == 0 {
				p = fmt.Sprintf("q%d/%s", i, common.Pick(r, []string{"m.txt", "a%20b"}))
			}
			if seen[p] || seen[strings.Split(p, "/")[0]] || isDir[p] {
				continue
			}
			seen[p] = true
			segs := strings.Split(p, "/")
			for j := 1; j < len(segs); j++ {
				isDir[strings.Join(segs[:j], "/")] = true
			}
			body := fmt.Sprintf("file %d %%s\n-- marker%d --\n", i, i) + strings.Repeat(fmt.Sprintf("line %d of %d%%\n", i, i), 1+3*i)
			if r.Chance(1, 3) {
				body += "-- tail --"
			}
			c.Files = append(c.Files, tfile{Path: p, Data: []byte(body)})
		}
	}
	if r.Chance(1, 4) {
		d := common.Pick(r, nameAtoms) + "/" + common.Pick(r, nameAtoms)
		if !seen[d] && !seen[strings.Split(d, "/")[0]] {
			c.Dirs = append(c.Dirs, d)
		}
	}
	return c
}

// names txtar cannot represent (leading/trailing white space, newlines, marker look-alikes)
var hostileAtoms = []string{" a", "a ", "a\nb", "x\n-- y --", "-- x --", "a\r", "\ta", "a\u00a0", "\u3000", "x --", "-- ", "a\n", "\n", " ", "b\n-- .. --", "c\n-- . --", "ok"}

func genHostileTree(r *common.RNG) ccase {
	var c ccase
	seen := map[string]bool{}
	for i, n := 0, 1+r.Intn(4); i < n; i++ {
		p := common.Pick(r, hostileAtoms)
		if r.Chance(1, 3) {
			p = common.Pick(r, []string{"d", "sub", " d", "e\n"}) + "/" + p
		}
		top := strings.Split(p, "/")[0]
		if seen[p] || seen[top] {
			continue
		}
		seen[p], seen[top] = true, true
		c.Files = append(c.Files, tfile{Path: p, Data: genContent(r)})
	}
	return c
}

func genContent(r *common.RNG) []byte {
	switch r.Intn(12) {
	case 0:
		return nil
	case 1:
		return []byte{'o', 'k', 0xff, '\n'}
	case 2:
		return []byte("\xc3(")
	}
	n := r.Intn(5) + 1
	var b []byte
	for i := 0; i < n; i++ {
		b = append(b, common.Pick(r, lineAtoms)...)
		if i < n-1 || r.Chance(3, 4) {
			if r.Chance(1, 8) {
				b = append(b, '\r')
			}
			b = append(b, '\n')
		}
	}
	return b
}

// an independent, line-based reading of "contains a file marker line"
func hasMarkerLine(x []byte) bool {
	for _, l := range bytes.SplitAfter(x, []byte("\n")) {
		l = bytes.TrimSuffix(l, []byte("\n"))
		l = bytes.TrimSuffix(l, []byte("\r"))
		if len(l) >= 6 && bytes.HasPrefix(l, []byte("-- ")) && bytes.HasSuffix(l, []byte(" --")) &&
			strings.TrimSpace(string(l[3:len(l)-3])) != "" {
			return true
		}
	}
	return false
}

type cresult struct {
	archive []byte
	cRC     int
	xRC     int
	out     map[string]obj
	outDir  bool     // the output directory exists afterwards
	outFile *obj     // the output path is a regular file afterwards (an entry named "." does that)
	outside []string // objects outside the output directory that txtar-x changed or created
}

var binC, binX string

func runCmd(dir string, stdin []byte, name string, args ...string) ([]byte, int) {
	cmd := exec.Command(name, args...)
	cmd.Dir = dir
	if stdin != nil {
		cmd.Stdin = bytes.NewReader(stdin)
	}
	var out bytes.Buffer
	cmd.Stdout = &out
	err := cmd.Run()
	rc := 0
	if err != nil {
		rc = 1
		var ee *exec.ExitError
		if errors.As(err, &ee) {
			rc = ee.ExitCode()
		}
	}
	return out.Bytes(), rc
}

func runCLI(work string, c ccase) cresult {
	caseSeq++
	root := filepath.Join(work, fmt.Sprintf("c%d", caseSeq))
	defer os.RemoveAll(root)
	src := filepath.Join(root, "src")
	os.MkdirAll(src, 0o777)
	for _, f := range c.Files {
		p := filepath.Join(src, f.Path)
		os.MkdirAll(filepath.Dir(p), 0o777)
		os.WriteFile(p, f.Data, 0o666)
	}
	for _, d := range c.Dirs {
		os.MkdirAll(filepath.Join(src, d), 0o777)
	}
	var args []string
	if c.Quote {
		args = append(args, "-quote")
	}
	if c.All {
		args = append(args, "-a")
	}
	args = append(args, src)
	var res cresult
	res.archive, res.cRC = runCmd(root, nil, binC, args...)
	out := filepath.Join(root, "out")
	var before map[string]obj
	if c.RelMode {
		os.MkdirAll(out, 0o777)
		before = snapshot(root)
		_, res.xRC = runCmd(out, res.archive, binX)
	} else {
		af := filepath.Join(root, "a.txtar")
		os.WriteFile(af, res.archive, 0o666)
		before = snapshot(root)
		_, res.xRC = runCmd(root, nil, binX, "-C", out, af)
	}
	after := snapshot(root)
	for _, k := range sortedKeys(after) {
		if under(k, "out") {
			continue
		}
		o, ok := before[k]
		n := after[k]
		if !ok || o.dir != n.dir || !bytes.Equal(o.data, n.data) || o.mode != n.mode {
			res.outside = append(res.outside, k)
		}
	}
	for _, k := range sortedKeys(before) {
		if _, ok := after[k]; !ok {
			res.outside = append(res.outside, k)
		}
	}
	res.out = snapshot(out)
	if st, err := os.Stat(out); err == nil && st.IsDir() {
		res.outDir = true
	} else if err == nil {
		b, _ := os.ReadFile(out)
		res.outFile = &obj{data: b, mode: st.Mode().Perm()}
	}
	return res
}

// cliOracle: the round trip evaluated without the model.
func cliOracle(c ccase, r cresult) []string {
	var bad []string
	if r.cRC != 0 {
		return []string{"cli/txtar-c-exit"}
	}
	if r.xRC != 0 {
		return []string{"cli/txtar-x-exit"}
	}
	a := txtar.Parse(r.archive)
	unq := map[string]bool{}
	for _, l := range strings.Split(string(a.Comment), "\n") {
		if strings.HasPrefix(l, "unquote ") {
			unq[strings.TrimPrefix(l, "unquote ")] = true
		}
	}
	want := map[string][]byte{}
	for _, f := range c.Files {
		dotted := false
		for _, seg := range strings.Split(f.Path, "/") {
			if strings.HasPrefix(seg, ".") {
				dotted = true
			}
		}
		if dotted && !c.All {
			continue
		}
		if !utf8.Valid(f.Data) {
			continue
		}
		d := f.Data
		if len(d) > 0 && d[len(d)-1] != '\n' {
			d = append(append([]byte{}, d...), '\n')
		}
		if hasMarkerLine(d) && !c.Quote {
			continue
		}
		want[f.Path] = d
	}
	nfiles := 0
	for k, o := range r.out {
		if o.dir {
			continue
		}
		nfiles++
		w, ok := want[k]
		if !ok {
			bad = append(bad, "cli/unexpected-file")
			continue
		}
		got := o.data
		if hasMarkerLine(w) {
			if !unq[k] {
				bad = append(bad, "cli/unquote-line-missing")
			}
			u, err := txtar.Unquote(got)
			if err != nil {
				bad = append(bad, "cli/unquote-fails")
				continue
			}
			got = u
		} else if unq[k] {
			bad = append(bad, "cli/unquote-line-spurious")
		}
		if !bytes.Equal(got, w) {
			bad = append(bad, "cli/content")
		}
	}
	if nfiles != len(want) {
		bad = append(bad, "cli/file-missing")
	}
	return bad
}

// ------------------------------------------------------------------ symbolic links (out of scope)

type lobj struct {
	kind string // D, F, L
	data []byte // contents or link target
}

func lsnapshot(root string) map[string]lobj {
	m := map[string]lobj{}
	filepath.Walk(root, func(p string, info os.FileInfo, err error) error {
		if err != nil || p == root {
			return nil
		}
		rel, _ := filepath.Rel(root, p)
		switch {
		case info.Mode()&os.ModeSymlink != 0:
			t, _ := os.Readlink(p)
			m[rel] = lobj{"L", []byte(t)}
		case info.IsDir():
			m[rel] = lobj{"D", nil}
		default:
			b, _ := os.ReadFile(p)
			m[rel] = lobj{"F", b}
		}
		return nil
	})
	return m
}

func lfs(snap map[string]lobj, root string) (n int, parts []string) {
	var keys []string
	for k := range snap {
		keys = append(keys, k)
	}
	sort.Strings(keys)
	parts = append(parts, common.Hex([]byte(modelRoot)), "D", "-")
	for _, k := range keys {
		o := snap[k]
		d := o.data
		if o.kind == "L" && strings.HasPrefix(string(d), root) {
			d = []byte(modelRoot + string(d[len(root):]))
		}
		if o.kind == "D" {
			parts = append(parts, common.Hex([]byte(modelRoot+"/"+k)), "D", "-")
		} else {
			parts = append(parts, common.Hex([]byte(modelRoot+"/"+k)), o.kind, common.Hex(d))
		}
	}
	return len(keys) + 1, parts
}

// symlinkCases: the target directory contains symbolic links.  This is outside the scope
// of the property ("pre-existing files"); the cases document what the real code does
// (os.MkdirAll / os.OpenFile follow links in directory components, so an entry "link/x"
// creates a file where the link points) and tie the symlink variant of the model
// (Symlink.v, about which the refutation of containment is proved) to the code.  An escape
// is counted and noted, never reported as a violation.
func (rn *runner) symlinkCases() {
	res := rn.res
	entriesList := [][]entry{
		{{"link/x", []byte("DATA")}},
		{{"abs/sub/y", []byte("D2")}},
		{{"dangling/z", []byte("Z")}},
		{{"dangling", []byte("Z")}},
		{{"lf", []byte("X")}},
		{{"lf/x", []byte("X")}},
		{{"link", []byte("X")}},
		{{"loop/x", []byte("X")}},
		{{"loop", []byte("X")}},
		{{"ok/f", []byte("fine")}, {"link/../t2", []byte("lexical")}, {"link/x", []byte("DATA")}, {"link/x", []byte("again")}},
		{{"in/f", []byte("inside")}},
		{{"in/../up", []byte("u")}},
		{{"chain/q", []byte("Q")}},
		{{"dangling2", []byte("through a dangling link that points outside")}},
	}
	escapes := 0
	for i, es := range entriesList {
		for form := 0; form < 2; form++ {
			caseSeq++
			root := filepath.Join(rn.f.Work, fmt.Sprintf("s%d", caseSeq))
			os.MkdirAll(filepath.Join(root, "parent/target/real"), 0o777)
			os.MkdirAll(filepath.Join(root, "parent/out"), 0o777)
			os.WriteFile(filepath.Join(root, "parent/sib"), []byte("sibling"), 0o666)
			t := filepath.Join(root, "parent/target")
			os.Symlink("../out", filepath.Join(t, "link"))
			os.Symlink(filepath.Join(root, "parent/out"), filepath.Join(t, "abs"))
			os.Symlink("nowhere", filepath.Join(t, "dangling"))
			os.Symlink("../nowhere2", filepath.Join(t, "dangling2"))
			os.Symlink("../sib", filepath.Join(t, "lf"))
			os.Symlink("loop", filepath.Join(t, "loop"))
			os.Symlink("real", filepath.Join(t, "in"))
			os.Symlink("link", filepath.Join(t, "chain"))
			before := lsnapshot(root)
			a := &txtar.Archive{}
			for _, e := range es {
				a.Files = append(a.Files, txtar.File{Name: e.Name, Data: e.Data})
			}
			dir, mdir, mcwd := t, modelRoot+"/parent/target", modelRoot
			var err error
			if form == 1 {
				old, _ := os.Getwd()
				os.Chdir(filepath.Join(root, "parent"))
				dir, mdir, mcwd = "target", "target", modelRoot+"/parent"
				err = txtar.Write(a, dir)
				os.Chdir(old)
			} else {
				err = txtar.Write(a, dir)
			}
			after := lsnapshot(root)
			n, parts := lfs(before, root)
			req := []string{"swrite", common.Hex([]byte(mcwd)), common.Hex([]byte(mdir)), fmt.Sprint(n)}
			req = append(req, parts...)
			req = append(req, fmt.Sprint(len(es)))
			for _, e := range es {
				req = append(req, common.Hex([]byte(e.Name)), common.Hex(e.Data))
			}
			want := rn.m.Ask1(strings.Join(req, " "))
			n2, parts2 := lfs(after, root)
			got := classify(err) + " " + fmt.Sprint(n2) + " " + strings.Join(parts2, " ")
			res.Case(fmt.Sprintf("symlink:%d:%d", i, form), true)
			res.Count("symlink:cases")
			res.Count("symlink:result:" + classify(err))
			in := map[string]string{"kind": "symlink", "entries_text": entriesInput(es)["entries_text"], "dirform": fmt.Sprint(form)}
			if want != got {
				res.Count("mismatch:swrite")
				res.Violate(common.Violation{Kind: "correspondence", Oracle: "swrite", Input: in, Model: want, Impl: got,
					Key: fmt.Sprintf("swrite:%d:%d", i, form), Detail: "symlink variant of the model and txtar.Write differ"})
			}
			for k, o := range after {
				if _, old := before[k]; !old && !under(k, targetRel) {
					escapes++
					res.Count("symlink:object-created-outside-target")
					if escapes == 1 {
						res.Notes = append(res.Notes, fmt.Sprintf("out of scope, not a violation: with a pre-existing symbolic link %s/link -> ../out inside the target directory, txtar.Write of the entry %q created %s %s outside the target (os.MkdirAll/os.OpenFile follow links in directory components; proved for the model as symlink_containment_refuted)", targetRel, es[0].Name, o.kind, k))
					}
				}
			}
			// what does hold with links: nothing that existed was changed
			for k, o := range before {
				if n, ok := after[k]; !ok || n.kind != o.kind || !bytes.Equal(n.data, o.data) {
					res.Violate(common.Violation{Kind: "impl-violation", Oracle: "write/never-overwrites", Input: in,
						Impl: fmt.Sprintf("%s changed", k), Key: fmt.Sprintf("symlink-overwrite:%d:%d", i, form),
						Detail: "an existing object changed in a sandbox whose target contains symbolic links"})
				}
			}
			os.RemoveAll(root)
		}
	}
}

// ------------------------------------------------------------------ permission bits

const harnessUmask = 0o022

var modelModeDir, modelModeFile os.FileMode

// checkModes compares the permission bits of every object that is new in after with the
// model's created_mode under the harness umask.
func (rn *runner) checkModes(before, after map[string]obj, in map[string]string, key string) {
	for _, k := range sortedKeys(after) {
		if _, old := before[k]; old {
			continue
		}
		o := after[k]
		want := modelModeFile
		if o.dir {
			want = modelModeDir
		}
		rn.res.Count("modes:checked")
		if o.mode != want {
			rn.res.Count("mismatch:modes")
			rn.res.Violate(common.Violation{Kind: "correspondence", Oracle: "modes", Input: in,
				Model: fmt.Sprintf("%o", want), Impl: fmt.Sprintf("%s has mode %o", k, o.mode), Key: "modes:" + key,
				Detail: "permission bits of a created object differ from the model's created_mode (perm constants of Write with the umask 022 cleared)"})
			return
		}
	}
}

// ------------------------------------------------------------------ main

type runner struct {
	f   *common.Flags
	res *common.Result
	m   *common.Model
}

func entriesInput(es []entry) map[string]string {
	in := map[string]string{}
	b, _ := json.Marshal(es)
	in["entries_json"] = string(b)
	var t []string
	for _, e := range es {
		t = append(t, fmt.Sprintf("%q=%q", e.Name, e.Data))
	}
	in["entries_text"] = strings.Join(t, " ")
	return in
}

func (rn *runner) writeCase(c wcase, tag string) {
	r, ok := runWrite(rn.f.Work, c)
	if !ok {
		return
	}
	res := rn.res
	res.Count("write:src:" + tag)
	res.Count(fmt.Sprintf("write:scenario%d", c.Scenario))
	res.Count(fmt.Sprintf("write:dirform%d", c.DirForm))
	res.Count("write:result:" + r.res)
	key := fmt.Sprintf("w:%d:%d:%v", c.Scenario, c.DirForm, c.Entries)
	nontrivial := false
	for _, e := range c.Entries {
		if strings.Contains(e.Name, "..") || strings.HasPrefix(e.Name, "/") || e.Name == "" || e.Name == "." {
			nontrivial = true
		}
	}
	if len(c.Entries) > 1 || c.Scenario != 0 {
		nontrivial = true
	}
	res.Case(key, nontrivial)
	// model
	root := filepath.Join(rn.f.Work, fmt.Sprintf("w%d", caseSeq))
	want := rn.m.Ask1(writeReq(root, c, r.before))
	got := r.res + " " + fsAns(r.after)
	input := func() map[string]string {
		in := entriesInput(c.Entries)
		in["case_json"] = mustJSON(c)
		in["kind"] = "write"
		return in
	}
	for _, o := range writeOracles(c, r) {
		res.Count("oracle-fails:" + o)
		cc := c
		cc.Entries = common.ShrinkList(c.Entries, func(es []entry) bool {
			c2 := c
			c2.Entries = es
			r2, ok := runWrite(rn.f.Work, c2)
			if !ok {
				return false
			}
			for _, o2 := range writeOracles(c2, r2) {
				if o2 == o {
					return true
				}
			}
			return false
		})
		in := entriesInput(cc.Entries)
		in["case_json"] = mustJSON(cc)
		in["kind"] = "write"
		var names []string
		for _, e := range cc.Entries {
			names = append(names, e.Name)
		}
		var news []string
		if r2, ok := runWrite(rn.f.Work, cc); ok {
			for _, k := range sortedKeys(r2.after) {
				if _, old := r2.before[k]; !old {
					if r2.after[k].dir {
						news = append(news, "dir "+k)
					} else {
						news = append(news, fmt.Sprintf("file %s %q", k, r2.after[k].data))
					}
				}
			}
			in["existing_before"] = strings.Join(sortedKeys(r2.before), " ")
		}
		res.Violate(common.Violation{Kind: "impl-violation", Oracle: o, Input: in,
			Impl: fmt.Sprintf("result=%s; new objects relative to the sandbox root: %q", r.res, news), Key: fmt.Sprintf("%s:scenario%d:%q", o, c.Scenario, names),
			Detail: fmt.Sprintf("txtar.Write into %s (scenario %d: see setupScenario; dir form %d): property C15 evaluated directly on the implementation", targetRel, c.Scenario, c.DirForm)})
	}
	rn.checkModes(r.before, r.after, input(), key)
	if want != got {
		res.Count("mismatch:write")
		res.Violate(common.Violation{Kind: "correspondence", Oracle: "write", Input: input(),
			Model: want, Impl: got, Key: "write:" + key,
			Detail: "model write and txtar.Write differ (result enum or resulting tree)"})
	}
	if caseSeq%997 == 1 {
		res.Sample(map[string]any{"kind": "write", "case": c, "result": r.res})
	}
}

func mustJSON(v any) string {
	b, _ := json.Marshal(v)
	return string(b)
}

// cliCase runs one txtar-c | txtar-x case.  With hostile (file names txtar cannot
// represent) the round-trip oracle does not apply: only "no crash" and "nothing outside
// the output directory" are required, and the model is still compared.
func (rn *runner) cliCase(c ccase, tag string) {
	hostile := tag == "hostile-names"
	r := runCLI(rn.f.Work, c)
	res := rn.res
	res.Count("cli:src:" + tag)
	res.Count(fmt.Sprintf("cli:quote=%v,all=%v", c.Quote, c.All))
	res.Count(fmt.Sprintf("cli:files=%d", len(c.Files)))
	nfiles := 0
	for _, o := range r.out {
		if !o.dir {
			nfiles++
		}
	}
	res.Case("c:"+mustJSON(c), len(c.Files) > 0)
	if bytes.Contains(r.archive, []byte("unquote ")) {
		res.Count("cli:has-unquote-line")
	}
	if n := bytes.Count(r.archive, []byte("\nunquote ")) + b2i(bytes.HasPrefix(r.archive, []byte("unquote "))); n >= 2 {
		res.Count("cli:two-or-more-quoted-files")
	}
	in := map[string]string{"kind": "cli", "case_json": mustJSON(c)}
	if hostile {
		in["kind"] = "cli-hostile"
	}
	var failed []string
	if !hostile {
		failed = cliOracle(c, r)
	}
	if (r.cRC != 0 && r.cRC != 1) || (r.xRC != 0 && r.xRC != 1) {
		failed = append(failed, "cli/no-crash")
	}
	if len(r.outside) > 0 {
		failed = append(failed, "cli/txtar-x-contained")
	}
	res.Count(fmt.Sprintf("cli:txtar-x-rc=%d", r.xRC))
	for _, o := range failed {
		res.Count("oracle-fails:" + o)
		res.Violate(common.Violation{Kind: "impl-violation", Oracle: o, Input: in,
			Impl: fmt.Sprintf("txtar-c rc=%d txtar-x rc=%d changed outside=%q archive=%q", r.cRC, r.xRC, r.outside, r.archive),
			Key:  o + ":" + mustJSON(c.Files), Detail: "txtar-c then txtar-x does not reproduce the archived files"})
	}
	// model: the archive bytes
	parts := []string{"savedir", b01(c.Quote), b01(c.All), fmt.Sprint(len(c.Files))}
	for _, f := range c.Files {
		parts = append(parts, common.Hex([]byte(f.Path)), common.Hex(f.Data))
	}
	marc := rn.m.Ask1(strings.Join(parts, " "))
	if marc != common.Hex(r.archive) {
		res.Count("mismatch:savedir")
		res.Violate(common.Violation{Kind: "correspondence", Oracle: "savedir", Input: in,
			Model: marc, Impl: common.Hex(r.archive), Key: "savedir:" + mustJSON(c),
			Detail: "model txtar_c and the bytes printed by txtar-c differ"})
		return
	}
	// model: the same through the rose-tree walk, with the empty directories
	tparts := append([]string{"savedirtree"}, parts[1:]...)
	tparts = append(tparts, fmt.Sprint(len(c.Dirs)))
	for _, d := range c.Dirs {
		tparts = append(tparts, common.Hex([]byte(d)))
	}
	if mt := rn.m.Ask1(strings.Join(tparts, " ")); mt != common.Hex(r.archive) {
		res.Count("mismatch:savedirtree")
		res.Violate(common.Violation{Kind: "correspondence", Oracle: "savedirtree", Input: in,
			Model: mt, Impl: common.Hex(r.archive), Key: "savedirtree:" + mustJSON(c),
			Detail: "model savedir_tree (filepath.Walk on the tree) and the bytes printed by txtar-c differ"})
	}
	// model: extraction of those bytes into an empty directory
	var req string
	if c.RelMode {
		req = strings.Join([]string{"extract", common.Hex([]byte(modelRoot + "/out")), common.Hex([]byte(".")),
			"2", common.Hex([]byte(modelRoot)), "D", "-", common.Hex([]byte(modelRoot + "/out")), "D", "-", common.Hex(r.archive)}, " ")
	} else {
		req = strings.Join([]string{"extract", common.Hex([]byte(modelRoot)), common.Hex([]byte(modelRoot + "/out")),
			"1", common.Hex([]byte(modelRoot)), "D", "-", common.Hex(r.archive)}, " ")
	}
	mext := rn.m.Ask1(req)
	snap := map[string]obj{}
	for k, o := range r.out {
		snap["out/"+k] = o
	}
	if r.outDir {
		snap["out"] = obj{dir: true}
	} else if r.outFile != nil {
		snap["out"] = *r.outFile
	}
	rn.checkModes(map[string]obj{}, r.out, in, "cli:"+mustJSON(c))
	rcs := "ok"
	if r.xRC != 0 {
		rcs = "fail"
	}
	got := rcs + " " + fsAns(snap)
	if !strings.HasPrefix(mext, "ok ") {
		mext = "fail " + strings.SplitN(mext, " ", 2)[1]
	}
	if mext != got {
		res.Count("mismatch:extract")
		res.Violate(common.Violation{Kind: "correspondence", Oracle: "extract", Input: in,
			Model: mext, Impl: got, Key: "extract:" + mustJSON(c),
			Detail: "model extract and txtar-x differ on the extracted tree"})
	}
	if caseSeq%211 == 1 {
		res.Sample(map[string]any{"kind": "cli", "case": c, "archive": string(r.archive), "extracted_files": nfiles})
	}
}

// rootDirCase runs `txtar-c /` inside a chroot holding two files: the names come out
// absolute (TrimPrefix(path, "//") removes nothing), as the model's entry_name says, and
// txtar-x refuses the archive.  Skipped with a note when chroot is not permitted.
func (rn *runner) rootDirCase() {
	res := rn.res
	caseSeq++
	root := filepath.Join(rn.f.Work, fmt.Sprintf("root%d", caseSeq))
	defer os.RemoveAll(root)
	os.MkdirAll(filepath.Join(root, "a"), 0o777)
	os.WriteFile(filepath.Join(root, "a", "b"), []byte("hello\n"), 0o666)
	os.WriteFile(filepath.Join(root, "top"), []byte("t\n"), 0o666)
	bin, err := os.ReadFile(binC)
	if err != nil || os.WriteFile(filepath.Join(root, "txtar-c"), bin, 0o755) != nil {
		res.Notes = append(res.Notes, "txtar-c /: cannot stage the binary")
		return
	}
	cmd := exec.Command("/txtar-c", "/")
	cmd.Path = "/txtar-c"
	cmd.Dir = "/"
	cmd.SysProcAttr = &syscall.SysProcAttr{Chroot: root}
	var out bytes.Buffer
	cmd.Stdout = &out
	if err := cmd.Run(); err != nil {
		res.Notes = append(res.Notes, "txtar-c /: not run (chroot or static binary unavailable): "+err.Error())
		return
	}
	res.Case("rootdir", true)
	res.Count("cli:rootdir")
	a := txtar.Parse(out.Bytes())
	var names []string
	for _, f := range a.Files {
		names = append(names, f.Name)
	}
	var want []string
	for _, p := range []string{"a/b", "top"} {
		want = append(want, string(common.UnHex(rn.m.Ask1("entryname "+common.Hex([]byte("/"))+" "+common.Hex([]byte(p))))))
	}
	if strings.Join(names, "|") != strings.Join(want, "|") {
		res.Violate(common.Violation{Kind: "correspondence", Oracle: "entryname", Key: "entryname:/",
			Input: map[string]string{"kind": "rootdir"}, Model: fmt.Sprintf("%q", want), Impl: fmt.Sprintf("%q", names),
			Detail: "names in the archive printed by `txtar-c /` (in a chroot) differ from the model's entry_name"})
	}
	// txtar-x must refuse it and write nothing
	x := filepath.Join(rn.f.Work, fmt.Sprintf("rootx%d", caseSeq))
	os.MkdirAll(filepath.Join(x, "p"), 0o777)
	defer os.RemoveAll(x)
	before := snapshot(x)
	_, rc := runCmd(filepath.Join(x, "p"), out.Bytes(), binX)
	after := snapshot(x)
	if rc != 1 || len(after) != len(before) {
		res.Violate(common.Violation{Kind: "impl-violation", Oracle: "cli/txtar-x-contained", Key: "rootdir-extract",
			Input: map[string]string{"kind": "rootdir", "archive": out.String()}, Impl: fmt.Sprintf("rc=%d after=%v", rc, sortedKeys(after)),
			Detail: "txtar-x on the archive of `txtar-c /` (absolute names) must fail and write nothing"})
	}
}

func b2i(b bool) int {
	if b {
		return 1
	}
	return 0
}

func b01(b bool) string {
	if b {
		return "1"
	}
	return "0"
}

func (rn *runner) pathCase(p string) {
	res := rn.res
	hx := common.Hex([]byte(p))
	reqs := []string{"clean " + hx, "dir " + hx, "isabs " + hx,
		"join " + common.Hex([]byte("/s/t")) + " " + hx, "join " + common.Hex([]byte("x/../..")) + " " + hx, "join - " + hx}
	impl := []string{common.Hex([]byte(filepath.Clean(p))), common.Hex([]byte(filepath.Dir(p))), fmt.Sprint(filepath.IsAbs(p)),
		common.Hex([]byte(filepath.Join("/s/t", p))), common.Hex([]byte(filepath.Join("x/../..", p))), common.Hex([]byte(filepath.Join("", p)))}
	pathBatch = append(pathBatch, pathPending{p, reqs, impl})
	res.Case("p:"+p, strings.Contains(p, ".."))
	res.Count("path:cases")
	if len(pathBatch) >= 2000 {
		rn.flushPaths()
	}
}

type pathPending struct {
	p    string
	reqs []string
	impl []string
}

var pathBatch []pathPending

func (rn *runner) flushPaths() {
	var reqs []string
	for _, b := range pathBatch {
		reqs = append(reqs, b.reqs...)
	}
	ans, err := rn.m.Ask(reqs)
	if err != nil {
		rn.res.Violate(common.Violation{Kind: "correspondence", Oracle: "model-process", Key: "model-died", Detail: err.Error(), Input: map[string]string{}})
		pathBatch = nil
		return
	}
	k := 0
	for _, b := range pathBatch {
		for i := range b.reqs {
			if ans[k] != b.impl[i] {
				fn := strings.Fields(b.reqs[i])[0]
				rn.res.Count("mismatch:" + fn)
				rn.res.Violate(common.Violation{Kind: "correspondence", Oracle: "path/" + fn,
					Input: map[string]string{"kind": "path", "p": common.Hex([]byte(b.p)), "p_text": fmt.Sprintf("%q", b.p), "request": b.reqs[i]},
					Model: ans[k], Impl: b.impl[i], Key: "path/" + fn + ":" + b.p})
			}
			k++
		}
	}
	pathBatch = nil
}

func enumerate(sigma []string, maxLen int, f func([]string)) {
	buf := make([]string, maxLen)
	var rec func(n, i int)
	rec = func(n, i int) {
		if i == n {
			f(buf[:n])
			return
		}
		for _, c := range sigma {
			buf[i] = c
			rec(n, i+1)
		}
	}
	for n := 1; n <= maxLen; n++ {
		rec(n, 0)
	}
}

var segSmall = []string{".", "..", "", "a", "b", ".h"}
var segBig = []string{".", "..", "", "a", "b", ".h", `a\b`, "...", "..a", "a.", " ", "é", "target", "parent", "sib", `..\a`, "x y", "%s", "a%20b", "100%.txt", "%!", "%d%n"}

func genEntries(r *common.RNG) []entry {
	n := 1 + r.Intn(4)
	var es []entry
	for i := 0; i < n; i++ {
		if len(es) > 0 && r.Chance(1, 6) { // duplicate name
			es = append(es, entry{Name: es[r.Intn(len(es))].Name, Data: []byte(fmt.Sprintf("dup%d", i))})
			continue
		}
		k := 1 + r.Intn(4)
		var segs []string
		for j := 0; j < k; j++ {
			if r.Chance(2, 3) {
				segs = append(segs, common.Pick(r, segSmall))
			} else {
				segs = append(segs, common.Pick(r, segBig))
			}
		}
		name := strings.Join(segs, "/")
		switch r.Intn(12) {
		case 0:
			name = "/" + name
		case 1:
			name = name + "/"
		case 2:
			name = strings.ReplaceAll(name, "/", "//")
		}
		var data []byte
		switch r.Intn(6) {
		case 0: // empty
			data = []byte{}
		case 1: // equal to something that exists in some scenario
			data = []byte(common.Pick(r, []string{"old-a", "old-ba", "old-b", "old-aa", "old-h", "i am a file", "sibling"}))
		default:
			data = []byte(fmt.Sprintf("data%d\n", i))
		}
		es = append(es, entry{Name: name, Data: data})
	}
	return es
}

func main() {
	f := common.ParseFlags()
	prop := os.Getenv("VERIF_PROP")
	if prop == "" {
		prop = "C15"
	}
	res := common.NewResult(prop, f.Tier, f.Seed)
	if f.Work == "" {
		d, _ := os.MkdirTemp("", "txtarwrite")
		f.Work = d
		defer os.RemoveAll(d)
	}
	if w, err := filepath.EvalSymlinks(f.Work); err == nil {
		f.Work = w
	}
	f.Work = filepath.Clean(f.Work)
	m, err := common.StartModel(f.Model)
	if err != nil {
		fmt.Fprintln(os.Stderr, "cannot start model:", err)
		os.Exit(2)
	}
	defer m.Close()
	rn := &runner{f: f, res: res, m: m}
	// permission bits are compared under a fixed umask
	syscall.Umask(harnessUmask)
	for _, k := range []struct {
		kind string
		dst  *os.FileMode
	}{{"D", &modelModeDir}, {"F", &modelModeFile}} {
		var v uint32
		if _, err := fmt.Sscanf(m.Ask1(fmt.Sprintf("mode %d %s", harnessUmask, k.kind)), "%d", &v); err != nil {
			res.Notes = append(res.Notes, "model did not answer the mode request: "+err.Error())
		}
		*k.dst = os.FileMode(v)
	}

	// build the two commands from the checked tree (import paths resolve through the
	// harness module's replace directive; GOFLAGS is inherited)
	binDir := filepath.Join(f.Work, "bin")
	os.MkdirAll(binDir, 0o777)
	binC, binX = filepath.Join(binDir, "txtar-c"), filepath.Join(binDir, "txtar-x")
	cliOK := true
	for _, b := range []struct{ out, pkg string }{{binC, "github.com/rogpeppe/go-internal/cmd/txtar-c"}, {binX, "github.com/rogpeppe/go-internal/cmd/txtar-x"}} {
		cmd := exec.Command("go", "build", "-o", b.out, b.pkg)
		if out, err := cmd.CombinedOutput(); err != nil {
			cliOK = false
			res.Notes = append(res.Notes, fmt.Sprintf("cannot build %s: %v: %s", b.pkg, err, out))
			res.Violate(common.Violation{Kind: "correspondence", Oracle: "build", Key: "build:" + b.pkg,
				Input: map[string]string{}, Detail: fmt.Sprintf("%v: %s", err, out)})
		}
	}

	replayCase := func(in map[string]string, tag string) {
		switch in["kind"] {
		case "write":
			var c wcase
			if json.Unmarshal([]byte(in["case_json"]), &c) == nil {
				rn.writeCase(c, tag)
			}
		case "cli":
			var c ccase
			if json.Unmarshal([]byte(in["case_json"]), &c) == nil && cliOK {
				rn.cliCase(c, tag)
			}
		case "cli-hostile":
			var c ccase
			if json.Unmarshal([]byte(in["case_json"]), &c) == nil && cliOK {
				rn.cliCase(c, "hostile-names")
			}
		case "path":
			rn.pathCase(string(common.UnHex(in["p"])))
			rn.flushPaths()
		}
	}

	if f.Replay != "" {
		rp, err := common.LoadReplay(f.Replay)
		if err != nil {
			fmt.Fprintln(os.Stderr, err)
			os.Exit(2)
		}
		replayCase(rp.Violation.Input, "replay")
		res.Rule = "replay of one recorded case"
		res.Write(f.Out)
		return
	}

	// 1. corpus first (replay-format JSON files)
	if f.Corpus != "" {
		ents, _ := filepath.Glob(filepath.Join(f.Corpus, "*.json"))
		sort.Strings(ents)
		for _, e := range ents {
			if rp, err := common.LoadReplay(e); err == nil {
				replayCase(rp.Violation.Input, "corpus")
			}
		}
	}
	thorough := f.Tier == "thorough"

	// 0. the path functions, exhaustively over a separator/dot alphabet
	maxLen := 7
	if thorough {
		maxLen = 9
	}
	enumerate([]string{"/", ".", "a", `\`}, maxLen, func(s []string) { rn.pathCase(strings.Join(s, "")) })
	rn.flushPaths()

	// 2. Write: every name of up to 3 segments over the small alphabet, in every scenario
	enumerate(segSmall, 3, func(segs []string) {
		name := strings.Join(segs, "/")
		for sc := 0; sc < nScenarios; sc++ {
			form := 0
			rn.writeCase(wcase{Scenario: sc, DirForm: form, Entries: []entry{{Name: name, Data: []byte("DATA:" + name)}}}, "exhaustive")
		}
		// other ways of naming the directory, on two scenarios
		for form := 1; form < nDirForms; form++ {
			rn.writeCase(wcase{Scenario: (len(name) + form) % nScenarios, DirForm: form, Entries: []entry{{Name: name, Data: []byte("D")}}}, "exhaustive-dirforms")
		}
	})
	// the same names with EMPTY data
	enumerate(segSmall, 3, func(segs []string) {
		name := strings.Join(segs, "/")
		for sc := 0; sc < nScenarios; sc++ {
			rn.writeCase(wcase{Scenario: sc, DirForm: 0, Entries: []entry{{Name: name, Data: []byte{}}}}, "exhaustive-empty-data")
		}
	})
	// names colliding with what exists, with data empty / equal to / shorter / longer than
	// the old contents, alone and after a fresh entry, under every way of naming the directory
	for sc := 0; sc < nScenarios; sc++ {
		ex := existing(sc)
		var exNames []string
		for name := range ex {
			exNames = append(exNames, name)
		}
		sort.Strings(exNames)
		for _, name := range exNames {
			old := ex[name]
			for _, d := range dataVariants(old) {
				for form := 0; form < nDirForms; form++ {
					rn.writeCase(wcase{Scenario: sc, DirForm: form, Entries: []entry{{Name: name, Data: d}}}, "colliding")
				}
				rn.writeCase(wcase{Scenario: sc, DirForm: 0, Entries: []entry{{Name: "fresh", Data: []byte("f")}, {Name: "./" + name + "/", Data: d}}}, "colliding")
			}
		}
	}
	// absolute / slash variants of the short names
	enumerate(segSmall, 2, func(segs []string) {
		name := strings.Join(segs, "/")
		for _, v := range []string{"/" + name, name + "/", "//" + name, name + "//" + name} {
			rn.writeCase(wcase{Scenario: len(v) % nScenarios, DirForm: 0, Entries: []entry{{Name: v, Data: []byte("V")}}}, "exhaustive-variants")
		}
	})
	// 3. random multi-entry archives, longer names, duplicates, collisions
	r := common.NewRNG(f.Seed)
	nRand := 2500
	if thorough {
		nRand = 60000
	}
	for i := 0; i < nRand; i++ {
		rn.writeCase(wcase{Scenario: r.Intn(nScenarios), DirForm: r.Intn(nDirForms), Entries: genEntries(r)}, "random")
	}

	// 3b. symbolic links inside the target (out of scope: documented and tied to Symlink.v)
	rn.symlinkCases()

	// 4. txtar-c | txtar-x on generated trees
	if cliOK {
		nTrees := 300
		if thorough {
			nTrees = 5000
		}
		for i := 0; i < nTrees; i++ {
			c := genTree(r)
			for q := 0; q < 2; q++ {
				for a := 0; a < 2; a++ {
					c.Quote, c.All = q == 1, a == 1
					c.RelMode = r.Chance(1, 3)
					rn.cliCase(c, "generated")
				}
			}
		}
		// trees with names txtar cannot represent: no round trip is promised, but txtar-x
		// must not crash and must not touch anything outside its directory
		nHostile := 150
		if thorough {
			nHostile = 3000
		}
		for i := 0; i < nHostile; i++ {
			c := genHostileTree(r)
			c.Quote, c.All, c.RelMode = r.Bool(), r.Bool(), r.Chance(1, 3)
			rn.cliCase(c, "hostile-names")
		}
		rn.rootDirCase()
		// the command built on Write refuses escaping archives too
		for _, evil := range []string{"-- ../x --\nX\n", "-- /abs --\nX\n", "-- a/../../x --\nX\n", "-- .. --\nX\n"} {
			caseSeq++
			root := filepath.Join(f.Work, fmt.Sprintf("e%d", caseSeq))
			os.MkdirAll(filepath.Join(root, "p"), 0o777)
			before := snapshot(root)
			_, rc := runCmd(filepath.Join(root, "p"), []byte(evil), binX, "-C", "q/t")
			after := snapshot(root)
			res.Case("evil:"+evil, true)
			res.Count("cli:evil")
			badOut := rc == 0
			for k, o := range after {
				if _, ok := before[k]; !ok && !under(k, "p/q/t") && !(o.dir && under("p/q/t", k)) {
					badOut = true
				}
			}
			if badOut {
				res.Violate(common.Violation{Kind: "impl-violation", Oracle: "cli/txtar-x-contained",
					Input: map[string]string{"kind": "evil", "archive": evil}, Impl: fmt.Sprintf("rc=%d after=%v", rc, sortedKeys(after)),
					Key: "cli/txtar-x-contained:" + evil, Detail: "txtar-x -C q/t in an empty directory p: exit 0 or an object outside p/q/t"})
			}
			os.RemoveAll(root)
		}
	}
	res.Rule = fmt.Sprintf("corpus; every string over {/ . a \\} up to length %d for Clean/Dir/IsAbs/Join; txtar.Write of every name of 1..3 segments over %q in %d sandbox scenarios (plus slash/absolute variants and %d ways of naming the directory), then %d random archives of 1..4 entries with names of up to 4 segments over %q incl. duplicates; txtar-c|txtar-x on generated trees x {-quote} x {-a}; a Write case is non-trivial when a name contains \"..\", is absolute, empty or \".\", or the archive has several entries or the scenario has pre-existing objects in the target; distinct = distinct case", maxLen, segSmall, nScenarios, nDirForms, nRand, segBig)
	res.Write(f.Out)
}

package main

// Descriptors as a resource (C15: "on success each file holds exactly the entry's data"
// for archives of ANY size): Write / txtar-x / txtar-c must work with O(1) descriptors.
//
//   - fdCount: the number of descriptors this process holds (/proc/self/fd); compared
//     before and after every txtar.Write call, success and error paths, with the garbage
//     collector switched off around the call so that a finalizer cannot close a leaked
//     *os.File behind the probe's back (oracle write/fd-baseline);
//   - an inotify watch on the directories Write creates files in: the kernel queues
//     IN_OPEN / IN_CLOSE_* events in the order the calls happen, so the maximum number of
//     simultaneously open output files DURING the call is read off the event sequence
//     afterwards, without any timing dependence (oracle write/fd-bounded; the sequence of
//     open/close events is also compared with the model's event trace);
//   - child processes with lowered resource limits: this binary re-executes itself
//     (TXTARWRITE_CHILD) to run txtar.Write under a soft RLIMIT_NOFILE just above what
//     is already open, or under RLIMIT_FSIZE (write(2) comes back short, then EFBIG), and
//     to start txtar-c / txtar-x with a lowered HARD RLIMIT_NOFILE (a Go program raises its
//     soft limit to the hard one when it starts).

import (
	"encoding/json"
	"fmt"
	"os"
	"os/exec"
	"os/signal"
	"path/filepath"
	"runtime/debug"
	"sort"
	"strconv"
	"strings"
	"syscall"
	"unsafe"

	"github.com/rogpeppe/go-internal/txtar"
)

// fdList returns the open descriptor numbers of this process (the one used for reading
// /proc/self/fd excluded).
func fdList() []int {
	d, err := os.Open("/proc/self/fd")
	if err != nil {
		return nil
	}
	self := int(d.Fd())
	names, _ := d.Readdirnames(-1)
	d.Close()
	var fds []int
	for _, n := range names {
		if v, err := strconv.Atoi(n); err == nil && v != self {
			fds = append(fds, v)
		}
	}
	sort.Ints(fds)
	return fds
}

func fdCount() int { return len(fdList()) }

var fdProbeOK = func() bool { return len(fdList()) >= 3 }()

// withFdProbe runs f with the collector off and returns the descriptor counts around it.
func withFdProbe(f func()) (before, after int) {
	old := debug.SetGCPercent(-1)
	defer debug.SetGCPercent(old)
	before = fdCount()
	f()
	after = fdCount()
	return
}

// ------------------------------------------------------------------ inotify

type iev struct {
	Dir   string // watched directory, relative to the watch root ("" = the root itself)
	Name  string
	Mask  uint32
	IsDir bool
}

type iwatch struct {
	fd   int
	wds  map[int32]string
	over bool
}

const iwMask = syscall.IN_CREATE | syscall.IN_OPEN | syscall.IN_CLOSE_WRITE | syscall.IN_CLOSE_NOWRITE | syscall.IN_MODIFY | syscall.IN_DELETE | syscall.IN_MOVED_FROM | syscall.IN_MOVED_TO

// newWatch watches root and the given sub-directories of it (which must exist).
func newWatch(root string, subs []string) (*iwatch, error) {
	fd, err := syscall.InotifyInit1(syscall.IN_NONBLOCK | syscall.IN_CLOEXEC)
	if err != nil {
		return nil, err
	}
	w := &iwatch{fd: fd, wds: map[int32]string{}}
	for _, s := range append([]string{""}, subs...) {
		wd, err := syscall.InotifyAddWatch(fd, filepath.Join(root, s), iwMask)
		if err != nil {
			syscall.Close(fd)
			return nil, err
		}
		w.wds[int32(wd)] = s
	}
	return w, nil
}

func (w *iwatch) close() { syscall.Close(w.fd) }

// drain returns everything queued so far, in kernel order.
func (w *iwatch) drain() []iev {
	var out []iev
	buf := make([]byte, 1<<16)
	for {
		n, err := syscall.Read(w.fd, buf)
		if n <= 0 || err != nil {
			return out
		}
		for off := 0; off+syscall.SizeofInotifyEvent <= n; {
			e := (*syscall.InotifyEvent)(unsafe.Pointer(&buf[off]))
			name := ""
			if e.Len > 0 {
				b := buf[off+syscall.SizeofInotifyEvent : off+syscall.SizeofInotifyEvent+int(e.Len)]
				name = strings.TrimRight(string(b), "\x00")
			}
			if e.Mask&syscall.IN_Q_OVERFLOW != 0 {
				w.over = true
			} else if e.Mask&syscall.IN_IGNORED == 0 {
				out = append(out, iev{Dir: w.wds[e.Wd], Name: name, Mask: e.Mask, IsDir: e.Mask&syscall.IN_ISDIR != 0})
			}
			off += syscall.SizeofInotifyEvent + int(e.Len)
		}
	}
}

// fdTrace is what the events say about descriptors on regular files: the open/close
// sequence ("O rel" / "C rel"), the largest number open at once, the number still open at
// the end, and the files that were removed or renamed.
type fdTrace struct {
	seq     []string
	maxOpen int
	endOpen int
	removed []string
}

func traceOf(evs []iev) fdTrace {
	var t fdTrace
	open := 0
	for _, e := range evs {
		if e.IsDir {
			continue
		}
		rel := filepath.Join(e.Dir, e.Name)
		switch {
		case e.Mask&syscall.IN_OPEN != 0:
			open++
			t.seq = append(t.seq, "O "+rel)
		case e.Mask&(syscall.IN_CLOSE_WRITE|syscall.IN_CLOSE_NOWRITE) != 0:
			open--
			t.seq = append(t.seq, "C "+rel)
		case e.Mask&(syscall.IN_DELETE|syscall.IN_MOVED_FROM) != 0:
			t.removed = append(t.removed, rel)
		}
		if open > t.maxOpen {
			t.maxOpen = open
		}
	}
	t.endOpen = open
	return t
}

// ------------------------------------------------------------------ child modes

const childEnv = "TXTARWRITE_CHILD"

type childJob struct {
	Dir     string   `json:"dir"`
	Cwd     string   `json:"cwd"`
	Entries []entry  `json:"entries,omitempty"`
	Big     *bigSpec `json:"big,omitempty"`
	// soft RLIMIT_NOFILE = highest open descriptor + 1 + NoFileSlack (after a warm-up
	// open/close, so that the runtime's poller descriptors exist); < 0: unchanged
	NoFileSlack int `json:"nofile_slack"`
	// RLIMIT_FSIZE in bytes (SIGXFSZ ignored); <= 0: unchanged
	FSize int64 `json:"fsize"`
}

type childResult struct {
	Res      string `json:"res"`
	Err      string `json:"err"`
	FdBefore int    `json:"fd_before"`
	FdAfter  int    `json:"fd_after"`
	Limit    uint64 `json:"limit"`
	Note     string `json:"note,omitempty"`
}

// childMain is entered instead of main when TXTARWRITE_CHILD is set.
func childMain(mode string) {
	switch mode {
	case "write":
		var job childJob
		if err := json.NewDecoder(os.Stdin).Decode(&job); err != nil {
			fmt.Fprintln(os.Stderr, "child: bad job:", err)
			os.Exit(3)
		}
		var out childResult
		entries := job.Entries
		if job.Big != nil {
			entries = job.Big.entries()
		}
		a := &txtar.Archive{}
		for _, e := range entries {
			a.Files = append(a.Files, txtar.File{Name: e.Name, Data: e.Data})
		}
		if job.Cwd != "" {
			if err := os.Chdir(job.Cwd); err != nil {
				fmt.Fprintln(os.Stderr, "child: chdir:", err)
				os.Exit(3)
			}
		}
		// warm-up: whatever the runtime opens lazily for file I/O exists from here on
		if f, err := os.CreateTemp("", "warm"); err == nil {
			f.Write([]byte("x"))
			f.Close()
			os.Remove(f.Name())
		}
		debug.SetGCPercent(-1)
		if job.FSize > 0 {
			signal.Ignore(syscall.SIGXFSZ)
			var rl syscall.Rlimit
			syscall.Getrlimit(syscall.RLIMIT_FSIZE, &rl)
			rl.Cur = uint64(job.FSize)
			if err := syscall.Setrlimit(syscall.RLIMIT_FSIZE, &rl); err != nil {
				out.Note = "setrlimit FSIZE: " + err.Error()
			}
		}
		// the probe needs a descriptor itself: count before the limit is lowered and after
		// it has been lifted again.  Exactly NoFileSlack descriptors are left free: the
		// limit is set above everything open, the free slots below it are filled with
		// descriptors on /dev/null, and NoFileSlack of those are given back.
		out.FdBefore = fdCount()
		var filler []int
		if job.NoFileSlack >= 0 {
			fds := fdList()
			top := 2
			if len(fds) > 0 {
				top = fds[len(fds)-1]
			}
			var rl syscall.Rlimit
			syscall.Getrlimit(syscall.RLIMIT_NOFILE, &rl)
			rl.Cur = uint64(top + 1 + job.NoFileSlack)
			if err := syscall.Setrlimit(syscall.RLIMIT_NOFILE, &rl); err != nil {
				out.Note = "setrlimit NOFILE: " + err.Error()
			}
			out.Limit = rl.Cur
			for {
				fd, err := syscall.Open("/dev/null", syscall.O_RDONLY|syscall.O_CLOEXEC, 0)
				if err != nil {
					break
				}
				filler = append(filler, fd)
			}
			for i := 0; i < job.NoFileSlack && len(filler) > 0; i++ {
				syscall.Close(filler[len(filler)-1])
				filler = filler[:len(filler)-1]
			}
		}
		err := txtar.Write(a, job.Dir)
		for _, fd := range filler {
			syscall.Close(fd)
		}
		if job.NoFileSlack >= 0 {
			var rl syscall.Rlimit
			syscall.Getrlimit(syscall.RLIMIT_NOFILE, &rl)
			rl.Cur = rl.Max
			syscall.Setrlimit(syscall.RLIMIT_NOFILE, &rl)
		}
		out.FdAfter = fdCount()
		out.Res = classify(err)
		if err != nil {
			out.Err = err.Error()
		}
		json.NewEncoder(os.Stdout).Encode(out)
		os.Exit(0)
	case "exec":
		// TXTARWRITE_NOFILE=<n>: hard and soft RLIMIT_NOFILE; then exec argv[1:]
		if n, err := strconv.Atoi(os.Getenv("TXTARWRITE_NOFILE")); err == nil && n > 0 {
			rl := syscall.Rlimit{Cur: uint64(n), Max: uint64(n)}
			if err := syscall.Setrlimit(syscall.RLIMIT_NOFILE, &rl); err != nil {
				fmt.Fprintln(os.Stderr, "child: setrlimit:", err)
				os.Exit(125)
			}
		}
		if len(os.Args) < 2 {
			os.Exit(125)
		}
		var env []string
		for _, e := range os.Environ() {
			if !strings.HasPrefix(e, childEnv+"=") && !strings.HasPrefix(e, "TXTARWRITE_NOFILE=") {
				env = append(env, e)
			}
		}
		err := syscall.Exec(os.Args[1], os.Args[1:], env)
		fmt.Fprintln(os.Stderr, "child: exec:", err)
		os.Exit(125)
	}
	os.Exit(3)
}

var selfExe = func() string { p, _ := os.Executable(); return p }()

// runWriteChild runs one txtar.Write in a child of this binary under the job's limits.
func runWriteChild(job childJob) (childResult, error) {
	b, _ := json.Marshal(job)
	cmd := exec.Command(selfExe)
	cmd.Env = append(os.Environ(), childEnv+"=write")
	cmd.Stdin = strings.NewReader(string(b))
	var stderr strings.Builder
	cmd.Stderr = &stderr
	out, err := cmd.Output()
	var r childResult
	if err != nil {
		return r, fmt.Errorf("%v: %s", err, stderr.String())
	}
	if e := json.Unmarshal(out, &r); e != nil {
		return r, fmt.Errorf("child answer %q: %v", out, e)
	}
	return r, nil
}

// limitedCommand is exec.Command(name, args...) started with hard RLIMIT_NOFILE = nofile.
func limitedCommand(nofile int, name string, args ...string) *exec.Cmd {
	if nofile <= 0 {
		return exec.Command(name, args...)
	}
	cmd := exec.Command(selfExe, append([]string{name}, args...)...)
	// argv[0] of the child is this binary; childMain execs os.Args[1:]
	cmd.Args = append([]string{selfExe, name}, args...)
	cmd.Env = append(os.Environ(), childEnv+"=exec", "TXTARWRITE_NOFILE="+strconv.Itoa(nofile))
	return cmd
}

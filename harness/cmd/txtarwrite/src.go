package main

// The functions of txtar/archive.go and cmd/txtar-c/savedir.go that harness/go2coq TRANSLATES from
// the source text on every run (Gen/TxtarWriteWorldSrc.v: txtar.Write whole, the walk function of
// txtar-c) are RUN here against the implementation: a test of the translator and of its semantic
// libraries (Lib/GoSem.v, Lib/GoSemWorld.v, TxtarWrite/SrcLib.v, SrcWorld.v), on the inputs the
// runner generates anyway.  They are evaluated over the file-system model (TxtarWrite/SrcWalk.v:
// src_write_model, src_savedir_walk -- filepath.Walk itself is hand-modelled there) by a second
// binary, bin/model_txtarwrite_src (Extract/TxtarWriteSrcExtract.v, ocaml/txtarwrite/src_driver.ml,
// ocaml/build_src.sh), which is removed when the translated text cannot be extracted or no longer
// fits its driver: the runner then runs every other oracle and says so in a note.

import (
	"os"
	"path/filepath"
	"strings"
	"time"

	"verif/harness/common"
)

var srcModel *common.Model

// every srcEvery-th write case is also put to the translated Write (all of them in the thorough tier)
var srcEvery = 3

func startSrc(f *common.Flags, res *common.Result) {
	srcBin := f.Model + "_src"
	if _, err := os.Stat(srcBin); err != nil {
		res.Notes = append(res.Notes, "no "+filepath.Base(srcBin)+" (the translated Write / walk function could not be extracted or no longer fit ocaml/txtarwrite/src_driver.ml): they were not run against the implementation")
		return
	}
	m, err := common.StartModel(srcBin)
	if err != nil {
		res.Notes = append(res.Notes, "cannot start "+filepath.Base(srcBin)+": "+err.Error())
		return
	}
	// "/t" exists; one entry "a" = "b"
	if probe := m.Ask1("srcwrite 2f 2f74 1 2f74 D - 1 61 62"); probe != "ok 2 2f74 D - 2f742f61 F 62" {
		res.Notes = append(res.Notes, filepath.Base(srcBin)+" does not answer the src requests ("+probe+"): the translated functions were not run")
		m.Close()
		return
	}
	if f.Tier == "thorough" {
		srcEvery = 1
	}
	srcModel = m
}

var srcSpent = map[string]time.Duration{}

func stopSrc() {
	if srcModel != nil {
		srcModel.Close()
	}
}

// srcTimes records how long the translated functions took (whole seconds).
func srcTimes(res *common.Result) {
	for k, d := range srcSpent {
		res.Distribution["seconds:src-"+k] += int(d.Seconds() + 0.5)
	}
}

// srcWrite: the translated txtar.Write, over the model's file system, on the request the
// hand-written model got; compared with what the implementation did.
func (rn *runner) srcWrite(req, got string, input func() map[string]string, key string, always bool) {
	if srcModel == nil || (!always && caseSeq%srcEvery != 0) {
		return
	}
	t0 := time.Now()
	ans := srcModel.Ask1("src" + req)
	srcSpent["write"] += time.Since(t0)
	rn.res.Count("src:write")
	if ans != got {
		rn.res.Count("mismatch:src-write")
		in := input()
		in["src"] = "write"
		rn.res.Violate(common.Violation{Kind: "correspondence", Oracle: "src-write", Input: in,
			Model: ans, Impl: got, Key: "src-write:" + key,
			Detail: "txtar.Write as TRANSLATED from the source (Gen/TxtarWriteWorldSrc.v, run over the file-system model) and txtar.Write differ (result enum or resulting tree)"})
	}
}

// srcSavedirTree: filepath.Walk (hand-modelled) over the tree calling the translated walk
// function of txtar-c; compared with the bytes the command printed.
func (rn *runner) srcSavedirTree(treeReq []string, impl string, in map[string]string, key string) {
	if srcModel == nil {
		return
	}
	// two words per file, one per directory: in the quick tier only trees of up to ~100 entries
	// (the file system the translated function reads from is an association list: deep or
	// wide trees cost seconds each)
	if rn.f.Tier != "thorough" && len(treeReq) > 210 {
		rn.res.Count("src:savedirtree-skipped-big-tree")
		return
	}
	t0 := time.Now()
	ans := srcModel.Ask1("src" + strings.Join(treeReq, " "))
	srcSpent["savedirtree"] += time.Since(t0)
	rn.res.Count("src:savedirtree")
	if ans != impl {
		rn.res.Count("mismatch:src-savedirtree")
		in2 := map[string]string{}
		for k, v := range in {
			in2[k] = v
		}
		in2["src"] = "savedirtree"
		rn.res.Violate(common.Violation{Kind: "correspondence", Oracle: "src-savedirtree", Input: in2,
			Model: ans, Impl: impl, Key: "src-savedirtree:" + key,
			Detail: "the walk function of txtar-c as TRANSLATED from the source (Gen/TxtarWriteWorldSrc.v), called by the hand-modelled filepath.Walk over the tree, and the bytes printed by txtar-c differ"})
	}
}

package main

// C07 over HISTORIES of calls made by one process, one after the other: the sequential
// specification of the register, and the caller's memory.
//
// The helper executes one command per line on a handful of files —
//
//	w f id n        Write(f, payload(id, n))
//	r f             Read(f)                       (the returned slice is KEPT, with a private copy)
//	t f id n        Transform(f, old -> payload(id, n))
//	a f n           Transform(f, old -> append(old, n bytes...))   (may write into old's spare capacity)
//	x f             Transform(f, old -> error)
//	gc              two garbage collections
//
// — and after EVERY command re-examines everything it has kept: each slice a Read returned, each
// slice handed to Write, each slice a transform function returned must still hold the bytes it
// held when the call returned.  The runner keeps the register value of every file itself (the
// last value published by a call that returned nil) and checks: Read returns exactly that value;
// t is applied to exactly that value; an error from t leaves it in place; the file at rest holds
// it (read directly with os.ReadFile after every step).  Files do not exist at the start of
// half of the scripts.  Sizes straddle the growth steps of io.ReadAll's buffer.

import (
	"bufio"
	"bytes"
	"fmt"
	"os"
	"path/filepath"
	"runtime"
	"strconv"
	"strings"
	"time"

	"github.com/rogpeppe/go-internal/lockedfile"

	"verif/harness/common"
)

// ---------------------------------------------------------------- helper side

func seqHelper() {
	type kept struct {
		what      string
		got, copy []byte
	}
	var keep []kept
	remember := func(what string, b []byte) { keep = append(keep, kept{what, b, append([]byte{}, b...)}) }
	retained := func() string {
		for _, k := range keep {
			if !bytes.Equal(k.got, k.copy) {
				return fmt.Sprintf("CHANGED:%s:%s:%s", k.what, hexs(head(k.copy)), hexs(head(k.got)))
			}
		}
		return "same"
	}
	tail := func(n int) []byte {
		b := make([]byte, n)
		for i := range b {
			b[i] = '+'
		}
		return b
	}
	lineHelper(func(w []string) string {
		atoi := func(i int) int { n, _ := strconv.Atoi(w[i]); return n }
		st := "BAD"
		switch w[0] {
		case "w":
			data := payload(uint64(atoi(2)), atoi(3))
			err := lockedfile.Write(w[1], bytes.NewReader(data), 0o666)
			remember("argument-of-Write", data)
			st = errStatus(err)
		case "r":
			b, err := lockedfile.Read(w[1])
			if err != nil {
				st = "ERR"
				break
			}
			remember("result-of-Read", b)
			st = "DATA:" + hexs(b)
		case "t", "a", "x":
			var saw []byte
			err := lockedfile.Transform(w[1], func(old []byte) ([]byte, error) {
				saw = append([]byte{}, old...)
				switch w[0] {
				case "x":
					return nil, fmt.Errorf("declined")
				case "a":
					nw := append(old, tail(atoi(2))...)
					remember("result-of-t", nw)
					return nw, nil
				}
				nw := payload(uint64(atoi(2)), atoi(3))
				remember("result-of-t", nw)
				return nw, nil
			})
			st = errStatus(err) + ":" + hexs(saw)
		case "gc":
			for i := 0; i < 2; i++ {
				runtime.GC()
				runtime.Gosched()
				time.Sleep(time.Millisecond)
			}
			st = "OK"
		}
		return st + " kept=" + retained()
	})
}

func errStatus(err error) string {
	if err != nil {
		return "ERR"
	}
	return "OK"
}

// lineHelper: one command per stdin line, one answer per line.
func lineHelper(f func(w []string) string) {
	in := bufio.NewReader(os.Stdin)
	for {
		line, err := in.ReadString('\n')
		if err != nil {
			return
		}
		w := strings.Fields(line)
		if len(w) == 0 {
			continue
		}
		ans := func() (s string) {
			defer func() {
				if e := recover(); e != nil {
					s = "PANIC:" + hexs([]byte(fmt.Sprint(e)))
				}
			}()
			return f(w)
		}()
		fmt.Println(ans)
	}
}

// ---------------------------------------------------------------- runner side

type seqStep struct {
	Op    string // w r t a x gc
	F     int
	ID, N int
}

func (s seqStep) String() string {
	switch s.Op {
	case "w", "t":
		return fmt.Sprintf("%s f%d %d %d", s.Op, s.F, s.ID, s.N)
	case "a":
		return fmt.Sprintf("a f%d %d", s.F, s.N)
	case "r", "x":
		return fmt.Sprintf("%s f%d", s.Op, s.F)
	}
	return "gc"
}

func seqString(sc []seqStep) string {
	var w []string
	for _, s := range sc {
		w = append(w, s.String())
	}
	return strings.Join(w, " ; ")
}

func seqParse(text string) []seqStep {
	var sc []seqStep
	for _, part := range strings.Split(text, ";") {
		w := strings.Fields(part)
		if len(w) == 0 {
			continue
		}
		num := func(i int) int {
			if i >= len(w) {
				return 0
			}
			n, _ := strconv.Atoi(strings.TrimPrefix(w[i], "f"))
			return n
		}
		switch w[0] {
		case "w", "t":
			sc = append(sc, seqStep{Op: w[0], F: num(1), ID: num(2), N: num(3)})
		case "a":
			sc = append(sc, seqStep{Op: "a", F: num(1), N: num(2)})
		case "r", "x":
			sc = append(sc, seqStep{Op: w[0], F: num(1)})
		case "gc":
			sc = append(sc, seqStep{Op: "gc"})
		}
	}
	return sc
}

const seqFiles = 3

func seqGen(rng *common.RNG, n int) []seqStep {
	sizes := []int{0, 1, 7, 40, 200, 505, 520, 900, 1100, 4000, 9000}
	var sc []seqStep
	for i := 0; i < n; i++ {
		f := rng.Intn(seqFiles)
		switch k := rng.Intn(12); {
		case k < 3:
			sc = append(sc, seqStep{Op: "w", F: f, ID: 100 + i, N: common.Pick(rng, sizes)})
		case k < 7:
			sc = append(sc, seqStep{Op: "r", F: f})
		case k < 9:
			sc = append(sc, seqStep{Op: "t", F: f, ID: 100 + i, N: common.Pick(rng, sizes)})
		case k < 10:
			sc = append(sc, seqStep{Op: "a", F: f, N: 1 + rng.Intn(30)})
		case k < 11:
			sc = append(sc, seqStep{Op: "x", F: f})
		default:
			sc = append(sc, seqStep{Op: "gc"})
		}
	}
	return sc
}

type seqFinding struct {
	oracle, detail string
	step           int
	obs            []string
}

// runSeqScript: exists[i] = file i exists (holding payload(i+1, 12)) at the start.
func runSeqScript(self, work string, sc []seqStep, exists [seqFiles]bool) (seqFinding, error) {
	var fd seqFinding
	dir, err := os.MkdirTemp(work, "seq")
	if err != nil {
		return fd, err
	}
	defer os.RemoveAll(dir)
	var paths [seqFiles]string
	var reg [seqFiles][]byte // nil = the file does not exist
	for i := range paths {
		paths[i] = filepath.Join(dir, fmt.Sprintf("f%d", i))
		if exists[i] {
			reg[i] = payload(uint64(i)+1, 12)
			os.WriteFile(paths[i], reg[i], 0o666)
		}
	}
	cmd, rd, in, err := startHelperEnv(self, []string{"GOMAXPROCS=1"}, "seq")
	if err != nil {
		return fd, err
	}
	defer func() { in.Close(); cmd.Process.Kill(); cmd.Wait() }()
	found := func(i int, oracle, format string, a ...any) seqFinding {
		fd.oracle, fd.step, fd.detail = oracle, i, fmt.Sprintf(format, a...)
		return fd
	}
	sh := func(b []byte) string { return fmt.Sprintf("%d bytes %q", len(b), head(b)) }
	for i, s := range sc {
		line := s.String()
		if s.Op != "gc" {
			w := strings.Fields(line)
			w[1] = paths[s.F]
			line = strings.Join(w, " ")
		}
		fmt.Fprintln(in, line)
		ans, ok := waitLine(rd, 30*time.Second)
		if !ok {
			return found(i, "call-blocked", "step %d (%s) did not return within 30s in a process that is alone on the file", i, s), nil
		}
		if strings.HasPrefix(ans, "EOF") || strings.HasPrefix(ans, "PANIC") {
			return found(i, "call-crashed", "step %d (%s): %s", i, s, ans), nil
		}
		f := strings.Fields(ans)
		if len(f) != 2 {
			return fd, fmt.Errorf("helper answered %q", ans)
		}
		st, kept := f[0], strings.TrimPrefix(f[1], "kept=")
		fd.obs = append(fd.obs, short(st))
		old := reg[s.F]
		switch s.Op {
		case "r":
			switch {
			case old == nil && st != "ERR":
				return found(i, "read-of-missing-file-succeeds", "step %d (%s): the file does not exist, Read answered %s", i, s, short(st)), nil
			case old != nil && st == "ERR":
				return found(i, "call-result", "step %d (%s): Read failed on an existing file", i, s), nil
			case old != nil && st != "DATA:"+hexs(old):
				return found(i, "read-returns-other-than-last-published", "step %d (%s): the last call that published a value left %s; Read returned %s", i, s, sh(old), short(strings.TrimPrefix(st, "DATA:"))), nil
			}
		case "w":
			if st != "OK" {
				return found(i, "call-result", "step %d (%s): Write failed", i, s), nil
			}
			reg[s.F] = payload(uint64(s.ID), s.N)
		case "t", "a", "x":
			p := strings.SplitN(st, ":", 2)
			if len(p) != 2 {
				return fd, fmt.Errorf("helper answered %q", ans)
			}
			if p[1] != hexs(old) {
				return found(i, "transform-applied-to-other-than-latest", "step %d (%s): the latest contents are %s; t was given %s", i, s, sh(old), short(p[1])), nil
			}
			if (p[0] == "OK") != (s.Op != "x") {
				return found(i, "call-result", "step %d (%s): Transform answered %s", i, s, p[0]), nil
			}
			switch s.Op {
			case "t":
				reg[s.F] = payload(uint64(s.ID), s.N)
			case "a":
				reg[s.F] = append(append([]byte{}, old...), bytes.Repeat([]byte{'+'}, s.N)...)
			default:
				if old == nil {
					reg[s.F] = []byte{} // Edit created it
				}
			}
		}
		if kept != "same" {
			return found(i, "earlier-result-changed", "after step %d (%s) a slice that an earlier call had returned to (or received from) the caller no longer holds the bytes it held then: %s (what : was : now)", i, s, kept), nil
		}
		for j := range paths {
			b, err := os.ReadFile(paths[j])
			if (err != nil) != (reg[j] == nil) || !bytes.Equal(b, reg[j]) {
				return found(i, "file-contents-at-rest", "after step %d (%s) f%d should hold %s and holds %s", i, s, j, sh(reg[j]), sh(b)), nil
			}
		}
	}
	return fd, nil
}

type seqCase struct{ Script, Exists string }

func (rn *runner) seqOne(c seqCase, shrink bool) bool {
	sc := seqParse(c.Script)
	var exists [seqFiles]bool
	for i := 0; i < seqFiles && i < len(c.Exists); i++ {
		exists[i] = c.Exists[i] == '1'
	}
	fd, err := runSeqScript(rn.self, rn.f.Work, sc, exists)
	if err != nil {
		rn.res.Notes = append(rn.res.Notes, "seq case could not be run: "+err.Error())
		return false
	}
	rn.res.Case("seq "+c.Exists+" "+c.Script, true)
	rn.res.Evaluations += len(fd.obs)
	for _, s := range sc {
		rn.res.Count("seq:" + s.Op)
	}
	if fd.oracle == "" {
		return false
	}
	best, bestFd := sc[:fd.step+1], fd
	if shrink {
		budget := 40
		best = common.ShrinkList(best, func(cand []seqStep) bool {
			if budget <= 0 || len(cand) == 0 {
				return false
			}
			budget--
			f2, err := runSeqScript(rn.self, rn.f.Work, cand, exists)
			if err == nil && f2.oracle == fd.oracle {
				bestFd = f2
				return true
			}
			return false
		})
		if f2, err := runSeqScript(rn.self, rn.f.Work, best, exists); err == nil && f2.oracle == fd.oracle {
			bestFd = f2
		}
	}
	script := seqString(best)
	rn.violate("impl-violation", "seq:"+bestFd.oracle, "seq "+bestFd.oracle,
		bestFd.detail+" — script: "+script+" (files existing at the start: "+c.Exists+")",
		strings.Join(bestFd.obs, " | "), "", map[string]string{"kind": "seq", "script": script, "exists": c.Exists})
	return true
}

func (rn *runner) seqPhase() {
	rng := rn.rng.Fork()
	n, steps := 30, 24
	if rn.f.Tier != "quick" {
		n, steps = 150, 40
	}
	for i := 0; i < n; i++ {
		es := ""
		for j := 0; j < seqFiles; j++ {
			es += strconv.Itoa(b2i(i%2 == 0 && rng.Intn(3) > 0))
		}
		if rn.seqOne(seqCase{seqString(seqGen(rng, steps)), es}, true) {
			break
		}
	}
}

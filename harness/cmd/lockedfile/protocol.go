package main

// C06/C07 (a): protocol correspondence on the unmodified code.  One API call per helper
// invocation under strace; the calls made on the file (openat flags, flock operation,
// ftruncate, reads and writes, order of flock(LOCK_UN) and close) are compared with the
// operation list of the model program for the same call on the same initial file, and the
// protocol rules of the property are checked directly on the observed trace.

import (
	"fmt"
	"os"
	"path/filepath"
	"strconv"
	"strings"

	"golang.org/x/sys/unix"

	"verif/harness/common"
)

type protoCase struct {
	Call   string // read write transform create edit open mutex openfile
	Arg    string // hex data / FAIL / decimal flags / -
	File   string // hex contents or "absent"
	Helper string // what the helper is given instead of Arg (alias:... transform functions)
}

func (c protoCase) key() string {
	k := c.Call + " " + short(c.Arg) + " " + short(c.File)
	if c.Helper != "" {
		k += " " + c.Helper
	}
	return k
}

func (c protoCase) helperArg() string {
	if c.Helper != "" {
		return c.Helper
	}
	return c.Arg
}

// aliasValue: the VALUE an aliasing transform function (helper.go: aliasTransform) returns.
// The model's t is a function on values; that the Go result shares memory with the argument
// is visible only to the implementation.
func aliasValue(spec, oldHex string) string {
	old := common.UnHex(oldHex)
	f := strings.Split(spec, ":")
	switch f[1] {
	case "same":
		return common.Hex(old)
	case "prefix":
		n, _ := strconv.Atoi(f[2])
		if n > len(old) {
			n = len(old)
		}
		return common.Hex(old[:n])
	case "append", "appendfresh":
		return common.Hex(append(append([]byte{}, old...), common.UnHex(f[2])...))
	case "poke":
		i, _ := strconv.Atoi(f[2])
		b := append([]byte{}, old...)
		if x := common.UnHex(f[3]); i < len(b) && len(x) == 1 {
			b[i] = x[0]
		}
		return common.Hex(b)
	}
	return oldHex
}

// aliasSpecs: result is the input, a prefix, an in-place append, a fresh append, the input
// modified in place.
var aliasSpecs = []string{"alias:same", "alias:prefix:3", "alias:prefix:1", "alias:append:7879", "alias:append:30313233343536373839",
	"alias:appendfresh:7879", "alias:poke:1:5a", "alias:poke:0:51"}

var flockNum = map[string]string{"LOCK_SH": "1", "LOCK_EX": "2", "LOCK_UN": "8"}

// canonTrace projects the observed calls to the model's vocabulary.
func canonTrace(evs []sysEvent) (string, error) {
	var out []string
	okErr := func(e sysEvent) string {
		if e.Err {
			return "err"
		}
		return "ok"
	}
	for i := 0; i < len(evs); i++ {
		e := evs[i]
		switch e.Name {
		case "openat":
			v, ok := openFlagsValue(e.Arg)
			if !ok {
				return "", fmt.Errorf("cannot read open flags %q", e.Arg)
			}
			v &^= 0o2000000 | 0o100000 // O_CLOEXEC, O_LARGEFILE are added by the os package
			out = append(out, fmt.Sprintf("open:%d=%s", v, okErr(e)))
		case "flock":
			n, ok := flockNum[e.Arg]
			if !ok {
				n = e.Arg
			}
			out = append(out, "flock:"+n+"="+okErr(e))
		case "ftruncate":
			out = append(out, "ftruncate:"+e.Arg+"="+okErr(e))
		case "read": // io.ReadAll: a run of reads is one ReadAll
			st := okErr(e)
			for i+1 < len(evs) && evs[i+1].Name == "read" {
				i++
				if evs[i].Err {
					st = "err"
				}
			}
			out = append(out, "readall="+st)
		case "pwrite64":
			// WriteAt loops over short writes: pwrite(off,len)=k<len; pwrite(off+k,len-k)=...
			// is ONE model operation pwrite(off,len) with the status of the last call
			var off, n int
			fmt.Sscanf(e.Arg, "%d:%d", &off, &n)
			last := e
			for i+1 < len(evs) && evs[i+1].Name == "pwrite64" && !last.Err {
				k, _ := strconv.Atoi(last.Ret)
				var o2, n2, o1, n1 int
				fmt.Sscanf(last.Arg, "%d:%d", &o1, &n1)
				fmt.Sscanf(evs[i+1].Arg, "%d:%d", &o2, &n2)
				if k >= n1 || o2 != o1+k || n2 != n1-k {
					break
				}
				i++
				last = evs[i]
			}
			out = append(out, fmt.Sprintf("pwrite:%d:%d=%s", off, n, okErr(last)))
		case "write":
			n, _ := strconv.Atoi(e.Arg)
			last := e
			for i+1 < len(evs) && evs[i+1].Name == "write" && !last.Err {
				k, _ := strconv.Atoi(last.Ret)
				n1, _ := strconv.Atoi(last.Arg)
				n2, _ := strconv.Atoi(evs[i+1].Arg)
				if k >= n1 || n2 != n1-k {
					break
				}
				i++
				last = evs[i]
			}
			out = append(out, fmt.Sprintf("write:%d=%s", n, okErr(last)))
		case "close":
			out = append(out, "close="+okErr(e))
		}
	}
	return strings.Join(out, " "), nil
}

// canonModel projects the model's answer ("<outcome> <file> <n> ops...") the same way.
func canonModel(ans string) (outcome, file, trace string, err error) {
	f := strings.Fields(ans)
	if len(f) < 3 {
		return "", "", "", fmt.Errorf("bad model answer %q", ans)
	}
	var out []string
	for _, t := range f[3:] {
		i := strings.LastIndex(t, "=")
		op, r := t[:i], t[i+1:]
		if strings.HasPrefix(r, "data:") {
			r = "ok"
		}
		p := strings.Split(op, ":")
		switch p[0] {
		case "pwrite":
			out = append(out, fmt.Sprintf("pwrite:%s:%d=%s", p[1], len(common.UnHex(p[2])), r))
		case "write":
			out = append(out, fmt.Sprintf("write:%d=%s", len(common.UnHex(p[1])), r))
		default:
			out = append(out, op+"="+r)
		}
	}
	return f[0], f[1], strings.Join(out, " "), nil
}

// traceRules checks the protocol rules of C06/C07 directly on an observed trace.
func traceRules(evs []sysEvent, callFlags int, haveFlags bool, result string) []string {
	var bad []string
	// a call that reported success must have taken its lock before it returned: a
	// successful openat followed by a successful flock(LOCK_SH|LOCK_EX) on that descriptor
	if result == "ok" || strings.HasPrefix(result, "data:") {
		opened, lockedOnce := false, false
		for _, e := range evs {
			if e.Name == "openat" && !e.Err {
				opened = true
			}
			if e.Name == "flock" && !e.Err && opened && (e.Arg == "LOCK_EX" || e.Arg == "LOCK_SH") {
				lockedOnce = true
			}
		}
		if opened && !lockedOnce {
			bad = append(bad, fmt.Sprintf("no-lock-taken flags=%d", callFlags))
		}
	}
	locked := ""
	everLocked := false
	for _, e := range evs {
		switch e.Name {
		case "openat":
			if v, ok := openFlagsValue(e.Arg); ok && v&0o1000 != 0 {
				bad = append(bad, "open-carries-O_TRUNC")
			}
		case "flock":
			if e.Err {
				continue
			}
			switch e.Arg {
			case "LOCK_UN":
				locked = ""
			default:
				locked = e.Arg
				everLocked = true
				if haveFlags {
					acc := callFlags & 3
					wantEx := acc == os.O_WRONLY || acc == os.O_RDWR
					if wantEx != (e.Arg == "LOCK_EX") {
						bad = append(bad, fmt.Sprintf("wrong-lock-kind flags=%d got=%s", callFlags, e.Arg))
					}
				}
			}
		case "returned":
			// the File was handed to the caller: it must be locked now, not only earlier
			if locked == "" {
				bad = append(bad, fmt.Sprintf("lock-not-held-at-return flags=%d", callFlags))
			}
		case "ftruncate", "read", "write", "pwrite64":
			if locked == "" {
				bad = append(bad, e.Name+"-outside-lock")
			}
			if (e.Name != "read") && locked == "LOCK_SH" && !e.Err {
				bad = append(bad, e.Name+"-under-shared-lock")
			}
		case "close":
			if locked != "" {
				bad = append(bad, "close-before-unlock")
			}
		}
	}
	_ = everLocked
	return bad
}

func flagsOfCall(c protoCase) (int, bool) {
	switch c.Call {
	case "read", "open":
		return os.O_RDONLY, true
	case "write":
		return os.O_WRONLY | os.O_CREATE | os.O_TRUNC, true
	case "transform", "edit", "mutex":
		return os.O_RDWR | os.O_CREATE, true
	case "create":
		return os.O_RDWR | os.O_CREATE | os.O_TRUNC, true
	case "openfile":
		v, err := strconv.Atoi(c.Arg)
		return v, err == nil
	}
	return 0, false
}

// protoCases: every API entry point on absent / empty / non-empty files; OpenFile over the
// flag combinations; Transform over the length relations.
func protoCases(rng *common.RNG, tier, prop string) []protoCase {
	var cs []protoCase
	files := []string{"absent", "-", "616263646566"}
	for _, f := range files {
		cs = append(cs, protoCase{"read", "-", f, ""})
		for _, d := range []string{"-", "78797a", "3031323334353637383930"} {
			cs = append(cs, protoCase{"write", d, f, ""})
		}
		for _, n := range []string{"FAIL", "-", "7a7a", "414243444546", "4142434445464748494a"} {
			cs = append(cs, protoCase{"transform", n, f, ""})
		}
		if f != "absent" && f != "-" {
			for _, sp := range aliasSpecs {
				cs = append(cs, protoCase{"transform", aliasValue(sp, f), f, sp})
			}
		}
		// every representation of the result (nil, empty non-nil, sub-slices, filters ...)
		for _, sp := range resSpecs {
			old := f
			if old == "absent" {
				old = "-"
			}
			if (old == "-") && sp != "res:nil" && sp != "res:empty" && sp != "res:repeat:2" {
				continue
			}
			cs = append(cs, protoCase{"transform", resValue(sp, old), f, sp})
		}
		// Write with every kind of content reader
		if f != "-" {
			for _, sp := range readerSpecs {
				cs = append(cs, protoCase{"write", readerValue(sp), f, sp})
			}
		}
		if prop == "C07" {
			continue
		}
		for _, call := range []string{"create", "edit", "open", "mutex"} {
			cs = append(cs, protoCase{call, "-", f, ""})
		}
	}
	if prop == "C07" {
		return cs
	}
	// non-regular targets (O_RDWR so that the FIFO open does not block): the Truncate of the
	// O_TRUNC calls fails there and is ignored; the File must still be locked when returned
	for _, f := range []string{"fifo", "chardev"} {
		cs = append(cs, protoCase{"create", "-", f, ""}, protoCase{"edit", "-", f, ""}, protoCase{"mutex", "-", f, ""},
			protoCase{"openfile", strconv.Itoa(os.O_RDWR | os.O_TRUNC), f, ""},
			protoCase{"openfile", strconv.Itoa(os.O_RDWR | os.O_CREATE | os.O_TRUNC | os.O_APPEND), f, ""},
			protoCase{"openfile", strconv.Itoa(os.O_RDWR), f, ""})
	}
	// an unprivileged caller: a lock file / data file it may only read, or only write
	for _, f := range []string{"ro:616263", "wo:616263"} {
		cs = append(cs, protoCase{"mutex", "-", f, ""}, protoCase{"edit", "-", f, ""}, protoCase{"open", "-", f, ""},
			protoCase{"read", "-", f, ""}, protoCase{"write", "7879", f, ""}, protoCase{"transform", "7a7a", f, ""})
	}
	for _, acc := range []int{0, 1, 2, 3} {
		for _, cr := range []int{0, os.O_CREATE} {
			for _, tr := range []int{0, os.O_TRUNC} {
				for _, ex := range []int{0, os.O_EXCL} {
					for _, ap := range []int{0, os.O_APPEND} {
						for _, sy := range []int{0, os.O_SYNC} {
							fl := acc | cr | tr | ex | ap | sy
							exclCreate := cr != 0 && ex != 0 && acc != 3
							if tier == "quick" && !exclCreate && (acc == 3 || ap != 0 || sy != 0) && rng.Intn(4) != 0 {
								continue
							}
							if tier == "quick" && exclCreate && ap != 0 && sy != 0 && tr != 0 {
								continue
							}
							for _, f := range []string{"absent", "616263646566"} {
								cs = append(cs, protoCase{"openfile", strconv.Itoa(fl), f, ""})
							}
						}
					}
				}
			}
		}
	}
	return cs
}

func setFile(path, file string) {
	os.Remove(path)
	switch file {
	case "fifo":
		unix.Mkfifo(path, 0o666)
		return
	case "chardev":
		unix.Mknod(path, unix.S_IFCHR|0o666, int(unix.Mkdev(1, 3))) // a private /dev/null
		return
	}
	if file != "absent" {
		os.WriteFile(path, common.UnHex(file), 0o666)
	}
}

func getFile(path string) string {
	if fi, err := os.Lstat(path); err == nil && !fi.Mode().IsRegular() {
		if fi.Mode()&os.ModeNamedPipe != 0 {
			return "fifo"
		}
		return "chardev"
	}
	b, err := os.ReadFile(path)
	if err != nil {
		return "absent"
	}
	return common.Hex(b)
}

// runProtoCase: returns (impl line, model line, direct rule violations).
// permCase: "ro:<hex>" / "wo:<hex>" = a root-owned file of mode 0444 / 0222 holding <hex>, the
// call made by uid 65534 (the helper drops its privileges); "" otherwise.
func permCase(file string) (mode os.FileMode, content, attrs string, ok bool) {
	switch {
	case strings.HasPrefix(file, "ro:"):
		return 0o444, file[3:], "1 1 0", true
	case strings.HasPrefix(file, "wo:"):
		return 0o222, file[3:], "1 0 1", true
	}
	return 0, "", "", false
}

func runProtoCase(self, work string, m *lfModel, c protoCase, inject string) (impl, model string, rules []string, raw string, err error) {
	if mode, content, attrs, ok := permCase(c.File); ok {
		return runPermCase(self, work, m, c, mode, content, attrs)
	}
	path := filepath.Join(work, "proto-file")
	setFile(path, c.File)
	if (c.File == "fifo" || c.File == "chardev") && getFile(path) != c.File {
		return "", "", nil, "", fmt.Errorf("cannot create a %s here (skipped)", c.File)
	}
	result, evs, raw, err := straceCall(self, work, c.Call, path, c.helperArg(), inject, []string{"GOMAXPROCS=1"})
	if err != nil {
		return "", "", nil, raw, err
	}
	tr, err := canonTrace(evs)
	if err != nil {
		return "", "", nil, raw, err
	}
	if strings.HasPrefix(result, "data:") && c.Call != "read" {
		result = "ok"
	}
	impl = result + " " + getFile(path) + " | " + tr
	fl, ok := flagsOfCall(c)
	rules = traceRules(evs, fl, ok, result)
	if m != nil && inject == "" {
		req := fmt.Sprintf("ops %s %s %s", c.Call, c.Arg, c.File)
		if strings.HasPrefix(c.Helper, "rd:") {
			// Write with a content reader: one write per delivered chunk, then the reader's error
			chunks, rerr := readerModel(c.Helper)
			req = fmt.Sprintf("ops writer %s:%d %s", chunks, b2i(rerr), c.File)
		}
		ans := m.Ask1(req)
		o, f, t, e := canonModel(ans)
		if e != nil {
			return impl, ans, rules, raw, nil
		}
		model = o + " " + f + " | " + t
	}
	os.Remove(path)
	return impl, model, rules, raw, nil
}

// runPermCase: the call is made by an unprivileged uid on a file it may only read (or only
// write); compared with the model's attribute semantics (opsattr).
func runPermCase(self, work string, m *lfModel, c protoCase, mode os.FileMode, content, attrs string) (impl, model string, rules []string, raw string, err error) {
	if os.Geteuid() != 0 {
		return "", "", nil, "", fmt.Errorf("not root: cannot switch to an unprivileged uid (skipped)")
	}
	dir, err := os.MkdirTemp("/tmp", "verif-lf-proto")
	if err != nil {
		return "", "", nil, "", err
	}
	defer os.RemoveAll(dir)
	os.Chmod(dir, 0o755)
	path := filepath.Join(dir, "f")
	os.WriteFile(path, common.UnHex(content), mode)
	os.Chmod(path, mode)
	result, evs, raw, err := straceCall(self, dir, c.Call, path, c.Arg, "", []string{"GOMAXPROCS=1", "LF_UID=65534"})
	if err != nil {
		return "", "", nil, raw, err
	}
	if result == "nopriv" {
		return "", "", nil, raw, fmt.Errorf("helper could not drop privileges (skipped)")
	}
	tr, err := canonTrace(evs)
	if err != nil {
		return "", "", nil, raw, err
	}
	if strings.HasPrefix(result, "data:") && c.Call != "read" {
		result = "ok"
	}
	impl = result + " " + getFile(path) + " | " + tr
	fl, ok := flagsOfCall(c)
	rules = traceRules(evs, fl, ok, result)
	if m != nil {
		ans := m.Ask1(fmt.Sprintf("opsattr %s %s %s %s", c.Call, c.Arg, content, attrs))
		if o, f, t, e := canonModel(ans); e == nil {
			model = o + " " + f + " | " + t
		} else {
			model = ans
		}
	}
	return impl, model, rules, raw, nil
}

package main

// lfModel: the runner's own connection to the extracted model binary (a copy of the helper in
// harness/common with one addition): EVERY conversation has a hard deadline.  When the model
// does not answer in time it is killed and restarted, the caller gets "MODEL-TIMEOUT" and a
// Notes entry records it — a stuck or super-linear model request can never hang a check.

import (
	"bufio"
	"fmt"
	"io"
	"os"
	"os/exec"
	"strings"
	"sync"
	"time"
)

type lfModel struct {
	path     string
	mu       sync.Mutex
	cmd      *exec.Cmd
	in       io.WriteCloser
	out      *bufio.Reader
	timeouts []string // requests (abbreviated) that ran into the deadline
}

// workerDeadline bounds every stress / history / traced worker process.
const workerDeadline = 4 * time.Minute

const (
	modelQuickDeadline = 20 * time.Second  // ordinary requests answer in milliseconds
	modelHeavyDeadline = 120 * time.Second // history replays
)

func startLfModel(path string) (*lfModel, error) {
	m := &lfModel{path: path}
	if err := m.start(); err != nil {
		return nil, err
	}
	return m, nil
}

func (m *lfModel) start() error {
	cmd := exec.Command(m.path)
	in, err := cmd.StdinPipe()
	if err != nil {
		return err
	}
	out, err := cmd.StdoutPipe()
	if err != nil {
		return err
	}
	cmd.Stderr = os.Stderr
	if err := cmd.Start(); err != nil {
		return err
	}
	m.cmd, m.in, m.out = cmd, in, bufio.NewReaderSize(out, 1<<20)
	return nil
}

func (m *lfModel) kill() {
	if m.cmd != nil && m.cmd.Process != nil {
		m.cmd.Process.Kill()
		m.cmd.Wait()
	}
	m.cmd = nil
}

// AskT sends one request and waits at most d for the one-line answer.
func (m *lfModel) AskT(req string, d time.Duration) string {
	m.mu.Lock()
	defer m.mu.Unlock()
	if m.cmd == nil {
		if err := m.start(); err != nil {
			return "MODEL-ERROR " + err.Error()
		}
	}
	type ans struct {
		s   string
		err error
	}
	ch := make(chan ans, 1)
	in, out := m.in, m.out
	go func() {
		w := bufio.NewWriterSize(in, 1<<20)
		w.WriteString(req)
		w.WriteString("\n.\n") // "." makes the driver flush
		if err := w.Flush(); err != nil {
			ch <- ans{"", err}
			return
		}
		line, err := out.ReadString('\n')
		ch <- ans{strings.TrimRight(line, "\n"), err}
	}()
	select {
	case a := <-ch:
		if a.err != nil {
			m.kill()
			return "MODEL-ERROR " + a.err.Error()
		}
		return a.s
	case <-time.After(d):
		m.kill() // unblocks the goroutine; the next request starts a fresh model
		short := req
		if len(short) > 60 {
			short = short[:60] + "..."
		}
		m.timeouts = append(m.timeouts, fmt.Sprintf("%s (%d bytes, deadline %v)", short, len(req), d))
		return "MODEL-TIMEOUT"
	}
}

func (m *lfModel) Ask1(req string) string { return m.AskT(req, modelQuickDeadline) }

func (m *lfModel) Close() {
	m.mu.Lock()
	defer m.mu.Unlock()
	if m.cmd != nil {
		m.in.Close()
		done := make(chan struct{})
		go func() { m.cmd.Wait(); close(done) }()
		select {
		case <-done:
		case <-time.After(3 * time.Second):
			m.cmd.Process.Kill()
		}
		m.cmd = nil
	}
}

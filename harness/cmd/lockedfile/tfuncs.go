package main

// Transform functions by RESULT REPRESENTATION, and content readers for Write.
//
// The property says that Transform publishes the result of its function — for every result
// value.  A Go []byte value has several representations (nil, empty non-nil, a sub-slice of the
// argument, a fresh slice, an in-place append); the model's t is a function on values, so the
// representation is visible to the implementation only.  resTransform builds the function from a
// spec; the helper applies it to Transform's real buffer, the runner applies the same function to
// a private copy to obtain the VALUE the file must hold afterwards.
//
//	res:nil                 nil, nil           (the empty result as a nil slice)
//	res:empty               []byte{}           (empty, non-nil)
//	res:emptycap            make([]byte, 0, 64)
//	res:old0                old[:0]            (empty, aliasing the argument)
//	res:sub:<i>:<j>         old[i:j]           (aliases the middle of the argument)
//	res:trimspace           bytes.TrimSpace(old)   (sub-slice, or nil when all blank)
//	res:keepnot:<hexbyte>   append-filter into `var out []byte` of the bytes != b (nil when none)
//	res:keep:<hexbyte>      the same for the bytes == b
//	res:upper               bytes.ToUpper(old) (fresh, same length)
//	res:repeat:<n>          bytes.Repeat(old, n)
//	res:fields              bytes.Join(bytes.Fields(old), " ")
//	res:lit:<hex>           a fresh literal
//	alias:...               see aliasTransform (helper.go)

import (
	"bytes"
	"errors"
	"io"
	"strconv"
	"strings"
)

func resTransform(spec string, old []byte) []byte {
	f := strings.Split(spec, ":")
	if len(f) < 2 {
		return old
	}
	if f[0] == "alias" {
		return aliasTransform(spec, old)
	}
	atoi := func(i int) int {
		if i < len(f) {
			n, _ := strconv.Atoi(f[i])
			return n
		}
		return 0
	}
	switch f[1] {
	case "nil":
		return nil
	case "empty":
		return []byte{}
	case "emptycap":
		return make([]byte, 0, 64)
	case "old0":
		return old[:0]
	case "sub":
		i, j := atoi(2), atoi(3)
		if j > len(old) {
			j = len(old)
		}
		if i > j {
			i = j
		}
		return old[i:j]
	case "trimspace":
		return bytes.TrimSpace(old)
	case "keepnot", "keep":
		var out []byte
		x := unhexQuiet(f[2])
		for _, b := range old {
			if (len(x) == 1 && b == x[0]) == (f[1] == "keep") {
				out = append(out, b)
			}
		}
		return out
	case "upper":
		return bytes.ToUpper(old)
	case "repeat":
		return bytes.Repeat(old, atoi(2))
	case "fields":
		return bytes.Join(bytes.Fields(old), []byte(" "))
	case "lit":
		return unhexQuiet(f[2])
	}
	return old
}

func unhexQuiet(s string) []byte {
	if s == "-" || s == "" {
		return []byte{}
	}
	b := make([]byte, 0, len(s)/2)
	for i := 0; i+1 < len(s); i += 2 {
		v, err := strconv.ParseUint(s[i:i+2], 16, 8)
		if err != nil {
			return nil
		}
		b = append(b, byte(v))
	}
	return b
}

// resValue: the value the function denotes on old (computed on a private copy).
func resValue(spec, oldHex string) string {
	old := append([]byte{}, unhexQuiet(oldHex)...)
	return hexs(resTransform(spec, old))
}

// resSpecs: the result representations tried on every file content.
var resSpecs = []string{"res:nil", "res:empty", "res:emptycap", "res:old0", "res:sub:1:3", "res:sub:2:2", "res:trimspace",
	"res:keepnot:20", "res:keep:7a", "res:upper", "res:repeat:2", "res:repeat:0", "res:fields"}

// ---------------------------------------------------------------- content readers for Write
//
//	rd:bytes:<c1>,<c2>..    bytes.NewReader(c1+c2+..)  (implements WriterTo: one Write)
//	rd:plain:<c1>,<c2>..    one Read per chunk, then io.EOF (no WriterTo: io.Copy's buffer loop)
//	rd:eofdata:<c1>,..      the last chunk is returned together with io.EOF
//	rd:err:<c1>,..          after the chunks the reader reports an error (not EOF)
//	rd:dataerr:<c1>,..      the last chunk is returned together with the error

var errReader = errors.New("content reader failed")

type chunkReader struct {
	chunks  [][]byte
	final   error // what ends the stream: io.EOF or errReader
	withLas bool  // the last chunk is delivered together with final
}

func (r *chunkReader) Read(p []byte) (int, error) {
	if len(r.chunks) == 0 {
		return 0, r.final
	}
	c := r.chunks[0]
	n := copy(p, c)
	if n < len(c) {
		r.chunks[0] = c[n:]
		return n, nil
	}
	r.chunks = r.chunks[1:]
	if len(r.chunks) == 0 && r.withLas {
		return n, r.final
	}
	return n, nil
}

func readerChunks(spec string) (kind string, chunks [][]byte) {
	f := strings.SplitN(spec, ":", 3)
	if len(f) < 3 {
		return "", nil
	}
	for _, c := range strings.Split(f[2], ",") {
		chunks = append(chunks, unhexQuiet(c))
	}
	return f[1], chunks
}

// contentReader: the io.Reader handed to lockedfile.Write for arg (plain hex = bytes.Reader).
func contentReader(arg string) io.Reader {
	if !strings.HasPrefix(arg, "rd:") {
		return bytes.NewReader(unhexQuiet(arg))
	}
	kind, chunks := readerChunks(arg)
	switch kind {
	case "bytes":
		return bytes.NewReader(bytes.Join(chunks, nil))
	case "plain":
		return &chunkReader{chunks: chunks, final: io.EOF}
	case "eofdata":
		return &chunkReader{chunks: chunks, final: io.EOF, withLas: true}
	case "err":
		return &chunkReader{chunks: chunks, final: errReader}
	case "dataerr":
		return &chunkReader{chunks: chunks, final: errReader, withLas: true}
	}
	return bytes.NewReader(nil)
}

// readerModel: what the model is asked for the reader: the chunks as separate writes (one
// chunk for a WriterTo) and whether the stream ends in an error.
func readerModel(arg string) (chunks string, rerr bool) {
	if !strings.HasPrefix(arg, "rd:") {
		return arg, false
	}
	kind, cs := readerChunks(arg)
	if kind == "bytes" {
		return hexs(bytes.Join(cs, nil)), false
	}
	var hs []string
	for _, c := range cs {
		hs = append(hs, hexs(c))
	}
	return strings.Join(hs, ","), kind == "err" || kind == "dataerr"
}

// readerValue: all the bytes the reader delivers (what a successful Write leaves).
func readerValue(arg string) string {
	if !strings.HasPrefix(arg, "rd:") {
		return hexs(unhexQuiet(arg))
	}
	_, cs := readerChunks(arg)
	return hexs(bytes.Join(cs, nil))
}

var readerSpecs = []string{"rd:bytes:616263,6465", "rd:plain:616263,6465,66", "rd:plain:-", "rd:plain:6162,-,6364", "rd:eofdata:6162,6364",
	"rd:err:616263,6465", "rd:err:-", "rd:dataerr:6162,6364", "rd:dataerr:61"}

package main

// C06, "the lock is held from the moment the call returns until Close (or the returned unlock
// function) is called, and is released by that call" — over HISTORIES of calls made by one
// process, with the lock state probed from another process after every step.
//
// The helper (this binary = the checked tree's code) is a little interpreter: it keeps every File
// / unlock function / Mutex value it ever obtained under a label and executes one command per
// line —
//
//	open L api path     Create / Edit / Open / OpenFile(flags) / MutexAt(path).Lock()
//	mnew M path         a Mutex VALUE, to be locked and unlocked many times
//	lock L M            M.Lock()
//	close L             File.Close (also a second, third ... time) / the unlock function
//	gc                  two garbage collections with time for the finalizers to run
//	io L                use the held File (fstat through its descriptor)
//	cd dir              change directory (paths are spelled absolutely and relatively)
//	call api mode path  one COMPLETE use of the package in a goroutine of its own: Transform / Write /
//	                    Read, or Create / Edit / Open / MutexAt(path).Lock() followed by the documented
//	                    `defer f.Close()` / `defer unlock()`; the callback (Transform's t, Write's content
//	                    reader) or the body under the defer ends as `mode` says: ok, err (returns an
//	                    error), panic (recovered by the caller of the goroutine's function, above the
//	                    package), goexit (runtime.Goexit, what t.Fatal does).  However it ends, when the
//	                    goroutine is gone the call has released what it took.
//
// — and answers with the result and the number of descriptors it has on each file.  After every
// step the runner, ANOTHER process, asks the kernel for flock(LOCK_EX|LOCK_NB) / (LOCK_SH|LOCK_NB)
// on every file and compares with what the property text says the state must be: nobody between
// return and Close => free; only read holders => shared; a write holder => exclusive.  The
// reference is a dozen lines of bookkeeping over the script (no model, no timing: the helper
// waits for the next command while the probe runs).
//
// Scripts are generated so that no step can block in a correct implementation (a write-locking
// call is issued only when the reference says nobody holds the file), with: several holders in
// one process, redundant Close calls on stale File values after other calls have reused their
// descriptor numbers, the same Mutex value through many Lock/unlock cycles, files that do not
// exist yet, ten spellings of one file from two working directories (absolute and relative; plain,
// through a symlinked directory, through a symlinked directory followed by `..` — which the OS
// resolves to the parent of the link's TARGET, not to the directory the link is in —, through a
// symlink to the file itself: every spelling the OS resolves to one file must contend for one
// lock, whichever API it is handed to), complete calls whose callback / body panics, calls
// runtime.Goexit or returns an error, and garbage collections while locks are held.  The same script is run through the extracted handle-level
// model (Handles.v: hrun) and compared step by step (correspondence).

import (
	"bufio"
	"fmt"
	"io"
	"os"
	"os/exec"
	"path/filepath"
	"runtime"
	"strconv"
	"strings"
	"time"

	"github.com/rogpeppe/go-internal/lockedfile"
	"golang.org/x/sys/unix"

	"verif/harness/common"
)

// ---------------------------------------------------------------- helper side

type hsHolder struct {
	f      *lockedfile.File
	unlock func()
	called bool // the unlock function has been called (it may be called once only)
	path   string
	dev    uint64 // the file the name pointed to when the call returned (as the OS resolves it)
	ino    uint64
	have   bool
}

type hsSentinelT struct{}

var hsSentinel = hsSentinelT{}

type hsFailingReader struct{ end func() error }

func (r hsFailingReader) Read(p []byte) (int, error) {
	if err := r.end(); err != nil {
		return 0, err
	}
	return 0, io.EOF
}

// hsBody: one complete use of the package; the callback / the body under the deferred Close ends
// as mode says.
func hsBody(api, mode, path string) error {
	end := func() error {
		switch mode {
		case "err":
			return fmt.Errorf("declined")
		case "panic":
			panic(hsSentinel)
		case "goexit":
			runtime.Goexit()
		}
		return nil
	}
	switch api {
	case "transform":
		return lockedfile.Transform(path, func(old []byte) ([]byte, error) {
			if err := end(); err != nil {
				return nil, err
			}
			return old, nil
		})
	case "read":
		_, err := lockedfile.Read(path)
		return err
	case "write":
		return lockedfile.Write(path, hsFailingReader{end}, 0o666)
	case "mutexat":
		unlock, err := lockedfile.MutexAt(path).Lock()
		if err != nil {
			return err
		}
		defer unlock()
		return end()
	}
	f, _, err := hsOpen(api, path)
	if err != nil {
		return err
	}
	if f == nil {
		return fmt.Errorf("bad api")
	}
	defer f.Close()
	return end()
}

// hsCall runs hsBody in a goroutine of its own (Goexit ends that goroutine only) under a recover
// that stands for the caller's: OK / ERR (returned), UNWOUND (our panic came through), GOEXIT,
// PANIC:... (somebody else's panic).
func hsCall(api, mode, path string) string {
	done := make(chan string, 1)
	go func() {
		st := "GOEXIT"
		defer func() { done <- st }()
		defer func() {
			if e := recover(); e != nil {
				if e == any(hsSentinel) {
					st = "UNWOUND"
				} else {
					st = "PANIC:" + hexs([]byte(fmt.Sprint(e)))
				}
			}
		}()
		st = errStatus(hsBody(api, mode, path))
	}()
	return <-done
}

func hsOpen(api, path string) (*lockedfile.File, func(), error) {
	switch {
	case api == "create":
		f, err := lockedfile.Create(path)
		return f, nil, err
	case api == "edit":
		f, err := lockedfile.Edit(path)
		return f, nil, err
	case api == "open":
		f, err := lockedfile.Open(path)
		return f, nil, err
	case api == "mutexat":
		u, err := lockedfile.MutexAt(path).Lock()
		return nil, u, err
	case strings.HasPrefix(api, "openfile:"):
		fl, _ := strconv.Atoi(api[len("openfile:"):])
		f, err := lockedfile.OpenFile(path, fl, 0o666)
		return f, nil, err
	}
	return nil, nil, fmt.Errorf("bad api")
}

func scriptHelper() {
	holders := map[string]*hsHolder{}
	mutexes := map[string]*lockedfile.Mutex{}
	var abs []string
	in := bufio.NewReader(os.Stdin)
	out := bufio.NewWriter(os.Stdout)
	counts := func() string {
		var s []string
		for _, p := range abs {
			d, i, ok := statKey(p)
			on, _ := fdScan(d, i, ok)
			s = append(s, strconv.Itoa(len(on)))
		}
		return strings.Join(s, ",")
	}
	for {
		line, err := in.ReadString('\n')
		if err != nil {
			return
		}
		w := strings.Fields(line)
		if len(w) == 0 {
			continue
		}
		status := func() (st string) {
			defer func() {
				if e := recover(); e != nil {
					st = "PANIC:" + hexs([]byte(fmt.Sprint(e)))
				}
			}()
			switch w[0] {
			case "paths":
				abs = w[1:]
				return "OK"
			case "cd":
				if os.Chdir(w[1]) != nil {
					return "ERR"
				}
				return "OK"
			case "open":
				f, u, err := hsOpen(w[2], w[3])
				if err != nil {
					holders[w[1]] = &hsHolder{called: true, path: w[3]}
					return "ERR"
				}
				// where the name points NOW, as the OS resolves it (the directory may change
				// later; no lexical cleaning: link/.. is not the directory the link is in)
				d, i, have := statKey(w[3])
				holders[w[1]] = &hsHolder{f: f, unlock: u, path: w[3], dev: d, ino: i, have: have}
				return "OK"
			case "call":
				return hsCall(w[1], w[2], w[3])
			case "mnew":
				mutexes[w[1]] = lockedfile.MutexAt(w[2])
				return "OK"
			case "lock":
				m := mutexes[w[2]]
				u, err := m.Lock()
				if err != nil {
					holders[w[1]] = &hsHolder{called: true, path: m.Path}
					return "ERR"
				}
				holders[w[1]] = &hsHolder{unlock: u, path: m.Path}
				return "OK"
			case "close":
				h := holders[w[1]]
				switch {
				case h == nil:
					return "SKIP"
				case h.f != nil:
					if h.f.Close() != nil {
						return "ERR"
					}
					return "OK"
				case h.unlock != nil && !h.called:
					h.called = true
					h.unlock()
					return "OK"
				}
				return "SKIP"
			case "gc":
				for i := 0; i < 2; i++ {
					runtime.GC()
					runtime.Gosched()
					time.Sleep(2 * time.Millisecond)
				}
				return "OK"
			case "io":
				h := holders[w[1]]
				if h == nil || h.f == nil {
					return "SKIP"
				}
				var st unix.Stat_t
				if unix.Fstat(int(h.f.Fd()), &st) != nil {
					return "ERR"
				}
				if !h.have || uint64(st.Dev) != h.dev || st.Ino != h.ino {
					return "ERR"
				}
				return "OK"
			}
			return "BAD"
		}()
		fmt.Fprintf(out, "%s fds=%s\n", status, counts())
		out.Flush()
	}
}

// ---------------------------------------------------------------- scripts and the reference

type hsStep struct {
	Op   string // cd open mnew lock close gc io
	L    int    // label defined (open, lock, mnew) or referred to (close, io)
	M    int    // lock: the Mutex value
	Api  string // open
	P    int    // path index (open, mnew)
	Sp   int    // spelling (open, mnew)
	Dir  string // cd: "." or "sub"
	Mode string // call: ok err panic goexit
}

func (s hsStep) String() string {
	switch s.Op {
	case "cd":
		return "cd " + s.Dir
	case "open":
		return fmt.Sprintf("open L%d %s f%d s%d", s.L, s.Api, s.P, s.Sp)
	case "mnew":
		return fmt.Sprintf("mnew M%d f%d s%d", s.L, s.P, s.Sp)
	case "lock":
		return fmt.Sprintf("lock L%d M%d", s.L, s.M)
	case "call":
		return fmt.Sprintf("call %s:%s f%d s%d", s.Api, s.Mode, s.P, s.Sp)
	case "close", "io":
		return fmt.Sprintf("%s L%d", s.Op, s.L)
	}
	return s.Op
}

func hsScriptString(sc []hsStep) string {
	var w []string
	for _, s := range sc {
		w = append(w, s.String())
	}
	return strings.Join(w, " ; ")
}

func hsParseScript(text string) []hsStep {
	var sc []hsStep
	num := func(s string) int { n, _ := strconv.Atoi(strings.TrimLeft(s, "LMfs")); return n }
	for _, part := range strings.Split(text, ";") {
		w := strings.Fields(part)
		if len(w) == 0 {
			continue
		}
		switch {
		case w[0] == "cd" && len(w) == 2:
			sc = append(sc, hsStep{Op: "cd", Dir: w[1]})
		case w[0] == "open" && len(w) == 5:
			sc = append(sc, hsStep{Op: "open", L: num(w[1]), Api: w[2], P: num(w[3]), Sp: num(w[4])})
		case w[0] == "mnew" && len(w) == 4:
			sc = append(sc, hsStep{Op: "mnew", L: num(w[1]), P: num(w[2]), Sp: num(w[3])})
		case w[0] == "call" && len(w) == 4 && strings.Contains(w[1], ":"):
			am := strings.SplitN(w[1], ":", 2)
			sc = append(sc, hsStep{Op: "call", Api: am[0], Mode: am[1], P: num(w[2]), Sp: num(w[3])})
		case w[0] == "lock" && len(w) == 3:
			sc = append(sc, hsStep{Op: "lock", L: num(w[1]), M: num(w[2])})
		case (w[0] == "close" || w[0] == "io") && len(w) == 2:
			sc = append(sc, hsStep{Op: w[0], L: num(w[1])})
		case w[0] == "gc":
			sc = append(sc, hsStep{Op: "gc"})
		}
	}
	return sc
}

const hsPaths = 3

// Layout of the base directory of a script (hsLayout): the files f0..f2; the directory sub;
// far/in (real directories); sub/lnk -> ../far/in (so that sub/lnk/.. IS far, whatever a lexical
// cleaning of the name says); far/fN -> ../fN (symlinks to the files themselves); self -> .
const hsSpellings = 10

func hsLayout(base string) error {
	for _, d := range []string{"sub", "far", "far/in"} {
		if err := os.Mkdir(filepath.Join(base, d), 0o777); err != nil {
			return err
		}
	}
	if err := os.Symlink("../far/in", filepath.Join(base, "sub", "lnk")); err != nil {
		return err
	}
	if err := os.Symlink(".", filepath.Join(base, "self")); err != nil {
		return err
	}
	for p := 0; p < hsPaths; p++ {
		if err := os.Symlink(fmt.Sprintf("../f%d", p), filepath.Join(base, "far", fmt.Sprintf("f%d", p))); err != nil {
			return err
		}
	}
	return nil
}

// hsAbsSp: the spelling is absolute (names the same file from every working directory)
func hsAbsSp(sp int) bool { return sp%hsSpellings%2 == 0 && sp%hsSpellings != 2 }

// hsLinkSp: the last element of the spelling is a symlink to the file (O_CREATE|O_EXCL answers
// EEXIST for it whether or not the file exists: not issued)
func hsLinkSp(sp int) bool { k := sp % hsSpellings; return k >= 4 && k <= 7 }

// spelling of file p of the base directory, seen from cwd ("." = base, "sub" = base/sub).
// Spellings are written out as strings (filepath.Join would clean them).
func hsSpell(base, cwd string, p, sp int) string {
	name := fmt.Sprintf("f%d", p)
	switch sp % hsSpellings { // the absolute ones
	case 0:
		return base + "/" + name
	case 4:
		return base + "/sub/lnk/../" + name // = far/fN -> ../fN
	case 6:
		return base + "/far/" + name
	case 8:
		return base + "/self/" + name
	}
	if cwd == "." {
		switch sp % hsSpellings {
		case 1:
			return name
		case 2:
			return "./" + name
		case 3:
			return "sub/../" + name
		case 5:
			return "sub/lnk/../" + name
		case 7:
			return "far/" + name
		default:
			return "self/sub/../" + name
		}
	}
	switch sp % hsSpellings {
	case 1:
		return "../" + name
	case 2:
		return "./../" + name
	case 3:
		return "../sub/../" + name
	case 5:
		return "lnk/../" + name
	case 7:
		return "../far/" + name
	default:
		return "../self/" + name
	}
}

// flags of an api; ok=false for an unknown one
func hsFlags(api string) (int, bool) {
	switch {
	case api == "create":
		return os.O_RDWR | os.O_CREATE | os.O_TRUNC, true
	case api == "edit", api == "mutexat", api == "lock", api == "transform":
		return os.O_RDWR | os.O_CREATE, true
	case api == "write":
		return os.O_WRONLY | os.O_CREATE | os.O_TRUNC, true
	case api == "read":
		return os.O_RDONLY, true
	case api == "open":
		return os.O_RDONLY, true
	case strings.HasPrefix(api, "openfile:"):
		fl, err := strconv.Atoi(api[len("openfile:"):])
		return fl, err == nil
	}
	return 0, false
}

type hsLab struct {
	p        int
	write    bool
	held     bool
	isFile   bool // a File (Close may be repeated); otherwise an unlock function
	obtained bool // the call succeeded
}

// hsRef: the property text as bookkeeping.
type hsRef struct {
	exists [hsPaths]bool
	labs   map[int]*hsLab
	mpath  map[int]int
	mcwd   map[int]string // "" = the Mutex was given an absolute path; otherwise the directory its relative Path was written for
	cwd    string
}

func newHsRef(exists [hsPaths]bool) *hsRef {
	return &hsRef{exists: exists, labs: map[int]*hsLab{}, mpath: map[int]int{}, mcwd: map[int]string{}, cwd: "."}
}

func (r *hsRef) holders(p int) (readers, writers int) {
	for _, l := range r.labs {
		if l.held && l.p == p {
			if l.write {
				writers++
			} else {
				readers++
			}
		}
	}
	return
}

// want: the state a prober must find: 'f'ree, 's'hared, 'x' exclusive
func (r *hsRef) want(p int) byte {
	rd, wr := r.holders(p)
	switch {
	case wr > 0:
		return 'x'
	case rd > 0:
		return 's'
	}
	return 'f'
}

// acquire: the expected result of a locking call with these flags on path p; ok=false when the
// call would block (or is otherwise not to be issued) in the current state.
func (r *hsRef) acquire(p, flags int) (succeeds, write, ok bool) {
	write = flags&(os.O_WRONLY|os.O_RDWR) != 0
	rd, wr := r.holders(p)
	creates := flags&os.O_CREATE != 0
	switch {
	case !r.exists[p] && !creates:
		return false, write, true // ENOENT before any lock is asked for
	case r.exists[p] && creates && flags&os.O_EXCL != 0:
		return false, write, true // EEXIST
	case write && rd+wr > 0, !write && wr > 0:
		return false, write, false // would block
	}
	return true, write, true
}

// step applies s; returns the expected status ("OK", "ERR", "SKIP") and whether the step is
// admissible here.
func (r *hsRef) step(s hsStep) (string, bool) {
	switch s.Op {
	case "cd":
		if s.Dir != "." && s.Dir != "sub" {
			return "", false
		}
		r.cwd = s.Dir
		return "OK", true
	case "gc":
		return "OK", true
	case "mnew":
		if _, dup := r.mpath[s.L]; dup || s.P < 0 || s.P >= hsPaths {
			return "", false
		}
		r.mpath[s.L] = s.P
		if !hsAbsSp(s.Sp) {
			r.mcwd[s.L] = r.cwd
		}
		return "OK", true
	case "open", "lock":
		p, api := s.P, s.Api
		if s.Op == "lock" {
			mp, ok := r.mpath[s.M]
			if !ok || (r.mcwd[s.M] != "" && r.mcwd[s.M] != r.cwd) {
				// a relative Path names another file from another directory: not issued
				return "", false
			}
			p, api = mp, "lock"
		}
		fl, ok := hsFlags(api)
		if _, dup := r.labs[s.L]; dup || !ok || p < 0 || p >= hsPaths {
			return "", false
		}
		if s.Op == "open" && fl&os.O_EXCL != 0 && hsLinkSp(s.Sp) {
			return "", false
		}
		succ, write, ok := r.acquire(p, fl)
		if !ok {
			return "", false
		}
		isFile := s.Op == "open" && api != "mutexat"
		r.labs[s.L] = &hsLab{p: p, write: write, held: succ, isFile: isFile, obtained: succ}
		if succ {
			r.exists[p] = true
			return "OK", true
		}
		return "ERR", true
	case "call":
		want, okm := map[string]string{"ok": "OK", "err": "ERR", "panic": "UNWOUND", "goexit": "GOEXIT"}[s.Mode]
		fl, ok := hsFlags(s.Api)
		switch {
		case !okm || !ok || s.P < 0 || s.P >= hsPaths || strings.HasPrefix(s.Api, "openfile:") || s.Api == "lock":
			return "", false
		case s.Api == "read" && s.Mode != "ok":
			return "", false // nothing of the caller's runs inside Read
		case s.Api == "write" && s.Mode != "ok" && s.Mode != "err":
			// Write closes explicitly after io.Copy (no defer): on the UNCHANGED tree a content
			// reader that panics or calls Goexit leaves the file locked (reported as a finding
			// of /repo; not alarmed on here).  Readers that return an error are covered.
			return "", false
		}
		succ, _, ok := r.acquire(s.P, fl)
		if !ok {
			return "", false
		}
		if !succ {
			return "ERR", true
		}
		r.exists[s.P] = true
		return want, true // and nothing is held any more: the labels are as before
	case "close":
		l := r.labs[s.L]
		switch {
		case l == nil:
			return "", false
		case !l.obtained:
			return "SKIP", true
		case l.held:
			l.held = false
			return "OK", true
		case l.isFile:
			return "ERR", true // a second Close reports an error and does nothing else
		}
		return "SKIP", true // an unlock function is called once only
	case "io":
		l := r.labs[s.L]
		if l == nil || !l.isFile || !l.held {
			return "", false
		}
		return "OK", true
	}
	return "", false
}

// hsValid: the script can be run (no step blocks or refers to something undefined).
func hsValid(sc []hsStep, exists [hsPaths]bool) bool {
	r := newHsRef(exists)
	for _, s := range sc {
		if _, ok := r.step(s); !ok {
			return false
		}
	}
	return true
}

var hsReadApis = []string{"open", "openfile:0", fmt.Sprintf("openfile:%d", os.O_RDONLY|os.O_CREATE)}
var hsWriteApis = []string{"create", "edit", "mutexat", fmt.Sprintf("openfile:%d", os.O_RDWR), fmt.Sprintf("openfile:%d", os.O_WRONLY),
	fmt.Sprintf("openfile:%d", os.O_WRONLY|os.O_APPEND), fmt.Sprintf("openfile:%d", os.O_RDWR|os.O_CREATE|os.O_EXCL),
	fmt.Sprintf("openfile:%d", os.O_WRONLY|os.O_CREATE|os.O_TRUNC)}

var hsCallApis = []string{"transform", "transform", "transform", "write", "read", "edit", "create", "open", "mutexat"}
var hsCallModes = []string{"ok", "err", "panic", "goexit", "panic", "goexit"}

// hsGen: a random admissible script.  flavour biases it: 0 mixed, 1 many cycles of few Mutex
// values, 2 Close repeated on stale Files between other opens, 3 garbage collections while
// relative spellings are held.
func hsGen(rng *common.RNG, n, flavour int, exists [hsPaths]bool) []hsStep {
	r := newHsRef(exists)
	var sc []hsStep
	nextL, nextM := 0, 0
	try := func(s hsStep) bool {
		// r.step changes the reference only when the step is admissible
		if _, ok := r.step(s); ok {
			sc = append(sc, s)
			return true
		}
		return false
	}
	pickLab := func(pred func(*hsLab) bool) (int, bool) {
		var c []int
		for k, l := range r.labs {
			if pred(l) {
				c = append(c, k)
			}
		}
		if len(c) == 0 {
			return 0, false
		}
		// map order is random: sort for reproducibility
		for i := range c {
			for j := i + 1; j < len(c); j++ {
				if c[j] < c[i] {
					c[i], c[j] = c[j], c[i]
				}
			}
		}
		return c[rng.Intn(len(c))], true
	}
	for len(sc) < n {
		k := rng.Intn(23)
		sp := rng.Intn(hsSpellings)
		if flavour == 3 && rng.Intn(3) > 0 {
			sp = common.Pick(rng, []int{1, 2, 3, 5, 7, 9}) // relative
		}
		switch {
		case k >= 20: // a complete call, ending in every way a callback / body can end
			try(hsStep{Op: "call", Api: common.Pick(rng, hsCallApis), Mode: common.Pick(rng, hsCallModes), P: rng.Intn(hsPaths), Sp: sp})
		case k < 4: // a read-locking call
			if try(hsStep{Op: "open", L: nextL, Api: common.Pick(rng, hsReadApis), P: rng.Intn(hsPaths), Sp: sp}) {
				nextL++
			}
		case k < 8: // a write-locking call
			if try(hsStep{Op: "open", L: nextL, Api: common.Pick(rng, hsWriteApis), P: rng.Intn(hsPaths), Sp: sp}) {
				nextL++
			}
		case k < 10 || (flavour == 1 && k < 14): // a Mutex value: new, or an existing one once more
			if nextM == 0 || (rng.Intn(4) == 0 && nextM < 3) {
				if try(hsStep{Op: "mnew", L: nextM, P: rng.Intn(hsPaths), Sp: sp}) {
					nextM++
				}
			} else if try(hsStep{Op: "lock", L: nextL, M: rng.Intn(nextM)}) {
				nextL++
			}
		case k < 14: // release a held one
			if l, ok := pickLab(func(l *hsLab) bool { return l.held }); ok {
				try(hsStep{Op: "close", L: l})
			}
		case k < 16 || (flavour == 2 && k < 18): // Close once more on a File that is closed already
			if l, ok := pickLab(func(l *hsLab) bool { return l.obtained && !l.held && l.isFile }); ok {
				try(hsStep{Op: "close", L: l})
			}
		case k < 18 || flavour == 3:
			try(hsStep{Op: "gc"})
		case k < 19:
			if l, ok := pickLab(func(l *hsLab) bool { return l.held && l.isFile }); ok {
				try(hsStep{Op: "io", L: l})
			}
		default:
			try(hsStep{Op: "cd", Dir: []string{".", "sub"}[rng.Intn(2)]})
		}
	}
	// wind down: everything that is still held is released, one by one, with a probe after each
	for {
		l, ok := pickLab(func(l *hsLab) bool { return l.held })
		if !ok {
			break
		}
		try(hsStep{Op: "close", L: l})
	}
	return sc
}

// ---------------------------------------------------------------- runner side

// probeState: what another process finds on the file right now: 'f'ree, 's'hared (somebody
// holds a read lock), 'x' (somebody holds the write lock), '-' no such file / cannot probe.
func probeState(path string) byte {
	fd, err := unix.Open(path, unix.O_RDONLY|unix.O_NONBLOCK|unix.O_CLOEXEC, 0)
	if err != nil {
		return '-'
	}
	defer unix.Close(fd)
	try := func(how int) error {
		for {
			err := unix.Flock(fd, how|unix.LOCK_NB)
			if err != unix.EINTR {
				return err
			}
		}
	}
	if try(unix.LOCK_EX) == nil {
		unix.Flock(fd, unix.LOCK_UN)
		return 'f'
	}
	if try(unix.LOCK_SH) == nil {
		unix.Flock(fd, unix.LOCK_UN)
		return 's'
	}
	return 'x'
}

type hsFinding struct {
	oracle string // "" = none
	step   int
	detail string
	obs    []string // per step: "status probes fds" as observed
}

func stateName(b byte) string {
	switch b {
	case 'f':
		return "free"
	case 's':
		return "read-locked"
	case 'x':
		return "write-locked"
	}
	return "absent"
}

// runHoldScript runs the script in a fresh helper process; exists = which files exist at the start.
func runHoldScript(self, work string, sc []hsStep, exists [hsPaths]bool) (hsFinding, error) {
	var fd hsFinding
	base, err := os.MkdirTemp(work, "hs")
	if err != nil {
		return fd, err
	}
	defer os.RemoveAll(base)
	if a, err := filepath.Abs(base); err == nil {
		base = a // the helper changes directory
	}
	if err := hsLayout(base); err != nil {
		return fd, err
	}
	var abs []string
	for p := 0; p < hsPaths; p++ {
		a := filepath.Join(base, fmt.Sprintf("f%d", p))
		abs = append(abs, a)
		if exists[p] {
			os.WriteFile(a, payload(uint64(p)+1, 10), 0o666)
		}
	}
	cmd, rd, in, err := startHelperEnv(self, []string{"GOMAXPROCS=1"}, "script")
	if err != nil {
		return fd, err
	}
	defer func() { in.Close(); cmd.Process.Kill(); cmd.Wait() }()
	send := func(line string) (string, bool) {
		fmt.Fprintln(in, line)
		return waitLine(rd, 30*time.Second)
	}
	if l, ok := send("paths " + strings.Join(abs, " ")); !ok || !strings.HasPrefix(l, "OK") {
		return fd, fmt.Errorf("script helper did not start: %q", l)
	}
	if l, ok := send("cd " + base); !ok || !strings.HasPrefix(l, "OK") {
		return fd, fmt.Errorf("script helper cannot chdir: %q", l)
	}
	ref := newHsRef(exists)
	found := func(i int, oracle, format string, a ...any) hsFinding {
		fd.oracle, fd.step, fd.detail = oracle, i, fmt.Sprintf(format, a...)
		return fd
	}
	for i, s := range sc {
		cwdBefore := ref.cwd
		wantSt, ok := ref.step(s)
		if !ok {
			return fd, fmt.Errorf("script not admissible at step %d (%s)", i, s)
		}
		var line string
		switch s.Op {
		case "cd":
			d := base
			if s.Dir == "sub" {
				d = filepath.Join(base, "sub")
			}
			line = "cd " + d
		case "open":
			line = fmt.Sprintf("open L%d %s %s", s.L, s.Api, hsSpell(base, cwdBefore, s.P, s.Sp))
		case "mnew":
			line = fmt.Sprintf("mnew M%d %s", s.L, hsSpell(base, cwdBefore, s.P, s.Sp))
		case "lock":
			line = fmt.Sprintf("lock L%d M%d", s.L, s.M)
		case "call":
			line = fmt.Sprintf("call %s %s %s", s.Api, s.Mode, hsSpell(base, cwdBefore, s.P, s.Sp))
		default:
			line = s.String()
		}
		ans, ok := send(line)
		if !ok {
			return found(i, "call-blocked", "step %d (%s): the call did not return within 30s although, by the calls made so far, nobody holds the file", i, s), nil
		}
		if strings.HasPrefix(ans, "EOF") {
			return found(i, "helper-crashed", "step %d (%s): the process died (%s)", i, s, strings.TrimSpace(ans)), nil
		}
		f := strings.Fields(ans)
		gotSt, fds := f[0], ""
		if len(f) > 1 {
			fds = strings.TrimPrefix(f[1], "fds=")
		}
		var probes []byte
		for p := 0; p < hsPaths; p++ {
			probes = append(probes, probeState(abs[p]))
		}
		fd.obs = append(fd.obs, fmt.Sprintf("%s %s %s", gotSt, probes, fds))
		if strings.HasPrefix(gotSt, "PANIC") {
			return found(i, "call-panicked", "step %d (%s) panicked: %s", i, s, gotSt), nil
		}
		// the lock state first: that is the property
		for p := 0; p < hsPaths; p++ {
			want, got := ref.want(p), probes[p]
			if got == '-' {
				if ref.exists[p] {
					return found(i, "file-vanished", "step %d (%s): f%d should exist but cannot be opened", i, s, p), nil
				}
				continue
			}
			if want == got {
				continue
			}
			rdn, wrn := ref.holders(p)
			if s.Op == "call" && s.P == p && !((want == 'x') || (want == 's' && got == 'f')) {
				return found(i, "lock-outlives-the-call", "after step %d (%s): the call is over (it answered %s: its callback / body ended by %s) and %d read / %d write holder(s) of f%d are between return and Close, yet another process finds the file %s — the call did not release the lock it took", i, s, gotSt, s.Mode, rdn, wrn, p, stateName(got)), nil
			}
			who := fmt.Sprintf("%d read holder(s) and %d write holder(s) of f%d are between return and Close", rdn, wrn, p)
			if (want == 'x') || (want == 's' && got == 'f') {
				return found(i, "lock-not-held-until-Close", "after step %d (%s): %s, yet another process finds the file %s — a lock was given up without Close / unlock having been called", i, s, who, stateName(got)), nil
			}
			return found(i, "lock-not-released-by-Close", "after step %d (%s): %s, yet another process finds the file %s — a lock outlived the Close / unlock call that had to release it", i, s, who, stateName(got)), nil
		}
		if gotSt != wantSt {
			or := "call-result"
			if s.Op == "close" && wantSt == "ERR" && gotSt == "OK" {
				or = "second-Close-succeeds"
			}
			if s.Op == "io" {
				or = "held-File-unusable"
			}
			return found(i, or, "step %d (%s): expected %s, the call answered %s", i, s, wantSt, gotSt), nil
		}
		var wantFds []string
		for p := 0; p < hsPaths; p++ {
			a, b := ref.holders(p)
			wantFds = append(wantFds, strconv.Itoa(a+b))
		}
		if w := strings.Join(wantFds, ","); w != fds {
			return found(i, "descriptors-on-file", "after step %d (%s): the process should have %s descriptor(s) on f0,f1,f2 (one per File between return and Close) and has %s", i, s, w, fds), nil
		}
	}
	return fd, nil
}

// startHelperEnv: startHelper with additional environment variables.
func startHelperEnv(self string, env []string, args ...string) (*exec.Cmd, *bufio.Reader, io.WriteCloser, error) {
	cmd := exec.Command(self, append([]string{"helper"}, args...)...)
	cmd.Env = append(os.Environ(), env...)
	cmd.Stderr = os.Stderr
	in, _ := cmd.StdinPipe()
	out, _ := cmd.StdoutPipe()
	if err := cmd.Start(); err != nil {
		return nil, nil, nil, err
	}
	return cmd, bufio.NewReader(out), in, nil
}

type hsCase struct {
	Script string
	Exists string // e.g. "110": which of f0 f1 f2 exist at the start
}

func hsExists(s string) (e [hsPaths]bool) {
	for i := 0; i < hsPaths && i < len(s); i++ {
		e[i] = s[i] == '1'
	}
	return
}

func (rn *runner) holdSeqOne(c hsCase, shrink bool) bool {
	sc := hsParseScript(c.Script)
	exists := hsExists(c.Exists)
	if !hsValid(sc, exists) {
		rn.res.Notes = append(rn.res.Notes, "holdseq: stored script is not admissible, skipped")
		return false
	}
	fd, err := runHoldScript(rn.self, rn.f.Work, sc, exists)
	if err != nil {
		rn.res.Notes = append(rn.res.Notes, "holdseq case could not be run: "+err.Error())
		return false
	}
	rn.res.Case("holdseq "+c.Exists+" "+c.Script, true)
	rn.res.Evaluations += len(fd.obs)
	for _, s := range sc {
		rn.res.Count("holdseq:" + s.Op)
	}
	if fd.oracle == "" {
		rn.holdSeqModel(c, sc, exists, fd)
		return false
	}
	// shrink: cut after the failing step, then drop steps while the same oracle still fires
	best, bestFd := sc[:fd.step+1], fd
	if shrink {
		budget := 40
		for changed := true; changed && budget > 0; {
			changed = false
			// windows of one, two, three steps (an open with its Close goes only together)
			for w := 1; w <= 3; w++ {
				for i := len(best) - 1 - w; i >= 0 && budget > 0; i-- {
					if i+w >= len(best) {
						continue
					}
					cand := append(append([]hsStep{}, best[:i]...), best[i+w:]...)
					if !hsValid(cand, exists) {
						continue
					}
					budget--
					f2, err := runHoldScript(rn.self, rn.f.Work, cand, exists)
					if err == nil && f2.oracle == bestFd.oracle {
						best, bestFd, changed = cand[:f2.step+1], f2, true
					}
				}
			}
		}
	}
	script := hsScriptString(best)
	rn.violate("impl-violation", "hold:"+bestFd.oracle, "holdseq "+bestFd.oracle,
		bestFd.detail+" — script: "+script+" (files existing at the start: "+c.Exists+"; L = File / unlock function, M = Mutex value, s0..s9 = spellings: 0 absolute, 1-3 relative, 4/5 through sub/lnk/.. with sub/lnk -> ../far/in and far/fN -> ../fN, 6/7 through the symlink far/fN, 8/9 through self -> .; odd = relative)",
		strings.Join(bestFd.obs, " | "), "", map[string]string{"kind": "holdseq", "script": script, "exists": c.Exists})
	return true
}

func (rn *runner) holdSeqPhase() {
	rng := rn.rng.Fork()
	n, steps := 36, 26
	if rn.f.Tier != "quick" {
		n, steps = 160, 40
	}
	for i := 0; i < n; i++ {
		ex := [hsPaths]bool{true, true, rng.Intn(2) == 0}
		if i%5 == 4 {
			ex = [hsPaths]bool{rng.Intn(2) == 0, false, false}
		}
		es := ""
		for _, b := range ex {
			es += strconv.Itoa(b2i(b))
		}
		sc := hsGen(rng, steps, i%4, ex)
		if rn.holdSeqOne(hsCase{hsScriptString(sc), es}, true) {
			break
		}
	}
}

// holdSeqModel: the same script through the extracted handle-level model (Handles.v, request
// `hrun`): what the calls answer, what the prober finds on every file and how many descriptors
// the process has on it, step by step.  Steps the model has no event for (cd, io, an unlock
// function that is not called a second time) are left out on both sides.
func (rn *runner) holdSeqModel(c hsCase, sc []hsStep, exists [hsPaths]bool, fd hsFinding) {
	if rn.m == nil || len(fd.obs) != len(sc) {
		return
	}
	handle := map[int]int{} // label -> handle index (order of the calls that make a handle)
	mutex := map[int]int{}
	unlockCalled := map[int]bool{}
	isFile := map[int]bool{}
	var evs, impl []string
	nh := 0
	ref := newHsRef(exists)
	for i, st := range sc {
		callSucc := false
		if st.Op == "call" {
			fl, _ := hsFlags(st.Api)
			callSucc, _, _ = ref.acquire(st.P, fl)
		}
		ref.step(st)
		switch st.Op {
		case "call":
			// a complete call = the events of its open and of its Close / unlock, nothing
			// observed in between; however the callback ended, the model's Close has happened
			// when the call is over (the deferred Close)
			fl, _ := hsFlags(st.Api)
			if st.Api == "mutexat" {
				mi := len(mutex)
				mutex[-1000000-i] = mi
				evs = append(evs, fmt.Sprintf("mn:%d", st.P), fmt.Sprintf("ml:%d", mi))
				impl = append(impl, "", "")
				if callSucc {
					evs = append(evs, fmt.Sprintf("mu:%d", nh))
					impl[len(impl)-1] = ""
					impl = append(impl, "")
				}
			} else {
				evs = append(evs, fmt.Sprintf("o:%d:%d", st.P, fl))
				impl = append(impl, "")
				if callSucc {
					evs = append(evs, fmt.Sprintf("c:%d", nh))
					impl = append(impl, "")
				}
			}
			nh++
			f := strings.Fields(fd.obs[i])
			if len(f) != 3 {
				return
			}
			ans := "ERR"
			if callSucc {
				ans = "OK"
			}
			impl[len(impl)-1] = ans + ":" + strings.ReplaceAll(f[1], "-", "f") + ":" + f[2]
			continue
		case "open":
			fl, _ := hsFlags(st.Api)
			if st.Api == "mutexat" {
				// MutexAt(path).Lock(): a Mutex value used once
				evs = append(evs, fmt.Sprintf("mn:%d", st.P))
				impl = append(impl, "")
				mutex[-1-st.L] = len(mutex)
				evs = append(evs, fmt.Sprintf("ml:%d", mutex[-1-st.L]))
			} else {
				evs = append(evs, fmt.Sprintf("o:%d:%d", st.P, fl))
				isFile[st.L] = true
			}
			handle[st.L] = nh
			nh++
		case "mnew":
			mutex[st.L] = len(mutex)
			evs = append(evs, fmt.Sprintf("mn:%d", st.P))
		case "lock":
			evs = append(evs, fmt.Sprintf("ml:%d", mutex[st.M]))
			handle[st.L] = nh
			nh++
		case "close":
			if isFile[st.L] {
				evs = append(evs, fmt.Sprintf("c:%d", handle[st.L]))
			} else {
				if unlockCalled[st.L] || strings.HasPrefix(fd.obs[i], "SKIP") {
					continue
				}
				unlockCalled[st.L] = true
				evs = append(evs, fmt.Sprintf("mu:%d", handle[st.L]))
			}
		case "gc":
			evs = append(evs, "gc")
		default:
			continue
		}
		f := strings.Fields(fd.obs[i])
		if len(f) != 3 {
			return
		}
		impl = append(impl, f[0]+":"+strings.ReplaceAll(f[1], "-", "f")+":"+f[2])
	}
	if len(evs) == 0 {
		return
	}
	ans := strings.Fields(rn.m.Ask1("hrun " + c.Exists + " " + strings.Join(evs, " ")))
	rn.res.Count("holdseq-model-compared")
	if len(ans) != len(impl) {
		rn.violate("correspondence", "handles:answer", "holdseq-model shape", "the handle-level model answered "+strings.Join(ans, " "),
			strings.Join(impl, " "), strings.Join(ans, " "), map[string]string{"kind": "holdseq", "script": c.Script, "exists": c.Exists})
		return
	}
	for i := range ans {
		if impl[i] == "" { // the MutexAt half of a mutexat step: nothing observed in between
			continue
		}
		// a call the model answers with SKIP was not made; the implementation side says SKIP too
		if ans[i] != impl[i] {
			rn.violate("correspondence", "handles:step", "holdseq-model step",
				fmt.Sprintf("event %d (%s): answer / lock state seen by another process / descriptors differ from the handle-level model (Handles.v)", i, evs[i]),
				strings.Join(impl, " "), strings.Join(ans, " "), map[string]string{"kind": "holdseq", "script": c.Script, "exists": c.Exists})
			return
		}
	}
}

package main

// C06 (b): overlap-witness stress.  N helper processes x M goroutines repeatedly take read and
// write locks and Mutexes on the same paths through every API entry point.  The witness is a
// pair of counters per path in a MAP_SHARED page (atomic adds work across processes): inside
// each critical section a writer must see writers==1, readers==0, a reader writers==0.  The
// file contents are a second witness: a writer first stores a DIRTY marker and only at the
// end a complete payload, so a Read that returns anything but a complete payload overlapped
// a writer.

import (
	"bytes"
	"fmt"
	"io"
	"os"
	"path/filepath"
	"runtime"
	"strconv"
	"strings"
	"sync"
	"sync/atomic"
	"unsafe"

	"github.com/rogpeppe/go-internal/lockedfile"
	"golang.org/x/sys/unix"

	"verif/harness/common"
)

type witness struct{ mem []byte }

func openWitness(dir string, create bool) (*witness, error) {
	p := filepath.Join(dir, "witness.shm")
	fl := os.O_RDWR
	if create {
		fl |= os.O_CREATE | os.O_TRUNC
	}
	f, err := os.OpenFile(p, fl, 0o666)
	if err != nil {
		return nil, err
	}
	defer f.Close()
	if create {
		if err := f.Truncate(4096); err != nil {
			return nil, err
		}
	}
	mem, err := unix.Mmap(int(f.Fd()), 0, 4096, unix.PROT_READ|unix.PROT_WRITE, unix.MAP_SHARED)
	if err != nil {
		return nil, err
	}
	return &witness{mem}, nil
}

func (w *witness) slot(i int) *int32    { return (*int32)(unsafe.Pointer(&w.mem[4*i])) }
func (w *witness) writers(p int) *int32 { return w.slot(2 * p) }
func (w *witness) readers(p int) *int32 { return w.slot(2*p + 1) }

// payload: self-describing contents "P<id>:<len>:" followed by len bytes derived from id.
func payload(id uint64, n int) []byte {
	h := fmt.Sprintf("P%d:%d:", id, n)
	b := make([]byte, 0, len(h)+n)
	b = append(b, h...)
	for i := 0; i < n; i++ {
		b = append(b, byte('a'+(id+uint64(i)*7)%26))
	}
	return b
}

// payloadID validates b and returns its id.
func payloadID(b []byte) (uint64, bool) {
	if len(b) == 0 || b[0] != 'P' {
		return 0, false
	}
	parts := bytes.SplitN(b[1:], []byte(":"), 3)
	if len(parts) != 3 {
		return 0, false
	}
	id, err1 := strconv.ParseUint(string(parts[0]), 10, 64)
	n, err2 := strconv.Atoi(string(parts[1]))
	if err1 != nil || err2 != nil {
		return 0, false
	}
	return id, bytes.Equal(b, payload(id, n))
}

var dirty = []byte("DIRTY-DIRTY-DIRTY-DIRTY-DIRTY-DIRTY-DIRTY-DIRTY")

type stressCtx struct {
	w     *witness
	mu    sync.Mutex
	out   []string
	count map[string]int
}

func (c *stressCtx) viol(format string, a ...any) {
	c.mu.Lock()
	if len(c.out) < 20 {
		c.out = append(c.out, "VIOL "+fmt.Sprintf(format, a...))
	}
	c.mu.Unlock()
}

func pause(r *common.RNG) {
	switch r.Intn(3) {
	case 0:
	case 1:
		runtime.Gosched()
	default:
		for i := 0; i < 200+r.Intn(2000); i++ {
			_ = i * i
		}
		runtime.Gosched()
	}
}

// inside a write-locked section of path slot p
func (c *stressCtx) writerCS(p int, who string, r *common.RNG) {
	if n := atomic.AddInt32(c.w.writers(p), 1); n != 1 {
		c.viol("writer-sees-writer slot=%d %s writers=%d", p, who, n)
	}
	if n := atomic.LoadInt32(c.w.readers(p)); n != 0 {
		c.viol("writer-sees-reader slot=%d %s readers=%d", p, who, n)
	}
	pause(r)
	if n := atomic.LoadInt32(c.w.readers(p)); n != 0 {
		c.viol("writer-sees-reader slot=%d %s readers=%d", p, who, n)
	}
	if n := atomic.AddInt32(c.w.writers(p), -1); n != 0 {
		c.viol("writer-sees-writer slot=%d %s writers=%d", p, who, n+1)
	}
}

func (c *stressCtx) readerCS(p int, who string, r *common.RNG) {
	atomic.AddInt32(c.w.readers(p), 1)
	if n := atomic.LoadInt32(c.w.writers(p)); n != 0 {
		c.viol("reader-sees-writer slot=%d %s writers=%d", p, who, n)
	}
	pause(r)
	if n := atomic.LoadInt32(c.w.writers(p)); n != 0 {
		c.viol("reader-sees-writer slot=%d %s writers=%d", p, who, n)
	}
	atomic.AddInt32(c.w.readers(p), -1)
}

// witnessReader is the content of a Write call: its Read method runs inside the section.
type witnessReader struct {
	c     *stressCtx
	p     int
	who   string
	r     *common.RNG
	data  []byte
	state int
}

func (wr *witnessReader) Read(b []byte) (int, error) {
	if wr.state == 0 {
		wr.state = 1
		wr.c.writerCS(wr.p, wr.who, wr.r)
	}
	if len(wr.data) == 0 {
		return 0, io.EOF
	}
	n := copy(b, wr.data)
	wr.data = wr.data[n:]
	return n, nil
}

// holdWrite: the holder of a write-locked File: dirty marker, witness, final payload.
func (c *stressCtx) holdWrite(f *lockedfile.File, p int, who string, r *common.RNG, id uint64, canWrite bool) {
	if canWrite {
		f.WriteAt(dirty, 0)
	}
	c.writerCS(p, who, r)
	if canWrite {
		pl := payload(id, r.Intn(120))
		f.WriteAt(pl, 0)
		f.Truncate(int64(len(pl)))
	}
}

func stressWorker(a []string) {
	dir := a[0]
	proc, _ := strconv.Atoi(a[1])
	gor, _ := strconv.Atoi(a[2])
	iters, _ := strconv.Atoi(a[3])
	seed, _ := strconv.ParseUint(a[4], 10, 64)
	npaths, _ := strconv.Atoi(a[5])
	w, err := openWitness(dir, false)
	if err != nil {
		fmt.Println("SETUP-FAILED", err)
		return
	}
	c := &stressCtx{w: w, count: map[string]int{}}
	var wg sync.WaitGroup
	for g := 0; g < gor; g++ {
		wg.Add(1)
		go func(g int) {
			defer wg.Done()
			r := common.NewRNG(seed*1000003 + uint64(proc)*1009 + uint64(g))
			local := map[string]int{}
			for it := 0; it < iters; it++ {
				p := r.Intn(npaths)
				path := filepath.Join(dir, fmt.Sprintf("f%d", p))
				id := (uint64(proc)<<40 | uint64(g)<<28 | uint64(it)) + 1
				who := fmt.Sprintf("proc=%d g=%d it=%d", proc, g, it)
				op := r.Intn(11)
				name := stressOp(c, op, p, npaths, path, who, r, id)
				local[name]++
			}
			c.mu.Lock()
			for k, v := range local {
				c.count[k] += v
			}
			c.mu.Unlock()
		}(g)
	}
	wg.Wait()
	for _, l := range c.out {
		fmt.Println(l)
	}
	var ks []string
	for k, v := range c.count {
		ks = append(ks, fmt.Sprintf("%s=%d", k, v))
	}
	fmt.Println("COUNT " + strings.Join(ks, " "))
}

package main

// Helper modes: the runner re-executes its own binary (built by ./check against the checked
// tree) with "helper" as first argument.  One API call per invocation, so that strace sees
// the system calls of exactly that call; plus the workers of the multi-process stress runs.

import (
	"bytes"
	"encoding/hex"
	"fmt"
	"os"
	"os/exec"
	"os/signal"
	"runtime"
	"strconv"
	"strings"
	"syscall"
	"time"

	"github.com/rogpeppe/go-internal/lockedfile"
	"golang.org/x/sys/unix"
)

func unhex(s string) []byte {
	if s == "-" || s == "" {
		return []byte{}
	}
	b, err := hex.DecodeString(s)
	if err != nil {
		fmt.Println("BADHEX")
		os.Exit(3)
	}
	return b
}

func hexs(b []byte) string {
	if len(b) == 0 {
		return "-"
	}
	return hex.EncodeToString(b)
}

// monoNow: CLOCK_MONOTONIC, comparable across the processes of one machine.
func monoNow() int64 {
	var ts unix.Timespec
	unix.ClockGettime(unix.CLOCK_MONOTONIC, &ts)
	return ts.Nano()
}

// doCall performs one API call and returns the projected observable.
//
//	read | write <data> | transform <new|FAIL> | create | edit | open | mutex | openfile <flags>
func doCall(name, path, arg string) string {
	res := func(err error) string {
		if err != nil {
			return "err"
		}
		return "ok"
	}
	closeAfter := func(f *lockedfile.File, err error) string {
		if err != nil {
			return "err"
		}
		// marker for the system-call trace: the call has returned, Close comes next
		unix.FcntlInt(f.Fd(), unix.F_GETFD, 0)
		f.Close()
		if os.Getenv("LF_CLOSE2") != "" {
			// Close may be called again: it must report an error and do nothing else
			if f.Close() == nil {
				return "secondcloseok"
			}
		}
		return "ok"
	}
	switch name {
	case "read":
		b, err := lockedfile.Read(path)
		if err != nil {
			return "err"
		}
		return "data:" + hexs(b)
	case "write":
		if strings.HasPrefix(arg, "rd:") {
			return res(lockedfile.Write(path, contentReader(arg), 0o666))
		}
		return res(lockedfile.Write(path, bytes.NewReader(unhex(arg)), 0o666))
	case "transform":
		return res(lockedfile.Transform(path, func(old []byte) ([]byte, error) {
			if arg == "FAIL" {
				return nil, fmt.Errorf("t failed")
			}
			if strings.HasPrefix(arg, "alias:") {
				return aliasTransform(arg, old), nil
			}
			if strings.HasPrefix(arg, "res:") {
				return resTransform(arg, old), nil
			}
			if strings.HasPrefix(arg, "lim:") {
				// lim:<L>:<spec>: the size limit appears while t runs (the disk fills up, a
				// quota is reached between the read and the write-back); then as <spec>
				f := strings.SplitN(arg, ":", 3)
				n, _ := strconv.ParseUint(f[1], 10, 64)
				signal.Ignore(syscall.SIGXFSZ)
				syscall.Setrlimit(syscall.RLIMIT_FSIZE, &syscall.Rlimit{Cur: n, Max: n})
				if strings.HasPrefix(f[2], "res:") || strings.HasPrefix(f[2], "alias:") {
					return resTransform(f[2], old), nil
				}
				return unhex(f[2]), nil
			}
			return unhex(arg), nil
		}))
	case "create":
		return closeAfter(lockedfile.Create(path))
	case "createwrite", "editwrite": // Create / Edit, then one Write of the data, then Close
		var f *lockedfile.File
		var err error
		if name == "createwrite" {
			f, err = lockedfile.Create(path)
		} else {
			f, err = lockedfile.Edit(path)
		}
		if err != nil {
			return "err"
		}
		var werr error
		if d := unhex(arg); len(d) > 0 {
			_, werr = f.Write(d)
		}
		f.Close()
		return res(werr)
	case "edit":
		return closeAfter(lockedfile.Edit(path))
	case "open":
		return closeAfter(lockedfile.Open(path))
	case "openfile":
		fl, _ := strconv.Atoi(arg)
		return closeAfter(lockedfile.OpenFile(path, fl, 0o666))
	case "mutex":
		unlock, err := lockedfile.MutexAt(path).Lock()
		if err != nil {
			return "err"
		}
		unlock()
		return "ok"
	}
	return "badcall"
}

func helperMain(args []string) {
	if len(args) == 0 {
		os.Exit(2)
	}
	switch args[0] {
	case "call": // call <name> <path> <arg>
		runtime.LockOSThread()
		if s := os.Getenv("LF_UID"); s != "" {
			uid, _ := strconv.Atoi(s)
			if syscall.Setgroups([]int{}) != nil || syscall.Setgid(uid) != nil || syscall.Setuid(uid) != nil {
				fmt.Println("RESULT nopriv")
				return
			}
		}
		if s := os.Getenv("LF_FSIZE"); s != "" {
			// a genuine short write followed by an error: with RLIMIT_FSIZE = n and SIGXFSZ
			// ignored, a write crossing offset n stores the bytes up to n and the rest
			// fails with EFBIG
			n, _ := strconv.ParseUint(s, 10, 64)
			signal.Ignore(syscall.SIGXFSZ)
			if err := syscall.Setrlimit(syscall.RLIMIT_FSIZE, &syscall.Rlimit{Cur: n, Max: n}); err != nil {
				fmt.Println("RESULT nolimit")
				return
			}
		}
		fmt.Println("BEGIN")
		out := doCall(args[1], args[2], args[3])
		fmt.Println("RESULT " + out)
	case "rel": // rel <name> <path> <arg>: one call, then report what it left behind (release.go)
		relHelper(args[1], args[2], args[3])
		return
	case "script": // script: the interpreter of holdseq.go (commands on stdin)
		scriptHelper()
		return
	case "seq": // seq: the interpreter of seq.go (commands on stdin)
		seqHelper()
		return
	case "stress": // stress <dir> <proc> <goroutines> <iters> <seed> <npaths>
		stressWorker(args[1:])
	case "hist": // hist <dir> <proc> <goroutines> <iters> <seed> <mode>
		histWorker(args[1:])
	case "mutexperm": // mutexperm <path> <uid>: drop privileges, Lock, report, hold until stdin closes
		uid, _ := strconv.Atoi(args[2])
		if err := syscall.Setgroups([]int{}); err != nil {
			fmt.Println("NOPRIV", err)
			return
		}
		if err := syscall.Setgid(uid); err != nil {
			fmt.Println("NOPRIV", err)
			return
		}
		if err := syscall.Setuid(uid); err != nil {
			fmt.Println("NOPRIV", err)
			return
		}
		unlock, err := lockedfile.MutexAt(args[1]).Lock()
		if err != nil {
			fmt.Printf("ERR %d perm=%v\n", monoNow(), os.IsPermission(err))
			return
		}
		fmt.Printf("LOCKED %d\n", monoNow())
		buf := make([]byte, 1)
		os.Stdin.Read(buf)
		unlock()
		fmt.Printf("UNLOCKED %d\n", monoNow())
	case "stresslaunch": // stresslaunch <dir> <procs> <goroutines> <iters> <seed> <npaths>
		// one parent for all workers, so that a single `strace -f` sees every process
		self, _ := os.Executable()
		n, _ := strconv.Atoi(args[2])
		var cmds []*exec.Cmd
		for pr := 0; pr < n; pr++ {
			c := exec.Command(self, "helper", "stress", args[1], fmt.Sprint(pr), args[3], args[4], args[5], args[6])
			c.Stdout = os.Stdout
			c.Stderr = os.Stderr
			if err := c.Start(); err == nil {
				cmds = append(cmds, c)
			}
		}
		for _, c := range cmds {
			c.Wait()
		}
	case "mutexmisc": // mutexmisc <dir>: the corners of Mutex, one line each
		mutexMisc(args[1])
	case "hold": // hold <path> <mutex|edit|open>: acquire, report, keep it until stdin closes, release
		var release func()
		switch args[2] {
		case "mutex":
			unlock, err := lockedfile.MutexAt(args[1]).Lock()
			if err != nil {
				fmt.Printf("ERR %d\n", monoNow())
				return
			}
			release = unlock
		default:
			var f *lockedfile.File
			var err error
			if args[2] == "open" {
				f, err = lockedfile.Open(args[1])
			} else {
				f, err = lockedfile.Edit(args[1])
			}
			if err != nil {
				fmt.Printf("ERR %d\n", monoNow())
				return
			}
			release = func() { f.Close() }
		}
		fmt.Printf("LOCKED %d\n", monoNow())
		buf := make([]byte, 1)
		os.Stdin.Read(buf)
		release()
		fmt.Printf("UNLOCKED %d\n", monoNow())
	case "holdfd": // holdfd: keep the inherited descriptor 3 open until stdin closes
		fmt.Println("HOLDING")
		buf := make([]byte, 1)
		os.Stdin.Read(buf)
	case "lockwait": // lockwait <path> <kind>: acquire, report the time, release
		t0 := monoNow()
		var out string
		out = doCall(args[2], args[1], args[3])
		fmt.Printf("DONE %s %d %d\n", out, t0, monoNow())
	default:
		os.Exit(2)
	}
	// the finalizer of an unclosed File panics on purpose; give it no chance to hide
	runtime.GC()
	time.Sleep(0)
}

// mutexMisc exercises the corners of Mutex and prints one observable per line.
func mutexMisc(dir string) {
	catch := func(name string, f func() string) {
		defer func() {
			if e := recover(); e != nil {
				fmt.Printf("%s PANIC %s\n", name, hexs([]byte(fmt.Sprint(e))))
			}
		}()
		fmt.Printf("%s %s\n", name, f())
	}
	catch("zero-lock", func() string {
		var mu lockedfile.Mutex
		unlock, err := mu.Lock()
		if err == nil {
			unlock()
			return "locked"
		}
		return "err"
	})
	catch("at-empty", func() string { lockedfile.MutexAt(""); return "ok" })
	p := dir + "/mu-fresh"
	os.Remove(p)
	catch("string", func() string { return hexs([]byte(lockedfile.MutexAt(p).String())) })
	catch("absent", func() string {
		unlock, err := lockedfile.MutexAt(p).Lock()
		if err != nil {
			return "err"
		}
		_, serr := os.Stat(p)
		unlock()
		b, _ := os.ReadFile(p)
		return fmt.Sprintf("ok exists=%v len=%d", serr == nil, len(b))
	})
	catch("relock", func() string { // the unlock function really released it
		for i := 0; i < 3; i++ {
			unlock, err := lockedfile.MutexAt(p).Lock()
			if err != nil {
				return "err"
			}
			unlock()
		}
		return "ok"
	})
	catch("nodir", func() string {
		unlock, err := lockedfile.MutexAt(dir + "/no/such/dir/mu").Lock()
		if err != nil {
			return "err"
		}
		unlock()
		return "ok"
	})
}

// aliasTransform: transform functions whose result shares memory with their argument.
//
//	alias:same            the argument itself
//	alias:prefix:<n>      old[:n]
//	alias:append:<hex>    append(old, x...) — in place when the capacity allows (io.ReadAll's
//	                      buffer usually does)
//	alias:appendfresh:<hex>  append(old[:len(old):len(old)], x...) — never in place
//	alias:poke:<i>:<hexbyte> old[i] = b; old   (modifies its argument in place)
func aliasTransform(spec string, old []byte) []byte {
	f := strings.Split(spec, ":")
	switch f[1] {
	case "same":
		return old
	case "prefix":
		n, _ := strconv.Atoi(f[2])
		if n > len(old) {
			n = len(old)
		}
		return old[:n]
	case "append":
		return append(old, unhex(f[2])...)
	case "appendfresh":
		return append(old[:len(old):len(old)], unhex(f[2])...)
	case "poke":
		i, _ := strconv.Atoi(f[2])
		if b := unhex(f[3]); i < len(old) && len(b) == 1 {
			old[i] = b[0]
		}
		return old
	}
	return old
}

package main

// C06: validating the ASSUMED kernel semantics.  A multi-process stress run is traced with one
// `strace -f -ttt -T`; every flock call on the stress files becomes an event with the interval
// [entry, exit] in which the kernel acted.  The history is replayed through the model's lock
// table (extracted can_grant / drop) in the canonical order "grant at its exit, release at its
// entry": conflicting holds that do not overlap in ANY admissible order do not overlap in this
// one, so a rejection by the model means no order explains the observation — the kernel did
// something the model's flock semantics forbids.  Conversely every long wait must be explained
// by a conflicting holder.

import (
	"bufio"
	"context"
	"fmt"
	"os"
	"os/exec"
	"path/filepath"
	"regexp"
	"sort"
	"strconv"
	"strings"

	"verif/harness/common"
)

type flockEv struct {
	ofd, ino   int
	flags      int    // openat: numeric flags
	path       string // openat
	data       []byte // read / write / pwrite64 payload
	off, n     int    // pwrite64 offset, ftruncate size / byte count
	op         string // LOCK_EX LOCK_SH LOCK_UN close openat read write pwrite64 ftruncate
	start, end float64
	ok         bool
	tid        string
}

type kmStats struct {
	replay                                         replayStats
	grants, releases, waits, waitsExplained, lines int
	longestWait                                    float64
}

var (
	kmLine    = regexp.MustCompile(`^(\d+)\s+(\d+\.\d+)\s+(.*)$`)
	kmCall    = regexp.MustCompile(`^(\w+)\((.*)\)\s+=\s+(-?\d+|\?)(.*?)(?:<(\d+\.\d+)>)?$`)
	kmResumed = regexp.MustCompile(`^<\.\.\. (\w+) resumed>(.*)$`)
)

// parseFlockTrace turns a `strace -f -ttt -T` log into flock/close events on files under dir.
func parseFlockTrace(raw, dir string) ([]flockEv, int) {
	type rec struct {
		tid        string
		start, end float64
		name, args string
		ret        string
	}
	var recs []rec
	pending := map[string]rec{}
	sc := bufio.NewScanner(strings.NewReader(raw))
	sc.Buffer(make([]byte, 1<<20), 1<<26)
	lines := 0
	for sc.Scan() {
		lines++
		m := kmLine.FindStringSubmatch(sc.Text())
		if m == nil {
			continue
		}
		tid, rest := m[1], m[3]
		ts, _ := strconv.ParseFloat(m[2], 64)
		if i := strings.Index(rest, " <unfinished ...>"); i >= 0 {
			txt := rest[:i]
			if j := strings.Index(txt, "("); j > 0 {
				pending[tid] = rec{tid: tid, start: ts, name: txt[:j], args: txt[j+1:]}
			}
			continue
		}
		if r := kmResumed.FindStringSubmatch(rest); r != nil {
			p, ok := pending[tid]
			if !ok || p.name != r[1] {
				continue
			}
			delete(pending, tid)
			rest = p.name + "(" + p.args + strings.TrimPrefix(r[2], " ")
			c := kmCall.FindStringSubmatch(rest)
			if c == nil {
				continue
			}
			recs = append(recs, rec{tid: tid, start: p.start, end: ts, name: c[1], args: c[2], ret: c[3]})
			continue
		}
		c := kmCall.FindStringSubmatch(rest)
		if c == nil {
			continue
		}
		d, _ := strconv.ParseFloat(c[5], 64)
		recs = append(recs, rec{tid: tid, start: ts, end: ts + d, name: c[1], args: c[2], ret: c[3]})
	}
	// pass 1: thread -> process
	parent := map[string]string{}
	for _, r := range recs {
		if (r.name == "clone" || r.name == "clone3") && !strings.HasPrefix(r.ret, "-") && r.ret != "?" {
			if strings.Contains(r.args, "CLONE_THREAD") {
				parent[r.ret] = r.tid
			}
		}
	}
	var proc func(t string) string
	proc = func(t string) string {
		if p, ok := parent[t]; ok && p != t {
			return proc(p)
		}
		return t
	}
	// pass 2: descriptor numbers are reused, so the order matters.  A close frees its number
	// at some point after its entry, and an open that returns the number has completed after
	// that: take closes at their entry and everything else at its exit.
	key := func(r rec) float64 {
		if r.name == "close" {
			return r.start
		}
		return r.end
	}
	sort.SliceStable(recs, func(i, j int) bool { return key(recs[i]) < key(recs[j]) })
	type fdKey struct {
		proc, fd string
	}
	type open struct{ ofd, ino int }
	fds := map[fdKey]open{}
	inos := map[string]int{}
	nofd := 0
	var evs []flockEv
	for _, r := range recs {
		p := proc(r.tid)
		parts := strings.Split(r.args, ", ")
		switch r.name {
		case "openat":
			if len(parts) < 3 || r.ret == "?" {
				continue
			}
			path := unescape(strings.Trim(parts[1], `"`))
			if filepath.Dir(path) != dir || strings.HasSuffix(path, ".shm") {
				continue
			}
			if _, ok := inos[path]; !ok {
				inos[path] = len(inos)
			}
			nofd++
			fl, _ := openFlagsValue(parts[2])
			failed := strings.HasPrefix(r.ret, "-")
			if !failed {
				fds[fdKey{p, r.ret}] = open{nofd, inos[path]}
			}
			evs = append(evs, flockEv{ofd: nofd, ino: inos[path], op: "openat", flags: fl &^ (0o2000000 | 0o100000),
				path: path, start: r.start, end: r.end, ok: !failed, tid: r.tid})
		case "flock":
			o, ok := fds[fdKey{p, fdOf(parts[0])}]
			if !ok || len(parts) < 2 {
				continue
			}
			evs = append(evs, flockEv{ofd: o.ofd, ino: o.ino, op: parts[1], start: r.start, end: r.end,
				ok: r.ret == "0", tid: r.tid})
		case "read", "write", "pwrite64", "ftruncate":
			o, ok := fds[fdKey{p, fdOf(parts[0])}]
			if !ok || len(parts) < 2 {
				continue
			}
			e := flockEv{ofd: o.ofd, ino: o.ino, op: r.name, start: r.start, end: r.end, ok: !strings.HasPrefix(r.ret, "-"), tid: r.tid}
			e.n, _ = strconv.Atoi(r.ret)
			switch r.name {
			case "ftruncate":
				e.n, _ = strconv.Atoi(parts[1])
			case "pwrite64":
				if len(parts) > 3 {
					e.off, _ = strconv.Atoi(parts[3])
				}
				fallthrough
			default:
				d := strings.TrimSuffix(parts[1], "...")
				e.data = []byte(unescape(strings.Trim(d, `"`)))
				if r.name == "read" && e.n >= 0 && e.n <= len(e.data) {
					e.data = e.data[:e.n]
				}
			}
			evs = append(evs, e)
		case "close":
			k := fdKey{p, fdOf(parts[0])}
			if o, ok := fds[k]; ok && r.ret == "0" {
				evs = append(evs, flockEv{ofd: o.ofd, ino: o.ino, op: "close", start: r.start, end: r.end, ok: true, tid: r.tid})
				delete(fds, k)
			}
		}
	}
	return evs, lines
}

// unescape decodes strace's \xNN string escapes (-xx).
func unescape(s string) string {
	if !strings.Contains(s, `\x`) {
		return s
	}
	var b strings.Builder
	for i := 0; i < len(s); {
		if i+3 < len(s) && s[i] == '\\' && s[i+1] == 'x' {
			if v, err := strconv.ParseUint(s[i+2:i+4], 16, 8); err == nil {
				b.WriteByte(byte(v))
				i += 4
				continue
			}
		}
		b.WriteByte(s[i])
		i++
	}
	return b.String()
}

// checkFlockHistory replays the events through the model and looks for unexplained waits.
func checkFlockHistory(m *lfModel, evs []flockEv) (st kmStats, findings []histFinding) {
	type point struct {
		t    float64
		rel  bool
		tok  string
		desc string
	}
	var pts []point
	type hold struct {
		ofd, ino   int
		ex         bool
		gs, ge, re float64 // grant interval, end of the release call
	}
	holds := map[int]*hold{}
	var all []*hold
	for _, e := range evs {
		if !e.ok {
			continue
		}
		switch e.op {
		case "LOCK_EX", "LOCK_SH":
			st.grants++
			k := "S"
			if e.op == "LOCK_EX" {
				k = "E"
			}
			pts = append(pts, point{e.end, false, fmt.Sprintf("g:%s:%d:%d", k, e.ofd, e.ino),
				fmt.Sprintf("%s granted to description %d (thread %s) on file %d, call [%.6f,%.6f]", e.op, e.ofd, e.tid, e.ino, e.start, e.end)})
			h := &hold{ofd: e.ofd, ino: e.ino, ex: e.op == "LOCK_EX", gs: e.start, ge: e.end, re: 1e18}
			holds[e.ofd] = h
			all = append(all, h)
		case "LOCK_UN", "close":
			if h, ok := holds[e.ofd]; ok {
				st.releases++
				pts = append(pts, point{e.start, true, fmt.Sprintf("u:%d:%d", e.ofd, e.ino),
					fmt.Sprintf("%s by description %d, call [%.6f,%.6f]", e.op, e.ofd, e.start, e.end)})
				h.re = e.end
				delete(holds, e.ofd)
			}
		}
	}
	sort.SliceStable(pts, func(i, j int) bool {
		if pts[i].t != pts[j].t {
			return pts[i].t < pts[j].t
		}
		return pts[i].rel && !pts[j].rel
	})
	if m != nil && len(pts) > 0 {
		toks := make([]string, len(pts))
		for i, p := range pts {
			toks[i] = p.tok
		}
		ans := m.AskT(fmt.Sprintf("locktab %d %s", len(toks), strings.Join(toks, " ")), modelHeavyDeadline)
		f := strings.Fields(ans)
		if strings.HasPrefix(ans, "MODEL-TIMEOUT") {
			f = []string{"ok"} // recorded in the runner's Notes; not a finding
		}
		if len(f) >= 2 && f[0] == "reject" {
			i, _ := strconv.Atoi(f[1])
			lo := i - 6
			if lo < 0 {
				lo = 0
			}
			var ctx []string
			for _, p := range pts[lo : i+1] {
				ctx = append(ctx, p.desc)
			}
			findings = append(findings, histFinding{"grant-forbidden-by-model",
				"the observed flock history is not explained by the model's lock table in any order: event " + f[1] +
					" (" + pts[i].desc + ") is granted while " + strings.Join(f[2:], " ") + " hold(s) a conflicting lock; preceding events: " + strings.Join(ctx, " | "), nil})
		} else if len(f) == 0 || f[0] != "ok" {
			findings = append(findings, histFinding{"model-replay-failed", "model answered " + ans, nil})
		}
	}
	// waits: every call that took long must overlap a conflicting possible hold
	for _, g := range all {
		d := g.ge - g.gs
		if d < 0.005 {
			continue
		}
		st.waits++
		if d > st.longestWait {
			st.longestWait = d
		}
		explained := false
		for _, h := range all {
			if h.ofd != g.ofd && h.ino == g.ino && (h.ex || g.ex) && h.gs < g.ge && g.gs < h.re {
				explained = true
				break
			}
		}
		if explained {
			st.waitsExplained++
		} else if d >= 1.0 {
			findings = append(findings, histFinding{"unexplained-wait",
				fmt.Sprintf("a flock call on file %d by description %d took %.3fs although no other description held or requested a conflicting lock in that interval", g.ino, g.ofd, d), nil})
		}
	}
	return st, findings
}

// runFlockReplay: one traced stress round.
func runFlockReplay(self, work string, m *lfModel, procs, gor, iters, npaths int, seed uint64) (kmStats, []histFinding, []string, error) {
	var st kmStats
	initial := map[string]string{}
	dir, err := os.MkdirTemp(work, "kmodel")
	if err != nil {
		return st, nil, nil, err
	}
	defer os.RemoveAll(dir)
	if _, err := openWitness(dir, true); err != nil {
		return st, nil, nil, err
	}
	for p := 0; p < npaths; p++ {
		fp := filepath.Join(dir, fmt.Sprintf("f%d", p))
		os.WriteFile(fp, payload(uint64(p)+1, 10), 0o666)
		initial[fp] = common.Hex(payload(uint64(p)+1, 10))
	}
	out := filepath.Join(work, "kmodel.strace")
	defer os.Remove(out)
	ctx, cancel := context.WithTimeout(context.Background(), workerDeadline)
	defer cancel()
	cmd := exec.CommandContext(ctx, "strace", "-f", "-ttt", "-T", "-xx", "-s", "65536", "-o", out,
		"-e", "trace=openat,flock,close,read,write,pwrite64,ftruncate,clone,clone3,fork,vfork,execve",
		self, "helper", "stresslaunch", dir, fmt.Sprint(procs), fmt.Sprint(gor), fmt.Sprint(iters), fmt.Sprint(seed), fmt.Sprint(npaths))
	stdout, err := cmd.Output()
	if err != nil {
		if _, ok := err.(*exec.ExitError); !ok {
			return st, nil, nil, err
		}
	}
	var viols []string
	for _, l := range strings.Split(string(stdout), "\n") {
		if strings.HasPrefix(l, "VIOL ") {
			viols = append(viols, l)
		}
	}
	raw, err := os.ReadFile(out)
	if err != nil {
		return st, nil, viols, err
	}
	evs, lines := parseFlockTrace(string(raw), dir)
	st, findings := checkFlockHistory(m, evs)
	st.lines = lines
	if m != nil {
		rs, f2 := replayThroughModel(m, evs, initial, dir)
		st.replay = rs
		findings = append(findings, f2...)
	}
	return st, findings, viols, nil
}

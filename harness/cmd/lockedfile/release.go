package main

// C06, "…and is released by that call" on EVERY path.  After any API call has returned —
// success or error: a failing content reader, a failing transform function, a write that hits
// RLIMIT_FSIZE, an injected read / write / truncate / flock failure, a target that cannot be
// opened — the calling process must hold neither the lock nor a descriptor for the file:
//
//   - the helper (this binary, i.e. the checked tree's code) makes ONE call with the garbage
//     collector switched off (so that no finalizer can close a leaked descriptor behind our
//     back), then scans its descriptor table (fstat of every small descriptor number, compared
//     with the file's device/inode, and the total against the baseline taken before the call)
//     and reports; it then waits;
//   - the runner, ANOTHER process, opens the file and asks for the exclusive lock without
//     blocking (flock LOCK_EX|LOCK_NB).  EWOULDBLOCK = somebody still holds a lock, and the only
//     candidate is the call that has returned.
//
// Nothing here depends on timing: the helper waits for the probe.  No model is needed for the
// oracle; the corresponding theorems are C06_released_on_every_path / C06_fd_balanced.

import (
	"context"
	"fmt"
	"os"
	"os/exec"
	"os/signal"
	"path/filepath"
	"runtime"
	"runtime/debug"
	"strconv"
	"strings"
	"syscall"
	"time"

	"bufio"

	"golang.org/x/sys/unix"
)

// ---------------------------------------------------------------- helper side

// fdScan: descriptors of this process that refer to (dev, ino), and the number of open ones.
func fdScan(dev, ino uint64, have bool) (on []int, total int) {
	for fd := 0; fd < 256; fd++ {
		var st unix.Stat_t
		if unix.Fstat(fd, &st) != nil {
			continue
		}
		total++
		if have && uint64(st.Dev) == dev && st.Ino == ino {
			on = append(on, fd)
		}
	}
	return
}

func statKey(path string) (dev, ino uint64, ok bool) {
	var st unix.Stat_t
	if unix.Stat(path, &st) != nil {
		return 0, 0, false
	}
	return uint64(st.Dev), st.Ino, true
}

func relHelper(name, path, arg string) {
	runtime.LockOSThread()
	debug.SetGCPercent(-1) // no finalizer may close (or panic about) a leaked File while we look
	if s := os.Getenv("LF_UID"); s != "" {
		uid, _ := strconv.Atoi(s)
		if syscall.Setgroups([]int{}) != nil || syscall.Setgid(uid) != nil || syscall.Setuid(uid) != nil {
			fmt.Println("RETURNED nopriv")
			return
		}
	}
	if s := os.Getenv("LF_FSIZE"); s != "" {
		n, _ := strconv.ParseUint(s, 10, 64)
		signal.Ignore(syscall.SIGXFSZ)
		if err := syscall.Setrlimit(syscall.RLIMIT_FSIZE, &syscall.Rlimit{Cur: n, Max: n}); err != nil {
			fmt.Println("RETURNED nolimit")
			return
		}
	}
	// let the runtime open whatever it opens lazily (the poller) before the baseline
	if r, w, err := os.Pipe(); err == nil {
		r.Close()
		w.Close()
	}
	d0, i0, had := statKey(path)
	on0, total0 := fdScan(d0, i0, had)
	fmt.Println("BEGIN")
	out := doCall(name, path, arg)
	d1, i1, have := statKey(path)
	on1, total1 := fdScan(d1, i1, have)
	fmt.Printf("RETURNED %s onfile=%d extra=%d\n", out, len(on1)-len(on0), total1-total0)
	// wait for the other process's probe
	buf := make([]byte, 1)
	os.Stdin.Read(buf)
	fmt.Println("RESULT " + out)
}

// ---------------------------------------------------------------- runner side

type relCase struct {
	Call   string // as doCall
	Arg    string
	File   string // hex | absent | dir | fifo | ro:<hex> | wo:<hex> | nodir
	Fsize  int    // -1 = no limit
	Inject string // strace inject specs separated by ';' ("" = run without strace)
	Close2 bool   // File-returning calls: Close twice
}

func (c relCase) key() string {
	k := fmt.Sprintf("%s %s %s", c.Call, short(c.Arg), short(c.File))
	if c.Fsize >= 0 {
		k += fmt.Sprintf(" fsize=%d", c.Fsize)
	}
	if c.Inject != "" {
		k += " inject=" + c.Inject
	}
	if c.Close2 {
		k += " close2"
	}
	return k
}

func (c relCase) input() map[string]string {
	return map[string]string{"kind": "release", "call": c.Call, "arg": c.Arg, "file": c.File,
		"fsize": strconv.Itoa(c.Fsize), "inject": c.Inject, "close2": fmt.Sprint(c.Close2)}
}

func relCaseOf(in map[string]string) relCase {
	n, err := strconv.Atoi(in["fsize"])
	if err != nil {
		n = -1
	}
	return relCase{Call: in["call"], Arg: in["arg"], File: in["file"], Fsize: n, Inject: in["inject"], Close2: in["close2"] == "true"}
}

type relOutcome struct {
	trace    string // canonical system-call trace (strace runs only)
	final    string // the file afterwards
	result   string // ok | err | data:.. | crash
	onfile   int    // descriptors of the helper that still refer to the file
	extra    int    // change of the helper's number of open descriptors
	held     bool   // the other process could NOT take the exclusive lock
	probed   bool   // there was a file to probe
	returned bool   // the call returned at all
	hit      bool   // an injected fault hit a call
	identity string // same | removed | replaced | "" (there was no file before the call)
}

// probeLock: can another process (this one) take the exclusive lock right now?
func probeLock(path string) (held, probed bool) {
	fd, err := unix.Open(path, unix.O_RDONLY|unix.O_NONBLOCK|unix.O_CLOEXEC, 0)
	if err != nil {
		fd, err = unix.Open(path, unix.O_WRONLY|unix.O_NONBLOCK|unix.O_CLOEXEC, 0)
		if err != nil {
			return false, false
		}
	}
	defer unix.Close(fd)
	for {
		err = unix.Flock(fd, unix.LOCK_EX|unix.LOCK_NB)
		if err != unix.EINTR {
			break
		}
	}
	if err == nil {
		unix.Flock(fd, unix.LOCK_UN)
		return false, true
	}
	return err == unix.EWOULDBLOCK, true
}

func runRelCase(self, work string, c relCase) (relOutcome, error) {
	var ro relOutcome
	dir, err := os.MkdirTemp(work, "rel")
	env := []string{"GOMAXPROCS=1"}
	if strings.HasPrefix(c.File, "ro:") || strings.HasPrefix(c.File, "wo:") {
		if os.Geteuid() != 0 {
			return ro, fmt.Errorf("not root: cannot switch to an unprivileged uid (skipped)")
		}
		dir, err = os.MkdirTemp("/tmp", "verif-lf-rel")
		env = append(env, "LF_UID=65534")
	}
	if err != nil {
		return ro, err
	}
	defer os.RemoveAll(dir)
	os.Chmod(dir, 0o755)
	path := filepath.Join(dir, "f")
	switch {
	case c.File == "dir":
		os.Mkdir(path, 0o777)
	case c.File == "nodir":
		path = filepath.Join(dir, "no", "such", "dir", "f")
	case strings.HasPrefix(c.File, "ro:"):
		os.WriteFile(path, unhexQuiet(c.File[3:]), 0o444)
		os.Chmod(path, 0o444)
	case strings.HasPrefix(c.File, "wo:"):
		os.WriteFile(path, unhexQuiet(c.File[3:]), 0o222)
		os.Chmod(path, 0o222)
	default:
		setFile(path, c.File)
		if c.File == "fifo" && getFile(path) != "fifo" {
			return ro, fmt.Errorf("cannot create a fifo here (skipped)")
		}
	}
	if c.Fsize >= 0 {
		env = append(env, fmt.Sprintf("LF_FSIZE=%d", c.Fsize))
	}
	if c.Close2 {
		env = append(env, "LF_CLOSE2=1")
	}
	d0, i0, had := statKey(path)
	ctx, cancel := context.WithTimeout(context.Background(), 60*time.Second)
	defer cancel()
	var cmd *exec.Cmd
	stOut := ""
	if c.Inject != "" {
		stOut = filepath.Join(dir, "strace.out")
		args := []string{"-f", "-o", stOut, "-s", "0", "-e", "trace=openat,flock,ftruncate,pwrite64,write,read,close", "-P", path}
		for _, sp := range strings.Split(c.Inject, ";") {
			args = append(args, "-e", "inject="+sp)
		}
		args = append(args, self, "helper", "rel", c.Call, path, c.Arg)
		cmd = exec.CommandContext(ctx, "strace", args...)
	} else {
		cmd = exec.CommandContext(ctx, self, "helper", "rel", c.Call, path, c.Arg)
	}
	cmd.Env = append(os.Environ(), env...)
	cmd.Stderr = nil
	cmd.WaitDelay = 2 * time.Second
	in, _ := cmd.StdinPipe()
	out, _ := cmd.StdoutPipe()
	if err := cmd.Start(); err != nil {
		return ro, err
	}
	rd := bufio.NewReader(out)
	defer func() {
		in.Close()
		if cmd.Process != nil {
			cmd.Process.Kill()
		}
		cmd.Wait()
	}()
	for {
		l, ok := waitLine(rd, 20*time.Second)
		if !ok {
			// the call itself never came back: nobody else holds a lock here, so this is not
			// a blocked acquisition
			return ro, nil
		}
		if strings.HasPrefix(l, "EOF") {
			ro.result = "crash"
			return ro, nil
		}
		if strings.HasPrefix(l, "RETURNED ") {
			f := strings.Fields(l)
			ro.returned = true
			ro.result = f[1]
			if ro.result == "nopriv" || ro.result == "nolimit" {
				return ro, fmt.Errorf("helper could not set up the case (%s)", ro.result)
			}
			for _, kv := range f[2:] {
				if v, ok := strings.CutPrefix(kv, "onfile="); ok {
					ro.onfile, _ = strconv.Atoi(v)
				}
				if v, ok := strings.CutPrefix(kv, "extra="); ok {
					ro.extra, _ = strconv.Atoi(v)
				}
			}
			break
		}
	}
	ro.held, ro.probed = probeLock(path)
	if had {
		d1, i1, have := statKey(path)
		switch {
		case !have:
			ro.identity = "removed"
		case d0 != d1 || i0 != i1:
			ro.identity = "replaced"
		default:
			ro.identity = "same"
		}
	}
	in.Close()
	waitLine(rd, 10*time.Second) // RESULT
	cmd.Wait()
	if stOut != "" {
		if b, err := os.ReadFile(stOut); err == nil {
			ro.hit = strings.Contains(string(b), "INJECTED")
			if tr, err := canonTrace(parseStrace(string(b), path)); err == nil {
				ro.trace = tr
			}
		}
	}
	ro.final = getFile(path)
	return ro, nil
}

func (rn *runner) relOne(c relCase) {
	if c.Inject != "" && !rn.st {
		return
	}
	ro, err := runRelCase(rn.self, rn.f.Work, c)
	if err != nil {
		rn.res.Notes = append(rn.res.Notes, "release case skipped: "+c.key()+": "+err.Error())
		return
	}
	if !ro.returned && ro.result == "" {
		rn.res.Notes = append(rn.res.Notes, "release case: the call did not return within 20s: "+c.key())
		return
	}
	rn.res.Case("release "+c.key(), ro.probed)
	rn.res.Count("release:" + c.Call)
	outc := ro.result
	if strings.HasPrefix(outc, "data:") {
		outc = "ok"
	}
	rn.res.Count("release-outcome:" + outc)
	if c.Inject != "" && ro.hit {
		rn.res.Count("release-injected-hit")
	}
	impl := fmt.Sprintf("result=%s descriptors-on-file=%d descriptor-count-change=%+d lock-held-after-return=%v", outc, ro.onfile, ro.extra, ro.held)
	switch {
	case ro.result == "crash":
		rn.violate("impl-violation", "release:helper-crashed", "release crash "+c.Call,
			"the call crashed the process (panic) instead of returning: "+c.key(), impl, "", c.input())
	case ro.result == "secondcloseok":
		rn.violate("impl-violation", "release:second-close-succeeds", "release close2 "+c.Call,
			"a second Close reported success: "+c.key(), impl, "", c.input())
	}
	if ro.hit && (strings.HasPrefix(c.Inject, "flock:error=ENOLCK:when=1") || strings.Contains(c.Inject, ";flock:error=ENOLCK:when=1")) && outc == "ok" {
		// C06_no_file_without_lock: no success unless the lock request succeeded
		rn.violate("impl-violation", "release:success-although-the-lock-request-failed", "release nolock "+c.Call,
			"the lock request (flock) failed with ENOLCK, yet the call reported success: "+c.key(), impl, "err (C06_no_file_without_lock)", c.input())
	}
	if ro.identity == "removed" || ro.identity == "replaced" {
		// the model gives every client ONE inode for its path; the lock lives on the inode
		rn.violate("impl-violation", "identity:path-no-longer-names-the-locked-file", "release identity "+c.Call,
			fmt.Sprintf("after the call returned (%s) the file under the path was %s: callers already queued on the old file and newcomers on the path no longer exclude each other (%s)", outc, ro.identity, c.key()),
			impl, "same file", c.input())
	}
	if ro.held {
		rn.violate("impl-violation", "release:lock-still-held-after-return", "release held "+c.Call,
			"the call has returned ("+outc+") but another process cannot take the exclusive lock: the lock was not released by the call ("+c.key()+")",
			impl, "released (C06_released_on_every_path)", c.input())
	}
	if ro.onfile > 0 {
		rn.violate("impl-violation", "release:descriptor-left-open-after-return", "release fd "+c.Call,
			fmt.Sprintf("the call has returned (%s) but the process still holds %d descriptor(s) for the file (GC off, so no finalizer hid it): %s", outc, ro.onfile, c.key()),
			impl, "no descriptor (C06_fd_balanced)", c.input())
	} else if ro.extra > 0 {
		// not on the file itself: recorded, not reported (the runtime may open descriptors of its own)
		rn.res.Count("release:descriptor-count-grew")
		rn.res.Notes = append(rn.res.Notes, fmt.Sprintf("release case %s: %d more open descriptor(s) than before the call, none of them on the file", c.key(), ro.extra))
	}
	// the injected failures of open / flock / close / I-O, one-shot and persistent, against the
	// model's policy semantics (class_pol, os_step_f): same system calls, outcome, contents
	if spec, ok := classSpecOf(c.Inject); ok && rn.m != nil && ro.trace != "" && c.Fsize < 0 && !c.Close2 {
		call, arg := c.Call, c.Arg
		if strings.HasPrefix(arg, "rd:") {
			chunks, rerr := readerModel(arg)
			call, arg = "writer", fmt.Sprintf("%s:%d", chunks, b2i(rerr))
		}
		model := modelLine(rn.m.Ask1(fmt.Sprintf("polcall %s %s %s %s", call, arg, c.File, spec)), true)
		implLine := outc + " " + ro.final + " | " + ro.trace
		rn.res.Count("release-model-compared")
		if model != implLine {
			rn.violate("correspondence", "release-ops:"+c.Call, "release-ops "+c.key(),
				"outcome / contents / system calls under the injected failure differ from the model's policy semantics", implLine, model, c.input())
		}
	}
	if rn.res.Evaluations%29 == 1 {
		rn.res.Sample(map[string]any{"release": c.key(), "impl": impl})
	}
}

// classSpecOf translates strace inject specifications ("flock:error=ENOLCK:when=1+;...") into the
// model's class policy "class:<open>:<flock>:<read>:<write>:<trunc>:<close>".  A failing read
// is comparable only when it is the first one (io.ReadAll is one operation of the model).
func classSpecOf(inject string) (string, bool) {
	if inject == "" {
		return "", false
	}
	cls := map[string]string{"open": "0", "flock": "0", "read": "0", "write": "0", "trunc": "0", "close": "0"}
	for _, sp := range strings.Split(inject, ";") {
		f := strings.Split(sp, ":")
		if len(f) != 3 || !strings.HasPrefix(f[2], "when=") {
			return "", false
		}
		when := strings.TrimPrefix(f[2], "when=")
		k := map[string]string{"flock": "flock", "read": "read", "write": "write", "pwrite64": "write", "ftruncate": "trunc"}[f[0]]
		if k == "" || (k == "read" && when != "1" && when != "1+") {
			return "", false
		}
		cls[k] = when
	}
	return fmt.Sprintf("class:%s:%s:%s:%s:%s:%s", cls["open"], cls["flock"], cls["read"], cls["write"], cls["trunc"], cls["close"]), true
}

// relCases: every API call x target x fault.  Without strace: failing readers, failing
// transform functions, RLIMIT_FSIZE, directories (read fails with EISDIR), missing
// directories, files the caller may not open.  With strace: one-shot and persistent injected
// failures of every system call of the call (a failed flock(LOCK_UN) included: close must
// release all the same).
func relCases(rng interface{ Intn(int) int }, tier string, strace bool) []relCase {
	var cs []relCase
	add := func(call, arg, file string) { cs = append(cs, relCase{Call: call, Arg: arg, File: file, Fsize: -1}) }
	const data = "616263646566"
	files := []string{"absent", "-", data, "dir", "nodir", "ro:616263", "wo:616263"}
	for _, f := range files {
		add("read", "-", f)
		for _, a := range []string{"-", "78797a"} {
			add("write", a, f)
		}
		for _, a := range []string{"FAIL", "-", "7a7a", "4142434445464748494a", "res:nil", "alias:append:7879"} {
			add("transform", a, f)
		}
		for _, call := range []string{"create", "edit", "open", "mutex"} {
			add(call, "-", f)
		}
		add("createwrite", "7879", f)
		add("editwrite", "7879", f)
	}
	for _, r := range readerSpecs {
		for _, f := range []string{"absent", data} {
			add("write", r, f)
		}
	}
	for _, f := range []string{"fifo"} {
		add("create", "-", f)
		add("edit", "-", f)
		add("mutex", "-", f)
	}
	for _, fl := range []int{os.O_RDONLY, os.O_WRONLY, os.O_RDWR, os.O_RDWR | os.O_CREATE | os.O_EXCL, os.O_WRONLY | os.O_TRUNC, 3, os.O_RDWR | os.O_APPEND} {
		for _, f := range []string{"absent", data} {
			add("openfile", strconv.Itoa(fl), f)
		}
	}
	for _, call := range []string{"create", "edit", "open"} {
		cs = append(cs, relCase{Call: call, Arg: "-", File: data, Fsize: -1, Close2: true})
	}
	// a size limit: every write beyond it fails (after storing what fits), persistently
	for _, lim := range []int{0, 1, 3, 6, 8} {
		for _, f := range []string{"absent", data} {
			cs = append(cs, relCase{Call: "write", Arg: "3031323334353637", File: f, Fsize: lim},
				relCase{Call: "write", Arg: "rd:plain:3031,3233,34353637", File: f, Fsize: lim},
				relCase{Call: "transform", Arg: "3031323334353637", File: f, Fsize: lim},
				relCase{Call: "transform", Arg: "3031", File: f, Fsize: lim},
				relCase{Call: "transform", Arg: "alias:append:78797a", File: f, Fsize: lim},
				relCase{Call: "createwrite", Arg: "3031323334353637", File: f, Fsize: lim},
				relCase{Call: "editwrite", Arg: "3031323334353637", File: f, Fsize: lim})
		}
	}
	if !strace {
		return cs
	}
	inj := func(call, arg, file, spec string) {
		cs = append(cs, relCase{Call: call, Arg: arg, File: file, Fsize: -1, Inject: spec})
	}
	type ca struct{ call, arg string }
	calls := []ca{{"read", "-"}, {"write", "78797a"}, {"write", "rd:plain:7879,7a"}, {"transform", "7a7a"}, {"transform", "4142434445464748494a"},
		{"create", "-"}, {"edit", "-"}, {"open", "-"}, {"mutex", "-"}, {"createwrite", "7879"}, {"editwrite", "7879"}}
	for _, c := range calls {
		// the lock request fails (not EINTR): the descriptor must be closed, the error returned
		inj(c.call, c.arg, data, "flock:error=ENOLCK:when=1")
		// the unlock inside Close fails: closing the descriptor must release the lock all the same
		inj(c.call, c.arg, data, "flock:error=EIO:when=2")
		// every flock fails
		inj(c.call, c.arg, data, "flock:error=ENOLCK:when=1+")
		for _, sys := range []string{"read", "write", "pwrite64", "ftruncate"} {
			uses := map[string]string{"read": "read transform", "write": "write createwrite editwrite", "pwrite64": "transform", "ftruncate": "write create createwrite transform"}[sys]
			if !strings.Contains(" "+uses+" ", " "+c.call+" ") {
				continue
			}
			inj(c.call, c.arg, data, sys+":error=EIO:when=1")
			inj(c.call, c.arg, data, sys+":error=EIO:when=1+")
			if tier != "quick" || rng.Intn(2) == 0 {
				inj(c.call, c.arg, data, sys+":error=EIO:when=2")
				inj(c.call, c.arg, data, sys+":error=EIO:when=2+")
			}
		}
		if c.call == "transform" {
			inj(c.call, c.arg, data, "pwrite64:error=ENOSPC:when=1+;ftruncate:error=EIO:when=1+")
		}
	}
	return cs
}

func (rn *runner) releasePhase() {
	for _, c := range relCases(rn.rng.Fork(), rn.f.Tier, rn.st) {
		rn.relOne(c)
	}
}

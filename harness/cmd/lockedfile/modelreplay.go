package main

// Replaying a traced multi-process history through the WHOLE interleaved model: every open
// file description of the run becomes a model client OpenFile(observed flags) whose body is the
// observed sequence of reads, writes and truncations; the observed system calls, in the
// canonical order (open / unlock / close / I/O at their entry, lock grants at their exit), are
// the schedule.  The extracted init_state / exec must then (1) never block where the kernel
// granted, (2) perform exactly the observed operations in each client's order, with the
// observed lock mode, (3) return the observed bytes to every read, (4) let every client finish
// with the observed outcome and (5) leave the observed file contents.

import (
	"fmt"
	"os"
	"sort"
	"strings"

	"verif/harness/common"
)

type replayStats struct {
	clients, events, reads, inodes int
	truncated                      bool
}

// buildReplay: inode paths (index = inode number), the client part and the event part of the
// model request.
// maxReplayEvents bounds the history handed to the model: the extracted semantics works on
// unary numbers and chains of function updates, its cost grows faster than linearly.
const maxReplayEvents = 5000

func buildReplay(evs []flockEv) (paths []string, clientToks, eventToks []string, st replayStats) {
	type client struct {
		ino, flags int
		ok         bool
		ops        []string
	}
	clients := map[int]*client{}
	var order []int
	type point struct {
		t    float64
		rel  bool
		c    int
		kind string
		seq  int
	}
	var pts []point
	inoPath := map[int]string{}
	lastRead := map[int]int{} // ofd -> index in ops of an open read group
	for seq, e := range evs {
		cl := clients[e.ofd]
		if e.op == "openat" {
			clients[e.ofd] = &client{ino: e.ino, flags: e.flags, ok: e.ok}
			order = append(order, e.ofd)
			inoPath[e.ino] = e.path
			pts = append(pts, point{e.start, false, e.ofd, "open", seq})
			continue
		}
		if cl == nil || !e.ok {
			continue
		}
		io := func(tok string) {
			cl.ops = append(cl.ops, tok)
			pts = append(pts, point{e.start, false, e.ofd, "io", seq})
		}
		if e.op != "read" {
			delete(lastRead, e.ofd)
		}
		switch e.op {
		case "LOCK_EX":
			pts = append(pts, point{e.end, false, e.ofd, "flock2", seq})
		case "LOCK_SH":
			pts = append(pts, point{e.end, false, e.ofd, "flock1", seq})
		case "LOCK_UN":
			pts = append(pts, point{e.start, true, e.ofd, "flock8", seq})
		case "close":
			pts = append(pts, point{e.start, true, e.ofd, "close", seq})
		case "read": // a run of reads (io.ReadAll) is one ReadAll of the concatenated data
			if i, ok := lastRead[e.ofd]; ok {
				old := common.UnHex(strings.TrimPrefix(cl.ops[i], "r:"))
				cl.ops[i] = "r:" + common.Hex(append(old, e.data...))
				continue
			}
			lastRead[e.ofd] = len(cl.ops)
			st.reads++
			io("r:" + common.Hex(e.data))
		case "write":
			if len(e.data) > 0 {
				io("w:" + common.Hex(e.data))
			}
		case "pwrite64":
			io(fmt.Sprintf("p:%d:%s", e.off, common.Hex(e.data)))
		case "ftruncate":
			io(fmt.Sprintf("t:%d", e.n))
		}
	}
	sort.SliceStable(pts, func(i, j int) bool {
		if pts[i].t != pts[j].t {
			return pts[i].t < pts[j].t
		}
		if pts[i].rel != pts[j].rel {
			return pts[i].rel
		}
		return pts[i].seq < pts[j].seq
	})
	if len(pts) > maxReplayEvents {
		// a prefix in canonical order is itself a consistent history; clients and operations
		// that begin later are dropped
		pts = pts[:maxReplayEvents]
		st.truncated = true
		kept := map[int]int{} // ofd -> number of io events kept
		seen := map[int]bool{}
		for _, p := range pts {
			seen[p.c] = true
			if p.kind == "io" {
				kept[p.c]++
			}
		}
		var order2 []int
		for _, ofd := range order {
			if seen[ofd] {
				order2 = append(order2, ofd)
				if cl := clients[ofd]; len(cl.ops) > kept[ofd] {
					cl.ops = cl.ops[:kept[ofd]]
				}
			}
		}
		order = order2
	}
	paths = make([]string, len(inoPath))
	for i, p := range inoPath {
		paths[i] = p
	}
	idx := map[int]int{}
	for i, ofd := range order {
		idx[ofd] = i
		cl := clients[ofd]
		exp := "ok"
		if !cl.ok {
			exp = "err"
		}
		clientToks = append(clientToks, fmt.Sprint(cl.ino), fmt.Sprint(cl.flags), exp, fmt.Sprint(len(cl.ops)))
		clientToks = append(clientToks, cl.ops...)
	}
	for _, p := range pts {
		eventToks = append(eventToks, fmt.Sprintf("%d:%s", idx[p.c], p.kind))
	}
	st.clients, st.events, st.inodes = len(order), len(pts), len(paths)
	return paths, clientToks, eventToks, st
}

// replayThroughModel: returns stats and findings for one traced round.
func replayThroughModel(m *lfModel, evs []flockEv, initial map[string]string, dir string) (replayStats, []histFinding) {
	paths, clientToks, eventToks, st := buildReplay(evs)
	var inits []string
	for _, p := range paths {
		if v, ok := initial[p]; ok {
			inits = append(inits, v)
		} else {
			inits = append(inits, "absent")
		}
	}
	mode := "full"
	if st.truncated {
		mode = "prefix"
	}
	parts := []string{"replay", mode, fmt.Sprint(len(paths))}
	parts = append(parts, inits...)
	parts = append(parts, fmt.Sprint(st.clients))
	parts = append(parts, clientToks...)
	parts = append(parts, fmt.Sprint(st.events))
	parts = append(parts, eventToks...)
	ans := m.AskT(strings.Join(parts, " "), modelHeavyDeadline)
	if strings.HasPrefix(ans, "MODEL-TIMEOUT") {
		return st, nil // recorded in the runner's Notes; not a finding
	}
	f := strings.Fields(ans)
	var out []histFinding
	switch {
	case len(f) > 0 && f[0] == "ok":
		for i, p := range paths {
			if st.truncated {
				break // the model stopped in the middle of the history
			}
			if i+1 >= len(f) {
				break
			}
			b, err := os.ReadFile(p)
			if err != nil {
				continue // removed by the run itself (the O_EXCL scratch files)
			}
			if got := common.Hex(b); got != f[i+1] {
				out = append(out, histFinding{"final-contents-differ",
					fmt.Sprintf("after replaying the observed history the model's file %s holds %s, the real file %s", p[len(dir):], short(f[i+1]), short(got)), nil})
			}
		}
	case len(f) > 0 && f[0] == "mismatch":
		out = append(out, histFinding{"interleaved-model-mismatch", "replay of the observed history through init_state/exec: " + strings.Join(f[1:], " "), nil})
	default:
		out = append(out, histFinding{"model-replay-failed", "model answered " + ans, nil})
	}
	return st, out
}

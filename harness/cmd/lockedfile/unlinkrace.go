package main

// Scenario: the path is removed (or renamed away) by a third party while a contender is in the
// middle of its acquisition.  This process holds the write lock on the file.  Another process B
// makes a locking call on the same path under `strace -e inject=fstat,flock:delay_enter=D`, i.e.
// every system call B makes on the file after its open(2) is slowed down; as soon as the trace
// shows that B's open has succeeded, the runner unlinks / renames the path.  B has the very file
// open that this process holds, so whatever has happened to the NAME since, B's call must not
// return before this process begins its Close ("no other holder — in any process — holds it").
// Correct code cannot produce a false alarm: B sits in flock(2) on the held inode until the
// release, however the delays fall; if the runner is too slow to hit the window the run simply
// shows nothing.

import (
	"bufio"
	"context"
	"fmt"
	"os"
	"os/exec"
	"path/filepath"
	"strconv"
	"strings"
	"time"

	"github.com/rogpeppe/go-internal/lockedfile"
)

func scenarioPathRace(self, work, what, kind string, strace bool) scenarioResult {
	res := scenarioResult{name: what + "race-" + kind}
	if !strace {
		res.setup = "strace unavailable"
		return res
	}
	dir, err := os.MkdirTemp(work, "race")
	if err != nil {
		res.setup = err.Error()
		return res
	}
	defer os.RemoveAll(dir)
	path := filepath.Join(dir, "held")
	os.WriteFile(path, payload(41, 30), 0o666)
	a, err := lockedfile.Edit(path)
	if err != nil {
		res.setup = err.Error()
		return res
	}
	closed := false
	defer func() {
		if !closed {
			a.Close()
		}
	}()
	const delay = 200 * time.Millisecond
	stOut := filepath.Join(dir, "strace.out")
	ctx, cancel := context.WithTimeout(context.Background(), 60*time.Second)
	defer cancel()
	cmd := exec.CommandContext(ctx, "strace", "-f", "-o", stOut, "-e", "trace=openat,fstat,flock", "-P", path,
		"-e", fmt.Sprintf("inject=fstat,flock:delay_enter=%d", delay.Microseconds()),
		self, "helper", "lockwait", path, kind, "-")
	cmd.WaitDelay = 2 * time.Second
	out, _ := cmd.StdoutPipe()
	if err := cmd.Start(); err != nil {
		res.setup = err.Error()
		return res
	}
	defer func() { cmd.Process.Kill(); cmd.Wait() }()
	lineCh := make(chan string, 1)
	go func() {
		s, err := bufio.NewReader(out).ReadString('\n')
		if err != nil {
			s = "EOF " + s
		}
		lineCh <- strings.TrimSpace(s)
	}()
	// wait for B's successful open of the path
	opened := false
	for t0 := time.Now(); time.Since(t0) < 20*time.Second && !opened; time.Sleep(3 * time.Millisecond) {
		b, _ := os.ReadFile(stOut)
		for _, l := range strings.Split(string(b), "\n") {
			if i := strings.LastIndex(l, "= "); strings.Contains(l, "openat(") && strings.Contains(l, "held") && i > 0 {
				if n, err := strconv.Atoi(strings.Fields(l[i+2:] + " x")[0]); err == nil && n >= 0 {
					opened = true
				}
			}
		}
	}
	if !opened {
		res.setup = "the contender's open was not seen in the trace"
		return res
	}
	tGone := monoNow()
	if what == "unlink" {
		err = os.Remove(path)
	} else {
		err = os.Rename(path, path+".moved")
	}
	if err != nil {
		res.setup = err.Error()
		return res
	}
	// B's remaining system calls are delayed by D each; give it time to come through (wrongly)
	l, early := "", false
	select {
	case l = <-lineCh:
		early = true
	case <-time.After(4*delay + 150*time.Millisecond):
	}
	tClose := monoNow()
	a.Close()
	closed = true
	if !early {
		select {
		case l = <-lineCh:
		case <-time.After(capWait + 4*delay):
			res.viol = "waiter-never-finished"
			res.detail = fmt.Sprintf("%s (path %s while it was acquiring) did not finish within %v after the holder closed", kind, what, capWait)
			return res
		}
	}
	fs := strings.Fields(l)
	if len(fs) != 4 || fs[0] != "DONE" {
		res.setup = "helper said " + l
		return res
	}
	t1, _ := strconv.ParseInt(fs[3], 10, 64)
	if (early || t1 < tClose) && fs[1] != "err" {
		res.viol = "acquired-while-held-after-path-" + what
		res.detail = fmt.Sprintf("A: Edit(path) returned, holding ; B: %s(path) has opened the file ; %d third party: %s of the path ; B: returned %s at %d ; %d A: Close begins — B held the file A still held (B had it open before the name went away)",
			kind, tGone, what, fs[1], t1, tClose)
	}
	return res
}

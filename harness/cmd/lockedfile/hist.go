package main

// C07 (c): timestamped invocation/response histories of concurrent Read / Write / Transform
// calls from several processes, and the register-linearisability checker.  Every write
// stores a unique self-describing payload, so the check is polynomial (Gibbons & Korach's
// zone conditions for registers with unique writes); Transform is a write of its new value
// and a read of the value its function was given.

import (
	"bufio"
	"bytes"
	"context"
	"fmt"
	"io"
	"os"
	"os/exec"
	"path/filepath"
	"runtime"
	"sort"
	"strconv"
	"strings"
	"sync"
	"time"

	"github.com/rogpeppe/go-internal/lockedfile"

	"verif/harness/common"
)

type hev struct {
	Op        string // R W T
	Proc, G   int
	Inv, Resp int64
	OK        bool
	A, B      uint64 // R: A = id read; W: A = id written; T: A = id seen, B = id written
	Bad       string // non-empty: the bytes read were not a complete payload
	Round     int    // fresh-* modes: which file of the run (each round uses a file that does not exist yet)
	Tin, Tout int64  // incr: when the transform function was entered / left (it runs inside the lock)
}

func (e hev) String() string {
	return fmt.Sprintf("%s p%d.g%d [%d,%d] ok=%v a=%d b=%d %s", e.Op, e.Proc, e.G, e.Inv, e.Resp, e.OK, e.A, e.B, e.Bad)
}

func histWorker(a []string) {
	dir := a[0]
	proc, _ := strconv.Atoi(a[1])
	gor, _ := strconv.Atoi(a[2])
	iters, _ := strconv.Atoi(a[3])
	seed, _ := strconv.ParseUint(a[4], 10, 64)
	mode := a[5]
	path := filepath.Join(dir, "reg")
	// fresh-mixed / fresh-incr: <rounds> <startAt> <period>: round r works on a file that does not
	// exist yet, and every goroutine of every process begins it at the same instant
	// (CLOCK_MONOTONIC is shared by the processes of one machine): the first calls on the file —
	// the ones that create it — race with each other
	fresh := strings.HasPrefix(mode, "fresh-")
	rounds, startAt, period := 1, int64(0), int64(0)
	if fresh {
		mode = strings.TrimPrefix(mode, "fresh-")
		rounds, _ = strconv.Atoi(a[6])
		startAt, _ = strconv.ParseInt(a[7], 10, 64)
		period, _ = strconv.ParseInt(a[8], 10, 64)
	}
	var mu sync.Mutex
	w := bufio.NewWriter(os.Stdout)
	emit := func(e hev) {
		mu.Lock()
		ok := 0
		if e.OK {
			ok = 1
		}
		bad := e.Bad
		if bad == "" {
			bad = "-"
		}
		fmt.Fprintf(w, "EV %s %d %d %d %d %d %d %d %s %d %d %d\n", e.Op, e.Proc, e.G, e.Inv, e.Resp, ok, e.A, e.B, bad, e.Round, e.Tin, e.Tout)
		mu.Unlock()
	}
	idOf := func(b []byte) (uint64, string) {
		if fresh && len(b) == 0 {
			return 1, "" // the file has just been created: the initial value of the register
		}
		id, ok := payloadID(b)
		if !ok {
			return 0, fmt.Sprintf("len=%d:head=%x", len(b), head(b))
		}
		return id, ""
	}
	var wg sync.WaitGroup
	for g := 0; g < gor; g++ {
		wg.Add(1)
		go func(g int) {
			defer wg.Done()
			r := common.NewRNG(seed*7919 + uint64(proc)*104729 + uint64(g))
			// the caller's memory: what earlier Reads returned must still be what they returned
			type kept struct{ got, copy []byte }
			var keep []kept
			retained := func() string {
				for _, k := range keep {
					if !bytes.Equal(k.got, k.copy) {
						return fmt.Sprintf("earlier-result-changed:len=%d:was=%x:now=%x", len(k.copy), head(k.copy), head(k.got))
					}
				}
				return ""
			}
			for it0 := 0; it0 < iters*rounds; it0++ {
				it := it0
				path := path
				round := 0
				if fresh {
					round = it0 / iters
					path = filepath.Join(dir, fmt.Sprintf("reg%d", round))
					if it0%iters == 0 {
						at := startAt + int64(round)*period
						if d := at - monoNow(); d > int64(2*time.Millisecond) {
							time.Sleep(time.Duration(d) - 2*time.Millisecond)
						}
						for monoNow() < at {
							runtime.Gosched()
						}
					}
				}
				id := (uint64(proc+1)<<40 | uint64(g)<<28 | uint64(it)) + 100
				e := hev{Proc: proc, G: g, Round: round}
				if mode == "append" {
					// the counter is the file length; t returns append(old, '+'), which writes
					// into its argument's spare capacity (the result aliases the argument),
					// sometimes the argument itself (no change) or a fresh slice
					e.Op = "I"
					variant := r.Intn(8)
					e.Inv = monoNow()
					err := lockedfile.Transform(path, func(old []byte) ([]byte, error) {
						if len(old) == 0 || old[0] != 's' || strings.Trim(string(old[1:]), "+") != "" {
							e.Bad = fmt.Sprintf("len=%d:head=%x", len(old), head(old))
						}
						e.A = uint64(len(old)) - 1
						switch variant {
						case 0: // the argument itself: nothing changes
							e.B = e.A
							return old, nil
						case 1: // never aliases
							e.B = e.A + 1
							return append(old[:len(old):len(old)], '+'), nil
						default: // in place when the capacity allows
							e.B = e.A + 1
							return append(old, '+'), nil
						}
					})
					e.Resp = monoNow()
					e.OK = err == nil
					emit(e)
					continue
				}
				if mode == "incr" {
					e.Op = "I"
					e.Inv = monoNow()
					err := lockedfile.Transform(path, func(old []byte) ([]byte, error) {
						e.Tin = monoNow()
						defer func() { runtime.Gosched(); e.Tout = monoNow() }()
						n, perr := strconv.ParseUint(string(bytes.TrimSpace(old)), 10, 64)
						if fresh && len(old) == 0 {
							n, perr = 0, nil // just created
						}
						if perr != nil {
							e.Bad = fmt.Sprintf("len=%d:head=%x", len(old), head(old))
						}
						e.A, e.B = n, n+1
						// varying widths: the file grows and (via the padding) shrinks
						return []byte(fmt.Sprintf("%d%s", n+1, strings.Repeat("\n", int((n+1)%5)))), nil
					})
					e.Resp = monoNow()
					e.OK = err == nil
					emit(e)
					continue
				}
				switch k := r.Intn(10); {
				case k < 4:
					e.Op = "R"
					e.Inv = monoNow()
					b, err := lockedfile.Read(path)
					e.Resp = monoNow()
					e.OK = err == nil
					if err == nil {
						e.A, e.Bad = idOf(b)
						if len(keep) >= 6 {
							keep = keep[1:]
						}
						keep = append(keep, kept{b, append([]byte{}, b...)})
					}
				case k < 7:
					e.Op = "W"
					e.A = id
					pl := payload(id, r.Intn(700))
					e.Inv = monoNow()
					// the content reader varies: a WriterTo (one write), or a reader that delivers
					// the payload in several chunks (io.Copy's buffer loop: several writes, all of
					// them inside the one critical section)
					var content io.Reader = bytes.NewReader(pl)
					if r.Intn(3) == 0 && len(pl) > 2 {
						a, b := len(pl)/3, 2*len(pl)/3
						content = &chunkReader{chunks: [][]byte{pl[:a], pl[a:b], pl[b:]}, final: io.EOF, withLas: r.Intn(2) == 0}
					}
					err := lockedfile.Write(path, content, 0o666)
					e.Resp = monoNow()
					e.OK = err == nil
				default:
					e.Op = "T"
					fail := r.Intn(6) == 0
					pl := payload(id, r.Intn(700))
					e.Inv = monoNow()
					err := lockedfile.Transform(path, func(old []byte) ([]byte, error) {
						e.A, e.Bad = idOf(old)
						if fail {
							return nil, fmt.Errorf("declined")
						}
						e.B = id
						return pl, nil
					})
					e.Resp = monoNow()
					e.OK = err == nil
				}
				if e.Bad == "" {
					e.Bad = retained()
				}
				emit(e)
			}
		}(g)
	}
	wg.Wait()
	w.Flush()
}

// runHist runs the workers and returns the merged history.
func runHist(self, work, mode string, procs, gor, iters int, seed uint64, initial []byte) (evs []hev, final []byte, err error) {
	evs, finals, err := runHistRounds(self, work, mode, procs, gor, iters, seed, initial, 0)
	if len(finals) > 0 {
		final = finals[0]
	}
	return evs, final, err
}

// runHistRounds: rounds > 0 = a fresh-* mode: no file exists at the start, round r uses reg<r>.
func runHistRounds(self, work, mode string, procs, gor, iters int, seed uint64, initial []byte, rounds int) (evs []hev, finals [][]byte, err error) {
	dir, err := os.MkdirTemp(work, "hist")
	if err != nil {
		return nil, nil, err
	}
	defer os.RemoveAll(dir)
	var extra []string
	if rounds > 0 {
		// the workers need time to start; then one round every 20 ms
		extra = []string{fmt.Sprint(rounds), fmt.Sprint(monoNow() + int64(300*time.Millisecond)), fmt.Sprint(int64(20 * time.Millisecond))}
	} else if err := os.WriteFile(filepath.Join(dir, "reg"), initial, 0o666); err != nil {
		return nil, nil, err
	}
	var mu sync.Mutex
	var wg sync.WaitGroup
	for pr := 0; pr < procs; pr++ {
		wg.Add(1)
		go func(pr int) {
			defer wg.Done()
			ctx, cancel := context.WithTimeout(context.Background(), workerDeadline)
			defer cancel()
			cmd := exec.CommandContext(ctx, self, append([]string{"helper", "hist", dir, fmt.Sprint(pr), fmt.Sprint(gor), fmt.Sprint(iters), fmt.Sprint(seed), mode}, extra...)...)
			cmd.Stderr = os.Stderr
			out, e := cmd.Output()
			mu.Lock()
			defer mu.Unlock()
			if e != nil {
				err = fmt.Errorf("hist worker %d: %v", pr, e)
			}
			for _, l := range strings.Split(string(out), "\n") {
				f := strings.Fields(l)
				if len(f) != 13 || f[0] != "EV" {
					continue
				}
				var e hev
				e.Op = f[1]
				e.Proc, _ = strconv.Atoi(f[2])
				e.G, _ = strconv.Atoi(f[3])
				e.Inv, _ = strconv.ParseInt(f[4], 10, 64)
				e.Resp, _ = strconv.ParseInt(f[5], 10, 64)
				e.OK = f[6] == "1"
				e.A, _ = strconv.ParseUint(f[7], 10, 64)
				e.B, _ = strconv.ParseUint(f[8], 10, 64)
				if f[9] != "-" {
					e.Bad = f[9]
				}
				e.Round, _ = strconv.Atoi(f[10])
				e.Tin, _ = strconv.ParseInt(f[11], 10, 64)
				e.Tout, _ = strconv.ParseInt(f[12], 10, 64)
				evs = append(evs, e)
			}
		}(pr)
	}
	wg.Wait()
	if rounds > 0 {
		for r := 0; r < rounds; r++ {
			b, _ := os.ReadFile(filepath.Join(dir, fmt.Sprintf("reg%d", r)))
			finals = append(finals, b)
		}
	} else {
		b, _ := os.ReadFile(filepath.Join(dir, "reg"))
		finals = [][]byte{b}
	}
	sort.Slice(evs, func(i, j int) bool { return evs[i].Inv < evs[j].Inv })
	return evs, finals, err
}

type histFinding struct {
	Key, Detail string
	Ops         []hev
}

// checkRegister: necessary and (for unique writes) sufficient conditions of atomicity.
func checkRegister(evs []hev, initID uint64, final []byte) []histFinding {
	var out []histFinding
	add := func(key, detail string, ops ...hev) {
		if len(out) < 8 {
			out = append(out, histFinding{key, detail, ops})
		}
	}
	type cluster struct {
		w          *hev // nil for the initial value
		low, high  int64
		has        bool
		reads      []hev
		successors int
	}
	cl := map[uint64]*cluster{initID: {low: 0, high: 0, has: true}}
	touch := func(c *cluster, inv, resp int64) {
		if !c.has {
			c.low, c.high, c.has = resp, inv, true
			return
		}
		if resp < c.low {
			c.low = resp
		}
		if inv > c.high {
			c.high = inv
		}
	}
	// writers first
	for i := range evs {
		e := &evs[i]
		var id uint64
		switch {
		case e.Op == "W" && e.OK:
			id = e.A
		case e.Op == "T" && e.OK:
			id = e.B
		default:
			continue
		}
		c := &cluster{w: e}
		touch(c, e.Inv, e.Resp)
		cl[id] = c
	}
	// a failed Write may or may not have taken effect: its value is allowed but not required
	maybe := map[uint64]*hev{}
	for i := range evs {
		if e := &evs[i]; e.Op == "W" && !e.OK {
			maybe[e.A] = e
		}
	}
	for _, e := range evs {
		if strings.HasPrefix(e.Bad, "earlier-result-changed") {
			add("earlier-result-changed", "the bytes an earlier Read had returned to this goroutine were modified by a later call (a result must stay exactly the contents left by one Write/Transform): "+e.Bad, e)
			continue
		}
		var seen uint64
		switch {
		case e.Op == "R" && e.OK:
			seen = e.A
		case e.Op == "T" && (e.OK || e.A != 0 || e.Bad != ""):
			seen = e.A
		default:
			continue
		}
		if e.Bad != "" {
			add("torn-read", "a "+e.Op+" call obtained bytes that are not one complete payload (empty, truncated or mixed): "+e.Bad, e)
			continue
		}
		c, ok := cl[seen]
		if !ok {
			if w, ok2 := maybe[seen]; ok2 {
				c = &cluster{w: w}
				touch(c, w.Inv, w.Resp)
				cl[seen] = c
			} else {
				add("read-of-unwritten-value", fmt.Sprintf("value %d was never written by a successful call", seen), e)
				continue
			}
		}
		if c.w != nil && e.Resp < c.w.Inv {
			add("read-from-the-future", "the call returned before the write of the value it saw was invoked", e, *c.w)
		}
		touch(c, e.Inv, e.Resp)
		c.reads = append(c.reads, e)
		if e.Op == "T" && e.OK {
			c.successors++
			if c.successors == 2 {
				add("lost-update", fmt.Sprintf("two successful Transform calls were both given value %d", seen), e)
			}
		}
	}
	// explicit staleness message (implied by the zone conditions, but easier to read)
	var writes []*hev
	for _, c := range cl {
		if c.w != nil && c.w.OK {
			writes = append(writes, c.w)
		}
	}
	for id, c := range cl {
		for _, r := range c.reads {
			wresp := int64(0)
			if c.w != nil {
				wresp = c.w.Resp
			}
			for _, w2 := range writes {
				if w2 != c.w && wresp < w2.Inv && w2.Resp < r.Inv {
					add("stale-read", fmt.Sprintf("value %d was returned although a later write had completed before the call began", id), r, *w2)
					break
				}
			}
		}
	}
	type zone struct {
		id      uint64
		lo, hi  int64
		forward bool
	}
	var zs []zone
	for id, c := range cl {
		if c.low < c.high {
			zs = append(zs, zone{id, c.low, c.high, true})
		} else {
			zs = append(zs, zone{id, c.high, c.low, false})
		}
	}
	sort.Slice(zs, func(i, j int) bool { return zs[i].lo < zs[j].lo })
	for i := range zs {
		for j := range zs {
			if i == j || !zs[i].forward {
				continue
			}
			a, b := zs[i], zs[j]
			if b.forward && i < j && a.lo < b.hi && b.lo < a.hi {
				add("zones-overlap", fmt.Sprintf("the calls on values %d and %d cannot be ordered: forward zones [%d,%d] and [%d,%d] overlap", a.id, b.id, a.lo, a.hi, b.lo, b.hi))
			}
			if !b.forward && a.lo < b.lo && b.hi < a.hi {
				add("zone-contained", fmt.Sprintf("the calls on value %d fall inside the forward zone of value %d", b.id, a.id))
			}
		}
	}
	if final != nil {
		if id, ok := payloadID(final); !ok {
			add("torn-final-contents", fmt.Sprintf("at rest the file is not a complete payload (len %d)", len(final)))
		} else if _, ok := cl[id]; !ok {
			if _, ok2 := maybe[id]; !ok2 {
				add("final-value-unwritten", fmt.Sprintf("final value %d was never written", id))
			}
		}
	}
	return out
}

// checkIncr: the counter history.  Every successful Transform saw a distinct value, the
// values seen are exactly 0..n-1 and the file ends at n.
func checkIncr(evs []hev, final []byte, mode string) []histFinding {
	var out []histFinding
	seen := map[uint64]hev{}
	n := uint64(0)
	for _, e := range evs {
		if e.Bad != "" {
			out = append(out, histFinding{"torn-read", "Transform was given bytes that are not a counter: " + e.Bad, []hev{e}})
			continue
		}
		if !e.OK || e.B == e.A { // failed, or t returned its argument: no update
			continue
		}
		n++
		if o, dup := seen[e.A]; dup {
			out = append(out, histFinding{"lost-update", fmt.Sprintf("two successful Transform calls were both given %d", e.A), []hev{o, e}})
		}
		seen[e.A] = e
	}
	got, err := strconv.ParseUint(string(bytes.TrimSpace(final)), 10, 64)
	if mode == "append" {
		got, err = uint64(len(final))-1, nil
		if len(final) == 0 {
			err = fmt.Errorf("empty")
		}
	}
	if err != nil || got != n {
		out = append(out, histFinding{"lost-update", fmt.Sprintf("%d successful increments but the file holds %q", n, head(final)), nil})
	}
	// real time: a call that finished before another began saw a smaller value
	byResp := append([]hev{}, evs...)
	sort.Slice(byResp, func(i, j int) bool { return byResp[i].Resp < byResp[j].Resp })
	maxSeen := int64(-1)
	var maxEv hev
	j := 0
	byInv := append([]hev{}, evs...)
	sort.Slice(byInv, func(i, j int) bool { return byInv[i].Inv < byInv[j].Inv })
	for _, e := range byInv {
		for j < len(byResp) && byResp[j].Resp < e.Inv {
			if byResp[j].OK && byResp[j].B != byResp[j].A && int64(byResp[j].A) > maxSeen {
				maxSeen, maxEv = int64(byResp[j].A), byResp[j]
			}
			j++
		}
		if e.OK && e.Bad == "" && int64(e.A) <= maxSeen {
			out = append(out, histFinding{"stale-read", fmt.Sprintf("Transform was given %d although a call that had already returned was given %d", e.A, maxSeen), []hev{e, maxEv}})
			break
		}
	}
	if len(out) > 8 {
		out = out[:8]
	}
	return out
}

// checkInside: the transform function runs between the return of the locking call and Close, so
// the intervals during which two calls on one file were inside it must not intersect
// (CLOCK_MONOTONIC is common to the processes; each interval lies strictly inside its lock).
func checkInside(evs []hev) []histFinding {
	var in []hev
	for _, e := range evs {
		if e.Tin != 0 && e.Tout != 0 {
			in = append(in, e)
		}
	}
	sort.Slice(in, func(i, j int) bool { return in[i].Tin < in[j].Tin })
	for i := 1; i < len(in); i++ {
		if in[i].Tin < in[i-1].Tout {
			return []histFinding{{"two-inside", fmt.Sprintf("two write-locking calls on one file were between return and Close together: one from %d to %d, the other entered at %d", in[i-1].Tin, in[i-1].Tout, in[i].Tin), []hev{in[i-1], in[i]}}}
		}
	}
	return nil
}

package main

// Running the helper under strace and reading the system calls that touch one path.

import (
	"bufio"
	"context"
	"fmt"
	"os"
	"os/exec"
	"path/filepath"
	"regexp"
	"strconv"
	"strings"
	"sync"
	"time"
)

var (
	straceOnce sync.Once
	straceOK   bool
	straceWhy  string
)

// haveStrace probes once whether strace can trace a child here.
func haveStrace(work string) (bool, string) {
	straceOnce.Do(func() {
		p, err := exec.LookPath("strace")
		if err != nil {
			straceWhy = "strace not installed"
			return
		}
		out := filepath.Join(work, "probe.strace")
		cmd := exec.Command(p, "-f", "-o", out, "-e", "trace=openat", "true")
		if err := cmd.Run(); err != nil {
			straceWhy = "strace cannot attach: " + err.Error()
			return
		}
		b, _ := os.ReadFile(out)
		os.Remove(out)
		if !strings.Contains(string(b), "openat(") {
			straceWhy = "strace produced no trace"
			return
		}
		straceOK = true
	})
	return straceOK, straceWhy
}

// sysEvent is one system call on the descriptor of the observed path.
type sysEvent struct {
	Name string // openat flock ftruncate pwrite64 write read close
	Arg  string // openat: flags text; flock: LOCK_*; ftruncate: size; pwrite64: "off:len"; write/read: len
	Ret  string // return value text ("3", "0", "-1 EIO (...)")
	Err  bool
	Inj  bool // (INJECTED)
}

func (e sysEvent) String() string {
	s := e.Name + ":" + e.Arg
	if e.Err {
		s += "=err"
	} else {
		s += "=" + e.Ret
	}
	return s
}

var lineRE = regexp.MustCompile(`^(\d+)\s+(\w+)\((.*)\)\s+=\s+(-?\d+|\?)(.*)$`)

// straceCall runs `helper call name path arg` under strace (with optional inject spec, e.g.
// "pwrite64:error=EIO:when=2") and returns the helper's result and the calls on `path`.
func straceCall(self, work, name, path, arg, inject string, env []string) (result string, evs []sysEvent, raw string, err error) {
	out := filepath.Join(work, fmt.Sprintf("st-%d.txt", os.Getpid()))
	defer os.Remove(out)
	args := []string{"-f", "-o", out, "-s", "0", "-e", "trace=openat,flock,ftruncate,pwrite64,write,read,close,dup,dup2,dup3,fcntl"}
	if inject != "" {
		// -P restricts tracing (and therefore injection) to calls on the path
		args = append(args, "-P", path, "-e", "inject="+inject)
	}
	args = append(args, self, "helper", "call", name, path, arg)
	// a helper that blocks (a FIFO open, a lock never released) must not hang the check
	ctx, cancel := context.WithTimeout(context.Background(), 60*time.Second)
	defer cancel()
	cmd := exec.CommandContext(ctx, "strace", args...)
	cmd.Env = append(os.Environ(), env...)
	cmd.WaitDelay = 2 * time.Second
	stdout, e := cmd.Output()
	if ctx.Err() != nil {
		return "", nil, "", fmt.Errorf("helper call %s did not finish within 60s (killed)", name)
	}
	if e != nil {
		if _, ok := e.(*exec.ExitError); !ok {
			return "", nil, "", e
		}
	}
	for _, l := range strings.Split(string(stdout), "\n") {
		if strings.HasPrefix(l, "RESULT ") {
			result = strings.TrimPrefix(l, "RESULT ")
		}
	}
	if result == "" {
		result = "crash"
	}
	b, e := os.ReadFile(out)
	if e != nil {
		return result, nil, "", e
	}
	raw = string(b)
	evs = parseStrace(raw, path)
	return result, evs, raw, nil
}

// parseStrace follows the descriptor(s) obtained by openat(path) and lists the calls on them.
func parseStrace(raw, path string) []sysEvent {
	var evs []sysEvent
	fds := map[string]bool{}
	sc := bufio.NewScanner(strings.NewReader(raw))
	sc.Buffer(make([]byte, 1<<20), 1<<24)
	pending := map[string]string{} // pid -> unfinished call text
	for sc.Scan() {
		l := sc.Text()
		// stitch "<unfinished ...>" / "<... name resumed>" pairs
		if i := strings.Index(l, " <unfinished ...>"); i >= 0 {
			f := strings.Fields(l)
			if len(f) > 0 {
				pending[f[0]] = l[:i]
			}
			continue
		}
		if m := regexp.MustCompile(`^(\d+)\s+<\.\.\. \w+ resumed>(.*)$`).FindStringSubmatch(l); m != nil {
			if p, ok := pending[m[1]]; ok {
				l = p + strings.TrimPrefix(m[2], " ")
				delete(pending, m[1])
			}
		}
		m := lineRE.FindStringSubmatch(l)
		if m == nil {
			continue
		}
		name, a, ret, rest := m[2], m[3], m[4], m[5]
		ev := sysEvent{Name: name, Ret: ret, Err: strings.HasPrefix(ret, "-"), Inj: strings.Contains(rest, "INJECTED")}
		parts := strings.Split(a, ", ")
		switch name {
		case "openat":
			if len(parts) < 3 || strings.Trim(parts[1], `"`) != path {
				// with -s 0 the path is still printed in full (it is a path, not data)
				continue
			}
			ev.Arg = parts[2]
			if !ev.Err {
				fds[ret] = true
			}
			evs = append(evs, ev)
		case "fcntl":
			// the helper calls fcntl(fd, F_GETFD) right after a File-returning call returned
			if len(parts) >= 2 && fds[fdOf(parts[0])] && parts[1] == "F_GETFD" {
				ev.Name, ev.Arg = "returned", ""
				evs = append(evs, ev)
			}
		case "flock", "ftruncate", "pwrite64", "write", "read", "close":
			if len(parts) == 0 || !fds[fdOf(parts[0])] {
				continue
			}
			switch name {
			case "flock", "ftruncate":
				if len(parts) > 1 {
					ev.Arg = parts[1]
				}
			case "pwrite64":
				if len(parts) > 3 {
					ev.Arg = parts[3] + ":" + parts[2]
				}
			case "write", "read":
				if len(parts) > 2 {
					ev.Arg = parts[2]
				}
			case "close":
				if !ev.Err {
					delete(fds, fdOf(parts[0]))
				}
			}
			evs = append(evs, ev)
		}
	}
	return evs
}

// fdOf strips the "<path>" decoration strace -P / -y adds to descriptors.
func fdOf(s string) string {
	if i := strings.Index(s, "<"); i >= 0 {
		s = s[:i]
	}
	return strings.TrimSpace(s)
}

// openFlagsValue turns strace's symbolic flag text into the numeric value.
func openFlagsValue(s string) (int, bool) {
	tab := map[string]int{"O_RDONLY": 0, "O_WRONLY": 1, "O_RDWR": 2, "O_CREAT": 0o100, "O_EXCL": 0o200,
		"O_NOCTTY": 0o400, "O_TRUNC": 0o1000, "O_APPEND": 0o2000, "O_NONBLOCK": 0o4000, "O_DSYNC": 0o10000,
		"O_SYNC": 0o4010000, "O_CLOEXEC": 0o2000000, "O_LARGEFILE": 0o100000, "O_ACCMODE": 3}
	v := 0
	for _, p := range strings.Split(s, "|") {
		p = strings.TrimSpace(p)
		if x, ok := tab[p]; ok {
			v |= x
			continue
		}
		if n, err := strconv.ParseInt(p, 0, 64); err == nil {
			v |= int(n)
			continue
		}
		return 0, false
	}
	return v, true
}

package main

// C07, three phases added in the fourth wave.
//
// directPhase   – "Transform … publishes the result" for EVERY result value and every
//                 representation of it (tfuncs.go: nil, empty non-nil, sub-slices of the argument,
//                 filters that keep nothing, in-place appends, fresh slices), and Write with every
//                 kind of content reader.  No strace needed: the call is made by the helper, the
//                 file is read back.  Oracle: a nil return => the file holds exactly the value the
//                 function denotes; compared with the model as well (outcome, final contents).
// limitPhase    – a PERSISTENT fault that exists for real: a size limit L (RLIMIT_FSIZE with
//                 SIGXFSZ ignored).  Every write stores only what fits below L and then fails,
//                 the rollback's writes included; extensions beyond L fail.  For every old/new
//                 length relation and every interesting L: the unchanged code is all-or-nothing
//                 there (theorem C07_transform_limit_atomic), so the oracle is: error => the old
//                 contents, nil => the new contents.  Model: limit_pol L (Policy.v).
// persistPhase  – persistent injected failures (strace `when=k+`): the k-th and every later
//                 pwrite fails, with and without every ftruncate failing.  What the code
//                 guarantees then (and the oracle checks) is weaker than all-or-nothing —
//                 C07_transform_persistent_not_atomic is the witness —: an error return never
//                 loses bytes (the file is at least as long as before and the old bytes beyond the
//                 new length are intact: C07_transform_err_keeps_old_tail), and when no write
//                 succeeds at all the old contents stay (C07_transform_no_write_atomic).
//                 Model: class_pol (exact final contents and system calls).

import (
	"context"
	"fmt"
	"os"
	"os/exec"
	"path/filepath"
	"strings"
	"time"

	"verif/harness/common"
)

// plainCall: `helper call name path arg` without strace.
func plainCall(self, name, path, arg string, env []string) (string, error) {
	ctx, cancel := context.WithTimeout(context.Background(), 60*time.Second)
	defer cancel()
	cmd := exec.CommandContext(ctx, self, "helper", "call", name, path, arg)
	cmd.Env = append(os.Environ(), env...)
	cmd.WaitDelay = 2 * time.Second
	out, err := cmd.Output()
	if ctx.Err() != nil {
		return "", fmt.Errorf("helper call %s did not finish within 60s (killed)", name)
	}
	if err != nil {
		if _, ok := err.(*exec.ExitError); !ok {
			return "", err
		}
	}
	result := "crash"
	for _, l := range strings.Split(string(out), "\n") {
		if strings.HasPrefix(l, "RESULT ") {
			result = strings.TrimPrefix(l, "RESULT ")
		}
	}
	return result, nil
}

// tracedCall: under strace when it is available (then with the canonical trace), plain otherwise.
func (rn *runner) tracedCall(name, path, arg, inject string, env []string) (result, trace string, hit bool, err error) {
	if !rn.st {
		if inject != "" {
			return "", "", false, fmt.Errorf("strace unavailable")
		}
		result, err = plainCall(rn.self, name, path, arg, env)
		return result, "", false, err
	}
	if strings.Contains(inject, ";") {
		return straceCallMulti(rn.self, rn.f.Work, name, path, arg, strings.Split(inject, ";"), env)
	}
	res, evs, _, err := straceCall(rn.self, rn.f.Work, name, path, arg, inject, env)
	if err != nil {
		return "", "", false, err
	}
	tr, err := canonTrace(evs)
	for _, e := range evs {
		if e.Inj || (inject == "" && e.Err && (e.Name == "pwrite64" || e.Name == "write" || e.Name == "ftruncate")) {
			hit = true
		}
	}
	return res, tr, hit, err
}

// straceCallMulti: several inject specifications at once.
func straceCallMulti(self, work, name, path, arg string, injects []string, env []string) (result, trace string, hit bool, err error) {
	out := filepath.Join(work, fmt.Sprintf("stm-%d.txt", os.Getpid()))
	defer os.Remove(out)
	args := []string{"-f", "-o", out, "-s", "0", "-e", "trace=openat,flock,ftruncate,pwrite64,write,read,close,dup,dup2,dup3,fcntl", "-P", path}
	for _, sp := range injects {
		args = append(args, "-e", "inject="+sp)
	}
	args = append(args, self, "helper", "call", name, path, arg)
	ctx, cancel := context.WithTimeout(context.Background(), 60*time.Second)
	defer cancel()
	cmd := exec.CommandContext(ctx, "strace", args...)
	cmd.Env = append(os.Environ(), env...)
	cmd.WaitDelay = 2 * time.Second
	stdout, e := cmd.Output()
	if ctx.Err() != nil {
		return "", "", false, fmt.Errorf("helper call %s did not finish within 60s (killed)", name)
	}
	if e != nil {
		if _, ok := e.(*exec.ExitError); !ok {
			return "", "", false, e
		}
	}
	result = "crash"
	for _, l := range strings.Split(string(stdout), "\n") {
		if strings.HasPrefix(l, "RESULT ") {
			result = strings.TrimPrefix(l, "RESULT ")
		}
	}
	b, e := os.ReadFile(out)
	if e != nil {
		return result, "", false, e
	}
	evs := parseStrace(string(b), path)
	for _, ev := range evs {
		if ev.Inj {
			hit = true
		}
	}
	trace, err = canonTrace(evs)
	return result, trace, hit, err
}

// modelLine: the model's answer projected like the implementation line; withTrace=false keeps
// only outcome and final contents.
func modelLine(ans string, withTrace bool) string {
	o, f, t, e := canonModel(ans)
	if e != nil {
		return ans
	}
	if strings.HasPrefix(o, "data:") {
		o = "ok"
	}
	if !withTrace {
		return o + " " + f
	}
	return o + " " + f + " | " + t
}

// ---------------------------------------------------------------- direct: every result value

type directCase struct {
	Call string // transform | write
	Spec string // res:/alias:/hex for transform, rd:.. for write
	File string // hex | absent
}

func (c directCase) key() string { return c.Call + " " + c.Spec + " " + short(c.File) }

func (rn *runner) directOne(c directCase) {
	path := filepath.Join(rn.f.Work, "direct-file")
	setFile(path, c.File)
	defer os.Remove(path)
	oldHex := c.File
	if oldHex == "absent" {
		oldHex = "-"
	}
	d0, i0, had := statKey(path)
	result, err := plainCall(rn.self, c.Call, path, c.Spec, []string{"GOMAXPROCS=1"})
	if err != nil {
		rn.res.Notes = append(rn.res.Notes, "direct case skipped: "+c.key()+": "+err.Error())
		return
	}
	d1, i1, have := statKey(path)
	final := getFile(path)
	impl := result + " " + final
	in := map[string]string{"kind": "direct", "call": c.Call, "spec": c.Spec, "file": c.File}
	rn.res.Case("direct "+c.key(), true)
	rn.res.Count("direct:" + c.Call)
	var want, modelReq string
	wantErr := false
	// the path must go on naming the very file that carries the lock: the library never unlinks
	// or replaces it (the model gives every client one inode for its path)
	if had && (!have || d0 != d1 || i0 != i1) {
		what := "replaced by another file"
		if !have {
			what = "removed"
		}
		rn.violate("impl-violation", "identity:path-no-longer-names-the-locked-file", "direct identity "+c.Call,
			fmt.Sprintf("after %s the file was %s: the lock lives on the inode, so callers already queued on the old file and newcomers on the path no longer exclude each other, and the previous contents are not in place (%s)", c.Call, what, c.key()),
			impl, "", in)
	}
	tFails := c.Call == "transform" && c.Spec == "FAIL"
	switch c.Call {
	case "transform":
		switch {
		case tFails:
			want = oldHex
			wantErr = true
		case strings.HasPrefix(c.Spec, "alias:"):
			want = aliasValue(c.Spec, oldHex)
		case strings.HasPrefix(c.Spec, "res:"):
			want = resValue(c.Spec, oldHex)
		default:
			want = c.Spec
		}
		modelReq = fmt.Sprintf("ops transform %s %s", want, c.File)
		if tFails {
			modelReq = fmt.Sprintf("ops transform FAIL %s", c.File)
		} else {
			rn.res.Count("direct-result-len:" + lenRel(len(common.UnHex(want)), len(common.UnHex(oldHex))))
		}
	case "write":
		want = readerValue(c.Spec)
		chunks, rerr := readerModel(c.Spec)
		wantErr = rerr
		modelReq = fmt.Sprintf("ops writer %s:%d %s", chunks, b2i(rerr), c.File)
	}
	switch {
	case result != "ok" && result != "err":
		rn.violate("impl-violation", c.Call+":crashed", "direct crash "+c.Call, "the call crashed the process: "+c.key(), impl, "", in)
	case result == "ok" && tFails:
		rn.violate("impl-violation", "transform:nil-return-although-t-failed", "direct t-failed-ok", "t returned an error but Transform returned nil: "+c.key(), impl, "", in)
	case result == "err" && tFails && final != want && !(c.File == "absent" && final == "absent"):
		rn.violate("impl-violation", "transform:t-failed-but-contents-changed", "direct t-failed-changed",
			fmt.Sprintf("t returned an error, so the previous contents must remain in place; the file held %s (%s) and is now %s", short(oldHex), c.File, short(final)), impl, "err "+want, in)
	case result == "ok" && wantErr:
		rn.violate("impl-violation", "write:reader-error-swallowed", "direct swallowed", "the content reader failed but Write returned nil: "+c.key(), impl, "", in)
	case result == "err" && !wantErr:
		rn.violate("impl-violation", c.Call+":error-without-fault", "direct err "+c.Call,
			"nothing failed, but the call returned an error: "+c.key(), impl, "", in)
	case result == "ok" && final != want && c.Call == "transform":
		rn.violate("impl-violation", "transform:nil-return-but-contents-not-new", "direct transform-lost "+strings.SplitN(c.Spec, ":", 3)[0],
			fmt.Sprintf("Transform returned nil but the file holds %s instead of t(old) = %s (old = %s, t = %s): the result of t was not published",
				short(final), short(want), short(oldHex), c.Spec), impl, "ok "+want, in)
	case result == "ok" && final != want:
		rn.violate("impl-violation", "write:nil-return-but-contents-not-new", "direct write-lost",
			fmt.Sprintf("Write returned nil but the file holds %s instead of the reader's bytes %s (%s)", short(final), short(want), c.Spec), impl, "ok "+want, in)
	case result == "err" && c.Call == "write" && final != want:
		// the reader failed after delivering its chunks: all of them had been written
		rn.violate("impl-violation", "write:failed-copy-left-unexpected-contents", "direct write-err",
			fmt.Sprintf("the reader delivered %s and then failed; the file holds %s", short(want), short(final)), impl, "err "+want, in)
	}
	if rn.m != nil {
		model := modelLine(rn.m.Ask1(modelReq), false)
		if model != impl {
			rn.violate("correspondence", "direct:"+c.Call, "direct-model "+c.key(),
				"outcome / final contents differ from the model's", impl, model, in)
		}
	}
}

func lenRel(n, o int) string {
	switch {
	case n == 0 && o > 0:
		return "to-empty"
	case n < o:
		return "shorter"
	case n == o:
		return "equal"
	}
	return "longer"
}

func b2i(b bool) int {
	if b {
		return 1
	}
	return 0
}

func directCases(rng *common.RNG, tier string) []directCase {
	var cs []directCase
	blob := func(n int) string {
		b := make([]byte, n)
		for i := range b {
			b[i] = "ab z\n\tQ"[rng.Intn(7)]
		}
		return common.Hex(b)
	}
	olds := []string{"absent", "-", "61626320646566", "20090a20", "7a7a7a", "20207a612020", blob(40), blob(700)}
	if tier != "quick" {
		for i := 0; i < 6; i++ {
			olds = append(olds, blob(1+rng.Intn(5000)))
		}
	}
	specs := append(append([]string{}, resSpecs...), aliasSpecs...)
	specs = append(specs, "-", "7a7a", "res:lit:4142434445464748494a4b4c4d4e4f50", "FAIL")
	for _, o := range olds {
		for _, sp := range specs {
			cs = append(cs, directCase{"transform", sp, o})
		}
	}
	for _, f := range []string{"absent", "-", "616263646566"} {
		for _, sp := range readerSpecs {
			cs = append(cs, directCase{"write", sp, f})
		}
	}
	return cs
}

func (rn *runner) directPhase() {
	for _, c := range directCases(rn.rng.Fork(), rn.f.Tier) {
		rn.directOne(c)
	}
}

// ---------------------------------------------------------------- the size-limit regime

type limitCase struct {
	Call     string // transform | write | createwrite | editwrite
	Old, New string // hex (New = the value; for transform what t returns)
	Helper   string // spec handed to the helper instead of New
	L        int
	InsideT  bool // transform only: the limit is set by t itself, not before the call
}

func (c limitCase) key() string {
	k := fmt.Sprintf("%s %s %s L=%d %s", c.Call, short(c.Old), short(c.New), c.L, c.Helper)
	if c.InsideT {
		k += " limit-set-inside-t"
	}
	return k
}

func (rn *runner) limitOne(c limitCase) {
	path := filepath.Join(rn.f.Work, "limit-file")
	setFile(path, c.Old)
	defer os.Remove(path)
	harg := c.New
	if c.Helper != "" {
		harg = c.Helper
	}
	env := []string{"GOMAXPROCS=1", fmt.Sprintf("LF_FSIZE=%d", c.L)}
	if c.InsideT {
		// the limit is lowered from inside t instead of before the call
		env = []string{"GOMAXPROCS=1"}
		harg = fmt.Sprintf("lim:%d:%s", c.L, harg)
	}
	result, tr, hit, err := rn.tracedCall(c.Call, path, harg, "", env)
	if err != nil {
		rn.res.Notes = append(rn.res.Notes, "size-limit case skipped: "+c.key()+": "+err.Error())
		return
	}
	if result == "nolimit" {
		rn.res.Notes = append(rn.res.Notes, "RLIMIT_FSIZE cannot be set here: size-limit cases skipped")
		return
	}
	final := getFile(path)
	impl := result + " " + final
	if rn.st {
		impl += " | " + tr
	}
	oldC := c.Old
	if oldC == "absent" {
		oldC = "-"
	}
	rn.res.Case("limit "+c.key(), hit || result == "err")
	rn.res.Count("limit:" + c.Call)
	rn.res.Count("limit-outcome:" + result)
	in := map[string]string{"kind": "limit", "call": c.Call, "old": c.Old, "new": c.New, "helper": c.Helper, "L": fmt.Sprint(c.L), "inside": fmt.Sprint(c.InsideT)}
	isPrefix := func(p, whole string) bool { return p == "-" || (whole != "-" && strings.HasPrefix(whole, p)) }
	direct := ""
	switch {
	case result != "ok" && result != "err":
		direct = "helper-crashed"
	case c.Call == "transform" && result == "err" && final != oldC:
		direct = "error-return-but-contents-changed"
	case result == "ok" && final != c.New && c.Call != "editwrite":
		direct = "nil-return-but-contents-not-new"
	case (c.Call == "write" || c.Call == "createwrite") && result == "err" && final != oldC && !isPrefix(final, c.New):
		direct = "failed-write-left-neither-old-nor-a-prefix-of-new"
	case hit && result == "ok":
		direct = "write-failure-swallowed"
	}
	if direct != "" {
		rn.violate("impl-violation", c.Call+"-size-limit:"+direct, "limit "+c.Call+" "+direct,
			fmt.Sprintf("%s under a size limit of %d bytes (RLIMIT_FSIZE: every write stores what fits below the limit and fails, the rollback's too): %s — old %s, new %s, file afterwards %s",
				c.Call, c.L, direct, short(oldC), short(c.New), short(final)), impl, "", in)
	}
	if rn.m != nil {
		model := modelLine(rn.m.Ask1(fmt.Sprintf("polcall %s %s %s limit:%d", c.Call, c.New, c.Old, c.L)), rn.st)
		if model != impl {
			rn.violate("correspondence", "size-limit-ops:"+c.Call, "limit-ops "+c.key(),
				"outcome / contents / system calls under the size limit differ from the model's limit_pol semantics", impl, model, in)
		}
	}
	if rn.res.Evaluations%31 == 1 {
		rn.res.Sample(map[string]any{"limit": c.key(), "impl": impl})
	}
}

func limitsFor(lo, ln int, tier string) []int {
	seen := map[int]bool{}
	var out []int
	add := func(v int) {
		if v >= 0 && !seen[v] {
			seen[v] = true
			out = append(out, v)
		}
	}
	mn, mx := lo, ln
	if mn > mx {
		mn, mx = mx, mn
	}
	for _, v := range []int{0, mn - 1, mn, (mn + mx) / 2, mx - 1, mx} {
		add(v)
	}
	if tier != "quick" {
		add(1)
		add(mn + 1)
		add(mx + 1)
		for v := 2; v < mx; v++ {
			add(v)
		}
	}
	return out
}

func (rn *runner) limitPhase() {
	type pr struct{ old, nw, helper string }
	mk := func(n int, c byte) string {
		if n == 0 {
			return "-"
		}
		b := make([]byte, n)
		for i := range b {
			b[i] = c + byte(i%7)
		}
		return common.Hex(b)
	}
	pairs := []pr{
		{mk(9, 'a'), mk(4, 'Q'), ""},   // shrinking
		{mk(3, 'a'), mk(8, 'Q'), ""},   // growing
		{mk(5, 'a'), mk(5, 'Q'), ""},   // same length
		{mk(0, 'a'), mk(4, 'Q'), ""},   // from empty
		{mk(4, 'a'), mk(0, 'Q'), ""},   // to empty
		{"absent", mk(3, 'Q'), ""},     // created
		{mk(40, 'a'), mk(20, 'Q'), ""}, // shrinking, longer
	}
	const old = "6162636465666768"
	for _, sp := range []string{"alias:prefix:3", "alias:append:787978", "res:nil", "res:sub:2:6", "alias:same"} {
		v := ""
		if strings.HasPrefix(sp, "alias:") {
			v = aliasValue(sp, old)
		} else {
			v = resValue(sp, old)
		}
		pairs = append(pairs, pr{old, v, sp})
	}
	r := rn.rng.Fork()
	n := 1
	if rn.f.Tier != "quick" {
		n = 8
	}
	for i := 0; i < n; i++ {
		pairs = append(pairs, pr{mk(r.Intn(30), 'a'), mk(r.Intn(30), 'Q'), ""})
	}
	for _, p := range pairs {
		lo, ln := 0, len(common.UnHex(p.nw))
		if p.old != "absent" {
			lo = len(common.UnHex(p.old))
		}
		for j, L := range limitsFor(lo, ln, rn.f.Tier) {
			rn.limitOne(limitCase{"transform", p.old, p.nw, p.helper, L, false})
			if (rn.f.Tier != "quick" || j%3 == 1) && p.old != "absent" {
				rn.limitOne(limitCase{"transform", p.old, p.nw, p.helper, L, true})
			}
		}
	}
	for _, w := range [][2]string{{"616263646566", "78797a7b7c"}, {"6162", "3031323334353637"}, {"absent", "787978"}} {
		ls := []int{2, len(common.UnHex(w[1])) - 1}
		if rn.f.Tier != "quick" {
			ls = append(ls, 0, len(common.UnHex(w[1])))
		}
		for _, L := range ls {
			for _, call := range []string{"write", "createwrite", "editwrite"} {
				rn.limitOne(limitCase{call, w[0], w[1], "", L, false})
			}
		}
	}
}

// ---------------------------------------------------------------- persistent injected failures

type persistCase struct {
	Call     string
	Old, New string
	Helper   string
	KW       int    // the KW-th and every later write (pwrite64 for transform, write otherwise) fails
	Trunc    string // "0" or "1+": every ftruncate fails as well
}

func (c persistCase) key() string {
	return fmt.Sprintf("%s %s %s w=%d+ t=%s %s", c.Call, short(c.Old), short(c.New), c.KW, c.Trunc, c.Helper)
}

func (rn *runner) persistOne(c persistCase) (hit bool) {
	path := filepath.Join(rn.f.Work, "persist-file")
	setFile(path, c.Old)
	defer os.Remove(path)
	harg := c.New
	if c.Helper != "" {
		harg = c.Helper
	}
	sys := "write"
	if c.Call == "transform" {
		sys = "pwrite64"
	}
	inject := fmt.Sprintf("%s:error=EIO:when=%d+", sys, c.KW)
	if c.Trunc != "0" {
		inject += ";ftruncate:error=EIO:when=" + c.Trunc
	}
	result, tr, hit, err := rn.tracedCall(c.Call, path, harg, inject, []string{"GOMAXPROCS=1"})
	if err != nil {
		rn.res.Notes = append(rn.res.Notes, "persistent-fault case skipped: "+c.key()+": "+err.Error())
		return false
	}
	final := getFile(path)
	impl := result + " " + final + " | " + tr
	rn.res.Case("persist "+c.key(), hit)
	rn.res.Count("persist:" + c.Call)
	if hit {
		rn.res.Count("persist-hit:" + c.Call)
	}
	rn.res.Count("persist-outcome:" + result)
	in := map[string]string{"kind": "persist", "call": c.Call, "old": c.Old, "new": c.New, "helper": c.Helper, "kw": fmt.Sprint(c.KW), "trunc": c.Trunc}
	ob, nb, fb := common.UnHex(c.Old), common.UnHex(c.New), []byte{}
	if final != "absent" {
		fb = common.UnHex(final)
	}
	direct, detail := "", ""
	switch {
	case result != "ok" && result != "err":
		direct = "helper-crashed"
	case result == "ok" && final != c.New && c.Call != "editwrite":
		direct = "nil-return-but-contents-not-new"
	case hit && result == "ok":
		direct = "injected-failure-swallowed"
	case c.Call == "transform" && result == "err":
		// what the code guarantees under ANY fault pattern (C07_transform_err_keeps_old_tail)
		if len(fb) < len(ob) {
			direct, detail = "old-tail-lost", fmt.Sprintf("the file shrank from %d to %d bytes although Transform reported an error", len(ob), len(fb))
		} else {
			for i := len(nb); i < len(ob); i++ {
				if fb[i] != ob[i] {
					direct, detail = "old-tail-lost", fmt.Sprintf("byte %d of the previous contents (beyond the new length %d) was changed although Transform reported an error", i, len(nb))
					break
				}
			}
		}
		// no write ever succeeded: nothing may have changed (C07_transform_no_write_atomic)
		if direct == "" && c.KW == 1 && final != c.Old {
			direct, detail = "contents-changed-although-no-write-succeeded", "every pwrite failed, yet the file differs from the previous contents"
		}
	}
	if direct != "" {
		rn.violate("impl-violation", c.Call+"-persistent-fault:"+direct, "persist "+c.Call+" "+direct,
			fmt.Sprintf("%s with the %d-th and every later %s failing (ftruncate: %s): %s %s — old %s, new %s, file afterwards %s",
				c.Call, c.KW, sys, c.Trunc, direct, detail, short(c.Old), short(c.New), short(final)), impl, "", in)
	}
	if rn.m != nil {
		req := fmt.Sprintf("polcall %s %s %s class:0:0:0:%d+:%s:0", c.Call, c.New, c.Old, c.KW, c.Trunc)
		model := modelLine(rn.m.Ask1(req), true)
		if model != impl {
			rn.violate("correspondence", "persistent-fault-ops:"+c.Call, "persist-ops "+c.key(),
				"outcome / contents / system calls under the persistent fault differ from the model's class_pol semantics", impl, model, in)
		}
	}
	if rn.res.Evaluations%19 == 1 {
		rn.res.Sample(map[string]any{"persist": c.key(), "impl": impl})
	}
	return hit
}

func (rn *runner) persistPhase() {
	for _, rel := range lengthRelations(rn.rng.Fork(), rn.f.Tier) {
		if rel[1] == "FAIL" {
			continue
		}
		for _, tr := range []string{"0", "1+"} {
			for k := 1; k <= 4; k++ {
				if !rn.persistOne(persistCase{"transform", rel[0], rel[1], rel[2], k, tr}) {
					break
				}
			}
		}
	}
	for _, w := range [][2]string{{"616263646566", "78797a"}, {"-", "7879"}} {
		for _, call := range []string{"write", "createwrite", "editwrite"} {
			for _, tr := range []string{"0", "1+"} {
				rn.persistOne(persistCase{call, w[0], w[1], "", 1, tr})
			}
		}
	}
}

package main

import (
	"bufio"
	"context"
	"fmt"
	"io"
	"os"
	"os/exec"
	"path/filepath"
	"strings"
	"sync"
	"time"

	"github.com/rogpeppe/go-internal/lockedfile"

	"verif/harness/common"
)

func (c *stressCtx) checkContent(b []byte, who, where string) {
	if _, ok := payloadID(b); !ok {
		s := b
		if len(s) > 40 {
			s = s[:40]
		}
		c.viol("content-not-a-complete-payload at=%s %s len=%d head=%q", where, who, len(b), s)
	}
}

// stressOp performs one randomly chosen locked operation; returns its bucket name.
func stressOp(c *stressCtx, op, p, npaths int, path, who string, r *common.RNG, id uint64) string {
	switch op {
	case 0, 9: // read-locked File
		var f *lockedfile.File
		var err error
		name := "OpenFile(O_RDONLY)"
		if op == 0 {
			f, err = lockedfile.OpenFile(path, os.O_RDONLY, 0)
		} else {
			name = "Open"
			f, err = lockedfile.Open(path)
		}
		if err != nil {
			return name + ":err"
		}
		b, _ := io.ReadAll(f)
		c.checkContent(b, who, name)
		c.readerCS(p, who+" "+name, r)
		f.Close()
		return name
	case 1, 2, 3, 4: // write-locked File
		var f *lockedfile.File
		var err error
		var name string
		canRead := true
		switch op {
		case 1:
			fl := os.O_WRONLY | os.O_CREATE
			name = "OpenFile(O_WRONLY|O_CREATE)"
			if r.Bool() {
				fl |= os.O_TRUNC
				name = "OpenFile(O_WRONLY|O_CREATE|O_TRUNC)"
			}
			canRead = false
			f, err = lockedfile.OpenFile(path, fl, 0o666)
		case 2:
			name = "OpenFile(O_RDWR|O_CREATE)"
			f, err = lockedfile.OpenFile(path, os.O_RDWR|os.O_CREATE, 0o666)
		case 3:
			name = "Create"
			f, err = lockedfile.Create(path)
		default:
			name = "Edit"
			f, err = lockedfile.Edit(path)
		}
		if err != nil {
			return name + ":err"
		}
		if canRead {
			b, _ := io.ReadAll(f)
			if op == 3 {
				if len(b) != 0 {
					c.viol("create-not-truncated %s len=%d", who, len(b))
				}
			} else {
				c.checkContent(b, who, name)
			}
		}
		c.holdWrite(f, p, who+" "+name, r, id, true)
		f.Close()
		return name
	case 5:
		wr := &witnessReader{c: c, p: p, who: who + " Write", r: r, data: payload(id, r.Intn(120))}
		if err := lockedfile.Write(path, wr, 0o666); err != nil {
			return "Write:err"
		}
		return "Write"
	case 6:
		err := lockedfile.Transform(path, func(old []byte) ([]byte, error) {
			c.checkContent(old, who, "Transform")
			c.writerCS(p, who+" Transform", r)
			if r.Intn(8) == 0 {
				return nil, fmt.Errorf("no change")
			}
			return payload(id, r.Intn(120)), nil
		})
		if err != nil {
			return "Transform:err"
		}
		return "Transform"
	case 7:
		unlock, err := lockedfile.MutexAt(path + ".mu").Lock()
		if err != nil {
			return "Mutex:err"
		}
		c.writerCS(npaths+p, who+" Mutex", r)
		unlock()
		return "Mutex"
	case 8:
		b, err := lockedfile.Read(path)
		if err != nil {
			return "Read:err"
		}
		c.checkContent(b, who, "Read")
		return "Read"
	default: // O_CREATE|O_EXCL
		if r.Bool() {
			// on the shared, existing path: must fail without touching the contents
			f, err := lockedfile.OpenFile(path, os.O_RDWR|os.O_CREATE|os.O_EXCL|os.O_TRUNC, 0o666)
			if err == nil {
				c.viol("excl-open-of-existing-file-succeeded %s", who)
				f.Close()
			}
			return "OpenFile(O_CREATE|O_EXCL):exists"
		}
		fresh := fmt.Sprintf("%s.x%d", path, id)
		f, err := lockedfile.OpenFile(fresh, os.O_RDWR|os.O_CREATE|os.O_EXCL, 0o666)
		if err != nil {
			c.viol("excl-open-of-fresh-file-failed %s", who)
			return "OpenFile(O_CREATE|O_EXCL):err"
		}
		f.Write(payload(id, 5))
		f.Close()
		os.Remove(fresh)
		return "OpenFile(O_CREATE|O_EXCL):fresh"
	}
}

// runStress is the parent side: sets up the directory, starts the workers, collects lines.
func runStress(self, work string, procs, gor, iters, npaths int, seed uint64) (viols []string, counts map[string]int, err error) {
	dir, err := os.MkdirTemp(work, "stress")
	if err != nil {
		return nil, nil, err
	}
	defer os.RemoveAll(dir)
	if _, err := openWitness(dir, true); err != nil {
		return nil, nil, err
	}
	for p := 0; p < npaths; p++ {
		if err := os.WriteFile(filepath.Join(dir, fmt.Sprintf("f%d", p)), payload(uint64(p)+1, 10), 0o666); err != nil {
			return nil, nil, err
		}
	}
	counts = map[string]int{}
	var mu sync.Mutex
	var wg sync.WaitGroup
	for pr := 0; pr < procs; pr++ {
		wg.Add(1)
		go func(pr int) {
			defer wg.Done()
			ctx, cancel := context.WithTimeout(context.Background(), workerDeadline)
			defer cancel()
			cmd := exec.CommandContext(ctx, self, "helper", "stress", dir, fmt.Sprint(pr), fmt.Sprint(gor), fmt.Sprint(iters), fmt.Sprint(seed), fmt.Sprint(npaths))
			cmd.Stderr = os.Stderr
			out, e := cmd.Output()
			mu.Lock()
			defer mu.Unlock()
			if e != nil {
				viols = append(viols, fmt.Sprintf("VIOL worker-crashed proc=%d %v", pr, e))
			}
			sc := bufio.NewScanner(strings.NewReader(string(out)))
			for sc.Scan() {
				l := sc.Text()
				switch {
				case strings.HasPrefix(l, "VIOL "):
					viols = append(viols, l)
				case strings.HasPrefix(l, "SETUP-FAILED"):
					err = fmt.Errorf("%s", l)
				case strings.HasPrefix(l, "COUNT "):
					for _, kv := range strings.Fields(l)[1:] {
						if i := strings.LastIndex(kv, "="); i > 0 {
							var n int
							fmt.Sscan(kv[i+1:], &n)
							counts[kv[:i]] += n
						}
					}
				}
			}
		}(pr)
	}
	wg.Wait()
	// quiescent state: nobody inside, every file a complete payload
	if w, e := openWitness(dir, false); e == nil {
		for i := 0; i < 4*npaths; i++ {
			if *w.slot(i) != 0 {
				viols = append(viols, fmt.Sprintf("VIOL witness-counter-nonzero-at-rest slot=%d value=%d", i, *w.slot(i)))
			}
		}
	}
	for p := 0; p < npaths; p++ {
		b, _ := os.ReadFile(filepath.Join(dir, fmt.Sprintf("f%d", p)))
		if _, ok := payloadID(b); !ok {
			viols = append(viols, fmt.Sprintf("VIOL content-not-a-complete-payload at=rest path=f%d len=%d", p, len(b)))
		}
	}
	return viols, counts, err
}

// startHelper starts `helper args...` and returns the command and a line reader of its stdout.
func startHelper(self string, extra []*os.File, args ...string) (*exec.Cmd, *bufio.Reader, io.WriteCloser, error) {
	cmd := exec.Command(self, append([]string{"helper"}, args...)...)
	cmd.ExtraFiles = extra
	cmd.Stderr = os.Stderr
	in, _ := cmd.StdinPipe()
	out, _ := cmd.StdoutPipe()
	if err := cmd.Start(); err != nil {
		return nil, nil, nil, err
	}
	return cmd, bufio.NewReader(out), in, nil
}

// waitLine waits for one stdout line of a helper, at most d.
func waitLine(rd *bufio.Reader, d time.Duration) (string, bool) {
	ch := make(chan string, 1)
	go func() {
		l, err := rd.ReadString('\n')
		if err != nil {
			ch <- "EOF " + l
			return
		}
		ch <- strings.TrimSpace(l)
	}()
	select {
	case l := <-ch:
		return l, true
	case <-time.After(d):
		return "", false
	}
}

package main

// Scripted multi-process scenarios (direct oracles, no model):
//   inherit   – Close releases the lock although a child process still holds the inherited
//               descriptor (flock belongs to the open file description: Close must unlock);
//   quietread – a reader holding its lock never sees the file truncated or changed while a
//               Write / Create is merely waiting for the lock;
//   handover  – a writer blocked on a held lock finishes only after the holder called Close.
// None of them can raise an alarm on correct code: the only waits that matter are for events
// that correct code always produces, with a 20 s cap.

import (
	"bytes"
	"fmt"
	"os"
	"path/filepath"
	"strconv"
	"strings"
	"time"

	"github.com/rogpeppe/go-internal/lockedfile"
	"golang.org/x/sys/unix"
)

const capWait = 10 * time.Second

type scenarioResult struct {
	name   string
	viol   string // "" = fine
	detail string
	setup  string // set when the scenario could not be set up (recorded, not a violation)
}

func scenarioInherit(self, work string, kind string) scenarioResult {
	res := scenarioResult{name: "inherit-" + kind}
	path := filepath.Join(work, "inherit-"+kind)
	os.WriteFile(path, payload(7, 9), 0o666)
	var f *lockedfile.File
	var err error
	if kind == "write" {
		f, err = lockedfile.Edit(path)
	} else {
		f, err = lockedfile.Open(path)
	}
	if err != nil {
		res.setup = err.Error()
		return res
	}
	cmd, rd, in, err := startHelper(self, []*os.File{f.File}, "holdfd")
	if err != nil {
		f.Close()
		res.setup = err.Error()
		return res
	}
	defer func() { in.Close(); cmd.Wait() }()
	if l, ok := waitLine(rd, capWait); !ok || l != "HOLDING" {
		f.Close()
		res.setup = "child did not start: " + l
		return res
	}
	f.Close()
	// the child still has the open file description; a write locker must get through now
	c2, rd2, in2, err := startHelper(self, nil, "lockwait", path, "edit", "-")
	if err != nil {
		res.setup = err.Error()
		return res
	}
	defer func() { in2.Close(); c2.Process.Kill(); c2.Wait() }()
	l, ok := waitLine(rd2, capWait)
	if !ok || !strings.HasPrefix(l, "DONE ok") {
		res.viol = "lock-not-released-by-Close"
		res.detail = fmt.Sprintf("after Close of a %s-locked file whose descriptor a child process inherited, a new write lock was not granted within %v (helper said %q)", kind, capWait, l)
	}
	return res
}

func scenarioQuietRead(self, work string, waiter string) scenarioResult {
	res := scenarioResult{name: "quietread-" + waiter}
	path := filepath.Join(work, "quiet-"+waiter)
	want := payload(11, 300)
	os.WriteFile(path, want, 0o666)
	f, err := lockedfile.Open(path)
	if err != nil {
		res.setup = err.Error()
		return res
	}
	newData := payload(12, 20)
	c2, rd2, in2, err := startHelper(self, nil, "lockwait", path, waiter, hexs(newData))
	if err != nil {
		f.Close()
		res.setup = err.Error()
		return res
	}
	defer func() { in2.Close(); c2.Process.Kill(); c2.Wait() }()
	// watch the file through the locked descriptor while the other process is trying
	deadline := time.Now().Add(250 * time.Millisecond)
	buf := make([]byte, len(want)+64)
	checks := 0
	for time.Now().Before(deadline) && res.viol == "" {
		n, _ := f.ReadAt(buf, 0)
		fi, _ := f.Stat()
		checks++
		if !bytes.Equal(buf[:n], want) || (fi != nil && fi.Size() != int64(len(want))) {
			res.viol = "file-changed-under-read-lock"
			res.detail = fmt.Sprintf("while this process held a read lock and a %s call of another process was waiting, the file changed: %d bytes, head %q (check %d)", waiter, n, head(buf[:n]), checks)
		}
		time.Sleep(2 * time.Millisecond)
	}
	tClose := monoNow()
	f.Close()
	l, ok := waitLine(rd2, capWait)
	if !ok || !strings.HasPrefix(l, "DONE ok") {
		if res.viol == "" {
			res.viol = "waiter-never-finished"
			res.detail = fmt.Sprintf("%s did not finish within %v after the reader closed (%q)", waiter, capWait, l)
		}
		return res
	}
	// DONE ok <t0> <t1>: the waiter can only have finished after we began to close
	fs := strings.Fields(l)
	if len(fs) == 4 && res.viol == "" {
		t0, _ := strconv.ParseInt(fs[2], 10, 64)
		t1, _ := strconv.ParseInt(fs[3], 10, 64)
		if t1 < tClose && t0 < tClose-int64(100*time.Millisecond) {
			// it started well before our Close and finished before it: it did not wait
			res.viol = "writer-finished-while-read-lock-held"
			res.detail = fmt.Sprintf("%s started at %d and finished at %d, before the reader began Close at %d", waiter, t0, t1, tClose)
		}
	}
	return res
}

func scenarioHandover(self, work string, holder string) scenarioResult {
	res := scenarioResult{name: "handover-" + holder}
	path := filepath.Join(work, "handover-"+holder)
	os.WriteFile(path, payload(21, 30), 0o666)
	var release func()
	switch holder {
	case "mutex":
		unlock, err := lockedfile.MutexAt(path).Lock()
		if err != nil {
			res.setup = err.Error()
			return res
		}
		release = unlock
	default:
		f, err := lockedfile.Edit(path)
		if err != nil {
			res.setup = err.Error()
			return res
		}
		release = func() { f.Close() }
	}
	kind := "read"
	if holder == "mutex" {
		kind = "mutex"
	}
	c2, rd2, in2, err := startHelper(self, nil, "lockwait", path, kind, "-")
	if err != nil {
		release()
		res.setup = err.Error()
		return res
	}
	defer func() { in2.Close(); c2.Process.Kill(); c2.Wait() }()
	time.Sleep(120 * time.Millisecond)
	tClose := monoNow()
	release()
	l, ok := waitLine(rd2, capWait)
	if !ok || !strings.HasPrefix(l, "DONE ") || strings.HasPrefix(l, "DONE err") {
		res.viol = "waiter-never-finished"
		res.detail = fmt.Sprintf("%s waiter did not finish within %v after release (%q)", kind, capWait, l)
		return res
	}
	fs := strings.Fields(l)
	if len(fs) == 4 {
		t0, _ := strconv.ParseInt(fs[2], 10, 64)
		t1, _ := strconv.ParseInt(fs[3], 10, 64)
		if t1 < tClose && t0 < tClose-int64(60*time.Millisecond) {
			res.viol = "acquired-while-write-lock-held"
			res.detail = fmt.Sprintf("a %s call started at %d and returned at %d while the %s lock was held until %d", kind, t0, t1, holder, tClose)
		}
	}
	return res
}

// scenarioHandover3: three parties.  This process holds the lock (Mutex or Edit); B (another
// process) is already queued on it; this process releases, B acquires and keeps it; then a
// newcomer C asks for the lock on the same PATH.  C must not get it before B has released.
// (The lock lives on the inode: a release that unlinks or replaces the file hands B the orphaned
// inode and lets C lock a fresh one — two holders of one path.)  Correct code can never let C
// finish early, so the only waits that matter are capped waits for events that must happen.
func scenarioHandover3(self, work string, kind string) scenarioResult {
	res := scenarioResult{name: "handover3-" + kind}
	path := filepath.Join(work, "handover3-"+kind)
	os.Remove(path)
	os.WriteFile(path, nil, 0o666)
	var release func()
	if kind == "mutex" {
		unlock, err := lockedfile.MutexAt(path).Lock()
		if err != nil {
			res.setup = err.Error()
			return res
		}
		release = unlock
	} else {
		f, err := lockedfile.Edit(path)
		if err != nil {
			res.setup = err.Error()
			return res
		}
		release = func() { f.Close() }
	}
	bc, brd, bin, err := startHelper(self, nil, "hold", path, kind)
	if err != nil {
		release()
		res.setup = err.Error()
		return res
	}
	defer func() { bin.Close(); bc.Process.Kill(); bc.Wait() }()
	time.Sleep(150 * time.Millisecond) // B has opened the file and is blocked in flock by now
	release()
	l, ok := waitLine(brd, capWait)
	if !ok || !strings.HasPrefix(l, "LOCKED") {
		res.viol = "waiter-never-acquired"
		res.detail = fmt.Sprintf("the queued %s waiter did not acquire within %v after the release (%q)", kind, capWait, l)
		return res
	}
	// B holds it now.  A newcomer on the same path:
	cc, crd, cin, err := startHelper(self, nil, "lockwait", path, kind, "-")
	if err != nil {
		res.setup = err.Error()
		return res
	}
	defer func() { cin.Close(); cc.Process.Kill(); cc.Wait() }()
	// give C time to run into the lock (or, wrongly, through it), then let B release; C's own
	// timestamps say whether it returned before B was told to release
	time.Sleep(300 * time.Millisecond)
	tRel := monoNow()
	bin.Close()
	l, ok = waitLine(crd, capWait)
	if !ok || !strings.HasPrefix(l, "DONE ok") {
		res.viol = "newcomer-never-finished"
		res.detail = fmt.Sprintf("the newcomer did not acquire within %v after the second holder released at %d (%q)", capWait, tRel, l)
		return res
	}
	if fs := strings.Fields(l); len(fs) == 4 {
		t0, _ := strconv.ParseInt(fs[2], 10, 64)
		t1, _ := strconv.ParseInt(fs[3], 10, 64)
		if t1 < tRel && t0 < tRel-int64(60*time.Millisecond) {
			res.viol = "two-holders-of-one-path"
			res.detail = fmt.Sprintf("a queued %s waiter acquired the lock after a release and held it until %d; a newcomer's %s call on the same path started at %d and returned at %d, while it was held: two holders of one path", kind, tRel, kind, t0, t1)
		}
	}
	return res
}

func head(b []byte) []byte {
	if len(b) > 40 {
		return b[:40]
	}
	return b
}

// scenarioExclHold: this process creates a fresh file with O_WRONLY|O_CREATE|O_EXCL (a
// write-locking call like any other) and keeps it open with a half-written marker in it;
// a Read / Edit / Mutex.Lock / OpenFile(O_RDONLY) of another process on that path must not
// return before this process has begun to Close, and a Read must then see the complete
// final contents.
func scenarioExclHold(self, work string, waiter string, extra int) scenarioResult {
	res := scenarioResult{name: "exclhold-" + waiter}
	path := filepath.Join(work, fmt.Sprintf("exclhold-%s-%d", waiter, extra))
	os.Remove(path)
	flags := os.O_WRONLY | os.O_CREATE | os.O_EXCL | extra
	f, err := lockedfile.OpenFile(path, flags, 0o666)
	if err != nil {
		res.setup = err.Error()
		return res
	}
	f.Write(dirty)
	var history []string
	note := func(format string, a ...any) { history = append(history, fmt.Sprintf(format, a...)) }
	note("%d A: OpenFile(%q, %d) returned, wrote %d marker bytes, holding", monoNow(), filepath.Base(path), flags, len(dirty))
	c2, rd2, in2, err := startHelper(self, nil, "lockwait", path, waiter, "-")
	if err != nil {
		f.Close()
		res.setup = err.Error()
		return res
	}
	defer func() { in2.Close(); c2.Process.Kill(); c2.Wait() }()
	// give the other process ample time to run into the lock
	lineCh := make(chan string, 1) // one reader for the helper's single line
	go func() {
		s, err := rd2.ReadString('\n')
		if err != nil {
			s = "EOF " + s
		}
		lineCh <- strings.TrimSpace(s)
	}()
	early, gotEarly := "", false
	select {
	case early = <-lineCh:
		gotEarly = true
	case <-time.After(300 * time.Millisecond):
	}
	final := payload(31, 40)
	if extra&os.O_APPEND != 0 {
		// WriteAt is refused on an O_APPEND file: the final contents are marker + payload
		f.Write(final)
		final = append(append([]byte{}, dirty...), final...)
	} else {
		f.WriteAt(final, 0)
		f.Truncate(int64(len(final)))
	}
	tClose := monoNow()
	note("%d A: final contents written, calling Close", tClose)
	f.Close()
	l := early
	if !gotEarly {
		ok := true
		select {
		case l = <-lineCh:
		case <-time.After(capWait):
			ok = false
		}
		if !ok {
			res.viol = "waiter-never-finished"
			res.detail = fmt.Sprintf("%s did not finish within %v after the creator closed", waiter, capWait)
			return res
		}
	}
	note("B: %s %s", waiter, l)
	fs := strings.Fields(l)
	if len(fs) != 4 || fs[0] != "DONE" {
		res.setup = "helper said " + l
		return res
	}
	t1, _ := strconv.ParseInt(fs[3], 10, 64)
	switch {
	case fs[1] == "err":
		res.viol = "waiter-failed"
		res.detail = fmt.Sprintf("%s on the path of a held O_CREATE|O_EXCL file failed", waiter)
	case gotEarly || t1 < tClose:
		res.viol = "acquired-while-excl-created-file-held"
		res.detail = fmt.Sprintf("a %s call of another process returned at %d while the file created with OpenFile(O_WRONLY|O_CREATE|O_EXCL|%d) was still held (Close began at %d): %s",
			waiter, t1, extra, tClose, strings.Join(history, " ; "))
	case waiter == "read" && fs[1] != "data:"+hexs(final):
		res.viol = "read-saw-partial-contents"
		res.detail = "Read after the creator's Close did not return the final contents: " + fs[1]
	}
	return res
}

// scenarioFifoHold: the same for a non-regular file.  OpenFile(O_RDWR|O_TRUNC) on a FIFO: the
// Truncate fails and is ignored for non-regular files, the File is returned as write-locked —
// and must be: another process's OpenFile(O_RDWR) / Edit on the FIFO has to wait for our Close.
func scenarioFifoHold(self, work string, waiter string) scenarioResult {
	res := scenarioResult{name: "fifohold-" + waiter}
	path := filepath.Join(work, "fifohold-"+waiter)
	os.Remove(path)
	if err := unix.Mkfifo(path, 0o666); err != nil {
		res.setup = "mkfifo: " + err.Error()
		return res
	}
	defer os.Remove(path)
	flags := os.O_RDWR | os.O_TRUNC
	f, err := lockedfile.OpenFile(path, flags, 0)
	if err != nil {
		res.setup = "OpenFile on a FIFO failed: " + err.Error()
		return res
	}
	tHeld := monoNow()
	kind, arg := waiter, "-"
	if waiter == "openfile" {
		arg = strconv.Itoa(os.O_RDWR)
	}
	c2, rd2, in2, err := startHelper(self, nil, "lockwait", path, kind, arg)
	if err != nil {
		f.Close()
		res.setup = err.Error()
		return res
	}
	defer func() { in2.Close(); c2.Process.Kill(); c2.Wait() }()
	lineCh := make(chan string, 1)
	go func() {
		s, err := rd2.ReadString('\n')
		if err != nil {
			s = "EOF " + s
		}
		lineCh <- strings.TrimSpace(s)
	}()
	l, gotEarly := "", false
	select {
	case l = <-lineCh:
		gotEarly = true
	case <-time.After(300 * time.Millisecond):
	}
	tClose := monoNow()
	f.Close()
	if !gotEarly {
		select {
		case l = <-lineCh:
		case <-time.After(capWait):
			res.viol = "waiter-never-finished"
			res.detail = fmt.Sprintf("%s on the FIFO did not finish within %v after the holder closed", waiter, capWait)
			return res
		}
	}
	fs := strings.Fields(l)
	if len(fs) != 4 || fs[0] != "DONE" || fs[1] == "err" {
		res.setup = "helper said " + l
		return res
	}
	t1, _ := strconv.ParseInt(fs[3], 10, 64)
	if gotEarly || t1 < tClose {
		res.viol = "acquired-while-nonregular-file-held"
		res.detail = fmt.Sprintf("%d A: OpenFile(FIFO, O_RDWR|O_TRUNC=%d) returned a write-locked File ; B: %s returned at %d ; %d A: Close begins — B did not wait for A",
			tHeld, flags, waiter, t1, tClose)
	}
	return res
}

// scenarioMutexPerm: an unprivileged caller and a lock file it may read but not write.
// Mutex.Lock must either fail or exclude: two callers must never hold the Mutex together.
func scenarioMutexPerm(self string) scenarioResult {
	res := scenarioResult{name: "mutexperm"}
	if os.Geteuid() != 0 {
		res.setup = "not running as root: cannot switch to an unprivileged uid"
		return res
	}
	dir, err := os.MkdirTemp("/tmp", "verif-lf-perm")
	if err != nil {
		res.setup = err.Error()
		return res
	}
	defer os.RemoveAll(dir)
	os.Chmod(dir, 0o755)
	path := filepath.Join(dir, "lockfile")
	os.WriteFile(path, nil, 0o444)
	os.Chmod(path, 0o444)
	const uid = "65534"
	ca, ra, ina, err := startHelper(self, nil, "mutexperm", path, uid)
	if err != nil {
		res.setup = err.Error()
		return res
	}
	defer func() { ina.Close(); ca.Wait() }()
	la, ok := waitLine(ra, capWait)
	switch {
	case !ok:
		res.setup = "first caller did not answer"
		return res
	case strings.HasPrefix(la, "NOPRIV"), strings.HasPrefix(la, "EOF"):
		res.setup = "helper could not drop privileges: " + la
		return res
	case strings.HasPrefix(la, "ERR"):
		return res // refused: fine
	}
	// A holds the Mutex.  B must not get it while A holds.
	cb, rb, inb, err := startHelper(self, nil, "mutexperm", path, uid)
	if err != nil {
		res.setup = err.Error()
		return res
	}
	defer func() { inb.Close(); cb.Process.Kill(); cb.Wait() }()
	lb, got := waitLine(rb, 400*time.Millisecond)
	if got && strings.HasPrefix(lb, "LOCKED") {
		res.viol = "two-holders-of-one-mutex"
		res.detail = fmt.Sprintf("lock file mode 0444, callers uid %s: A: Mutex.Lock %s (still holding) ; B: Mutex.Lock %s — both hold the Mutex", uid, la, lb)
	}
	return res
}

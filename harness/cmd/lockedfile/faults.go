package main

// C07 (d): single faults injected into Transform on the unmodified binary with
// `strace -P file -e inject=<syscall>:error=EIO:when=k`, for every k and every old/new length
// relation.  Direct oracle: an error return leaves the old contents, a nil return the new
// ones.  Correspondence: outcome, final contents and the whole operation trace equal those of
// the model's faulty semantics with the same operation failing.  (Short writes cannot be
// produced by strace: they exist in the model only — proved, not observed.)

import (
	"fmt"
	"os"
	"path/filepath"
	"strings"

	"verif/harness/common"
)

type faultCase struct {
	Call     string // transform (default) | write | createwrite | editwrite
	Old, New string // hex; New = t's result (or FAIL) for transform, the data otherwise
	Sys      string // pwrite64 ftruncate read write flock
	K        int    // 1-based occurrence
	Helper   string // alias:... transform function handed to the helper instead of New
}

func (c faultCase) helperArg() string {
	if c.Helper != "" {
		return c.Helper
	}
	return c.New
}

func (c faultCase) call() string {
	if c.Call == "" {
		return "transform"
	}
	return c.Call
}

func short(h string) string {
	if len(h) > 24 {
		return fmt.Sprintf("%s..(%d bytes)", h[:16], len(h)/2)
	}
	return h
}

func (c faultCase) key() string {
	return fmt.Sprintf("%s %s %s %d", short(c.Old), short(c.New), c.Sys, c.K)
}

func lengthRelations(rng *common.RNG, tier string) [][3]string {
	var out [][3]string
	for _, r := range lengthRelations2(rng, tier) {
		out = append(out, [3]string{r[0], r[1], ""})
	}
	// results that alias the argument: itself, a prefix, an in-place append
	const old = "6162636465666768"
	for _, sp := range []string{"alias:same", "alias:prefix:3", "alias:append:787978"} {
		out = append(out, [3]string{old, aliasValue(sp, old), sp})
	}
	return out
}

func lengthRelations2(rng *common.RNG, tier string) [][2]string {
	mk := func(n int, c byte) string {
		if n == 0 {
			return "-"
		}
		b := make([]byte, n)
		for i := range b {
			b[i] = c + byte(i%7)
		}
		return common.Hex(b)
	}
	rel := [][2]string{
		{mk(6, 'a'), mk(2, 'Q')},     // shrinking
		{mk(3, 'a'), mk(8, 'Q')},     // growing
		{mk(4, 'a'), mk(4, 'Q')},     // same length
		{mk(0, 'a'), mk(3, 'Q')},     // from empty
		{mk(3, 'a'), mk(0, 'Q')},     // to empty
		{mk(0, 'a'), mk(0, 'Q')},     // empty to empty
		{mk(5, 'a'), "FAIL"},         // t fails
		{mk(700, 'a'), mk(900, 'Q')}, // more than one read buffer
	}
	n := 2
	if tier != "quick" {
		n = 12
	}
	for i := 0; i < n; i++ {
		rel = append(rel, [2]string{mk(rng.Intn(40), 'a'), mk(rng.Intn(40), 'Q')})
	}
	return rel
}

type faultOutcome struct {
	impl, model string
	direct      string // "" or the violated rule
	hit         bool   // the injection hit a call
	raw         string
}

// modelIndex: position (0-based, among visible ops) of the k-th op of class sys in the
// model's fault-free trace for transform old->new; -1 if there is none.
func modelIndex(m *lfModel, call, old, nw, sys string, k int, nreads int) int {
	ans := m.Ask1(fmt.Sprintf("ops %s %s %s", call, nw, old))
	f := strings.Fields(ans)
	if len(f) < 3 {
		return -1
	}
	want := map[string]string{"pwrite64": "pwrite", "ftruncate": "ftruncate", "read": "readall", "write": "write"}[sys]
	seen := 0
	for i, t := range f[3:] {
		name := t
		if j := strings.IndexAny(t, ":="); j >= 0 {
			name = t[:j]
		}
		if name != want {
			continue
		}
		if sys == "read" {
			// one ReadAll = nreads read calls
			if k <= nreads {
				return i
			}
			return -1
		}
		seen++
		if seen == k {
			return i
		}
	}
	return -1
}

func runFaultCase(self, work string, m *lfModel, c faultCase) (faultOutcome, error) {
	var fo faultOutcome
	path := filepath.Join(work, "fault-file")
	// fault-free run first: how many calls of each kind there are
	setFile(path, c.Old)
	_, base, _, err := straceCall(self, work, c.call(), path, c.helperArg(), "", []string{"GOMAXPROCS=1"})
	if err != nil {
		return fo, err
	}
	nreads := 0
	for _, e := range base {
		if e.Name == "read" {
			nreads++
		}
	}
	setFile(path, c.Old)
	errName := "EIO"
	if c.Sys == "flock" {
		errName = "EINTR"
	}
	result, evs, raw, err := straceCall(self, work, c.call(), path, c.helperArg(),
		fmt.Sprintf("%s:error=%s:when=%d", c.Sys, errName, c.K), []string{"GOMAXPROCS=1"})
	if err != nil {
		return fo, err
	}
	fo.raw = raw
	for _, e := range evs {
		if e.Inj {
			fo.hit = true
		}
	}
	final := getFile(path)
	tr, err := canonTrace(evs)
	if err != nil {
		return fo, err
	}
	fo.impl = result + " " + final + " | " + tr
	// direct oracle
	isPrefix := func(p, whole string) bool {
		if p == "-" {
			return true
		}
		return whole != "-" && strings.HasPrefix(whole, p)
	}
	switch {
	case result != "ok" && result != "err":
		fo.direct = "helper-crashed"
	case c.call() == "transform" && result == "err" && final != c.Old:
		fo.direct = "error-return-but-contents-changed"
	case c.call() == "transform" && result == "ok" && c.New != "FAIL" && final != c.New:
		fo.direct = "nil-return-but-contents-not-new"
	case c.call() == "transform" && result == "ok" && c.New == "FAIL":
		fo.direct = "nil-return-although-t-failed"
	case (c.call() == "write" || c.call() == "createwrite") && result == "ok" && final != c.New:
		fo.direct = "nil-return-but-contents-not-new"
	case (c.call() == "write" || c.call() == "createwrite") && result == "err" && final != c.Old && !isPrefix(final, c.New):
		// no rollback is promised for Write, but never a mixture of old and new
		fo.direct = "failed-write-left-neither-old-nor-a-prefix-of-new"
	case c.Sys != "flock" && fo.hit && result == "ok":
		fo.direct = "injected-failure-swallowed"
	case c.Sys == "flock" && fo.hit && c.New != "FAIL" && result != "ok":
		fo.direct = "EINTR-not-retried"
	}
	if m != nil && c.Sys != "flock" {
		idx := modelIndex(m, c.call(), c.Old, c.New, c.Sys, c.K, nreads)
		var ans string
		if idx < 0 {
			ans = m.Ask1(fmt.Sprintf("ops %s %s %s", c.call(), c.New, c.Old))
		} else {
			ans = m.Ask1(fmt.Sprintf("faultcall %s %s %s %d fail 0", c.call(), c.New, c.Old, idx))
		}
		o, f, t, e := canonModel(ans)
		if e != nil {
			fo.model = ans
		} else {
			fo.model = o + " " + f + " | " + t
		}
	}
	return fo, nil
}

// runFsizeCase: a genuine partial write.  The helper runs with RLIMIT_FSIZE = limit and
// SIGXFSZ ignored, so the write that crosses the limit stores a prefix and then fails with
// EFBIG.  Transform (growing): limit = len(old)+k hits the tail write; Write: limit = k.
func runFsizeCase(self, work string, m *lfModel, call, old, nw string, k int, helper string) (faultOutcome, error) {
	var fo faultOutcome
	path := filepath.Join(work, "fsize-file")
	setFile(path, old)
	defer os.Remove(path)
	limit := k
	sys := "write"
	if call == "transform" {
		limit = len(common.UnHex(old)) + k
		sys = "pwrite64"
	}
	harg := nw
	if helper != "" {
		harg = helper
	}
	result, evs, raw, err := straceCall(self, work, call, path, harg, "", []string{"GOMAXPROCS=1", fmt.Sprintf("LF_FSIZE=%d", limit)})
	if err != nil {
		return fo, err
	}
	if result == "nolimit" {
		return fo, fmt.Errorf("RLIMIT_FSIZE cannot be set here")
	}
	fo.raw = raw
	for _, e := range evs {
		if e.Err && (e.Name == "pwrite64" || e.Name == "write") {
			fo.hit = true
		}
	}
	final := getFile(path)
	tr, err := canonTrace(evs)
	if err != nil {
		return fo, err
	}
	fo.impl = result + " " + final + " | " + tr
	isPrefix := func(p, whole string) bool { return p == "-" || (whole != "-" && strings.HasPrefix(whole, p)) }
	switch {
	case result != "ok" && result != "err":
		fo.direct = "helper-crashed"
	case call == "transform" && result == "err" && final != old:
		fo.direct = "error-return-but-contents-changed"
	case result == "ok" && final != nw:
		fo.direct = "nil-return-but-contents-not-new"
	case call != "transform" && result == "err" && final != old && !isPrefix(final, nw):
		fo.direct = "failed-write-left-neither-old-nor-a-prefix-of-new"
	case fo.hit && result == "ok":
		fo.direct = "write-failure-swallowed"
	}
	if m != nil {
		idx := modelIndex(m, call, old, nw, sys, 1, 0)
		var ans string
		if idx < 0 || !fo.hit {
			ans = m.Ask1(fmt.Sprintf("ops %s %s %s", call, nw, old))
		} else {
			ans = m.Ask1(fmt.Sprintf("faultcall %s %s %s %d short %d", call, nw, old, idx, k))
		}
		if o, f, t, e := canonModel(ans); e != nil {
			fo.model = ans
		} else {
			fo.model = o + " " + f + " | " + t
		}
	}
	return fo, nil
}

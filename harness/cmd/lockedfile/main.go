package main

import (
	"fmt"
	"os"
)

func stressWorker(a []string) {}
func histWorker(a []string)   {}

func main() {
	if len(os.Args) > 1 && os.Args[1] == "helper" {
		helperMain(os.Args[2:])
		return
	}
	if len(os.Args) > 1 && os.Args[1] == "probe" {
		self, _ := os.Executable()
		r, evs, raw, err := straceCall(self, "/tmp/lf-scratch", os.Args[2], os.Args[3], os.Args[4], os.Args[5], nil)
		fmt.Println(r, err)
		for _, e := range evs {
			fmt.Println("  ", e, e.Inj)
		}
		if os.Getenv("RAW") != "" {
			fmt.Println(raw)
		}
	}
}

// Command lockedfile is the correspondence + oracle runner for C06 (exclusion) and C07
// (Read/Write/Transform linearise; Transform rolls back).  VERIF_PROP selects the property.
//
//	(a) protocol: one API call per helper invocation under strace, compared with the model
//	    program's operation list, and checked against the protocol rules directly;
//	(b) C06: overlap-witness stress over processes x goroutines, scripted scenarios
//	    (inherited descriptor, reader never sees a truncation, hand-over);
//	(c) C07: timestamped multi-process histories checked by a register-linearisability
//	    checker; Transform-increment stress;
//	(d) C07: every single injectable fault of Transform (strace inject), direct oracle and
//	    comparison with the model's faulty semantics.
//
// The helper is this same binary ("helper" as first argument), i.e. the checked tree's code.
package main

import (
	"fmt"
	"os"
	"path/filepath"
	"strings"
	"sync"
	"time"

	"verif/harness/common"
)

type runner struct {
	f    *common.Flags
	res  *common.Result
	m    *lfModel
	self string
	prop string
	rng  *common.RNG
	st   bool // strace usable
}

func (rn *runner) violate(kind, oracle, key, detail, impl, model string, input map[string]string) {
	rn.res.Violate(common.Violation{Kind: kind, Oracle: oracle, Input: input, Model: model, Impl: impl, Detail: detail, Key: key})
}

func main() {
	if len(os.Args) > 1 && os.Args[1] == "helper" {
		helperMain(os.Args[2:])
		return
	}
	f := common.ParseFlags()
	prop := os.Getenv("VERIF_PROP")
	if prop == "" {
		prop = "C06"
	}
	res := common.NewResult(prop, f.Tier, f.Seed)
	self, err := os.Executable()
	if err != nil {
		fmt.Fprintln(os.Stderr, err)
		os.Exit(2)
	}
	if f.Work == "" {
		f.Work, _ = os.MkdirTemp("", "lockedfile-run")
		defer os.RemoveAll(f.Work)
	}
	rn := &runner{f: f, res: res, self: self, prop: prop, rng: common.NewRNG(f.Seed)}
	if f.Model != "" {
		if m, err := startLfModel(f.Model); err == nil {
			rn.m = m
			defer m.Close()
		} else {
			res.Notes = append(res.Notes, "model binary unavailable: "+err.Error())
		}
	}
	ok, why := haveStrace(f.Work)
	rn.st = ok
	if !ok {
		res.Notes = append(res.Notes, "strace unavailable ("+why+"): protocol correspondence and fault injection skipped; stress, scenario and history oracles still run")
	}
	res.Rule = "non-trivial = a call that reached the lock (flock observed) / a stress or history round with contention / a script step with its probe. " +
		"Dimensions (CONVENTIONS addendum 4): 1 state between calls: holdseq and seq scripts in ONE process (the same Mutex value and the same paths through many Lock/unlock cycles, stale Files closed again after their descriptor number was reused, several holders, GC while held), earlier Read results re-verified after every later call, sequentially and in the multi-process histories; 2 caller's memory: slices returned by Read / handed to Write / returned by t kept and compared after every later call, aliasing transform functions; 3 resources: descriptor table and a lock probe from another process after every call of the release phase and after every step of a holdseq script; 4 sizes: seq sizes 0..9000, direct-phase blobs; 5 error paths: release / fault / fsize / limit / persist phases (one-shot and persistent), holdseq `call` steps (complete calls whose callback or deferred-Close body returns an error, panics under a recover above the package, or calls runtime.Goexit; lock probe and descriptor count afterwards); 6 n/a (contents are opaque bytes); 7 paths: ten spellings of each file from two directories (absolute / relative, through a symlinked directory, through a symlinked directory followed by .., through a symlink to the file), handed to every API and to Mutex values and probed from another process under the plain name, files that do not exist yet (also raced: fresh-* histories), path unlinked / renamed during an acquisition; 8 shapes + regenerated structural constants, every oracle still runs"

	if f.Replay != "" {
		rn.replay()
		rn.modelNotes()
		res.Write(f.Out)
		return
	}
	rn.corpus()
	start := time.Now()
	// LF_ONLY=<phase>,<phase>: run only the named phases (development / narrowing down a replay)
	want := func(name string) bool {
		only := os.Getenv("LF_ONLY")
		if only == "" {
			return true
		}
		for _, w := range strings.Split(only, ",") {
			if w == name {
				return true
			}
		}
		return false
	}
	if rn.st && want("protocol") {
		rn.protocolPhase()
	}
	if prop == "C06" {
		if want("eintr") {
			rn.eintrPhase()
		}
		if want("mutex") {
			rn.mutexPhase()
		}
		if want("release") {
			rn.releasePhase()
		}
		if want("holdseq") {
			rn.holdSeqPhase()
		}
		if want("kmodel") {
			rn.kernelModelPhase()
		}
		if want("stress") {
			rn.stressPhase()
		}
		if want("fresh") {
			// files that do not exist yet, created under contention by every creating API the
			// counter can ride on (Transform = Edit): the increments are the overlap witness
			for r := 0; r < 2; r++ {
				if rn.histRound("fresh-incr", 4, 3, 3, rn.rng.Uint64()%1000000) {
					break
				}
			}
		}
		if want("scenario") {
			rn.scenarioPhase([]string{"inherit-write", "inherit-read", "quietread-write", "quietread-create", "handover-edit", "handover-mutex", "handover3-mutex", "handover3-edit",
				"exclhold-read", "exclhold-edit", "exclhold-mutex", "exclhold-open", "exclhold-read+append", "exclhold-edit+sync",
				"fifohold-openfile", "fifohold-edit", "mutexperm-0444", "unlinkrace-edit", "renamerace-mutex"})
			if rn.f.Tier != "quick" {
				rn.scenarioPhase([]string{"unlinkrace-read", "unlinkrace-mutex", "unlinkrace-open", "renamerace-edit"})
			}
		}
	} else {
		if want("direct") {
			rn.directPhase()
		}
		if want("seq") {
			rn.seqPhase()
		}
		if rn.st && want("fault") {
			rn.faultPhase()
			rn.writeFaultPhase()
		}
		if want("fsize") {
			if rn.st {
				rn.fsizePhase()
			}
			rn.limitPhase()
		}
		if rn.st && want("persist") {
			rn.persistPhase()
		}
		if want("hist") {
			rn.histPhase()
		}
		if want("scenario") {
			rn.scenarioPhase([]string{"quietread-write", "quietread-create"})
		}
	}
	rn.modelNotes()
	res.Notes = append(res.Notes, fmt.Sprintf("runner phases took %.1fs", time.Since(start).Seconds()),
		"short writes cannot be injected by strace; they are produced for real with RLIMIT_FSIZE (Transform's tail write, Write) and otherwise covered by the Coq theorems")
	res.Write(f.Out)
}

// modelNotes records model requests that were abandoned at their deadline.
func (rn *runner) modelNotes() {
	if rn.m == nil {
		return
	}
	for _, to := range rn.m.timeouts {
		rn.res.Notes = append(rn.res.Notes, "model request hit its deadline and was abandoned (model restarted): "+to)
	}
}

// ---------------------------------------------------------------- (a) protocol

func (rn *runner) protoOne(c protoCase) {
	impl, model, rules, _, err := runProtoCase(rn.self, rn.f.Work, rn.m, c, "")
	if err != nil {
		rn.res.Notes = append(rn.res.Notes, "strace run failed for "+c.key()+": "+err.Error())
		return
	}
	reached := strings.Contains(impl, "flock:")
	rn.res.Case("proto "+c.key(), reached)
	rn.res.Count("proto:" + c.Call)
	rn.res.Count("proto-outcome:" + strings.SplitN(impl, ":", 2)[0][:2])
	in := map[string]string{"kind": "proto", "call": c.Call, "arg": c.Arg, "file": c.File, "helper": c.Helper}
	// direct oracle for Transform: an error from t leaves the previous contents in place
	if f := strings.Fields(impl); c.Call == "transform" && c.Arg == "FAIL" && len(f) >= 2 {
		prev := c.File
		if prev == "absent" && f[1] == "-" {
			prev = "-" // Edit created the (empty) file
		}
		if f[0] != "err" || f[1] != prev {
			rn.violate("impl-violation", "transform:t-failed-but-contents-changed", "proto t-failed "+short(c.File),
				fmt.Sprintf("t returned an error: Transform must return it and leave the previous contents (%s) in place; observed %s %s", short(c.File), f[0], short(f[1])),
				impl, model, in)
		}
	}
	// direct oracle for Transform: a nil return means the file holds t(old)
	if f := strings.Fields(impl); c.Call == "transform" && c.Arg != "FAIL" && len(f) >= 2 && f[0] == "ok" && f[1] != c.Arg {
		rn.violate("impl-violation", "transform:nil-return-but-contents-not-new", "proto transform-lost "+c.Helper,
			fmt.Sprintf("Transform returned nil but the file holds %s instead of t(old) = %s (old = %s, t = %s)", short(f[1]), short(c.Arg), short(c.File), c.helperArg()),
			impl, model, in)
	}
	for _, r := range rules {
		rn.violate("impl-violation", "protocol-rule:"+strings.Fields(r)[0], "proto-rule "+strings.Fields(r)[0]+" "+c.Call,
			"observed system calls break the locking protocol: "+r, impl, "", in)
	}
	if model != "" && model != impl {
		rn.violate("correspondence", "ops:"+c.Call, "proto-ops "+c.key(),
			"system calls of the call differ from the model program's operations", impl, model, in)
	}
	if rn.res.Evaluations%37 == 1 {
		rn.res.Sample(map[string]any{"case": c.key(), "impl": impl, "model": model})
	}
}

func (rn *runner) protocolPhase() {
	for _, c := range protoCases(rn.rng.Fork(), rn.f.Tier, rn.prop) {
		rn.protoOne(c)
	}
}

// EINTR on the first flock: the call must retry and behave as without it.
func (rn *runner) eintrPhase() {
	if !rn.st {
		return
	}
	for _, c := range []protoCase{{"write", "78797a", "616263", ""}, {"read", "-", "616263", ""}, {"mutex", "-", "absent", ""}, {"transform", "7a7a", "616263", ""}} {
		rn.eintrOne(c)
	}
}

func (rn *runner) eintrOne(c protoCase) {
	base, _, _, _, err := runProtoCase(rn.self, rn.f.Work, nil, c, "")
	if err != nil {
		return
	}
	impl, _, _, raw, err := runProtoCase(rn.self, rn.f.Work, nil, c, "flock:error=EINTR:when=1")
	if err != nil {
		return
	}
	rn.res.Case("eintr "+c.key(), true)
	rn.res.Count("eintr:" + c.Call)
	want := strings.Replace(base, "| ", "| ", 1)
	got := strings.Replace(impl, " flock:1=err", "", 1)
	got = strings.Replace(got, " flock:2=err", "", 1)
	if !strings.Contains(raw, "INJECTED") {
		rn.res.Count("eintr:not-hit")
		return
	}
	if got != want {
		rn.violate("impl-violation", "eintr-retry", "eintr "+c.Call,
			"with flock interrupted once (EINTR) the call does not behave like the uninterrupted call", impl, base,
			map[string]string{"kind": "eintr", "call": c.Call, "arg": c.Arg, "file": c.File})
	}
}

// ---------------------------------------------------------------- (b) stress + scenarios

func (rn *runner) stressRound(procs, gor, iters, npaths int, seed uint64) bool {
	viols, counts, err := runStress(rn.self, rn.f.Work, procs, gor, iters, npaths, seed)
	if err != nil {
		rn.res.Notes = append(rn.res.Notes, "stress round could not be set up: "+err.Error())
		return false
	}
	total := 0
	for k, v := range counts {
		rn.res.Distribution["stress:"+k] += v
		total += v
	}
	rn.res.Evaluations += total
	rn.res.Case(fmt.Sprintf("stress %d %d %d %d %d", procs, gor, iters, npaths, seed), true)
	in := map[string]string{"kind": "stress", "procs": fmt.Sprint(procs), "goroutines": fmt.Sprint(gor),
		"iters": fmt.Sprint(iters), "paths": fmt.Sprint(npaths), "seed": fmt.Sprint(seed)}
	for _, v := range viols {
		w := strings.Fields(v)
		key := "stress"
		if len(w) > 1 {
			key = "stress " + w[1]
		}
		in2 := map[string]string{}
		for k, x := range in {
			in2[k] = x
		}
		in2["history"] = strings.Join(viols, "\n")
		rn.violate("impl-violation", "overlap-witness:"+strings.TrimPrefix(key, "stress "), key, v, v, "", in2)
	}
	return len(viols) > 0
}

// tierSizes: "rounds,procs,goroutines,iterations" of a phase; the defaults can be overridden
// per tier from props/Cxx.json (runner_env: LF_<PHASE>_QUICK / LF_<PHASE>_THOROUGH).
func (rn *runner) tierSizes(phase string, quick, thorough [4]int) (int, int, int, int) {
	v := quick
	key := "LF_" + phase + "_QUICK"
	if rn.f.Tier != "quick" {
		v, key = thorough, "LF_"+phase+"_THOROUGH"
	}
	if s := os.Getenv(key); s != "" {
		var a, b, c, d int
		if n, _ := fmt.Sscanf(s, "%d,%d,%d,%d", &a, &b, &c, &d); n == 4 && a > 0 && b > 0 && c > 0 && d > 0 {
			v = [4]int{a, b, c, d}
		} else {
			rn.res.Notes = append(rn.res.Notes, "ignored malformed "+key+"="+s)
		}
	}
	rn.res.Notes = append(rn.res.Notes, fmt.Sprintf("%s sizes (rounds,procs,goroutines,iters) = %v", phase, v))
	return v[0], v[1], v[2], v[3]
}

func (rn *runner) stressPhase() {
	rounds, procs, gor, iters := rn.tierSizes("STRESS", [4]int{6, 8, 4, 200}, [4]int{12, 8, 6, 600})
	for r := 0; r < rounds; r++ {
		if rn.stressRound(procs, gor, iters, 1+r%3, rn.rng.Uint64()%1000000) {
			break
		}
	}
}

// scenario runs one scripted scenario with its files under work (a directory of its own: the
// scenarios use fixed file names).
func (rn *runner) scenario(name, work string) scenarioResult {
	parts := strings.SplitN(name, "-", 2)
	switch parts[0] {
	case "inherit":
		return scenarioInherit(rn.self, work, parts[1])
	case "quietread":
		return scenarioQuietRead(rn.self, work, parts[1])
	case "handover":
		return scenarioHandover(rn.self, work, parts[1])
	case "handover3":
		return scenarioHandover3(rn.self, work, parts[1])
	case "fifohold":
		return scenarioFifoHold(rn.self, work, parts[1])
	case "mutexperm":
		return scenarioMutexPerm(rn.self)
	case "unlinkrace":
		return scenarioPathRace(rn.self, work, "unlink", parts[1], rn.st)
	case "renamerace":
		return scenarioPathRace(rn.self, work, "rename", parts[1], rn.st)
	case "exclhold":
		extra := 0
		w := parts[1]
		if strings.HasSuffix(w, "+append") {
			extra, w = os.O_APPEND, strings.TrimSuffix(w, "+append")
		} else if strings.HasSuffix(w, "+sync") {
			extra, w = os.O_SYNC, strings.TrimSuffix(w, "+sync")
		}
		return scenarioExclHold(rn.self, work, w, extra)
	}
	return scenarioResult{name: name, setup: "unknown scenario"}
}

func (rn *runner) scenarioPhase(names []string) {
	reps := 2
	if rn.f.Tier != "quick" {
		reps = 6
	}
	// the scenarios are independent (each has its own files and helper processes) and spend
	// their time in fixed waits: four at a time.  Their oracles are one-sided (correct code
	// cannot trip them however slow the machine is), so running them side by side cannot
	// raise a false alarm.
	type job struct {
		name string
		rep  int
	}
	var jobs []job
	for _, n := range names {
		for i := 0; i < reps; i++ {
			if i > 0 && rn.f.Tier == "quick" && strings.Contains(n, "race-") {
				break // these take a second each (delayed system calls)
			}
			jobs = append(jobs, job{n, i})
		}
	}
	results := make([]scenarioResult, len(jobs))
	sem := make(chan struct{}, 4)
	var wg sync.WaitGroup
	for k, j := range jobs {
		wg.Add(1)
		sem <- struct{}{}
		go func(k int, j job) {
			defer wg.Done()
			defer func() { <-sem }()
			work := filepath.Join(rn.f.Work, fmt.Sprintf("scenario-%d", k))
			if err := os.MkdirAll(work, 0o777); err != nil {
				results[k] = scenarioResult{name: j.name, setup: err.Error()}
				return
			}
			results[k] = rn.scenario(j.name, work)
			os.RemoveAll(work)
		}(k, j)
	}
	wg.Wait()
	done := map[string]bool{} // one note / one violation per scenario
	for k, j := range jobs {
		s := results[k]
		rn.res.Case(fmt.Sprintf("scenario %s %d", j.name, j.rep), s.setup == "")
		rn.res.Count("scenario:" + j.name)
		if done[j.name] {
			continue
		}
		if s.setup != "" {
			rn.res.Notes = append(rn.res.Notes, "scenario "+j.name+" could not be set up: "+s.setup)
			done[j.name] = true
			continue
		}
		if s.viol != "" {
			rn.violate("impl-violation", "scenario:"+s.viol, "scenario "+j.name+" "+s.viol, s.detail, s.detail, "",
				map[string]string{"kind": "scenario", "name": j.name})
			done[j.name] = true
		}
	}
}

package main

import (
	"encoding/json"
	"fmt"
	"os"
	"path/filepath"
	"sort"
	"strconv"
	"strings"

	"verif/harness/common"
)

// ---------------------------------------------------------------- (d) faults

func (rn *runner) faultOne(c faultCase) (hit bool) {
	fo, err := runFaultCase(rn.self, rn.f.Work, rn.m, c)
	if err != nil {
		rn.res.Notes = append(rn.res.Notes, "fault run failed for "+c.key()+": "+err.Error())
		return false
	}
	rn.res.Case("fault "+c.key(), fo.hit)
	rn.res.Count("fault:" + c.Sys)
	if fo.hit {
		rn.res.Count("fault-hit:" + c.Sys)
	}
	rn.res.Count("fault-outcome:" + strings.Fields(fo.impl)[0])
	in := map[string]string{"kind": "fault", "call": c.call(), "old": c.Old, "new": c.New, "sys": c.Sys, "k": fmt.Sprint(c.K)}
	if fo.direct != "" {
		rn.violate("impl-violation", c.call()+"-fault:"+fo.direct, "fault "+c.call()+" "+fo.direct+" "+c.Sys,
			fmt.Sprintf("%s with the %d-th %s on the file failing: %s", c.call(), c.K, c.Sys, fo.direct), fo.impl, fo.model, in)
	}
	if fo.model != "" && fo.model != fo.impl {
		rn.violate("correspondence", "faulty-ops:"+c.Sys, "fault-ops "+c.key(),
			"outcome / contents / system calls under the injected fault differ from the model's faulty semantics", fo.impl, fo.model, in)
	}
	if rn.res.Evaluations%23 == 1 {
		rn.res.Sample(map[string]any{"fault": c.key(), "impl": fo.impl, "model": fo.model})
	}
	return fo.hit
}

func (rn *runner) faultPhase() {
	for _, rel := range lengthRelations(rn.rng.Fork(), rn.f.Tier) {
		for _, sys := range []string{"read", "pwrite64", "ftruncate", "flock"} {
			// k = 1, 2, ... until the injection no longer hits a call (that run is the
			// fault-free one and is checked too)
			for k := 1; k <= 12; k++ {
				if !rn.faultOne(faultCase{"transform", rel[0], rel[1], sys, k}) {
					break
				}
				if sys == "flock" {
					break
				}
			}
		}
	}
}

// writeFaultPhase: Write / Create+Write / Edit+Write under a failing ftruncate or write.
// No rollback is promised; the oracle is "old, or a prefix of the new data, never a mixture".
func (rn *runner) writeFaultPhase() {
	pairs := [][2]string{{"616263646566", "78797a"}, {"6162", "3031323334353637"}, {"-", "7879"}, {"616263", "-"}}
	for _, call := range []string{"write", "createwrite", "editwrite"} {
		for _, pr := range pairs {
			for _, sys := range []string{"ftruncate", "write", "flock"} {
				for k := 1; k <= 3; k++ {
					if !rn.faultOne(faultCase{call, pr[0], pr[1], sys, k}) || sys == "flock" {
						break
					}
				}
			}
		}
	}
}

// ---------------------------------------------------------------- (c) histories

func (rn *runner) histRound(mode string, procs, gor, iters int, seed uint64) bool {
	initial := payload(1, 17)
	if mode == "incr" {
		initial = []byte("0")
	}
	evs, final, err := runHist(rn.self, rn.f.Work, mode, procs, gor, iters, seed, initial)
	if err != nil {
		rn.res.Notes = append(rn.res.Notes, "history round could not be run: "+err.Error())
		return false
	}
	var fs []histFinding
	if mode == "incr" {
		fs = checkIncr(evs, final)
	} else {
		fs = checkRegister(evs, 1, final)
	}
	for _, e := range evs {
		rn.res.Count("hist-" + mode + ":" + e.Op)
	}
	overl := 0
	for i := 1; i < len(evs); i++ {
		if evs[i].Inv < evs[i-1].Resp {
			overl++
		}
	}
	rn.res.Distribution["hist-overlapping-calls"] += overl
	rn.res.Evaluations += len(evs)
	rn.res.Case(fmt.Sprintf("hist %s %d %d %d %d", mode, procs, gor, iters, seed), overl > 0)
	in := map[string]string{"kind": "hist", "mode": mode, "procs": fmt.Sprint(procs), "goroutines": fmt.Sprint(gor),
		"iters": fmt.Sprint(iters), "seed": fmt.Sprint(seed)}
	for _, f := range fs {
		in2 := map[string]string{}
		for k, x := range in {
			in2[k] = x
		}
		var hs []string
		for _, o := range f.Ops {
			hs = append(hs, o.String())
		}
		in2["history"] = strings.Join(hs, "\n")
		rn.violate("impl-violation", "linearizability:"+f.Key, "hist "+mode+" "+f.Key, f.Detail, strings.Join(hs, " ; "), "", in2)
	}
	return len(fs) > 0
}

func (rn *runner) histPhase() {
	rounds, procs, gor, iters := 4, 5, 3, 100
	if rn.f.Tier != "quick" {
		rounds, procs, gor, iters = 10, 6, 4, 300
	}
	for r := 0; r < rounds; r++ {
		if rn.histRound("mixed", procs, gor, iters, rn.rng.Uint64()%1000000) {
			break
		}
	}
	for r := 0; r < rounds; r++ {
		if rn.histRound("incr", procs, gor+1, iters, rn.rng.Uint64()%1000000) {
			break
		}
	}
}

// ---------------------------------------------------------------- corpus / replay

// runInput re-executes one stored case (the `input` map of a violation).
func (rn *runner) runInput(in map[string]string) {
	atoi := func(k string) int { n, _ := strconv.Atoi(in[k]); return n }
	seed, _ := strconv.ParseUint(in["seed"], 10, 64)
	switch in["kind"] {
	case "proto":
		if rn.st {
			rn.protoOne(protoCase{in["call"], in["arg"], in["file"]})
		}
	case "eintr":
		if rn.st {
			rn.eintrOne(protoCase{in["call"], in["arg"], in["file"]})
		}
	case "fault":
		if rn.st {
			rn.faultOne(faultCase{in["call"], in["old"], in["new"], in["sys"], atoi("k")})
		}
	case "stress":
		for i := 0; i < 3; i++ { // schedules are not reproducible: a few attempts
			if rn.stressRound(atoi("procs"), atoi("goroutines"), atoi("iters"), atoi("paths"), seed+uint64(i)) {
				break
			}
		}
	case "hist":
		for i := 0; i < 3; i++ {
			if rn.histRound(in["mode"], atoi("procs"), atoi("goroutines"), atoi("iters"), seed+uint64(i)) {
				break
			}
		}
	case "scenario":
		rn.scenarioPhase([]string{in["name"]})
	}
}

func (rn *runner) replay() {
	rp, err := common.LoadReplay(rn.f.Replay)
	if err != nil {
		fmt.Fprintln(os.Stderr, "cannot load replay:", err)
		os.Exit(2)
	}
	rn.runInput(rp.Violation.Input)
}

// corpus: every *.json under -corpus is an input map (hand-picked regressions first).
func (rn *runner) corpus() {
	if rn.f.Corpus == "" {
		return
	}
	files, _ := filepath.Glob(filepath.Join(rn.f.Corpus, "*.json"))
	sort.Strings(files)
	for _, p := range files {
		b, err := os.ReadFile(p)
		if err != nil {
			continue
		}
		var in map[string]string
		if json.Unmarshal(b, &in) != nil {
			continue
		}
		rn.res.Count("src:corpus")
		rn.runInput(in)
	}
}

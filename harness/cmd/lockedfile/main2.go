package main

import (
	"encoding/json"
	"fmt"
	"os"
	"path/filepath"
	"sort"
	"strconv"
	"strings"

	"verif/harness/common"
)

// ---------------------------------------------------------------- (d) faults

func (rn *runner) faultOne(c faultCase) (hit bool) {
	fo, err := runFaultCase(rn.self, rn.f.Work, rn.m, c)
	if err != nil {
		rn.res.Notes = append(rn.res.Notes, "fault run failed for "+c.key()+": "+err.Error())
		return false
	}
	rn.res.Case("fault "+c.key(), fo.hit)
	rn.res.Count("fault:" + c.Sys)
	if fo.hit {
		rn.res.Count("fault-hit:" + c.Sys)
	}
	rn.res.Count("fault-outcome:" + strings.Fields(fo.impl)[0])
	in := map[string]string{"kind": "fault", "call": c.call(), "old": c.Old, "new": c.New, "sys": c.Sys, "k": fmt.Sprint(c.K), "helper": c.Helper}
	if fo.direct != "" {
		rn.violate("impl-violation", c.call()+"-fault:"+fo.direct, "fault "+c.call()+" "+fo.direct+" "+c.Sys,
			fmt.Sprintf("%s with the %d-th %s on the file failing: %s", c.call(), c.K, c.Sys, fo.direct), fo.impl, fo.model, in)
	}
	if fo.model != "" && fo.model != fo.impl {
		rn.violate("correspondence", "faulty-ops:"+c.Sys, "fault-ops "+c.key(),
			"outcome / contents / system calls under the injected fault differ from the model's faulty semantics", fo.impl, fo.model, in)
	}
	if rn.res.Evaluations%23 == 1 {
		rn.res.Sample(map[string]any{"fault": c.key(), "impl": fo.impl, "model": fo.model})
	}
	return fo.hit
}

func (rn *runner) faultPhase() {
	for _, rel := range lengthRelations(rn.rng.Fork(), rn.f.Tier) {
		for _, sys := range []string{"read", "pwrite64", "ftruncate", "flock"} {
			// k = 1, 2, ... until the injection no longer hits a call (that run is the
			// fault-free one and is checked too)
			for k := 1; k <= 12; k++ {
				if !rn.faultOne(faultCase{"transform", rel[0], rel[1], sys, k, rel[2]}) {
					break
				}
				if sys == "flock" {
					break
				}
			}
		}
	}
}

// writeFaultPhase: Write / Create+Write / Edit+Write under a failing ftruncate or write.
// No rollback is promised; the oracle is "old, or a prefix of the new data, never a mixture".
func (rn *runner) writeFaultPhase() {
	pairs := [][2]string{{"616263646566", "78797a"}, {"6162", "3031323334353637"}, {"-", "7879"}, {"616263", "-"}}
	for _, call := range []string{"write", "createwrite", "editwrite"} {
		for _, pr := range pairs {
			for _, sys := range []string{"ftruncate", "write", "flock"} {
				for k := 1; k <= 3; k++ {
					if !rn.faultOne(faultCase{call, pr[0], pr[1], sys, k, ""}) || sys == "flock" {
						break
					}
				}
			}
		}
	}
}

// fsizePhase: genuine short writes (RLIMIT_FSIZE) in Transform's tail write and in Write.
func (rn *runner) fsizeOne(call, old, nw string, k int, helper string) {
	fo, err := runFsizeCase(rn.self, rn.f.Work, rn.m, call, old, nw, k, helper)
	if err != nil {
		rn.res.Notes = append(rn.res.Notes, "short-write case skipped: "+err.Error())
		return
	}
	key := fmt.Sprintf("%s %s %s k=%d", call, short(old), short(nw), k)
	rn.res.Case("fsize "+key, fo.hit)
	rn.res.Count("shortwrite:" + call)
	if fo.hit {
		rn.res.Count("shortwrite-hit:" + call)
	}
	in := map[string]string{"kind": "fsize", "call": call, "old": old, "new": nw, "k": fmt.Sprint(k), "helper": helper}
	if fo.direct != "" {
		rn.violate("impl-violation", call+"-short-write:"+fo.direct, "fsize "+call+" "+fo.direct,
			fmt.Sprintf("%s with a write that stores %d byte(s) and then fails (RLIMIT_FSIZE, EFBIG): %s", call, k, fo.direct), fo.impl, fo.model, in)
	}
	if fo.model != "" && fo.model != fo.impl {
		rn.violate("correspondence", "short-write-ops:"+call, "fsize-ops "+key,
			"outcome / contents / system calls under the partial write differ from the model's short-write semantics", fo.impl, fo.model, in)
	}
	if k == 1 {
		rn.res.Sample(map[string]any{"short-write": key, "impl": fo.impl, "model": fo.model})
	}
}

func (rn *runner) fsizePhase() {
	grow := [][2]string{{"616263", "5152535455565758"}, {"-", "515253545556"}, {"6162636465666768", "51525354555657585960616263"}}
	for _, g := range grow {
		d := len(common.UnHex(g[1])) - len(common.UnHex(g[0]))
		for k := 0; k < d && k <= 6; k++ {
			rn.fsizeOne("transform", g[0], g[1], k, "")
		}
	}
	// growing by an in-place append (the result aliases the argument)
	for k := 0; k < 4; k++ {
		sp := "alias:append:3031323334"
		rn.fsizeOne("transform", "616263646566", aliasValue(sp, "616263646566"), k, sp)
	}
	for _, w := range [][2]string{{"616263646566", "78797a7b7c"}, {"6162", "3031323334353637"}, {"-", "787978"}} {
		n := len(common.UnHex(w[1]))
		for k := 0; k < n && k <= 6; k++ {
			rn.fsizeOne("write", w[0], w[1], k, "")
			if k < 3 {
				rn.fsizeOne("createwrite", w[0], w[1], k, "")
			}
		}
	}
}

// ---------------------------------------------------------------- (c) histories

// histFreshRound: `rounds` files that do not exist yet, each hit by every goroutine of every
// process at the same instant with a few calls (the calls that create the file race): one
// history per file, checked like the long histories.
func (rn *runner) histFreshRound(mode string, procs, gor, iters int, seed uint64) bool {
	rounds := 12
	if rn.f.Tier != "quick" {
		rounds = 40
	}
	evs, finals, err := runHistRounds(rn.self, rn.f.Work, mode, procs, gor, iters, seed, nil, rounds)
	if err != nil {
		rn.res.Notes = append(rn.res.Notes, "fresh-file history round could not be run: "+err.Error())
		return false
	}
	in := map[string]string{"kind": "hist", "mode": mode, "procs": fmt.Sprint(procs), "goroutines": fmt.Sprint(gor),
		"iters": fmt.Sprint(iters), "seed": fmt.Sprint(seed)}
	found := false
	for r := 0; r < rounds; r++ {
		var g []hev
		writes := 0
		for _, e := range evs {
			if e.Round == r {
				g = append(g, e)
				rn.res.Count("hist-" + mode + ":" + e.Op)
				if e.OK && (e.Op == "W" || (e.Op == "T" && e.B != 0) || (e.Op == "I" && e.B != e.A)) {
					writes++
				}
			}
		}
		overl := 0
		for i := 1; i < len(g); i++ {
			if g[i].Inv < g[i-1].Resp {
				overl++
			}
		}
		rn.res.Distribution["hist-overlapping-calls"] += overl
		rn.res.Evaluations += len(g)
		rn.res.Case(fmt.Sprintf("hist %s %d %d %d %d round %d", mode, procs, gor, iters, seed, r), overl > 0)
		var fs []histFinding
		final := finals[r]
		switch {
		case mode == "fresh-incr" && rn.prop == "C06":
			fs = checkInside(g) // exclusion only; lost updates are C07's business
		case mode == "fresh-incr":
			fs = checkInside(g)
			if len(fs) > 0 {
				break
			}
			if len(final) == 0 && writes == 0 {
				final = []byte("0")
			}
			fs = checkIncr(g, final, "incr")
		case len(final) == 0 && writes > 0:
			fs = append(checkRegister(g, 1, nil), histFinding{"lost-update", fmt.Sprintf("%d Write/Transform calls on the new file returned nil, but at rest the file is empty", writes), nil})
		case len(final) == 0:
			fs = checkRegister(g, 1, nil)
		default:
			fs = checkRegister(g, 1, final)
		}
		for _, f := range fs {
			in2 := map[string]string{"round": fmt.Sprint(r)}
			for k, x := range in {
				in2[k] = x
			}
			var hs []string
			for _, o := range f.Ops {
				hs = append(hs, o.String())
			}
			if len(hs) == 0 {
				for _, o := range g {
					hs = append(hs, o.String())
				}
			}
			in2["history"] = strings.Join(hs, "\n")
			oracle := "linearizability:" + f.Key
			if f.Key == "two-inside" {
				oracle = "overlap-witness:new-file-two-inside"
			}
			rn.violate("impl-violation", oracle, "hist "+mode+" "+f.Key, "file that did not exist when the calls began: "+f.Detail, strings.Join(hs, " ; "), "", in2)
			found = true
		}
		if found {
			break
		}
	}
	return found
}

func (rn *runner) histRound(mode string, procs, gor, iters int, seed uint64) bool {
	if strings.HasPrefix(mode, "fresh-") {
		return rn.histFreshRound(mode, procs, gor, iters, seed)
	}
	initial := payload(1, 17)
	if mode == "incr" {
		initial = []byte("0")
	}
	if mode == "append" {
		initial = []byte("s")
	}
	evs, final, err := runHist(rn.self, rn.f.Work, mode, procs, gor, iters, seed, initial)
	if err != nil {
		rn.res.Notes = append(rn.res.Notes, "history round could not be run: "+err.Error())
		return false
	}
	var fs []histFinding
	if mode == "incr" || mode == "append" {
		fs = checkIncr(evs, final, mode)
	} else {
		fs = checkRegister(evs, 1, final)
	}
	for _, e := range evs {
		rn.res.Count("hist-" + mode + ":" + e.Op)
	}
	overl := 0
	for i := 1; i < len(evs); i++ {
		if evs[i].Inv < evs[i-1].Resp {
			overl++
		}
	}
	rn.res.Distribution["hist-overlapping-calls"] += overl
	rn.res.Evaluations += len(evs)
	rn.res.Case(fmt.Sprintf("hist %s %d %d %d %d", mode, procs, gor, iters, seed), overl > 0)
	in := map[string]string{"kind": "hist", "mode": mode, "procs": fmt.Sprint(procs), "goroutines": fmt.Sprint(gor),
		"iters": fmt.Sprint(iters), "seed": fmt.Sprint(seed)}
	for _, f := range fs {
		in2 := map[string]string{}
		for k, x := range in {
			in2[k] = x
		}
		var hs []string
		for _, o := range f.Ops {
			hs = append(hs, o.String())
		}
		in2["history"] = strings.Join(hs, "\n")
		rn.violate("impl-violation", "linearizability:"+f.Key, "hist "+mode+" "+f.Key, f.Detail, strings.Join(hs, " ; "), "", in2)
	}
	return len(fs) > 0
}

func (rn *runner) histPhase() {
	rounds, procs, gor, iters := rn.tierSizes("HIST", [4]int{4, 5, 3, 100}, [4]int{10, 6, 4, 300})
	for r := 0; r < rounds; r++ {
		if rn.histRound("mixed", procs, gor, iters, rn.rng.Uint64()%1000000) {
			break
		}
	}
	for r := 0; r < rounds; r++ {
		if rn.histRound("incr", procs, gor+1, iters, rn.rng.Uint64()%1000000) {
			break
		}
	}
	// appending transformers whose result aliases their argument
	for r := 0; r < rounds; r++ {
		if rn.histRound("append", procs, gor+1, iters/2, rn.rng.Uint64()%1000000) {
			break
		}
	}
	// files that do not exist yet: the creating calls race (3 calls per goroutine and file)
	for _, mode := range []string{"fresh-incr", "fresh-mixed"} {
		for r := 0; r < (rounds+1)/2; r++ {
			if rn.histRound(mode, procs, gor, 3, rn.rng.Uint64()%1000000) {
				break
			}
		}
	}
}

// ---------------------------------------------------------------- kernel flock semantics

func (rn *runner) kernelModelRound(procs, gor, iters, npaths int, seed uint64) bool {
	st, findings, viols, err := runFlockReplay(rn.self, rn.f.Work, rn.m, procs, gor, iters, npaths, seed)
	if err != nil {
		rn.res.Notes = append(rn.res.Notes, "traced stress round could not be run: "+err.Error())
		return false
	}
	rn.res.Evaluations += st.grants
	rn.res.Case(fmt.Sprintf("kmodel %d %d %d %d %d", procs, gor, iters, npaths, seed), st.waits > 0)
	rn.res.Distribution["kmodel:grants-replayed"] += st.grants
	rn.res.Distribution["kmodel:releases"] += st.releases
	rn.res.Distribution["kmodel:waits>=5ms"] += st.waits
	rn.res.Distribution["kmodel:waits-explained"] += st.waitsExplained
	rn.res.Distribution["kmodel:exec-replay-clients"] += st.replay.clients
	rn.res.Distribution["kmodel:exec-replay-events"] += st.replay.events
	rn.res.Distribution["kmodel:exec-replay-reads"] += st.replay.reads
	in := map[string]string{"kind": "kmodel", "procs": fmt.Sprint(procs), "goroutines": fmt.Sprint(gor),
		"iters": fmt.Sprint(iters), "paths": fmt.Sprint(npaths), "seed": fmt.Sprint(seed)}
	for _, f := range findings {
		rn.violate("correspondence", "kernel-flock-model:"+f.Key, "kmodel "+f.Key, f.Detail, f.Detail, "", in)
	}
	for _, v := range viols {
		rn.violate("impl-violation", "overlap-witness:traced", "stress-traced", v, v, "", in)
	}
	return len(findings)+len(viols) > 0
}

func (rn *runner) kernelModelPhase() {
	if !rn.st {
		return
	}
	rounds, procs, gor, iters := rn.tierSizes("KMODEL", [4]int{2, 4, 3, 40}, [4]int{8, 5, 3, 60})
	for r := 0; r < rounds; r++ {
		if rn.kernelModelRound(procs, gor, iters, 1+r%2, rn.rng.Uint64()%1000000) {
			break
		}
	}
}

// ---------------------------------------------------------------- Mutex corners

func (rn *runner) mutexPhase() {
	cmd, rd, in, err := startHelper(rn.self, nil, "mutexmisc", rn.f.Work)
	if err != nil {
		rn.res.Notes = append(rn.res.Notes, "mutexmisc helper could not be started: "+err.Error())
		return
	}
	defer func() { in.Close(); cmd.Wait() }()
	got := map[string]string{}
	for i := 0; i < 6; i++ {
		l, ok := waitLine(rd, capWait)
		if !ok || strings.HasPrefix(l, "EOF") {
			break
		}
		f := strings.SplitN(l, " ", 2)
		if len(f) == 2 {
			got[f[0]] = f[1]
		}
	}
	in1 := func(name string) map[string]string { return map[string]string{"kind": "mutexmisc", "case": name} }
	// direct oracles: what the documentation of Mutex promises
	want := map[string]func(string) bool{
		"zero-lock": func(s string) bool { return strings.HasPrefix(s, "PANIC ") },
		"at-empty":  func(s string) bool { return strings.HasPrefix(s, "PANIC ") },
		"absent":    func(s string) bool { return s == "ok exists=true len=0" },
		"relock":    func(s string) bool { return s == "ok" },
		"nodir":     func(s string) bool { return s == "err" },
		"string":    func(s string) bool { return !strings.HasPrefix(s, "PANIC") },
	}
	for name, ok := range want {
		rn.res.Case("mutexmisc "+name, true)
		rn.res.Count("mutexmisc:" + name)
		if !ok(got[name]) {
			rn.violate("impl-violation", "mutex:"+name, "mutexmisc "+name,
				"Mutex corner case "+name+": observed "+got[name], got[name], "", in1(name))
		}
	}
	if rn.m == nil {
		return
	}
	// correspondence with the model (panic values and String come from regenerated constants)
	mf := strings.Fields(rn.m.Ask1("mutexfacts"))
	if len(mf) == 4 {
		model := map[string]string{"zero-lock": "locked", "at-empty": "ok"}
		if mf[0] == "lockpanic" {
			model["zero-lock"] = "PANIC " + mf[1]
		}
		if mf[2] == "atpanic" {
			model["at-empty"] = "PANIC " + mf[3]
		}
		p := rn.f.Work + "/mu-fresh"
		model["string"] = rn.m.Ask1("mutexstring " + common.Hex([]byte(p)))
		mo := strings.Fields(rn.m.Ask1("ops mutex - absent"))
		if len(mo) > 2 && mo[0] == "ok" && mo[1] == "-" {
			model["absent"] = "ok exists=true len=0"
		} else {
			model["absent"] = strings.Join(mo, " ")
		}
		for name, mv := range model {
			if got[name] != mv {
				rn.violate("correspondence", "mutex:"+name, "mutexmisc-model "+name,
					"Mutex corner case differs from the model", got[name], mv, in1(name))
			}
		}
	}
}

// ---------------------------------------------------------------- corpus / replay

// runInput re-executes one stored case (the `input` map of a violation).
func (rn *runner) runInput(in map[string]string) {
	atoi := func(k string) int { n, _ := strconv.Atoi(in[k]); return n }
	seed, _ := strconv.ParseUint(in["seed"], 10, 64)
	switch in["kind"] {
	case "proto":
		if rn.st {
			rn.protoOne(protoCase{in["call"], in["arg"], in["file"], in["helper"]})
		}
	case "eintr":
		if rn.st {
			rn.eintrOne(protoCase{Call: in["call"], Arg: in["arg"], File: in["file"]})
		}
	case "fault":
		if rn.st {
			rn.faultOne(faultCase{in["call"], in["old"], in["new"], in["sys"], atoi("k"), in["helper"]})
		}
	case "stress":
		for i := 0; i < 3; i++ { // schedules are not reproducible: a few attempts
			if rn.stressRound(atoi("procs"), atoi("goroutines"), atoi("iters"), atoi("paths"), seed+uint64(i)) {
				break
			}
		}
	case "hist":
		for i := 0; i < 3; i++ {
			if rn.histRound(in["mode"], atoi("procs"), atoi("goroutines"), atoi("iters"), seed+uint64(i)) {
				break
			}
		}
	case "scenario":
		rn.scenarioPhase([]string{in["name"]})
	case "fsize":
		if rn.st {
			rn.fsizeOne(in["call"], in["old"], in["new"], atoi("k"), in["helper"])
		}
	case "mutexmisc":
		rn.mutexPhase()
	case "release":
		rn.relOne(relCaseOf(in))
	case "seq":
		rn.seqOne(seqCase{in["script"], in["exists"]}, false)
	case "holdseq":
		rn.holdSeqOne(hsCase{in["script"], in["exists"]}, false)
	case "direct":
		rn.directOne(directCase{in["call"], in["spec"], in["file"]})
	case "limit":
		rn.limitOne(limitCase{in["call"], in["old"], in["new"], in["helper"], atoi("L"), in["inside"] == "true"})
	case "persist":
		if rn.st {
			rn.persistOne(persistCase{in["call"], in["old"], in["new"], in["helper"], atoi("kw"), in["trunc"]})
		}
	case "kmodel":
		for i := 0; i < 3; i++ {
			if rn.kernelModelRound(atoi("procs"), atoi("goroutines"), atoi("iters"), atoi("paths"), seed+uint64(i)) {
				break
			}
		}
	}
}

func (rn *runner) replay() {
	rp, err := common.LoadReplay(rn.f.Replay)
	if err != nil {
		fmt.Fprintln(os.Stderr, "cannot load replay:", err)
		os.Exit(2)
	}
	rn.runInput(rp.Violation.Input)
}

// corpus: every *.json under -corpus is an input map (hand-picked regressions first).
func (rn *runner) corpus() {
	if rn.f.Corpus == "" {
		return
	}
	files, _ := filepath.Glob(filepath.Join(rn.f.Corpus, "*.json"))
	sort.Strings(files)
	for _, p := range files {
		b, err := os.ReadFile(p)
		if err != nil {
			continue
		}
		var in map[string]string
		if json.Unmarshal(b, &in) != nil {
			continue
		}
		rn.res.Count("src:corpus")
		rn.runInput(in)
	}
}

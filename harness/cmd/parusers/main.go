// Command parusers exercises the REAL users of par.Cache in the repository under the race detector
// (built with -race by the C10 runner in the thorough tier): goproxytest.Server, whose zip and archive
// caches are hit by concurrent HTTP requests for the same module versions, and testscript's execCache,
// hit by scripts running in parallel that all evaluate [exec:...] conditions.  It checks that concurrent
// callers get identical answers and prints one line "ok ..." or "FAIL <what>"; the race detector reports
// on stderr (exit status 66).
package main

import (
	"bytes"
	"flag"
	"fmt"
	"io"
	"net/http"
	"os"
	"path/filepath"
	"runtime"
	"sync"
	"time"

	"github.com/rogpeppe/go-internal/goproxytest"
	"github.com/rogpeppe/go-internal/testscript"
)

func fail(what string, a ...any) {
	fmt.Printf("FAIL "+what+"\n", a...)
	os.Exit(1)
}

func proxyRound(dir string, round int) {
	srv, err := goproxytest.NewServer(dir, "")
	if err != nil {
		fail("goproxytest.NewServer: %v", err)
	}
	defer srv.Close()
	paths := []string{"/fruit.com/@v/v1.0.0.zip", "/fruit.com/@v/v1.0.0.mod", "/fruit.com/@v/v1.0.0.info", "/fruit.com/@v/list",
		"/veg.org/@v/v0.2.0.zip", "/veg.org/@v/v0.2.0.mod", "/fruit.com/@v/v1.1.0.zip"}
	const G = 12
	got := make([][][]byte, G)
	var wg sync.WaitGroup
	for g := 0; g < G; g++ {
		wg.Add(1)
		go func(g int) {
			defer wg.Done()
			got[g] = make([][]byte, len(paths))
			for i := range paths {
				p := paths[(i+g)%len(paths)]
				resp, err := http.Get(srv.URL + p)
				if err != nil {
					fail("round %d: GET %s: %v", round, p, err)
				}
				b, _ := io.ReadAll(resp.Body)
				resp.Body.Close()
				if resp.StatusCode != 200 {
					fail("round %d: GET %s: status %d", round, p, resp.StatusCode)
				}
				got[g][(i+g)%len(paths)] = b
				runtime.Gosched()
			}
		}(g)
	}
	wg.Wait()
	for g := 1; g < G; g++ {
		for i := range paths {
			if !bytes.Equal(got[g][i], got[0][i]) {
				fail("round %d: concurrent requests for %s got different answers (%d vs %d bytes)", round, paths[i], len(got[g][i]), len(got[0][i]))
			}
		}
	}
}

// a minimal testscript.T
type tt struct {
	mu     *sync.Mutex
	wg     *sync.WaitGroup
	failed *[]string
	name   string
}
type stop struct{ skip bool }

func (t tt) Skip(a ...any)  { panic(stop{true}) }
func (t tt) Fatal(a ...any) { t.Log(a...); t.FailNow() }
func (t tt) Parallel()      {}
func (t tt) Log(a ...any)   {}
func (t tt) FailNow() {
	t.mu.Lock()
	*t.failed = append(*t.failed, t.name)
	t.mu.Unlock()
	panic(stop{false})
}
func (t tt) Verbose() bool { return false }
func (t tt) Run(name string, f func(testscript.T)) {
	t.wg.Add(1)
	go func() {
		defer t.wg.Done()
		defer func() {
			if r := recover(); r != nil {
				if _, ok := r.(stop); !ok {
					panic(r)
				}
			}
		}()
		sub := t
		sub.name = t.name + "/" + name
		f(sub)
	}()
}

func scriptsRound(dir string, round int) {
	var mu sync.Mutex
	var wg sync.WaitGroup
	var failed []string
	t := tt{mu: &mu, wg: &wg, failed: &failed, name: "r"}
	func() {
		defer func() {
			if r := recover(); r != nil {
				if _, ok := r.(stop); !ok {
					panic(r)
				}
			}
		}()
		testscript.RunT(t, testscript.Params{Dir: dir})
	}()
	wg.Wait()
	if len(failed) > 0 {
		fail("round %d: scripts failed: %v", round, failed)
	}
}

func main() {
	dur := flag.Duration("dur", 5*time.Second, "how long")
	flag.Parse()
	tmp, err := os.MkdirTemp("", "parusers")
	if err != nil {
		fail("tempdir: %v", err)
	}
	defer os.RemoveAll(tmp)
	mod := filepath.Join(tmp, "mod")
	os.MkdirAll(mod, 0o755)
	wr := func(name, content string) {
		if err := os.WriteFile(filepath.Join(mod, name), []byte(content), 0o644); err != nil {
			fail("write: %v", err)
		}
	}
	wr("fruit.com_v1.0.0.txt", "-- .mod --\nmodule fruit.com\n-- .info --\n{\"Version\":\"v1.0.0\",\"Time\":\"2018-10-22T18:45:39Z\"}\n-- go.mod --\nmodule fruit.com\n-- fruit/fruit.go --\npackage fruit\n\nconst Name = \"apple\"\n")
	wr("fruit.com_v1.1.0.txtar", "-- .mod --\nmodule fruit.com\n-- .info --\n{\"Version\":\"v1.1.0\",\"Time\":\"2018-10-22T18:45:39Z\"}\n-- go.mod --\nmodule fruit.com\n-- fruit/fruit.go --\npackage fruit\n\nconst Name = \"pear\"\n")
	wr("veg.org_v0.2.0.txt", "-- .mod --\nmodule veg.org\n-- .info --\n{\"Version\":\"v0.2.0\",\"Time\":\"2019-01-01T00:00:00Z\"}\n-- go.mod --\nmodule veg.org\n-- leek.go --\npackage veg\n")
	scripts := filepath.Join(tmp, "scripts")
	os.MkdirAll(scripts, 0o755)
	for i := 0; i < 12; i++ {
		body := "[exec:sh] exec sh -c 'true'\n[!exec:surely-not-a-program-" + fmt.Sprint(i%3) + "] exists f.txt\n[exec:cat] exec cat f.txt\nstdout hello\n-- f.txt --\nhello\n"
		os.WriteFile(filepath.Join(scripts, fmt.Sprintf("s%02d.txt", i)), []byte(body), 0o644)
	}
	start := time.Now()
	rounds := 0
	for time.Since(start) < *dur {
		proxyRound(mod, rounds)
		scriptsRound(scripts, rounds)
		rounds++
	}
	fmt.Printf("ok users rounds=%d\n", rounds)
}

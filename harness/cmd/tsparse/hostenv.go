// The host environment and the script environment are two different things (C02, CONVENTIONS
// addendum 4 item 7).
//
// The property says that $NAME, ${NAME}, ${NAME@R}, ts.Getenv, `env NAME` and the environment of
// executed programs all show the value of the LATEST ASSIGNMENT made in the script (or by Setup);
// for a name with an empty sequence of assignments that value is the empty string, whatever the
// process that runs the tests has in its own environment.  Conversely an assignment made in a
// script is an assignment to the script's environment only.
//
//	(a) plantHostCanaries (called first thing in main): the runner's OWN environment gets canary
//	    variables — dedicated names, every short name the generators of main.go / scenarios.go use
//	    for references that are never assigned (A, B, K, X, nope, ...), and a name whose value is a
//	    program on the script's PATH.  Every scenario of the runner therefore runs with a host
//	    that defines the names it expects to be empty;
//	(b) hostScenario: one script per canary — the planted ones and every regular name the runner
//	    found in its real environment that the script's initial environment does not define (USER,
//	    LANG, GOFLAGS, ...) — referencing the name in every position where text is expanded: words
//	    ($N, ${N}, ${N@R}, glued into a word, inside quotes), arguments of env, ts.Getenv, `env N`
//	    (read from the log), the [exec:...] condition and a Params.Condition, the template of
//	    cmpenv (with a must-differ control), the name of an archive entry, and the environment
//	    block of a program started by exec and by ts.Exec; then the script assigns the name and the
//	    script's value must win everywhere;
//	(c) the converse, oracle host-untouched: while the script runs (custom command, after env,
//	    ts.Setenv and cd) and after RunT has returned, the environment and the working directory of
//	    the runner's process are exactly what they were.
//
// All oracles are direct (no model).  A failing case replays from {"mode":"host-env","spec":...}.
package main

import (
	"encoding/json"
	"fmt"
	"os"
	"path/filepath"
	"regexp"
	"sort"
	"strings"

	"github.com/rogpeppe/go-internal/testscript"

	"verif/harness/common"
)

const canaryProgName = "TSPARSE_CANARY_PROG"

// plantedCanaries: name -> host value.  The short names are the ones the generators reference.
func plantedCanaries() map[string]string {
	m := map[string]string{
		"TSPARSE_CANARY":   "host-leak.(1)*",
		"TSPARSE_CANARY_2": "two words",
		"tsparse_canary":   "$WORK",
		canaryProgName:     "envdump",
		"nope":             "HOST-nope",
		"UNSET":            "HOST-UNSET",
		"NAME":             "HOST-NAME",
		"F":                "HOST-F",
		"SRC":              "HOST-SRC",
	}
	for _, n := range validNames {
		m[n] = "HOST-" + n
	}
	for _, n := range histKeys {
		if n != "HOME" {
			m[n] = "HOST-" + n
		}
	}
	return m
}

// plantHostCanaries puts the canaries into the runner's own environment (never overriding a
// variable the real host defines) and returns nothing: hostCanaries reads the environment back.
func plantHostCanaries() {
	for k, v := range plantedCanaries() {
		if _, ok := os.LookupEnv(k); !ok {
			os.Setenv(k, v)
		}
	}
}

var regularName = regexp.MustCompile(`^[A-Za-z_][A-Za-z0-9_]*$`)

// legitimately shared with the host by testscript's setup (and by the Setup of this runner)
// (PWD: os/exec gives every program the directory it is started in, i.e. the script's cd)
var hostShared = map[string]bool{"PATH": true, "GOCOVERDIR": true, "GORACE": true, "SYSTEMROOT": true, "PWD": true}

type hostSpec struct {
	Name  string `json:"name"`  // hex
	Value string `json:"value"` // hex: the value in the runner's environment
}

func (h hostSpec) name() string { return string(common.UnHex(h.Name)) }

// value: planted canaries carry their value; for a name of the real host environment the value is
// read from the environment when the case runs and is never written to a report (it may be a secret)
func (h hostSpec) value() string {
	if h.Value != "" {
		return string(common.UnHex(h.Value))
	}
	if v := os.Getenv(h.name()); v != "" && !strings.ContainsAny(v, "\n\r") {
		return v
	}
	return "HOST-" + h.name()
}

// mask removes the value of a real host variable from a text that goes into a report.
func (h hostSpec) mask(s string) string {
	if h.Value != "" {
		return s
	}
	v := h.value()
	s = strings.ReplaceAll(s, v, "<host value of "+h.name()+">")
	return strings.ReplaceAll(s, regexp.QuoteMeta(v), "<quoted host value of "+h.name()+">")
}

type hostObs struct {
	rec     map[string][][]string // tag -> argument vectors recorded by hrec
	get     map[string]string     // ts.Getenv
	conds   []string              // what Params.Condition was asked
	child   [][]string            // environment blocks of executed programs
	host    []string              // findings of hhost (empty = fine)
	vars    []string              // the script's initial environment (keys)
	verdict string
	log     string
}

var (
	hostCur   map[string]*hostObs
	hostSpec_ map[string]hostSpec
	hostEnv0  []string // the runner's environment before the run
	hostWd0   string
)

const hostScriptVar = "HC_SCRIPT_ONLY" // assigned by scripts only: must never appear in the host

func hostDiff(tag string) []string {
	var out []string
	now := os.Environ()
	sort.Strings(now)
	if strings.Join(now, "\x00") != strings.Join(hostEnv0, "\x00") {
		old := map[string]bool{}
		for _, e := range hostEnv0 {
			old[e] = true
		}
		cur := map[string]bool{}
		for _, e := range now {
			cur[e] = true
			if !old[e] {
				out = append(out, fmt.Sprintf("%s: the runner's environment now has %q", tag, e))
			}
		}
		for _, e := range hostEnv0 {
			if !cur[e] {
				out = append(out, fmt.Sprintf("%s: the runner's environment lost %q", tag, e))
			}
		}
	}
	if wd, err := os.Getwd(); err == nil && wd != hostWd0 {
		out = append(out, fmt.Sprintf("%s: the runner's working directory is now %q (was %q)", tag, wd, hostWd0))
	}
	return out
}

var hostCmds = map[string]func(ts *testscript.TestScript, neg bool, args []string){
	"hrec": func(ts *testscript.TestScript, neg bool, args []string) {
		o := hostCur[ts.Name()]
		if len(args) == 0 {
			ts.Fatalf("harness: hrec TAG words...")
		}
		o.rec[args[0]] = append(o.rec[args[0]], append([]string{}, args[1:]...))
	},
	"hget": func(ts *testscript.TestScript, neg bool, args []string) {
		o := hostCur[ts.Name()]
		// the names are taken from the Go side, not from the (expanded) line
		sp := hostSpec_[ts.Name()]
		for _, n := range []string{sp.name(), "HC_COPY", "HC_GLUED", "HC_RE"} {
			o.get[args[0]+":"+n] = ts.Getenv(n)
		}
	},
	"hset": func(ts *testscript.TestScript, neg bool, args []string) {
		ts.Setenv(hostScriptVar, "set-by-ts.Setenv")
		ts.Setenv("PATH", ts.Getenv("PATH")+string(os.PathListSeparator)+"/hc-script-path")
	},
	"hgrab": func(ts *testscript.TestScript, neg bool, args []string) {
		o := hostCur[ts.Name()]
		o.child = append(o.child, parseDump(ts.ReadFile("stdout")))
	},
	"hchild": func(ts *testscript.TestScript, neg bool, args []string) {
		o := hostCur[ts.Name()]
		if err := ts.Exec("envdump"); err != nil {
			o.child = append(o.child, nil)
			return
		}
		o.child = append(o.child, parseDump(ts.ReadFile("stdout")))
	},
	"hhost": func(ts *testscript.TestScript, neg bool, args []string) {
		o := hostCur[ts.Name()]
		o.host = append(o.host, hostDiff("during the script, at "+strings.Join(args, " "))...)
	},
}

// hostScript: the script text for one canary (see (b)).
func hostScript(sp hostSpec) string {
	n, v := sp.name(), sp.value()
	var sb strings.Builder
	w := func(f string, a ...any) { fmt.Fprintf(&sb, f+"\n", a...) }
	w("hhost start")
	w("hrec plain $%s", n)
	w("hrec braces ${%s}", n)
	w("hrec regexp ${%s@R}", n)
	w("hrec glued pre${%s}post a$%s/b x${%s@R}y '' $%s''", n, n, n, n)
	w("hrec quoted '$%s' '${%s}' '${%s@R}'", n, n, n)
	w("hrec twice $%s$%s ${%s}${%s@R}", n, n, n, n)
	w("env HC_COPY=$%s HC_GLUED=a${%s}b HC_RE=${%s@R}", n, n, n)
	w("hget before")
	w("env %s", n)
	w("[exec:$%s] hrec cond-exec-taken", n)
	w("[!exec:$%s] hrec cond-exec-not-taken", n)
	w("[hc:$%s] hrec cond-custom", n)
	w("cmpenv got-empty want")
	w("! cmpenv got-host want")
	w("exists f--.txt")
	w("exec envdump")
	w("hgrab")
	w("hchild")
	w("hhost middle")
	// from here on the script assigns: its value wins, and the host is not touched
	w("env %s=script-value %s=from-env", n, hostScriptVar)
	w("hrec assigned $%s ${%s} ${%s@R}", n, n, n)
	w("hget after")
	w("hset")
	w("cd sub")
	w("exec envdump")
	w("hgrab")
	w("hhost end")
	// the files
	w("-- want --")
	w("v=$%s|${%s}|${%s@R}|", n, n, n)
	w("-- got-empty --")
	w("v=|||")
	w("-- got-host --")
	w("v=%s|%s|%s|", v, v, regexp.QuoteMeta(v))
	w("-- f-$%s-.txt --", n)
	w("named through a reference")
	w("-- sub/g.txt --")
	w("g")
	return sb.String()
}

type hostFinding struct {
	oracle, what, got, want string
}

func eqWords(a []string, b ...string) bool { return eqStrings(a, b) }

// checkHost: the oracles of (b) and (c) for one script.
func checkHost(sp hostSpec, o *hostObs, after []string) []hostFinding {
	n, v := sp.name(), sp.value()
	var fs []hostFinding
	inv := "host-env-invisible"
	one := func(tag string, want ...string) {
		r := o.rec[tag]
		if len(r) != 1 {
			if o.verdict == "PASS" {
				fs = append(fs, hostFinding{inv, "line hrec " + tag, fmt.Sprint(len(r), " invocations"), "1 invocation"})
			}
			return
		}
		if !eqWords(r[0], want...) {
			fs = append(fs, hostFinding{inv, "words of the line hrec " + tag + " (references to " + n + ", which the script has not assigned; the host has " + n + "=" + fmt.Sprintf("%q", v) + ")", showWords(r[0]), showWords(want)})
		}
	}
	// an unquoted reference that expands to nothing still is a word (the empty one)
	one("plain", "")
	one("braces", "")
	one("regexp", "")
	one("glued", "prepost", "a/b", "xy", "", "")
	one("quoted", "$"+n, "${"+n+"}", "${"+n+"@R}")
	one("twice", "", "")
	for k, want := range map[string]string{"before:" + n: "", "before:HC_COPY": "", "before:HC_GLUED": "ab", "before:HC_RE": ""} {
		if got, ok := o.get[k]; ok && got != want {
			fs = append(fs, hostFinding{inv, "ts.Getenv(" + strings.SplitN(k, ":", 2)[1] + ") after env HC_COPY=$" + n + " HC_GLUED=a${" + n + "}b HC_RE=${" + n + "@R}", got, want})
		}
	}
	if len(o.rec["cond-exec-taken"]) != 0 {
		fs = append(fs, hostFinding{inv, "[exec:$" + n + "]: the condition names no program, the line must not run", "ran", "skipped"})
	}
	if len(o.rec["cond-exec-not-taken"]) != 1 && o.verdict == "PASS" {
		fs = append(fs, hostFinding{inv, "[!exec:$" + n + "]: the condition names no program, the line must run", "skipped", "ran"})
	}
	if len(o.conds) > 0 && o.conds[0] != "hc:" {
		fs = append(fs, hostFinding{inv, "the condition handed to Params.Condition for [hc:$" + n + "]", o.conds[0], "hc:"})
	}
	// `env N` prints N=value
	for _, l := range strings.Split(o.log, "\n") {
		if strings.HasPrefix(l, n+"=") && l != n+"=" && !strings.HasPrefix(l, n+"=script-value") {
			fs = append(fs, hostFinding{inv, "the line printed by `env " + n + "`", l, n + "="})
			break
		}
	}
	// executed programs
	for i, blk := range o.child {
		if blk == nil {
			continue
		}
		assigned := i >= 2 // the third block is taken after the script's own assignment
		for _, e := range blk {
			k, val, _ := strings.Cut(e, "=")
			if k == n && !assigned {
				fs = append(fs, hostFinding{"host-env-not-in-child", fmt.Sprintf("environment of executed program #%d", i+1), e, "no entry for " + n})
			}
			if k == n && assigned && val != "script-value" {
				fs = append(fs, hostFinding{"host-env-not-in-child", fmt.Sprintf("environment of executed program #%d (after env %s=script-value)", i+1, n), e, n + "=script-value"})
			}
		}
	}
	if r := o.rec["assigned"]; len(r) == 1 && !eqWords(r[0], "script-value", "script-value", "script-value") {
		fs = append(fs, hostFinding{inv, "words of hrec assigned $" + n + " ${" + n + "} ${" + n + "@R} after env " + n + "=script-value", showWords(r[0]), showWords([]string{"script-value", "script-value", "script-value"})})
	}
	if got, ok := o.get["after:"+n]; ok && got != "script-value" {
		fs = append(fs, hostFinding{inv, "ts.Getenv(" + n + ") after env " + n + "=script-value", got, "script-value"})
	}
	if o.verdict != "PASS" {
		// after the specific findings: which line failed is in the words / cmpenv / exists findings above
		what := "verdict of the script (every line is valid when " + n + " expands to nothing: `cmpenv got-empty want` with the template v=$" + n + "|${" + n + "}|${" + n + "@R}|, `! cmpenv got-host want`, `exists f--.txt` for the archive entry f-$" + n + "-.txt)"
		fs = append(fs, hostFinding{inv, what, o.verdict, "PASS"})
	}
	for _, d := range append(append([]string{}, o.host...), after...) {
		fs = append(fs, hostFinding{"host-untouched", d, "changed", "unchanged"})
	}
	return fs
}

var hostSeq int

// runHost runs one RunT call over the scripts of the specs.
func runHost(work string, specs []hostSpec) ([]*hostObs, []string) {
	hostSeq++
	dir := filepath.Join(work, fmt.Sprintf("hostenv-%d", hostSeq))
	os.MkdirAll(dir, 0o777)
	defer os.RemoveAll(dir)
	hostCur, hostSpec_ = map[string]*hostObs{}, map[string]hostSpec{}
	var files []string
	obs := make([]*hostObs, len(specs))
	names := make([]string, len(specs))
	for i, sp := range specs {
		// the host defines the name (replay: also when it is no longer in the real environment)
		if cur, ok := os.LookupEnv(sp.name()); !ok || cur != sp.value() {
			os.Setenv(sp.name(), sp.value())
		}
		names[i] = fmt.Sprintf("h%04d", i)
		f := filepath.Join(dir, names[i]+".txt")
		os.WriteFile(f, []byte(hostScript(sp)), 0o666)
		files = append(files, f)
		obs[i] = &hostObs{rec: map[string][][]string{}, get: map[string]string{}}
		hostCur[names[i]], hostSpec_[names[i]] = obs[i], sp
	}
	hostEnv0 = os.Environ()
	sort.Strings(hostEnv0)
	hostWd0, _ = os.Getwd()
	// verbose: the log (with the line printed by `env N`) is handed to T.Log also when the script passes
	t := &tT{verdict: map[string]string{}, logs: map[string]string{}, verbose: true}
	curName := func(env *testscript.Env) string { return strings.TrimPrefix(filepath.Base(env.WorkDir), "script-") }
	p := testscript.Params{
		Files:           files,
		Cmds:            hostCmds,
		ContinueOnError: true,
		Condition: func(cond string) (bool, error) {
			if o := hostCur[t.cur]; o != nil {
				o.conds = append(o.conds, cond)
			}
			return strings.HasPrefix(cond, "hc:"), nil
		},
		Setup: func(env *testscript.Env) error {
			env.Vars = append(env.Vars, "PATH="+helperDir+string(os.PathListSeparator)+os.Getenv("PATH"))
			if o := hostCur[curName(env)]; o != nil {
				o.vars = append([]string{}, env.Vars...)
			}
			return nil
		},
	}
	func() {
		defer func() {
			if e := recover(); e != nil {
				t.fatal = append(t.fatal, fmt.Sprint("RunT: ", e))
			}
		}()
		testscript.RunT(t, p)
	}()
	for i, n := range names {
		obs[i].verdict, obs[i].log = t.verdict[n], t.logs[n]
		if obs[i].verdict == "" {
			obs[i].verdict = "NOT-RUN " + strings.Join(t.fatal, "; ")
		}
	}
	return obs, hostDiff("after RunT returned")
}

// hostCanaries: the specs of the run — planted names and the regular names of the real host
// environment that the script's initial environment does not define.
func hostCanaries(scriptKeys map[string]bool) []hostSpec {
	var out []hostSpec
	env := os.Environ()
	sort.Strings(env)
	for _, e := range env {
		k, v, _ := strings.Cut(e, "=")
		if !regularName.MatchString(k) || hostShared[k] || scriptKeys[k] || v == "" || k == hostScriptVar || strings.ContainsAny(v, "\n\r") || len(v) > 4096 {
			continue
		}
		if pv, planted := plantedCanaries()[k]; planted && pv == v {
			out = append(out, hostSpec{hexOf(k), hexOf(v)})
		} else {
			out = append(out, hostSpec{Name: hexOf(k)})
		}
	}
	return out
}

func hostInput(sp hostSpec) map[string]string {
	b, _ := json.Marshal(sp)
	return map[string]string{"mode": "host-env", "spec": string(b),
		"host_variable": sp.mask(fmt.Sprintf("%s=%q in the environment of the process that calls testscript.RunT", sp.name(), sp.value())),
		"script_text":   sp.mask(fmt.Sprintf("%q", hostScript(sp))),
		"reading":       "hrec records its words, hget ts.Getenv, hgrab/hchild the environment of the envdump helper, hhost compares the runner's own environment and directory with what they were; Params.Condition answers true for hc:*"}
}

func (rn *runner) reportHost(sp hostSpec, fs []hostFinding) {
	seen := map[string]bool{}
	for _, f := range fs {
		rn.res.Count("oracle-fails:" + f.oracle)
		if seen[f.oracle] {
			continue
		}
		seen[f.oracle] = true
		if rn.shrunk["o:"+f.oracle]++; rn.shrunk["o:"+f.oracle] > 3 {
			continue
		}
		in := hostInput(sp)
		in["oracle"] = f.oracle
		rn.res.Violate(common.Violation{Kind: "impl-violation", Oracle: f.oracle, Input: in, Impl: sp.mask(f.got), Model: sp.mask(f.want),
			Key: f.oracle + ":" + in["spec"], Detail: sp.mask(f.what)})
	}
}

// hostScenario runs (b) and (c); it returns the number of scripts.
func (rn *runner) hostScenario() int {
	// which names does a script define from the start?  Ask one script.
	probe, _ := runHost(rn.f.Work, []hostSpec{{hexOf("TSPARSE_CANARY"), hexOf(os.Getenv("TSPARSE_CANARY"))}})
	keys := map[string]bool{}
	for _, kv := range probe[0].vars {
		k, _, _ := strings.Cut(kv, "=")
		keys[k] = true
	}
	specs := hostCanaries(keys)
	if len(specs) == 0 {
		rn.res.Notes = append(rn.res.Notes, "host-env: no canary variable in the runner's environment (plantHostCanaries not called?)")
		return 0
	}
	for lo := 0; lo < len(specs); lo += 16 {
		part := specs[lo:min(len(specs), lo+16)]
		obs, after := runHost(rn.f.Work, part)
		for i, sp := range part {
			rn.res.Count("host-env:scripts")
			if _, planted := plantedCanaries()[sp.name()]; planted {
				rn.res.Count("host-env:planted-name")
			} else {
				rn.res.Count("host-env:real-host-name")
			}
			for _, k := range []string{"plain", "braces", "regexp", "glued", "quoted", "twice", "env-args", "getenv", "env-display", "cond-exec", "cond-custom", "cmpenv", "archive-name", "child-exec", "child-ts.Exec", "assigned-wins", "host-untouched"} {
				rn.res.Case("host:"+sp.Name+":"+k, true)
			}
			o := obs[i]
			if strings.Contains("\n"+o.log, "\n"+sp.name()+"=\n") {
				rn.res.Count("host-env:seen:env-NAME-prints-empty-value")
			}
			if len(o.conds) > 0 {
				rn.res.Count("host-env:seen:custom-condition-asked")
			}
			if len(o.child) == 3 && o.child[0] != nil && o.child[1] != nil && o.child[2] != nil {
				rn.res.Count("host-env:seen:three-child-environments")
			}
			if len(o.rec) >= 8 {
				rn.res.Count("host-env:seen:all-recorded-lines")
			}
			if o.verdict == "PASS" {
				rn.res.Count("host-env:seen:script-passes")
			}
			var aft []string
			if i == 0 {
				aft = after
			}
			if fs := checkHost(sp, obs[i], aft); len(fs) > 0 {
				rn.reportHost(sp, fs)
			}
		}
	}
	return len(specs)
}

func (rn *runner) replayHost(v common.Violation) {
	var sp hostSpec
	if err := json.Unmarshal([]byte(v.Input["spec"]), &sp); err != nil {
		rn.res.Notes = append(rn.res.Notes, "replay: bad spec: "+err.Error())
		return
	}
	obs, after := runHost(rn.f.Work, []hostSpec{sp})
	rn.res.Case("host-env-replay", true)
	seen := map[string]bool{}
	for _, f := range checkHost(sp, obs[0], after) {
		if seen[f.oracle] {
			continue
		}
		seen[f.oracle] = true
		rn.res.Violate(common.Violation{Kind: "impl-violation", Oracle: f.oracle, Input: v.Input, Impl: sp.mask(f.got), Model: sp.mask(f.want), Key: f.oracle + ":" + v.Input["spec"], Detail: sp.mask(f.what)})
	}
}

package main

// The script level of C02: (1) long lines — words, quoted words, comments and expansions of
// 1 KiB ... 1 MiB at the start, in the middle and at the end of multi-line scripts: EVERY line's
// words must reach its command, once, in order; (2) histories — multi-step scripts mixing env
// assignments (repeated, in non-sorted order), the argument-less env, env NAME, ts.Setenv, cd,
// commands that only read, and executed programs at every step: after every step the child's
// environment, $K, ${K@R} and ts.Getenv must all be the latest assignment.
//
// Both scenarios are described by small JSON specs (a line = a list of words given as
// unit x count; a step = an assignment list / a directory / a raw line) from which the script
// text AND the expectation are derived, so that a replay file stays small and shrinking works
// on the description.

import (
	"encoding/json"
	"fmt"
	"path/filepath"
	"regexp"
	"strings"
	"unicode/utf8"

	"verif/harness/common"
)

// ---------------------------------------------------------------- long lines

type wspec struct {
	F string `json:"f"` // plain | quoted | var | brace | regex
	U string `json:"u"` // hex: the unit of the value (plain, quoted) or the variable name
	N int    `json:"n"` // repetitions of the unit
}

type lspec struct {
	K   string  `json:"k"`             // rec | env | bigset | comment | blank
	W   []wspec `json:"w,omitempty"`   // rec: the words; env, bigset: W[0] is the value
	Sep string  `json:"sep,omitempty"` // hex: separator between words (default one space)
	C   *wspec  `json:"c,omitempty"`   // trailing comment (rec) / the comment (comment)
	CR  bool    `json:"cr,omitempty"`  // the line ends in CR (CRLF script)
	Key string  `json:"key,omitempty"` // env, bigset: the variable
}

type longScript struct {
	Lines []lspec `json:"lines"`
	Open  bool    `json:"open,omitempty"` // no line feed after the last line
}

func (w wspec) value() string { return strings.Repeat(string(common.UnHex(w.U)), w.N) }

// render: the script text, the argument vectors the rec command must receive (one per rec
// line, in order) and the index of the line each belongs to.
func (ls *longScript) render() (text string, want [][]string, lineOf []int, lines []string) {
	vals := map[string]string{}
	for i, l := range ls.Lines {
		var sb strings.Builder
		sep := " "
		if l.Sep != "" {
			sep = string(common.UnHex(l.Sep))
		}
		switch l.K {
		case "rec":
			sb.WriteString("rec")
			argv := []string{}
			for _, w := range l.W {
				sb.WriteString(sep)
				name := string(common.UnHex(w.U))
				switch w.F {
				case "plain":
					sb.WriteString(w.value())
					argv = append(argv, w.value())
				case "quoted":
					sb.WriteString(sqGo(w.value()))
					argv = append(argv, w.value())
				case "var":
					sb.WriteString("$" + name)
					argv = append(argv, vals[name])
				case "brace":
					sb.WriteString("${" + name + "}")
					argv = append(argv, vals[name])
				case "regex":
					sb.WriteString("${" + name + "@R}")
					argv = append(argv, regexp.QuoteMeta(vals[name]))
				}
			}
			if l.C != nil {
				sb.WriteString(" #" + l.C.value())
			}
			want = append(want, argv)
			lineOf = append(lineOf, i)
		case "env":
			v := l.W[0].value()
			sb.WriteString("env " + sqGo(l.Key+"="+v))
			if l.C != nil {
				sb.WriteString(" #" + l.C.value())
			}
			vals[l.Key] = v
		case "bigset":
			sb.WriteString(fmt.Sprintf("bigset %s %s %d", l.Key, l.W[0].U, l.W[0].N))
			vals[l.Key] = l.W[0].value()
		case "comment":
			sb.WriteString("#" + l.C.value())
		case "blank":
			sb.WriteString(string(common.UnHex(l.Sep)))
		}
		if l.CR {
			sb.WriteString("\r")
		}
		lines = append(lines, sb.String())
	}
	text = strings.Join(lines, "\n")
	if !ls.Open && len(lines) > 0 {
		text += "\n"
	}
	return
}

func (ls *longScript) longest() int {
	_, _, _, lines := ls.render()
	m := 0
	for _, l := range lines {
		m = max(m, len(l))
	}
	return m
}

// lengths a long element takes: around every power of two from 1 KiB to 1 MiB, with the values
// next to 64 KiB (the default token limit of bufio.Scanner) and 4 KiB (the usual buffer size)
var longSizes = []int{1 << 10, 4095, 4096, 4097, 1 << 13, 1 << 14, 1 << 15, 65000, 65535, 65536, 65537, 66000, 100000, 1 << 17, 1 << 18, 1 << 19, 1 << 20}

var longUnits = []string{"x", "ab", "é", "w ", "it's ", "$A ", "# ", "\t", "a=b;", "\\", "\xff", "q''", "${A}", "\r"}

func hexOf(s string) string { return common.Hex([]byte(s)) }

// genLongElement: one long word (or comment) of about size bytes
func genLongWord(r *common.RNG, size int, forms []string) wspec {
	f := common.Pick(r, forms)
	u := "x"
	switch f {
	case "plain":
		u = common.Pick(r, []string{"x", "ab", "é", "a=b;", "\\", "\xff", "0123456789", "{}", "@R"})
	case "quoted":
		u = common.Pick(r, longUnits)
	}
	n := max(1, size/len(u))
	if q := strings.Count(u, "'"); q > 0 {
		// every doubled quote makes parse copy the word accumulated so far (arg += ...): the
		// implementation is quadratic in their number; keep that cost out of the run
		n = min(n, 3000/q)
	}
	return wspec{F: f, U: hexOf(u), N: n}
}

func shortWord(r *common.RNG) wspec {
	if r.Chance(1, 2) {
		return wspec{F: "plain", U: hexOf(genPlain(r, 1)), N: 1}
	}
	return wspec{F: "quoted", U: hexOf(strings.ReplaceAll(genValue(r), "\x00", "")), N: 1}
}

func shortLine(r *common.RNG, tag string) lspec {
	l := lspec{K: "rec", W: []wspec{{F: "plain", U: hexOf(tag), N: 1}}}
	for i, n := 0, r.Intn(3); i < n; i++ {
		l.W = append(l.W, shortWord(r))
	}
	if r.Chance(1, 6) {
		l.CR = true
	}
	return l
}

// genLongScript: a multi-line script with one or two long lines; pos says where the (first)
// long line stands: 0 first line, 1 middle, 2 last line.  modelFriendly keeps the long lines
// inside what the extracted tokenizer handles in linear time (many short words, long comments,
// long values reached through expansion): these scripts also go through run_script of the model.
func genLongScript(r *common.RNG, pos int, size int, modelFriendly bool) *longScript {
	ls := &longScript{}
	nBefore := []int{0, 1 + r.Intn(4), 2 + r.Intn(4)}[pos]
	nAfter := []int{2 + r.Intn(4), 1 + r.Intn(4), 0}[pos]
	for i := 0; i < nBefore; i++ {
		ls.Lines = append(ls.Lines, shortLine(r, fmt.Sprintf("b%d", i)))
	}
	var long []lspec
	kind := r.Intn(8)
	if modelFriendly {
		kind = []int{2, 3, 5, 6}[r.Intn(4)]
	}
	switch kind {
	case 0: // one long plain word
		long = []lspec{{K: "rec", W: []wspec{{F: "plain", U: hexOf("L"), N: 1}, genLongWord(r, size, []string{"plain"})}}}
	case 1: // one long quoted word, other words around it
		long = []lspec{{K: "rec", W: []wspec{shortWord(r), genLongWord(r, size, []string{"quoted"}), shortWord(r)}}}
	case 2: // many short words
		unit := common.Pick(r, []string{"w", "ab12", "'q r'", "é"})
		if modelFriendly {
			// the extracted tokenizer appends to the word list in quadratic time: fewer, longer words
			unit = common.Pick(r, []string{"abcdefghijklmnop", "'quoted word: q'", "0123456789=ABCDEFGHIJ"})
		}
		w := wspec{F: "plain", U: hexOf(unit), N: 1}
		if strings.HasPrefix(unit, "'") {
			w = wspec{F: "quoted", U: hexOf(strings.Trim(unit, "'")), N: 1}
		}
		n := size / (len(unit) + 1)
		if modelFriendly {
			n = min(n, 7000)
		}
		l := lspec{K: "rec", Sep: hexOf(common.Pick(r, []string{" ", "\t", "  "}))}
		for i := 0; i < n; i++ {
			l.W = append(l.W, w)
		}
		long = []lspec{l}
	case 3: // a long comment after a few words
		c := wspec{F: "plain", U: hexOf(common.Pick(r, []string{"c", " 'x", "$A ", "# "})), N: 1}
		c.N = size / len(c.value())
		long = []lspec{{K: "rec", W: []wspec{shortWord(r), shortWord(r)}, C: &c}}
	case 4: // a long value assigned by a long env line, used by a short line
		v := genLongWord(r, size, []string{"quoted"})
		long = []lspec{{K: "env", Key: "BIG", W: []wspec{v}},
			{K: "rec", W: []wspec{{F: "var", U: hexOf("BIG")}, {F: "brace", U: hexOf("BIG")}}}}
	case 5: // a long value set through ts.Setenv (short lines, long expansions)
		v := genLongWord(r, size, []string{"quoted"})
		long = []lspec{{K: "bigset", Key: "BIG", W: []wspec{v}},
			{K: "rec", W: []wspec{{F: "brace", U: hexOf("BIG")}, {F: "regex", U: hexOf("BIG")}, {F: "var", U: hexOf("BIG")}}}}
		if modelFriendly {
			// the model has no ts.Setenv inside run_script: a short env line and a long comment instead
			c := wspec{F: "plain", U: hexOf("k"), N: size}
			long = []lspec{{K: "env", Key: "BIG", W: []wspec{{F: "quoted", U: hexOf("v w"), N: 40}}, C: &c},
				{K: "rec", W: []wspec{{F: "brace", U: hexOf("BIG")}, {F: "regex", U: hexOf("BIG")}, {F: "var", U: hexOf("BIG")}}}}
		}
	case 6: // a long phase comment / a long blank line
		if r.Chance(1, 2) {
			c := wspec{F: "plain", U: hexOf(common.Pick(r, []string{" phase", "'", "-"})), N: 1}
			c.N = size / len(c.value())
			long = []lspec{{K: "comment", C: &c}}
		} else {
			long = []lspec{{K: "blank", Sep: hexOf(strings.Repeat(common.Pick(r, []string{" ", "\t", " \r"}), size))}}
		}
	default: // several long words on one line
		k := 2 + r.Intn(3)
		l := lspec{K: "rec"}
		for i := 0; i < k; i++ {
			l.W = append(l.W, genLongWord(r, size/k, []string{"plain", "quoted"}))
		}
		long = []lspec{l}
	}
	if r.Chance(1, 5) {
		long[len(long)-1].CR = true
	}
	ls.Lines = append(ls.Lines, long...)
	for i := 0; i < nAfter; i++ {
		ls.Lines = append(ls.Lines, shortLine(r, fmt.Sprintf("a%d", i)))
	}
	if pos == 2 && r.Chance(1, 3) {
		ls.Open = true
	}
	return ls
}

func preview(s string, n int) string {
	if len(s) <= n {
		return fmt.Sprintf("%q", s)
	}
	return fmt.Sprintf("%q...(%d bytes)...%q", s[:n/2], len(s), s[len(s)-n/2:])
}

func previewWords(ws []string) string {
	var p []string
	for i, w := range ws {
		if i >= 6 {
			p = append(p, fmt.Sprintf("...(%d words)", len(ws)))
			break
		}
		p = append(p, preview(w, 40))
	}
	return "[" + strings.Join(p, " ") + "]"
}

// checkLong: the model-free oracle.  Every rec line must have reached the rec command exactly
// once, in order, with the words known by construction.
func checkLong(ls *longScript, o *scriptObs) (fails bool, detail, impl, want string) {
	_, wants, lineOf, lines := ls.render()
	if o.verdict != "PASS" {
		return true, "the script did not pass: " + o.verdict, o.verdict, "PASS"
	}
	for i, w := range wants {
		if i >= len(o.seq) {
			return true, fmt.Sprintf("line %d of %d (%d bytes: %s) never reached its command: the command ran for %d of the %d command lines of the script, and the script still passed",
				lineOf[i]+1, len(lines), len(lines[lineOf[i]]), preview(lines[lineOf[i]], 40), len(o.seq), len(wants)), fmt.Sprintf("%d invocations", len(o.seq)), fmt.Sprintf("%d invocations", len(wants))
		}
		if !eqStrings(o.seq[i], w) {
			return true, fmt.Sprintf("line %d of %d (%d bytes): the command received other words than the line holds", lineOf[i]+1, len(lines), len(lines[lineOf[i]])), previewWords(o.seq[i]), previewWords(w)
		}
	}
	if len(o.seq) > len(wants) {
		return true, "the command ran more often than the script has command lines", fmt.Sprintf("%d invocations", len(o.seq)), fmt.Sprintf("%d invocations", len(wants))
	}
	return false, "", "", ""
}

func (rn *runner) runLong(ls *longScript) *scriptObs {
	text, _, _, _ := ls.render()
	sc := &script{raw: text, bare: true, names: []string{"BIG", "A"}}
	return runImpl(rn.f.Work, []*script{sc}, false)[0]
}

func (rn *runner) longFails(ls *longScript) bool {
	if len(ls.Lines) == 0 {
		return false
	}
	f, _, _, _ := checkLong(ls, rn.runLong(ls))
	return f
}

// shrinkLong: fewer lines, then shorter long elements (halving while the failure persists).
func (rn *runner) shrinkLong(ls *longScript) *longScript {
	cur := &longScript{Lines: common.ShrinkList(ls.Lines, func(c []lspec) bool { return rn.longFails(&longScript{Lines: c, Open: ls.Open}) }), Open: ls.Open}
	clone := func() *longScript {
		b, _ := json.Marshal(cur)
		var c longScript
		json.Unmarshal(b, &c)
		return &c
	}
	for li := range cur.Lines {
		// fewer words
		if len(cur.Lines[li].W) > 3 {
			for len(cur.Lines[li].W) > 1 {
				c := clone()
				c.Lines[li].W = c.Lines[li].W[:len(c.Lines[li].W)/2]
				if !rn.longFails(c) {
					break
				}
				cur = c
			}
		}
		for wi := range cur.Lines[li].W {
			for cur.Lines[li].W[wi].N > 1 {
				c := clone()
				c.Lines[li].W[wi].N /= 2
				if !rn.longFails(c) {
					break
				}
				cur = c
			}
		}
		if cur.Lines[li].C != nil {
			for cur.Lines[li].C.N > 1 {
				c := clone()
				c.Lines[li].C.N /= 2
				if !rn.longFails(c) {
					break
				}
				cur = c
			}
		}
	}
	return cur
}

func longInput(ls *longScript) map[string]string {
	b, _ := json.Marshal(ls)
	text, _, _, lines := ls.render()
	return map[string]string{"mode": "long-lines", "spec": string(b), "script_text": preview(text, 160),
		"lines": fmt.Sprint(len(lines)), "longest_line_bytes": fmt.Sprint(ls.longest()), "script_bytes": fmt.Sprint(len(text)),
		"reading": "spec: lines of words; a word is the unit u (hex) repeated n times, written plain, single-quoted, or as $NAME / ${NAME} / ${NAME@R}; c = comment; the script text is rebuilt from it on replay"}
}

func (rn *runner) reportLong(ls *longScript, o *scriptObs) {
	rn.res.Count("oracle-fails:every-line-runs")
	if rn.shrunk["o:every-line-runs"]++; rn.shrunk["o:every-line-runs"] > 3 {
		return
	}
	small := rn.shrinkLong(ls)
	so := rn.runLong(small)
	fails, detail, impl, want := checkLong(small, so)
	if !fails {
		small, so = ls, o
		_, detail, impl, want = checkLong(ls, o)
	}
	in := longInput(small)
	in["oracle"] = "every-line-runs"
	rn.res.Violate(common.Violation{Kind: "impl-violation", Oracle: "every-line-runs", Input: in, Impl: impl, Model: want,
		Key: "every-line-runs:" + in["spec"], Detail: detail})
}

// modelLong: the same script through run_script of the model (the model cuts the text into lines
// itself); the rec lines of the model, in order, are what the rec command recorded; the final
// environment agrees.
func (rn *runner) modelLong(m *common.Model, ls *longScript, o *scriptObs) (string, string, string) {
	text, _, _, _ := ls.render()
	names := []string{"BIG", "A", "HOME", "WORK"}
	ans, err := m.Ask([]string{strings.TrimSpace("reset " + common.Hex([]byte(o.cd)) + " " + hexes(o.vars)), "script " + common.Hex([]byte(text)), "getenv " + hexes(names)})
	if err != nil {
		return "model-process", err.Error(), ""
	}
	parts := strings.Split(ans[1], " ; ")
	var mseq [][]string
	for _, p := range parts[1:] {
		f := strings.Fields(p)
		if len(f) >= 2 && f[0] == "args" && f[1] == common.Hex([]byte("rec")) {
			mseq = append(mseq, unhexes(f[2:]))
		}
	}
	if len(mseq) != len(o.seq) {
		return "run_script", fmt.Sprintf("%d rec lines", len(mseq)), fmt.Sprintf("%d rec invocations", len(o.seq))
	}
	for i := range mseq {
		if !eqStrings(mseq[i], o.seq[i]) {
			return "run_script", fmt.Sprintf("rec line %d: %s", i+1, previewWords(mseq[i])), previewWords(o.seq[i])
		}
	}
	return "", "", ""
}

// splitCheck: script_lines_tr of the model on the whole text (any size) against the lines the
// script was written from.
func (rn *runner) splitCheck(m *common.Model, ls *longScript) (string, string) {
	text, _, _, lines := ls.render()
	if ls.Open && len(lines) > 0 && lines[len(lines)-1] == "" {
		lines = lines[:len(lines)-1] // an empty unterminated last line is no line
	}
	want := fmt.Sprint(len(lines))
	for _, l := range lines {
		want += fmt.Sprint(" ", len(l))
	}
	return m.Ask1("split " + common.Hex([]byte(text))), want
}

func (rn *runner) longLines(r *common.RNG) int {
	nFree, nModel := 3*len(longSizes), 9
	sizes := longSizes
	if rn.f.Tier == "thorough" {
		nFree, nModel = 400, 60
	}
	type job struct {
		ls    *longScript
		model bool
	}
	var jobs []job
	for i := 0; i < nFree; i++ {
		// every size at every position
		jobs = append(jobs, job{genLongScript(r, i%3, sizes[(i/3)%len(sizes)], false), false})
	}
	for i := 0; i < nModel; i++ {
		size := common.Pick(r, []int{66000, 70000, 100000, 1 << 17, 200000})
		jobs = append(jobs, job{genLongScript(r, i%3, size, true), true})
	}
	// implementation: all scripts in one RunT call
	scs := make([]*script, len(jobs))
	for i, j := range jobs {
		text, _, _, _ := j.ls.render()
		scs[i] = &script{raw: text, bare: true, names: []string{"BIG", "A"}}
	}
	obs := runImpl(rn.f.Work, scs, false)
	ms := append([]*common.Model{rn.m}, extraModels...)
	type mres struct{ fn, model, impl, split, splitWant string }
	results := make([]mres, len(jobs))
	done := make(chan bool, len(ms))
	for w := range ms {
		go func(w int) {
			for i := w; i < len(jobs); i += len(ms) {
				if jobs[i].model {
					results[i].fn, results[i].model, results[i].impl = rn.modelLong(ms[w], jobs[i].ls, obs[i])
				}
				results[i].split, results[i].splitWant = rn.splitCheck(ms[w], jobs[i].ls)
			}
			done <- true
		}(w)
	}
	for range ms {
		<-done
	}
	for i, j := range jobs {
		o := obs[i]
		text, wants, _, lines := j.ls.render()
		rn.res.Count("long-lines:scripts")
		rn.res.Count("long-lines:longest-line-" + sizeClass(j.ls.longest()))
		rn.res.Count("long-lines:position-" + []string{"first", "middle", "last"}[i%3])
		for range lines {
			rn.res.Case("long:"+fmt.Sprint(i, len(text)), true)
		}
		rn.res.Count("oracle:every-line-runs")
		_ = wants
		if fails, _, _, _ := checkLong(j.ls, o); fails {
			rn.reportLong(j.ls, o)
		}
		if results[i].split != results[i].splitWant {
			in := longInput(j.ls)
			rn.res.Count("mismatch:script_lines")
			rn.res.Violate(common.Violation{Kind: "correspondence", Oracle: "script_lines", Input: in, Model: preview(results[i].split, 120), Impl: preview(results[i].splitWant, 120),
				Key: "script_lines:" + in["spec"], Detail: "the model's line splitter gives other lines than the ones the script was written from (number of lines, then their lengths)"})
		}
		if j.model {
			rn.res.Count("long-lines:through-run_script")
			if results[i].fn != "" {
				in := longInput(j.ls)
				rn.res.Count("mismatch:" + results[i].fn)
				rn.res.Violate(common.Violation{Kind: "correspondence", Oracle: results[i].fn, Input: in, Model: results[i].model, Impl: results[i].impl,
					Key: results[i].fn + ":" + in["spec"], Detail: "run_script of the model (the model cuts the script into lines and tokenizes each) and the invocations recorded by the rec command differ"})
			}
		}
	}
	return len(jobs)
}

func sizeClass(n int) string {
	switch {
	case n < 4096:
		return "<4KiB"
	case n < 65536:
		return "4KiB..64KiB"
	case n < 1<<17:
		return "64KiB..128KiB"
	case n < 1<<20:
		return "128KiB..1MiB"
	}
	return ">=1MiB"
}

func (rn *runner) replayLong(v common.Violation) {
	var ls longScript
	if err := json.Unmarshal([]byte(v.Input["spec"]), &ls); err != nil {
		rn.res.Notes = append(rn.res.Notes, "replay: bad spec: "+err.Error())
		return
	}
	o := rn.runLong(&ls)
	rn.res.Case("long-replay", true)
	if fails, detail, impl, want := checkLong(&ls, o); fails {
		rn.res.Violate(common.Violation{Kind: "impl-violation", Oracle: "every-line-runs", Input: v.Input, Impl: impl, Model: want, Key: v.Key, Detail: detail})
	}
	if s, w := rn.splitCheck(rn.m, &ls); s != w {
		rn.res.Violate(common.Violation{Kind: "correspondence", Oracle: "script_lines", Input: v.Input, Model: preview(s, 120), Impl: preview(w, 120), Key: "script_lines:" + v.Input["spec"]})
	}
	if ls.longest() < 20000 || v.Oracle == "run_script" {
		if fn, mo, im := rn.modelLong(rn.m, &ls, o); fn != "" {
			rn.res.Violate(common.Violation{Kind: "correspondence", Oracle: fn, Input: v.Input, Model: mo, Impl: im, Key: fn + ":" + v.Input["spec"]})
		}
	}
}

// ---------------------------------------------------------------- histories

// the files of a history script, for the commands that only read
const historyArchive = "-- f.txt --\nhello world\nsecond line\n-- f2.txt --\nhello world\nsecond line\n-- sub/g.txt --\ng\n-- sub/deep/h.txt --\nh\n"

type hspec struct {
	K string      `json:"k"`           // env | setenv | cd | raw
	A [][2]string `json:"a,omitempty"` // env: NAME, VALUE pairs (hex), written as quoted arguments; a pair with NAME only (VALUE "?") is env NAME
	D string      `json:"d,omitempty"` // cd: directory relative to $WORK ("" = $WORK itself)
	T string      `json:"t,omitempty"` // raw: the line (a command that only reads); cd: the way the directory is written
}

type history struct {
	Steps   []hspec  `json:"steps"`
	Keys    []string `json:"keys"` // the observed variables (regular names)
	Setup   int      `json:"setup"`
	Verbose bool     `json:"verbose,omitempty"`
}

var histKeys = []string{"X", "Y", "Z", "HOME", "LONG_name"}

// values: chosen so that later assignments often sort before earlier ones
var histValues = []string{"b", "a", "zz", "", "A", "10", "9", "x y", "q'q", "$X", "a=b", "#", "~", "0", "é", "B", "aa", " ", "${Y}", "-"}

var readOnlyLines = []string{"env", "env", "env", "env X", "env Y HOME", "exists $WORK/f.txt", "! exists $WORK/nope", "grep hello $WORK/f.txt",
	"! grep nothere $WORK/f.txt", "cmp $WORK/f.txt $WORK/f2.txt", "! stdout NOPE", "! stderr NOPE", "[exec:envdump] exists $WORK/sub/g.txt",
	"[!exec:no-such-program-xyz] env", "exists $WORK/sub/deep/h.txt", "env  # listing", "'env'", "# phase comment", ""}

func genHistory(r *common.RNG, idx int) *history {
	h := &history{Keys: histKeys, Setup: idx % 6, Verbose: idx%5 == 4}
	n := 10 + r.Intn(14)
	for i := 0; i < n; i++ {
		switch k := r.Intn(12); {
		case k < 4: // one assignment
			h.Steps = append(h.Steps, hspec{K: "env", A: [][2]string{{hexOf(common.Pick(r, histKeys[:4])), hexOf(common.Pick(r, histValues))}}})
		case k < 6: // several assignments, the same variable possibly twice, display arguments in between
			var a [][2]string
			for j, m := 0, 2+r.Intn(3); j < m; j++ {
				if r.Chance(1, 5) {
					a = append(a, [2]string{hexOf(common.Pick(r, histKeys)), "?"})
				} else {
					a = append(a, [2]string{hexOf(common.Pick(r, histKeys[:3])), hexOf(common.Pick(r, histValues))})
				}
			}
			h.Steps = append(h.Steps, hspec{K: "env", A: a})
		case k < 7: // ts.Setenv from a custom command
			h.Steps = append(h.Steps, hspec{K: "setenv", A: [][2]string{{hexOf(common.Pick(r, histKeys)), hexOf(common.Pick(r, histValues))}}})
		case k < 8:
			d := common.Pick(r, []string{"", "sub", "sub/deep"})
			t := "cd $WORK"
			if d != "" {
				t = common.Pick(r, []string{"cd $WORK/", "cd ${WORK}/"}) + d
			}
			h.Steps = append(h.Steps, hspec{K: "cd", D: d, T: t})
		default: // a command that only reads
			h.Steps = append(h.Steps, hspec{K: "raw", T: common.Pick(r, readOnlyLines)})
		}
	}
	return h
}

type histView struct {
	step  int // index of the step the observation follows (-1: before the first step)
	t, p  int // items: the expansion line, the probe
	c     int // the child observation
	vals  map[string]string
	dir   string
	steps int
}

// build: the script (items) and, after every step, the values known by construction.
func (h *history) build() (*script, []histView) {
	sc := &script{names: append(append([]string{}, h.Keys...), "PWD", "WORK", "PATH"), setupMode: h.Setup, bare: true, archive: historyArchive, verbose: h.Verbose}
	vals := map[string]string{}
	for _, k := range h.Keys {
		vals[k] = ""
	}
	vals["HOME"] = "/no-home" // predefined
	for k, v := range setupKnown(h.Setup) {
		if _, ok := vals[k]; ok {
			vals[k] = v
		}
	}
	dir := ""
	var views []histView
	var refs []string
	for _, k := range h.Keys {
		refs = append(refs, "$"+k, "${"+k+"@R}", "${"+k+"}")
	}
	observe := func(step int) {
		v := histView{step: step, vals: map[string]string{}, dir: dir}
		for k, x := range vals {
			v.vals[k] = x
		}
		sc.items = append(sc.items, item{kind: 'T', text: "args " + strings.Join(refs, " "), k: h.Keys[0], v: vals[h.Keys[0]]})
		v.t = len(sc.items) - 1
		sc.items = append(sc.items, item{kind: 'P'})
		v.p = len(sc.items) - 1
		if step%2 == 0 {
			sc.items = append(sc.items, item{kind: 'E'})
		} else {
			sc.items = append(sc.items, item{kind: 'X'})
		}
		v.c = len(sc.items) - 1
		views = append(views, v)
	}
	observe(-1)
	for i, st := range h.Steps {
		switch st.K {
		case "env":
			line := "env"
			for _, a := range st.A {
				k := string(common.UnHex(a[0]))
				if a[1] == "?" {
					line += " " + k
					continue
				}
				v := string(common.UnHex(a[1]))
				line += " " + sqGo(k+"="+v)
				vals[k] = v
			}
			sc.items = append(sc.items, item{kind: 'H', text: line})
		case "setenv":
			k, v := string(common.UnHex(st.A[0][0])), string(common.UnHex(st.A[0][1]))
			sc.items = append(sc.items, item{kind: 'S', k: k, v: v})
			vals[k] = v
		case "cd":
			sc.items = append(sc.items, item{kind: 'D', text: st.T, v: st.D})
			dir = st.D
		case "raw":
			sc.items = append(sc.items, item{kind: 'R', text: st.T})
		}
		observe(i)
	}
	return sc, views
}

func (h *history) lines(upto int) []string {
	var out []string
	for i, st := range h.Steps {
		if i > upto {
			break
		}
		switch st.K {
		case "env":
			line := "env"
			for _, a := range st.A {
				if a[1] == "?" {
					line += " " + string(common.UnHex(a[0]))
				} else {
					line += " " + sqGo(string(common.UnHex(a[0]))+"="+string(common.UnHex(a[1])))
				}
			}
			out = append(out, line)
		case "setenv":
			out = append(out, fmt.Sprintf("(custom command) ts.Setenv(%q, %q)", string(common.UnHex(st.A[0][0])), string(common.UnHex(st.A[0][1]))))
		default:
			out = append(out, st.T)
		}
	}
	return out
}

type histFailure struct {
	step   int
	key    string
	what   string // which observation disagrees
	got    string
	want   string
	detail string
}

// checkHistory: the model-free oracle.  After every step, for every observed variable: ts.Getenv,
// $K, ${K}, ${K@R} and the environment of an executed program all hold the value of the latest
// assignment (known by construction), and the program's PWD is the directory of the latest cd.
func checkHistory(h *history, sc *script, views []histView, o *scriptObs) *histFailure {
	if o.verdict != "PASS" {
		return &histFailure{step: len(h.Steps) - 1, what: "verdict", got: o.verdict, want: "PASS", detail: "the script did not pass (every line is valid by construction)"}
	}
	for _, v := range views {
		inv := o.inv[v.t]
		if len(inv) != 1 || len(inv[0]) != 3*len(h.Keys) {
			return &histFailure{step: v.step, what: "expansion", got: fmt.Sprint(len(inv), " invocations"), want: "1 invocation", detail: "the expansion line did not reach the args command with one word per reference"}
		}
		p := o.probes[v.p]
		c := o.child[v.c]
		for j, k := range h.Keys {
			want := v.vals[k]
			if got := inv[0][3*j]; got != want {
				return &histFailure{v.step, k, "$" + k, got, want, "expansion differs from the latest assignment"}
			}
			if got := inv[0][3*j+2]; got != want {
				return &histFailure{v.step, k, "${" + k + "}", got, want, "expansion differs from the latest assignment"}
			}
			if got := inv[0][3*j+1]; got != regexp.QuoteMeta(want) {
				return &histFailure{v.step, k, "${" + k + "@R}", got, regexp.QuoteMeta(want), "the regular expression is not the quoted latest assignment"}
			}
			if utf8.ValidString(want) {
				if holds, applies, d := regexExact(inv[0][3*j+1], want); applies && !holds {
					return &histFailure{v.step, k, "${" + k + "@R}", inv[0][3*j+1], want, "the regular expression does not match exactly the latest assignment: " + d}
				}
			}
			if p == nil || j >= len(p) {
				return &histFailure{step: v.step, key: k, what: "ts.Getenv", got: "probe did not run", want: want}
			}
			if p[j] != want {
				return &histFailure{v.step, k, "ts.Getenv", p[j], want, "ts.Getenv differs from the latest assignment"}
			}
			if c == nil || c.failed {
				return &histFailure{step: v.step, key: k, what: "child", got: "the helper program did not run", want: want}
			}
			if cv, _ := childValue(c.entries, k); cv != want {
				return &histFailure{v.step, k, "environment of the executed program", cv, want,
					fmt.Sprintf("the executed program sees %s=%q; the latest assignment, $%s and ts.Getenv say %q", k, cv, k, want)}
			}
		}
		if c != nil && !c.failed {
			wd := filepath.Join(o.cd, v.dir)
			if cv, _ := childValue(c.entries, "PWD"); cv != wd {
				return &histFailure{v.step, "PWD", "PWD of the executed program", cv, wd, "the executed program's PWD is not the directory of the latest cd"}
			}
		}
	}
	return nil
}

func (rn *runner) evalHistory(h *history) (*script, []histView, *scriptObs, *histFailure) {
	sc, views := h.build()
	o := runImpl(rn.f.Work, []*script{sc}, true)[0]
	return sc, views, o, checkHistory(h, sc, views, o)
}

func histInput(h *history, upto int) map[string]string {
	b, _ := json.Marshal(h)
	return map[string]string{"mode": "history", "spec": string(b), "script_text": fmt.Sprintf("%q", strings.Join(h.lines(upto), "\n")),
		"setup": fmt.Sprintf("Params.Setup mode %d (see setupEdit), testing.Verbose()=%v", h.Setup, h.Verbose),
		"reading": "after every line the harness runs: args $K ${K@R} ${K} for the keys, a ts.Getenv probe, and the envdump helper (exec or ts.Exec)"}
}

func (rn *runner) reportHistory(h *history, f *histFailure) {
	name := "history-latest-wins"
	if f.what == "verdict" || f.what == "expansion" {
		name = "history-script-runs"
	}
	rn.res.Count("oracle-fails:" + name)
	if rn.shrunk["o:"+name]++; rn.shrunk["o:"+name] > 3 {
		return
	}
	cut := &history{Steps: append([]hspec{}, h.Steps[:min(len(h.Steps), f.step+1)]...), Keys: h.Keys, Setup: h.Setup, Verbose: h.Verbose}
	same := func(g *histFailure) bool { return g != nil && (g.what == "verdict") == (f.what == "verdict") }
	bad := func(c []hspec) bool {
		_, _, _, g := rn.evalHistory(&history{Steps: c, Keys: h.Keys, Setup: h.Setup, Verbose: h.Verbose})
		return same(g)
	}
	final := f
	if bad(cut.Steps) {
		cut.Steps = common.ShrinkList(cut.Steps, bad)
		// inside env steps: fewer arguments
		for i := range cut.Steps {
			if cut.Steps[i].K == "env" && len(cut.Steps[i].A) > 1 {
				cut.Steps[i].A = common.ShrinkList(cut.Steps[i].A, func(a [][2]string) bool {
					if len(a) == 0 {
						return false
					}
					c := append([]hspec{}, cut.Steps...)
					c[i] = hspec{K: "env", A: a}
					return bad(c)
				})
			}
		}
		if _, _, _, g := rn.evalHistory(cut); g != nil {
			final = g
		}
	} else {
		cut = h
	}
	in := histInput(cut, len(cut.Steps))
	in["oracle"], in["key"] = name, common.Hex([]byte(final.key))
	in["after_step"] = fmt.Sprint(final.step + 1)
	rn.res.Violate(common.Violation{Kind: "impl-violation", Oracle: name, Input: in, Impl: fmt.Sprintf("%s = %q", final.what, final.got), Model: fmt.Sprintf("%q", final.want),
		Key: name + ":" + in["spec"], Detail: fmt.Sprintf("after line %d of the history: %s", final.step+1, final.detail)})
}

func (rn *runner) histories(r *common.RNG) int {
	n := 48
	if rn.f.Tier == "thorough" {
		n = 600
	}
	for b := 0; b < n; b += 16 {
		var hs []*history
		var scs []*script
		var views [][]histView
		for i := b; i < min(n, b+16); i++ {
			h := genHistory(r, i)
			sc, v := h.build()
			hs, scs, views = append(hs, h), append(scs, sc), append(views, v)
		}
		// verbose and non-verbose scripts in separate RunT calls (Verbose is a property of the run)
		obs := make([]*scriptObs, len(scs))
		for _, verbose := range []bool{false, true} {
			var idx []int
			var part []*script
			for i, sc := range scs {
				if sc.verbose == verbose {
					idx, part = append(idx, i), append(part, sc)
				}
			}
			if len(part) == 0 {
				continue
			}
			for j, o := range runImpl(rn.f.Work, part, true) {
				obs[idx[j]] = o
			}
		}
		mos, err := runModel(rn.m, scs, obs)
		if err != nil {
			rn.res.Violate(common.Violation{Kind: "correspondence", Oracle: "model-process", Key: "model-died", Detail: err.Error(), Input: map[string]string{}})
			return n
		}
		for i, h := range hs {
			rn.res.Count("history:scripts")
			if h.Verbose {
				rn.res.Count("history:verbose-run")
			}
			for _, st := range h.Steps {
				rn.res.Count("history:step-" + st.K)
				rn.res.Case("hist:"+fmt.Sprint(b, i, st), true)
			}
			for range views[i] {
				rn.res.Count("oracle:history-latest-wins")
			}
			if f := checkHistory(h, scs[i], views[i], obs[i]); f != nil {
				rn.reportHistory(h, f)
			}
			for _, mm := range compareScript(scs[i], obs[i], mos[i]) {
				rn.reportMismatch(scs[i], mm)
			}
		}
	}
	return n
}

func (rn *runner) replayHistory(v common.Violation) {
	var h history
	if err := json.Unmarshal([]byte(v.Input["spec"]), &h); err != nil {
		rn.res.Notes = append(rn.res.Notes, "replay: bad spec: "+err.Error())
		return
	}
	sc, _, o, f := rn.evalHistory(&h)
	rn.res.Case("history-replay", true)
	if f != nil {
		name := "history-latest-wins"
		if f.what == "verdict" || f.what == "expansion" {
			name = "history-script-runs"
		}
		rn.res.Violate(common.Violation{Kind: "impl-violation", Oracle: name, Input: v.Input, Impl: fmt.Sprintf("%s = %q", f.what, f.got), Model: fmt.Sprintf("%q", f.want), Key: v.Key,
			Detail: fmt.Sprintf("after line %d of the history: %s", f.step+1, f.detail)})
	}
	if mo, err := runModel(rn.m, []*script{sc}, []*scriptObs{o}); err == nil {
		for _, mm := range compareScript(sc, o, mo[0]) {
			rn.res.Violate(common.Violation{Kind: "correspondence", Oracle: mm.fn, Input: v.Input, Model: mm.model, Impl: mm.impl, Key: mm.fn + ":" + v.Input["spec"], Detail: mm.detail})
		}
	}
}

// ---------------------------------------------------------------- the listing

// The argument-less env prints every variable once with the value expansion uses.  The printed
// text is read from what the script hands to T.Log: the history is followed by `env` and by a line
// that fails, so that the log of the last phase is flushed.

const listingFailLine = "exists no-such-file-for-the-listing"

func (h *history) buildListing() *script {
	sc, _ := (&history{Steps: nil, Keys: h.Keys, Setup: h.Setup}).build()
	sc.items = nil
	full, _ := h.build()
	for _, it := range full.items {
		switch it.kind {
		case 'H', 'S', 'D', 'R':
			sc.items = append(sc.items, it)
		}
	}
	sc.items = append(sc.items, item{kind: 'R', text: "env"}, item{kind: 'R', text: listingFailLine})
	sc.keepLog = true
	return sc
}

// listingOf: the lines between the last "> env" and the next command echo
func listingOf(log string) ([]string, bool) {
	lines := strings.Split(log, "\n")
	at := -1
	for i, l := range lines {
		if l == "> env" {
			at = i
		}
	}
	if at < 0 {
		return nil, false
	}
	var out []string
	for _, l := range lines[at+1:] {
		if strings.HasPrefix(l, "> ") {
			return out, true
		}
		out = append(out, l)
	}
	return out, false
}

func (h *history) latest() map[string]string {
	_, views := h.build()
	return views[len(views)-1].vals
}

func (h *history) assigned() map[string]bool {
	m := map[string]bool{"HOME": true}
	for _, st := range h.Steps {
		if st.K == "env" || st.K == "setenv" {
			for _, a := range st.A {
				if a[1] != "?" {
					m[string(common.UnHex(a[0]))] = true
				}
			}
		}
	}
	return m
}

// checkListing: model-free — every name is printed once; the observed variables that are in the
// list are printed with the value of the latest assignment
func checkListing(h *history, o *scriptObs) (fails bool, detail, got, want string) {
	if o.verdict != "FAIL" {
		return true, "the script ends in a failing line by construction", o.verdict, "FAIL"
	}
	ls, ok := listingOf(o.log)
	if !ok {
		return true, "no listing in the log of the script", preview(o.log, 200), "> env ... > " + listingFailLine
	}
	seen := map[string]string{}
	for _, l := range ls {
		i := strings.IndexByte(l, '=')
		if i < 0 {
			return true, "a line of the listing is not NAME=VALUE", l, "NAME=VALUE"
		}
		if _, dup := seen[l[:i]]; dup {
			return true, "the listing prints a variable twice", l, "each variable once"
		}
		seen[l[:i]] = l[i+1:]
	}
	latest, assigned := h.latest(), h.assigned()
	for _, k := range h.Keys {
		v, printed := seen[k]
		if !assigned[k] {
			continue
		}
		if !printed {
			return true, "the listing does not print an assigned variable", "no line for " + k, k + "=" + latest[k]
		}
		if v != latest[k] {
			return true, "the listing prints another value than the latest assignment", k + "=" + v, k + "=" + latest[k]
		}
	}
	return false, "", "", ""
}

// modelListing: env_listing of the model after the same history, with the abbreviation of the
// work directory the log applies
func (rn *runner) modelListing(sc *script, o *scriptObs) ([]string, error) {
	reqs := []string{strings.TrimSpace("reset " + common.Hex([]byte(o.cd)) + " " + hexes(o.vars))}
	for _, it := range sc.items {
		switch it.kind {
		case 'H', 'R':
			reqs = append(reqs, "line "+common.Hex([]byte(it.text)))
		case 'S':
			reqs = append(reqs, "setenv "+common.Hex([]byte(it.k))+" "+common.Hex([]byte(it.v)))
		case 'D':
			reqs = append(reqs, "cd "+common.Hex([]byte(filepath.Join(o.cd, it.v))))
		}
	}
	reqs = append(reqs, "listing")
	ans, err := rn.m.Ask(reqs)
	if err != nil {
		return nil, err
	}
	a := ans[len(ans)-1]
	if a == "none" {
		return nil, nil
	}
	var out []string
	for _, kv := range strings.Fields(a)[1:] {
		i := strings.IndexByte(kv, '=')
		l := string(common.UnHex(kv[:i])) + "=" + string(common.UnHex(kv[i+1:]))
		out = append(out, strings.ReplaceAll(l, o.cd, "$WORK"))
	}
	return out, nil
}

func listingInput(h *history) map[string]string {
	in := histInput(h, len(h.Steps))
	in["mode"] = "listing"
	in["reading"] = "the history is followed by `env` and a failing line; the listing is read from what the script hands to T.Log"
	return in
}

func (rn *runner) evalListing(h *history) (viol []common.Violation) {
	sc := h.buildListing()
	o := runImpl(rn.f.Work, []*script{sc}, false)[0]
	in := listingInput(h)
	if fails, detail, got, want := checkListing(h, o); fails {
		in["oracle"] = "listing-shows-latest"
		viol = append(viol, common.Violation{Kind: "impl-violation", Oracle: "listing-shows-latest", Input: in, Impl: got, Model: want, Key: "listing-shows-latest:" + in["spec"], Detail: detail})
	}
	ml, err := rn.modelListing(sc, o)
	if il, ok := listingOf(o.log); err == nil && ok && !eqStrings(ml, il) {
		viol = append(viol, common.Violation{Kind: "correspondence", Oracle: "env_listing", Input: in, Model: showWords(ml), Impl: showWords(il), Key: "env_listing:" + in["spec"],
			Detail: "env_listing of the model and the lines the argument-less env printed differ (names, values or order)"})
	}
	return
}

func (rn *runner) listings(r *common.RNG) int {
	n := 30
	if rn.f.Tier == "thorough" {
		n = 400
	}
	for i := 0; i < n; i++ {
		h := genHistory(r, i)
		h.Verbose = false
		rn.res.Count("listing:scripts")
		rn.res.Count("oracle:listing-shows-latest")
		rn.res.Case("listing:"+fmt.Sprint(i), true)
		vs := rn.evalListing(h)
		if len(vs) == 0 {
			continue
		}
		// shrink the history while a finding of the same kind remains
		kind := vs[0].Oracle
		has := func(c []hspec) bool {
			for _, v := range rn.evalListing(&history{Steps: c, Keys: h.Keys, Setup: h.Setup}) {
				if v.Oracle == kind {
					return true
				}
			}
			return false
		}
		rn.res.Count("oracle-fails:" + kind)
		if rn.shrunk["l:"+kind]++; rn.shrunk["l:"+kind] <= 2 {
			small := &history{Steps: common.ShrinkList(h.Steps, has), Keys: h.Keys, Setup: h.Setup}
			if svs := rn.evalListing(small); len(svs) > 0 {
				vs = svs
			}
		}
		for _, v := range vs {
			rn.res.Violate(v)
		}
	}
	return n
}

func (rn *runner) replayListing(v common.Violation) {
	var h history
	if err := json.Unmarshal([]byte(v.Input["spec"]), &h); err != nil {
		rn.res.Notes = append(rn.res.Notes, "replay: bad spec: "+err.Error())
		return
	}
	rn.res.Case("listing-replay", true)
	for _, x := range rn.evalListing(&h) {
		rn.res.Violate(x)
	}
}

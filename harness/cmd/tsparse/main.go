// Command tsparse is the correspondence + oracle runner for C02 (testscript word
// splitting, quoting, variable expansion and the environment).
//
// The real tokenizer is driven through the public API only: testscript.RunT with a small
// implementation of testscript.T, Params.Cmds holding the recording commands
//
//	args ...     records its argument vector
//	mark N       names the script item the following line belongs to
//	probe N      records ts.Getenv of the script's probe names
//	grab N       records stdout of the preceding `exec envdump`
//	child N      runs envdump through ts.Exec and records error / stdout
//	apiset N     calls ts.Setenv with a key/value taken from a Go-side table
//
// and a helper program `envdump` (this very binary under another name, put on PATH through
// Params.Setup) that prints the environment block it was started with.  Scripts are
// generated from a grammar of quoted/unquoted chunks, $-forms (valid, special, malformed),
// comments, CR/tab after random `env K=V` histories; the recorded argv / Getenv / child
// environ are compared with ts_parse / getenv / child_env of the extracted Coq model, and the
// property is evaluated directly on the implementation by oracles that do not use the model.
package main

import (
	"bytes"
	"encoding/hex"
	"encoding/json"
	"fmt"
	"io"
	"os"
	"path/filepath"
	"regexp"
	"regexp/syntax"
	"sort"
	"strconv"
	"strings"
	"sync"
	"time"
	"unicode/utf8"

	"github.com/rogpeppe/go-internal/testscript"

	"verif/harness/common"
)

// ---------------------------------------------------------------- helper mode

func envdumpMain() {
	var entries []string
	if b, err := os.ReadFile("/proc/self/environ"); err == nil {
		for _, e := range bytes.Split(b, []byte{0}) {
			if len(e) > 0 {
				entries = append(entries, string(e))
			}
		}
	} else {
		entries = os.Environ()
	}
	var sb strings.Builder
	for _, e := range entries {
		sb.WriteString("E ")
		sb.WriteString(common.Hex([]byte(e)))
		sb.WriteByte('\n')
	}
	os.Stdout.WriteString(sb.String())
	os.Exit(0)
}

// ---------------------------------------------------------------- testscript.T

type sentinel string

const (
	failedRun sentinel = "failed"
	skipRun   sentinel = "skip"
)

type tT struct {
	verdict map[string]string // script name -> PASS | FAIL | SKIP | PANIC
	fatal   []string
	verbose bool // testing -v: run() lists the environment before the first line
	cur     string            // the script being run (RunT runs them one after the other)
	logs    map[string]string // what each script handed to T.Log
}

func (t *tT) Skip(...any)    { panic(skipRun) }
func (t *tT) Fatal(a ...any) { t.fatal = append(t.fatal, fmt.Sprint(a...)); panic(failedRun) }
func (t *tT) Parallel()      {}
func (t *tT) Log(a ...any) {
	if t.logs != nil && t.cur != "" {
		t.logs[t.cur] += fmt.Sprintln(a...)
	}
	if os.Getenv("TSPARSE_DEBUG") != "" {
		fmt.Fprintln(os.Stderr, a...)
	}
}
func (t *tT) FailNow()       { panic(failedRun) }
func (t *tT) Verbose() bool  { return t.verbose }
func (t *tT) Run(name string, f func(testscript.T)) {
	v := "PASS"
	t.cur = name
	defer func() { t.cur = "" }()
	func() {
		defer func() {
			switch e := recover(); e {
			case nil:
			case failedRun:
				v = "FAIL"
			case skipRun:
				v = "SKIP"
			default:
				v = "PANIC"
				t.fatal = append(t.fatal, fmt.Sprint(e))
			}
		}()
		f(t)
	}()
	t.verdict[name] = v
}

// ---------------------------------------------------------------- scripts

// item kinds: 'H' history line (env ...), 'T' test line, 'P' probe, 'X' child environment
// via the custom command, 'E' child environment via `exec envdump` + grab, 'S' ts.Setenv(k, v).
type item struct {
	kind byte
	text string // H, T, C, L: the raw script line (no NL)
	k, v string // S: ts.Setenv(k, v); T: name and value of the c02_holds_on question
	// C (cmp / cmpenv line): the command's flags and the texts of the two files
	neg, env     bool
	text1, text2 string
	// L (a line of built-in commands): the argument vector intended by construction
	want []string
}

type script struct {
	items []item
	names []string
	// apiMisuse: ts.Setenv was called with a key containing '=' (list and map then disagree by
	// construction; the child-agrees oracle does not apply to such a script)
	apiMisuse bool
	// archive: the file section of the script (txtar), for the cmp / cp / exists / stdin modes
	archive string
	// setupMode: how Params.Setup edits env.Vars besides appending PATH / ARGS / novalue:
	// 0 nothing more, 1 rewrites the HOME entry in place, 2 removes the devnull entry,
	// 3 inserts HOME=/early right after WORK (the predefined HOME entry stays later in the list),
	// 4 appends a duplicate HOME=/dup, 5 rewrites in place and moves the entry to the end
	setupMode int
	// raw: the script text as it is (long-line scripts: the lines are not items)
	raw string
	// bare: Params.Setup does not add the entry without separator ("novalue"): the argument-less
	// env of the unchanged code indexes kv[:-1] on such an entry and panics
	bare bool
	// verbose: run with testing.Verbose() true, i.e. with the environment listing at the start
	verbose bool
	// keepLog: keep what the script hands to T.Log (the listing scenario reads the env listing from it)
	keepLog bool
}

// setupEdit applies the script's Setup mode to the variable list.
func setupEdit(vars []string, mode int) []string {
	find := func(prefix string) int {
		for i, kv := range vars {
			if strings.HasPrefix(kv, prefix) {
				return i
			}
		}
		return -1
	}
	switch mode {
	case 1:
		if i := find("HOME="); i >= 0 {
			vars[i] = "HOME=/real-home"
		}
	case 2:
		if i := find("devnull="); i >= 0 {
			vars = append(vars[:i:i], vars[i+1:]...)
		}
	case 3:
		vars = append(append(append([]string{}, vars[0]), "HOME=/early"), vars[1:]...)
	case 4:
		vars = append(vars, "HOME=/dup")
	case 5:
		if i := find("HOME="); i >= 0 {
			vars = append(append(vars[:i:i], vars[i+1:]...), "HOME=/moved home")
		}
	}
	return vars
}

// setupKnown: what the variables touched by the Setup mode must be afterwards (the latest
// binding of the list), known by construction
func setupKnown(mode int) map[string]string {
	switch mode {
	case 1:
		return map[string]string{"HOME": "/real-home"}
	case 2:
		return map[string]string{"devnull": ""}
	case 3:
		return map[string]string{"HOME": "/no-home"}
	case 4:
		return map[string]string{"HOME": "/dup"}
	case 5:
		return map[string]string{"HOME": "/moved home"}
	}
	return map[string]string{"HOME": "/no-home"}
}

type childObs struct {
	failed  bool
	entries []string
}

type scriptObs struct {
	vars    []string
	cd      string
	inv     map[int][][]string
	seq     [][]string // rec: every invocation, in order
	log     string     // what the script handed to T.Log (kept only when the script asks for it)
	probes  map[int][]string
	child   map[int]*childObs
	verdict string
}

// current recording state (RunT runs the scripts sequentially: tT.Parallel is a no-op)
var (
	curScripts map[string]*script
	curObs     map[string]*scriptObs
	curItem    map[string]int
	helperDir  string
)

func parseDump(s string) []string {
	var out []string
	for _, l := range strings.Split(s, "\n") {
		if strings.HasPrefix(l, "E ") {
			out = append(out, string(common.UnHex(l[2:])))
		}
	}
	return out
}

func idx(ts *testscript.TestScript, args []string) int {
	if len(args) != 1 {
		ts.Fatalf("harness: bad item index")
	}
	n, err := strconv.Atoi(args[0])
	if err != nil {
		ts.Fatalf("harness: bad item index")
	}
	return n
}

var cmds = map[string]func(ts *testscript.TestScript, neg bool, args []string){
	"args": func(ts *testscript.TestScript, neg bool, args []string) {
		o := curObs[ts.Name()]
		i := curItem[ts.Name()]
		o.inv[i] = append(o.inv[i], append([]string{}, args...))
	},
	"rec": func(ts *testscript.TestScript, neg bool, args []string) {
		o := curObs[ts.Name()]
		o.seq = append(o.seq, append([]string{}, args...))
	},
	"bigset": func(ts *testscript.TestScript, neg bool, args []string) {
		// bigset NAME UNIT-IN-HEX N: ts.Setenv(NAME, UNIT repeated N times) — a long value from a short line
		if len(args) != 3 {
			ts.Fatalf("harness: bigset NAME UNITHEX N")
		}
		n, err := strconv.Atoi(args[2])
		if err != nil {
			ts.Fatalf("harness: bigset count")
		}
		ts.Setenv(args[0], strings.Repeat(string(common.UnHex(args[1])), n))
	},
	"mark": func(ts *testscript.TestScript, neg bool, args []string) {
		curItem[ts.Name()] = idx(ts, args)
	},
	"probe": func(ts *testscript.TestScript, neg bool, args []string) {
		o, sc := curObs[ts.Name()], curScripts[ts.Name()]
		var vals []string
		for _, n := range sc.names {
			vals = append(vals, ts.Getenv(n))
		}
		o.probes[idx(ts, args)] = vals
	},
	"grab": func(ts *testscript.TestScript, neg bool, args []string) {
		o := curObs[ts.Name()]
		// an environment block is never empty (PWD is always there): no entries means that the
		// preceding `exec envdump` did not run the helper
		es := parseDump(ts.ReadFile("stdout"))
		o.child[idx(ts, args)] = &childObs{entries: es, failed: len(es) == 0}
	},
	"child": func(ts *testscript.TestScript, neg bool, args []string) {
		o := curObs[ts.Name()]
		err := ts.Exec("envdump")
		if err != nil {
			o.child[idx(ts, args)] = &childObs{failed: true}
			return
		}
		o.child[idx(ts, args)] = &childObs{entries: parseDump(ts.ReadFile("stdout"))}
	},
	"apiset": func(ts *testscript.TestScript, neg bool, args []string) {
		sc := curScripts[ts.Name()]
		it := sc.items[idx(ts, args)]
		ts.Setenv(it.k, it.v)
	},
}

func (sc *script) text() string {
	if sc.raw != "" {
		return sc.raw
	}
	var sb strings.Builder
	for i, it := range sc.items {
		switch it.kind {
		case 'H':
			sb.WriteString(it.text + "\n")
		case 'T':
			fmt.Fprintf(&sb, "mark %d\n%s\n", i, it.text)
		case 'P':
			fmt.Fprintf(&sb, "probe %d\n", i)
		case 'X':
			fmt.Fprintf(&sb, "child %d\n", i)
		case 'E':
			fmt.Fprintf(&sb, "exec envdump\ngrab %d\n", i)
		case 'S':
			fmt.Fprintf(&sb, "apiset %d\n", i)
		case 'C', 'L', 'R', 'D':
			sb.WriteString(it.text + "\n")
		}
	}
	return sb.String() + sc.archive
}

var runSeq int

// runImpl executes the scripts with the real testscript package (one RunT call).
func runImpl(work string, scripts []*script, continueOnError bool) []*scriptObs {
	runSeq++
	dir := filepath.Join(work, fmt.Sprintf("scripts-%d", runSeq))
	os.MkdirAll(dir, 0o777)
	defer os.RemoveAll(dir)
	curScripts, curObs, curItem = map[string]*script{}, map[string]*scriptObs{}, map[string]int{}
	var files []string
	obs := make([]*scriptObs, len(scripts))
	names := make([]string, len(scripts))
	for i, sc := range scripts {
		name := fmt.Sprintf("s%06d", i)
		names[i] = name
		f := filepath.Join(dir, name+".txt")
		os.WriteFile(f, []byte(sc.text()), 0o666)
		files = append(files, f)
		obs[i] = &scriptObs{inv: map[int][][]string{}, probes: map[int][]string{}, child: map[int]*childObs{}}
		curScripts[name], curObs[name], curItem[name] = sc, obs[i], -1
	}
	t := &tT{verdict: map[string]string{}}
	for _, sc := range scripts {
		t.verbose = t.verbose || sc.verbose
		if sc.keepLog {
			t.logs = map[string]string{}
		}
	}
	p := testscript.Params{
		Files:           files,
		Cmds:            cmds,
		ContinueOnError: continueOnError,
		Setup: func(env *testscript.Env) error {
			// the helper directory goes in front of PATH through a second PATH entry (the
			// list then holds a duplicate key from the start); ARGS names the recording command
			env.Vars = append(env.Vars, "PATH="+helperDir+string(os.PathListSeparator)+os.Getenv("PATH"), "ARGS=args")
			if sc := curScripts[strings.TrimPrefix(filepath.Base(env.WorkDir), "script-")]; sc != nil {
				if !sc.bare {
					env.Vars = append(env.Vars, "novalue")
				}
				env.Vars = setupEdit(env.Vars, sc.setupMode)
			} else {
				env.Vars = append(env.Vars, "novalue")
			}
			if o := curObs[strings.TrimPrefix(filepath.Base(env.WorkDir), "script-")]; o != nil {
				o.vars = append([]string{}, env.Vars...)
				o.cd = env.Cd
			}
			return nil
		},
	}
	func() {
		defer func() {
			if e := recover(); e != nil {
				t.fatal = append(t.fatal, fmt.Sprint("RunT: ", e))
			}
		}()
		testscript.RunT(t, p)
	}()
	for i, n := range names {
		obs[i].verdict = t.verdict[n]
		obs[i].log = t.logs[n]
		if obs[i].verdict == "" {
			obs[i].verdict = "NOT-RUN " + strings.Join(t.fatal, "; ")
		}
	}
	return obs
}

// ---------------------------------------------------------------- model side

type modelObs struct {
	holds  map[int]string // T items: answer of c02_holds_on
	lines  map[int]string // H/T/L items: "fail" | "args w*"; C items: true|false
	probes map[int][]string
	child  map[int]*childObs
	hist   string // answer of histholds at the end of the script
}

func hexes(ws []string) string {
	var p []string
	for _, w := range ws {
		p = append(p, common.Hex([]byte(w)))
	}
	return strings.Join(p, " ")
}

func unhexes(fs []string) []string {
	out := make([]string, 0, len(fs))
	for _, f := range fs {
		out = append(out, string(common.UnHex(f)))
	}
	return out
}

// askHolds: put the c02_holds_on question after every test line
var askHolds = true

// extraModels: further model processes; scripts are independent of each other (every script
// starts with a reset), so one conversation is split over several processes
var extraModels []*common.Model

func runModel(m *common.Model, scripts []*script, obs []*scriptObs) ([]*modelObs, error) {
	ms := append([]*common.Model{m}, extraModels...)
	if len(scripts) < 2*len(ms) || len(ms) == 1 {
		return runModel1(m, scripts, obs)
	}
	out := make([]*modelObs, len(scripts))
	errs := make([]error, len(ms))
	var wg sync.WaitGroup
	per := (len(scripts) + len(ms) - 1) / len(ms)
	for j := range ms {
		lo, hi := j*per, min((j+1)*per, len(scripts))
		if lo >= hi {
			continue
		}
		wg.Add(1)
		go func(j, lo, hi int) {
			defer wg.Done()
			r, err := runModel1(ms[j], scripts[lo:hi], obs[lo:hi])
			if err != nil {
				errs[j] = err
				return
			}
			copy(out[lo:hi], r)
		}(j, lo, hi)
	}
	wg.Wait()
	for _, e := range errs {
		if e != nil {
			return nil, e
		}
	}
	return out, nil
}

func runModel1(m *common.Model, scripts []*script, obs []*scriptObs) ([]*modelObs, error) {
	var reqs []string
	type slot struct {
		s, i  int
		holds bool
	}
	var slots []slot
	b01 := func(b bool) string {
		if b {
			return "1"
		}
		return "0"
	}
	for s, sc := range scripts {
		reqs = append(reqs, strings.TrimSpace("reset "+common.Hex([]byte(obs[s].cd))+" "+hexes(obs[s].vars)))
		slots = append(slots, slot{s, -1, false})
		for i, it := range sc.items {
			switch it.kind {
			case 'H', 'T':
				reqs = append(reqs, "line "+common.Hex([]byte(it.text)))
			case 'P':
				reqs = append(reqs, strings.TrimSpace("getenv "+hexes(sc.names)))
			case 'X', 'E':
				reqs = append(reqs, "child")
			case 'S':
				reqs = append(reqs, "setenv "+common.Hex([]byte(it.k))+" "+common.Hex([]byte(it.v)))
			case 'L', 'R':
				reqs = append(reqs, "line "+common.Hex([]byte(it.text)))
			case 'D':
				reqs = append(reqs, "cd "+common.Hex([]byte(filepath.Join(obs[s].cd, it.v))))
			case 'C':
				reqs = append(reqs, "cmp "+b01(it.neg)+" "+b01(it.env)+" 61 62 "+common.Hex([]byte(it.text1))+" "+common.Hex([]byte(it.text2)))
			}
			slots = append(slots, slot{s, i, false})
			if it.kind == 'T' && askHolds {
				reqs = append(reqs, "holds "+common.Hex([]byte(it.text))+" "+common.Hex([]byte(it.k))+" "+common.Hex([]byte(it.v)))
				slots = append(slots, slot{s, i, true})
			}
		}
		// the requests of this script read as a history: hrun reproduces the state, history_holds is true
		reqs = append(reqs, strings.TrimSpace("histholds "+hexes(append(append([]string{}, sc.names[:min(len(sc.names), 6)]...), "PWD"))))
		slots = append(slots, slot{s, -2, false})
	}
	ans, err := m.Ask(reqs)
	if err != nil {
		return nil, err
	}
	out := make([]*modelObs, len(scripts))
	for s := range scripts {
		out[s] = &modelObs{holds: map[int]string{}, lines: map[int]string{}, probes: map[int][]string{}, child: map[int]*childObs{}}
	}
	for j, sl := range slots {
		if sl.i == -2 {
			out[sl.s].hist = ans[j]
		}
		if sl.i < 0 {
			continue
		}
		if sl.holds {
			out[sl.s].holds[sl.i] = ans[j]
			continue
		}
		it := scripts[sl.s].items[sl.i]
		a := ans[j]
		switch it.kind {
		case 'H', 'T', 'L', 'C':
			out[sl.s].lines[sl.i] = a
		case 'P':
			out[sl.s].probes[sl.i] = unhexes(strings.Fields(a)[1:])
		case 'X', 'E':
			if a == "none" {
				out[sl.s].child[sl.i] = &childObs{failed: true}
			} else {
				out[sl.s].child[sl.i] = &childObs{entries: unhexes(strings.Fields(a)[1:])}
			}
		}
	}
	return out, nil
}

// ---------------------------------------------------------------- generators

// sqGo is the quoting of the property statement, written independently of the model:
// ' ++ (w with every ' doubled) ++ '
func sqGo(w string) string { return "'" + strings.ReplaceAll(w, "'", "''") + "'" }

var probeNames = []string{"A", "B", "C", "x", "_y", "Ab_1", "E2", "LONG_name", "PWD", "HOME", "1a", "a-b", "a.b", "é",
	"", "a@R", "a", "1", "$", "*", "@", "#", "WORK", "ARGS", "novalue", "K", "Q", "a=b", "R", "@R", "devnull", "GOTRACEBACK", "exe", "/", ":"}

// names usable as $NAME
var validNames = []string{"A", "B", "C", "x", "_y", "Ab_1", "E2", "LONG_name", "K", "Q", "a", "R"}

// keys used in assignments (valid names mostly)
var assignKeys = []string{"A", "B", "C", "x", "_y", "Ab_1", "E2", "LONG_name", "K", "Q", "a", "R",
	"A", "B", "C", "a", "PWD", "1a", "a-b", "a.b", "é", "a@R", "1", "@R", "HOME"}

var valueAtoms = []string{"", "v", "w1", "two words", " lead", "trail ", "tab\tx", "q'uo'te", "'", "''", "$A", "${B}", "$",
	"$$", "#", "a#b", " # c", "a=b", "=", "\r", "x\ry", "é", "日本", "\xff\xfe", ".*+?()|[]{}^$\\", "a.b", "\\", "}", "{",
	"${", "@R", "\x7f", "\x01", "${A@R}", "(x|y)", "[a-z]+", "^a$", "A", "args", "\u00a0", "\\E\\Q", "1",
	"\f", "\v", "a\u2003b", "\u0085", "\u3000", "x\fy\vz"}

func genValue(r *common.RNG) string {
	n := 1 + r.Intn(3)
	if r.Chance(1, 6) {
		n = 0
	}
	s := ""
	for i := 0; i < n; i++ {
		s += common.Pick(r, valueAtoms)
	}
	if allowNul && r.Chance(1, 150) {
		s += "\x00z"
	}
	return s
}

// NUL bytes (every later exec fails) and ts.Setenv with '=' in the key (list and map disagree
// by construction) are generated only in designated scripts
var allowNul, allowMisuse bool

const plainAlphabet = "abcxyzABZ019_-./:=,+%@~^[]{}()*?!|\\\"`;<>&\xc3\xa9\x80\xff"

// specialBytes: what an oracle word "over ordinary bytes" must avoid: the tokenizer's own
// separator and quote characters (read from the regenerated constants through the model
// driver at start-up), '$' and NL.  Everything else — form feed, vertical tab, NBSP, U+0085,
// U+2003, U+3000, invalid UTF-8 — is an ordinary byte for the property ("split at unquoted
// spaces and tabs").
var specialBytes = " \t\r#'$\n"

var wideAtoms = []string{"a", "b", "Z", "0", "_", "-", ".", "/", "=", "\f", "\v", "\r", "\u00a0", "\u0085", "\u2003", "\u3000",
	"\u1680", "\u2028", "\u202f", "\x1c", "\x1f", "\x7f", "\xff", "\x80", "\xc2", "\xe2\x80", "é", "日", "\\", "\"", "{", "}", "@R", "~", "x\fy", "\u00a0x"}

// genWide: a non-empty word over all bytes that are not special for the tokenizer
func genWide(r *common.RNG) string {
	for {
		s := ""
		for i, n := 0, 1+r.Intn(3); i < n; i++ {
			a := common.Pick(r, wideAtoms)
			if !strings.ContainsAny(a, specialBytes) {
				s += a
			}
		}
		if s != "" {
			return s
		}
	}
}

func genPlain(r *common.RNG, min int) string {
	n := min + r.Intn(4)
	b := make([]byte, n)
	for i := range b {
		b[i] = plainAlphabet[r.Intn(len(plainAlphabet))]
	}
	return string(b)
}

var dollarForms = []string{"$1", "$*", "$$", "$-", "$?", "$!", "$@", "$0", "${1}", "${*}", "${$}", "${#}", "${}", "${", "${A", "$",
	"$}", "${A}}", "${A$B}", "$é", "${é}", "${A B}", "$A$B", "${A}${B}", "$$A", "${@R}", "$@R", "${1a}", "$1a", "${a@R}", "$a@R",
	"${A@R@R}", "${A@r}", "${ A}", "$\xff", "${\xff}", "$_", "${_y}", "$=", "${=}", "${a=b}", "$a.b", "${a.b}", "${a-b}", "$a-b", "$PWD", "${WORK}", "$HOME"}

type feature map[string]bool

func genChunk(r *common.RNG, ft feature) string {
	switch r.Intn(12) {
	case 0, 1, 2:
		ft["plain"] = true
		return genPlain(r, 1)
	case 3, 4:
		ft["quoted"] = true
		return sqGo(genValue(r))
	case 5:
		ft["var"] = true
		return "$" + common.Pick(r, validNames)
	case 6:
		ft["var-brace"] = true
		return "${" + common.Pick(r, validNames) + "}"
	case 7:
		ft["var-R"] = true
		return "${" + common.Pick(r, validNames) + "@R}"
	case 8, 9:
		ft["dollar-form"] = true
		return common.Pick(r, dollarForms)
	case 10:
		ft["empty-quote"] = true
		return "''"
	default:
		ft["var"] = true
		return "$" + common.Pick(r, assignKeys)
	}
}

var sepForms = []string{" ", " ", " ", "  ", "\t", " \t ", "\r", " \r", "\t\t"}

var firstForms = []string{"args", "args", "args", "args", "args", "args", "'args'", "ar''gs", "a'rg's", "$ARGS", "${ARGS}", "ar${nope}gs", "'ar'gs"}

func genTestLine(r *common.RNG, ft feature) string {
	var sb strings.Builder
	if r.Chance(1, 10) {
		sb.WriteString(common.Pick(r, sepForms))
		ft["leading-blank"] = true
	}
	sb.WriteString(common.Pick(r, firstForms))
	ntok := r.Intn(5)
	for i := 0; i < ntok; i++ {
		sb.WriteString(common.Pick(r, sepForms))
		nch := 1 + r.Intn(3)
		if r.Chance(1, 2) {
			nch = 1
		}
		for j := 0; j < nch; j++ {
			sb.WriteString(genChunk(r, ft))
		}
	}
	switch r.Intn(14) {
	case 0:
		sb.WriteString(" # comment 'unbalanced $A")
		ft["comment"] = true
	case 1:
		sb.WriteString("#glued comment")
		ft["comment-glued"] = true
	case 2:
		sb.WriteString("\r")
		ft["trailing-CR"] = true
	case 3:
		sb.WriteString(" \t")
	case 4:
		sb.WriteString(" 'unterminated " + genPlain(r, 0))
		ft["unterminated"] = true
	case 5:
		sb.WriteString(" a'b")
		ft["unterminated"] = true
	case 6:
		sb.WriteString(" '#not a comment' # comment")
		ft["comment"] = true
	}
	return sb.String()
}

const streamAlphabet = "''''$$$${{}}##  \t\r@RRAAaB1=\\.*x\xc3\xa9\xff\x00"

func genStreamLine(r *common.RNG) string {
	n := r.Intn(24)
	b := make([]byte, n)
	for i := range b {
		if r.Chance(1, 12) {
			b[i] = byte(r.Intn(256))
			if b[i] == '\n' {
				b[i] = '\r'
			}
		} else {
			b[i] = streamAlphabet[r.Intn(len(streamAlphabet))]
		}
		if b[i] == 0 && !(allowNul && r.Chance(1, 10)) {
			b[i] = ' '
		}
	}
	return "args " + string(b)
}

// tracker: the Go-side statement of "the latest assignment wins" for assignments whose
// value the generator knows exactly (fully quoted K=V arguments and ts.Setenv); a name whose
// last assignment went through an expansion is unknown.
type tracker struct {
	val   map[string]string
	known map[string]bool
	nul   bool
}

func newTracker() *tracker {
	return &tracker{val: map[string]string{}, known: map[string]bool{}}
}

func (tr *tracker) set(k, v string) { tr.val[k], tr.known[k] = v, true }

// current: the value of a name of validNames as far as the generator knows it exactly; a name
// never assigned in the script is unset (none of validNames is in the initial environment)
func (tr *tracker) current(k string) (string, bool) {
	known, assigned := tr.known[k]
	if !assigned {
		return "", true
	}
	return tr.val[k], known
}
func (tr *tracker) unknown(k string) { tr.known[k] = false }

// genEnvLine writes one `env ...` history line and updates the tracker.
func genEnvLine(r *common.RNG, tr *tracker, ft feature) string {
	var sb strings.Builder
	sb.WriteString("env")
	// every expansion of the line happens while the line is tokenized, before the first
	// assignment of the same line takes effect: chains read the state at the start of the line
	before := &tracker{val: map[string]string{}, known: map[string]bool{}}
	for k, v := range tr.val {
		before.val[k] = v
	}
	for k, v := range tr.known {
		before.known[k] = v
	}
	n := 1 + r.Intn(3)
	if r.Chance(2, 3) {
		n = 1
	}
	for i := 0; i < n; i++ {
		sb.WriteString(common.Pick(r, sepForms[:5]))
		k := common.Pick(r, assignKeys)
		switch r.Intn(10) {
		case 0, 1, 2, 3: // fully quoted: the value is known exactly
			v := genValue(r)
			sb.WriteString(sqGo(k + "=" + v))
			tr.set(k, v)
			ft["assign-quoted"] = true
		case 4, 5: // K='V'
			v := genValue(r)
			if strings.ContainsAny(k, "$'#") {
				k = "A"
			}
			sb.WriteString(k + "=" + sqGo(v))
			tr.set(k, v)
			ft["assign-halfquoted"] = true
		case 6: // plain
			v := genPlain(r, 0)
			if strings.ContainsAny(k, "$'#") {
				k = "A"
			}
			sb.WriteString(k + "=" + v)
			tr.set(k, v)
			ft["assign-plain"] = true
		case 7: // copy through expansion: the value of the source at this moment (env K=$OTHER chains)
			src := common.Pick(r, validNames)
			form := r.Intn(5)
			sb.WriteString(k + "=" + []string{"$" + src, "${" + src + "}", "${" + src + "@R}", "x${" + src + "}y", "$" + src + "$" + src}[form])
			if strings.ContainsAny(k, "$'#") {
				tr.unknown(k)
			} else if sv, known := before.current(src); known {
				tr.set(k, []string{sv, sv, regexp.QuoteMeta(sv), "x" + sv + "y", sv + sv}[form])
				ft["assign-chain-known"] = true
			} else {
				tr.unknown(k)
			}
			ft["assign-expansion"] = true
		case 8: // display form (no '=')
			sb.WriteString(k)
			ft["env-display"] = true
		default: // key from a variable / empty key / '=' in value
			switch r.Intn(3) {
			case 0:
				sb.WriteString("=" + genPlain(r, 0))
				tr.unknown("")
			case 1:
				v := "p=q=" + genPlain(r, 0)
				sb.WriteString(sqGo(k + "=" + v))
				tr.set(k, v)
			default:
				sb.WriteString("$K=" + genPlain(r, 0))
				for _, x := range probeNames {
					tr.unknown(x)
				}
			}
			ft["assign-odd"] = true
		}
	}
	if r.Chance(1, 12) {
		sb.WriteString(" # " + genPlain(r, 0))
	}
	if r.Chance(1, 10) {
		sb.WriteString("\r")
	}
	line := sb.String()
	if strings.Contains(line, "\x00") {
		tr.nul = true
	}
	return line
}

// ---------------------------------------------------------------- direct oracles (no model)

type oracleCase struct {
	name   string
	script int
	item   int      // the T item
	want   []string // expected argv (quote-roundtrip, expand-once)
	key    string   // regex oracle
	value  string
	lines  []string // the self-contained lines of the case (H..., T)
	// build re-creates the self-contained lines and the expected argv from a smaller value
	// (expand-once, regex-exact) or word list (quote-roundtrip); used for shrinking
	build func(value string, words []string) (lines []string, want []string)
	// multi-chunk: the pieces of the word ("q:text" quoted literal, "p:text" unquoted plain text,
	// "v:NAME" $NAME, "b:NAME" ${NAME}); build takes them as its word list
	pieces []string
	// dollar-var: the X item that follows (or -1): the child must see the value $$ expands to
	childItem int
}

// scriptLinesOf: the history lines of the script so far that assign key (quoted form), for a
// self-contained replay of a case whose state comes from earlier in the script
func scriptLinesOf(sc *script, key string) []string {
	var out []string
	for _, it := range sc.items {
		if it.kind == 'H' && strings.HasPrefix(it.text, "env '"+key+"=") {
			out = append(out, "H"+it.text)
		}
	}
	if len(out) > 1 {
		out = out[len(out)-1:]
	}
	return out
}

func perturb(v string) []string {
	out := []string{v + "x", "x" + v, v + v + "y", strings.ToUpper(v), strings.ToLower(v)}
	for i := 0; i < len(v); i++ {
		out = append(out, v[:i]+v[i+1:])
		out = append(out, v[:i]+"x"+v[i+1:])
		out = append(out, v[:i]+"xx"+v[i:])
	}
	return out
}

// regexExact: the expansion p of ${k@R}, compiled the way stdout/grep use patterns ((?m)),
// matches exactly v.  ok=false with reason when the oracle does not apply.
func regexExact(p, v string) (holds bool, applies bool, detail string) {
	if !utf8.ValidString(v) || strings.Contains(v, "\n") {
		return true, false, "value is not valid UTF-8"
	}
	re, err := regexp.Compile("(?m)^" + p + "$")
	if err != nil {
		return false, true, "expansion does not compile: " + err.Error()
	}
	if re.FindString(v) != v || !re.MatchString(v) {
		return false, true, "does not match the value"
	}
	re2, err := regexp.Compile(`\A(?:` + p + `)\z`)
	if err != nil || !re2.MatchString(v) {
		return false, true, "anchored form does not match the value"
	}
	for _, q := range perturb(v) {
		if q == v {
			continue
		}
		if re2.MatchString(q) {
			return false, true, fmt.Sprintf("also matches %q", q)
		}
		// without a newline in q, (?m)^p$ can only match all of q
		if re.MatchString(q) {
			return false, true, fmt.Sprintf("(?m) form also matches %q", q)
		}
	}
	return true, true, ""
}

func eqStrings(a, b []string) bool {
	if len(a) != len(b) {
		return false
	}
	for i := range a {
		if a[i] != b[i] {
			return false
		}
	}
	return true
}

func showWords(ws []string) string {
	var p []string
	for _, w := range ws {
		p = append(p, fmt.Sprintf("%q", w))
	}
	return "[" + strings.Join(p, " ") + "]"
}

// childValue: what getenv(3) in the child answers: first entry whose text before the
// first '=' is k.
func childValue(entries []string, k string) (string, bool) {
	for _, e := range entries {
		if i := strings.IndexByte(e, '='); i >= 0 && e[:i] == k {
			return e[i+1:], true
		}
	}
	return "", false
}

// ---------------------------------------------------------------- the run

type runner struct {
	f      *common.Flags
	res    *common.Result
	m      *common.Model
	shrunk map[string]int
}

func scriptLines(sc *script, upto int) []string {
	var ls []string
	for i, it := range sc.items {
		if i > upto {
			break
		}
		switch it.kind {
		case 'H', 'T', 'R':
			ls = append(ls, string(it.kind)+it.text)
		case 'D':
			ls = append(ls, "D"+common.Hex([]byte(it.v))+" "+it.text)
		case 'S':
			ls = append(ls, "S"+common.Hex([]byte(it.k))+" "+common.Hex([]byte(it.v)))
		}
	}
	return ls
}

// fromLines rebuilds a script from the replay form: every line is an item, a probe and a
// child observation follow every line.
func fromLines(ls []string, names []string) *script {
	sc := &script{names: names}
	for _, l := range ls {
		if l == "" {
			continue
		}
		switch l[0] {
		case 'H', 'T':
			sc.items = append(sc.items, item{kind: l[0], text: l[1:]})
		case 'R':
			// a line of built-in commands that only read (history scripts: their files and their Setup)
			sc.items = append(sc.items, item{kind: 'R', text: l[1:]})
			sc.archive, sc.bare = historyArchive, true
		case 'D':
			if i := strings.IndexByte(l, ' '); i > 0 {
				sc.items = append(sc.items, item{kind: 'D', v: string(common.UnHex(l[1:i])), text: l[i+1:]})
				sc.archive, sc.bare = historyArchive, true
			}
		case 'S':
			f := strings.Fields(l[1:])
			if len(f) == 2 {
				sc.items = append(sc.items, item{kind: 'S', k: string(common.UnHex(f[0])), v: string(common.UnHex(f[1]))})
			}
		}
		sc.items = append(sc.items, item{kind: 'P'}, item{kind: 'X'})
	}
	return sc
}

// compareScript returns the mismatches between implementation and model on one script.
type mismatch struct {
	item   int
	fn     string
	model  string
	impl   string
	detail string
}

func compareScript(sc *script, o *scriptObs, mo *modelObs) []mismatch {
	var out []mismatch
	if mo.hist != "" && mo.hist != "true" {
		out = append(out, mismatch{len(sc.items) - 1, "history_holds", mo.hist, "", "the model violates the history statements on this script read as a history of commands (model-side witness), or hrun of the history is not the state the driver reached step by step"})
	}
	for i, it := range sc.items {
		switch it.kind {
		case 'T':
			if h, ok := mo.holds[i]; ok && h != "true" {
				out = append(out, mismatch{i, "c02_holds_on", h, "", fmt.Sprintf("the model violates the property statements on this input (model-side witness): line %q, name %q, value %q", it.text, it.k, it.v)})
			}
			ma := mo.lines[i]
			inv := o.inv[i]
			impl := "not-invoked"
			if len(inv) == 1 {
				impl = strings.TrimSpace("args " + hexes(append([]string{"args"}, inv[0]...)))
			} else if len(inv) > 1 {
				impl = fmt.Sprintf("invoked %d times", len(inv))
			}
			f := strings.Fields(ma)
			switch {
			case ma == "fail" || ma == "args":
				if len(inv) != 0 {
					out = append(out, mismatch{i, "ts_parse", ma, impl, "model: no words / failure, implementation ran the args command"})
				}
			case len(f) >= 2 && f[1] == common.Hex([]byte("args")):
				if impl != ma {
					out = append(out, mismatch{i, "ts_parse", ma, impl, "argument vectors differ"})
				}
			default:
				// first word is another command (env, or unknown): the args command must not run
				if len(inv) != 0 {
					out = append(out, mismatch{i, "ts_parse", ma, impl, "model: first word is not args"})
				}
			}
		case 'P':
			if !eqStrings(o.probes[i], mo.probes[i]) {
				d := ""
				for j := range sc.names {
					var a, b string
					if j < len(o.probes[i]) {
						a = o.probes[i][j]
					}
					if j < len(mo.probes[i]) {
						b = mo.probes[i][j]
					}
					if a != b {
						d += fmt.Sprintf("%q: impl %q model %q; ", sc.names[j], a, b)
					}
				}
				if o.probes[i] == nil {
					d = "probe command did not run"
				}
				out = append(out, mismatch{i, "getenv", hexes(mo.probes[i]), hexes(o.probes[i]), d})
			}
		case 'X', 'E':
			a, b := o.child[i], mo.child[i]
			switch {
			case a == nil:
				out = append(out, mismatch{i, "child_env", "", "", "child observation did not run"})
			case a.failed != b.failed:
				out = append(out, mismatch{i, "child_env", fmt.Sprint("failed=", b.failed), fmt.Sprint("failed=", a.failed), "exec failure differs"})
			case !a.failed && !eqStrings(a.entries, b.entries):
				out = append(out, mismatch{i, "child_env", showWords(b.entries), showWords(a.entries), "child environment blocks differ"})
			}
		}
	}
	return out
}

func (rn *runner) evalOne(sc *script) (*scriptObs, *modelObs, []mismatch) {
	obs := runImpl(rn.f.Work, []*script{sc}, true)
	mo, err := runModel(rn.m, []*script{sc}, obs)
	if err != nil {
		return obs[0], nil, []mismatch{{0, "model-process", "", "", err.Error()}}
	}
	return obs[0], mo[0], compareScript(sc, obs[0], mo[0])
}

func (rn *runner) reportMismatch(sc *script, mm mismatch) {
	rn.res.Count("mismatch:" + mm.fn)
	if rn.shrunk["m:"+mm.fn]++; rn.shrunk["m:"+mm.fn] > 3 {
		return
	}
	// shrink the script prefix: keep the lines that still give a mismatch of the same function
	ls := scriptLines(sc, mm.item)
	bad := func(c []string) bool {
		if len(c) == 0 {
			return false
		}
		_, _, ms := rn.evalOne(fromLines(c, sc.names))
		for _, m := range ms {
			if m.fn == mm.fn {
				return true
			}
		}
		return false
	}
	final := mm
	if bad(ls) {
		ls = common.ShrinkList(ls, bad)
		_, _, ms := rn.evalOne(fromLines(ls, sc.names))
		for _, m := range ms {
			if m.fn == mm.fn {
				final = m
				break
			}
		}
	}
	text := strings.Join(ls, "\n")
	rn.res.Violate(common.Violation{Kind: "correspondence", Oracle: mm.fn,
		Input: map[string]string{"script": common.Hex([]byte(text)), "script_text": fmt.Sprintf("%q", text), "names": hexes(sc.names)},
		Model: final.model, Impl: final.impl, Key: mm.fn + ":" + common.Hex([]byte(text)),
		Detail: final.detail + " (lines are prefixed by their kind: H env history, T test line, S ts.Setenv k v in hex)"})
}

func (rn *runner) oracleFail(name string, lines []string, names []string, detail, impl, want string, extra map[string]string) {
	rn.res.Count("oracle-fails:" + name)
	if rn.shrunk["o:"+name]++; rn.shrunk["o:"+name] > 3 {
		return
	}
	text := strings.Join(lines, "\n")
	in := map[string]string{"script": common.Hex([]byte(text)), "script_text": fmt.Sprintf("%q", text), "names": hexes(names), "oracle": name}
	for k, v := range extra {
		in[k] = v
	}
	rn.res.Violate(common.Violation{Kind: "impl-violation", Oracle: name, Input: in, Impl: impl, Model: want,
		Key: name + ":" + common.Hex([]byte(text)), Detail: detail})
}

// runSelfContained runs the lines of one oracle case alone and returns the argv of its last line.
func (rn *runner) argvOf(lines []string) ([]string, bool) {
	sc := &script{names: probeNames}
	for _, l := range lines {
		sc.items = append(sc.items, item{kind: l[0], text: l[1:]})
	}
	obs := runImpl(rn.f.Work, []*script{sc}, true)
	inv := obs[0].inv[len(sc.items)-1]
	if len(inv) != 1 {
		return nil, false
	}
	return inv[0], true
}

// oracle evaluation on a recorded argv
func (rn *runner) checkOracle(oc *oracleCase, argv []string, invoked bool) (fails bool, detail string) {
	switch oc.name {
	case "quote-roundtrip", "expand-once", "plain-split", "multi-chunk", "dollar-var", "comment-ends-line":
		if !invoked {
			return true, "the args command did not run"
		}
		if !eqStrings(argv, oc.want) {
			return true, "argument vector differs from the words"
		}
	case "regex-exact":
		if !invoked || len(argv) != 1 {
			return true, "${k@R} did not arrive as exactly one argument"
		}
		holds, applies, d := regexExact(argv[0], oc.value)
		if !applies {
			rn.res.Count("regex-oracle:not-applicable")
			return false, ""
		}
		rn.res.Count("regex-oracle:checked")
		if !holds {
			return true, d
		}
	}
	return false, ""
}

func (rn *runner) handleOracle(oc *oracleCase, sc *script, o *scriptObs) {
	inv := o.inv[oc.item]
	var argv []string
	invoked := len(inv) == 1
	if invoked {
		argv = inv[0]
	}
	rn.res.Count("oracle:" + oc.name)
	fails, detail := rn.checkOracle(oc, argv, invoked)
	if !fails && oc.name == "dollar-var" && oc.childItem >= 0 {
		// what $$ expands to is what a child finds under the name "$"
		if c := o.child[oc.childItem]; c != nil && !c.failed && len(argv) > 0 {
			rn.res.Count("oracle:dollar-var-child")
			if cv, _ := childValue(c.entries, "$"); cv != argv[0] {
				rn.oracleFail("dollar-var-child", append([]string{}, oc.lines...), sc.names,
					fmt.Sprintf("$$ expands to %q, the child sees $=%q", argv[0], cv), cv, argv[0], map[string]string{"key": common.Hex([]byte("$"))})
			}
		}
	}
	if !fails {
		return
	}
	// re-evaluate alone (self-contained lines) and shrink the value / words
	lines := oc.lines
	want, value := oc.want, oc.value
	a, ok := rn.argvOf(lines)
	if f2, d2 := rn.checkOracle(oc, a, ok); f2 {
		detail, argv = d2, a
		if oc.build != nil && rn.shrunk["o:"+oc.name] < 3 {
			failsWith := func(v string, ws []string) bool {
				ls, w := oc.build(v, ws)
				a, ok := rn.argvOf(ls)
				f, _ := rn.checkOracle(&oracleCase{name: oc.name, want: w, key: oc.key, value: v}, a, ok)
				return f
			}
			if oc.name == "multi-chunk" {
				ps := common.ShrinkList(oc.pieces, func(c []string) bool {
					if !piecesValid(c) {
						return false
					}
					ls, w := oc.build("", c)
					a, ok := rn.argvOf(ls)
					f, _ := rn.checkOracle(&oracleCase{name: oc.name, want: w}, a, ok)
					return f
				})
				lines, want = oc.build("", ps)
				a, ok = rn.argvOf(lines)
				if f3, d3 := rn.checkOracle(&oracleCase{name: oc.name, want: want}, a, ok); f3 {
					detail, argv = d3, a
				}
				rn.oracleFail(oc.name, lines, sc.names, detail, showWords(argv), showWords(want), map[string]string{"want": hexes(want)})
				return
			}
			if oc.name == "quote-roundtrip" || oc.name == "plain-split" {
				want = common.ShrinkList(want, func(c []string) bool { return failsWith("", c) })
				for i := range want {
					wi := common.ShrinkBytes([]byte(want[i]), func(c []byte) bool {
						ws := append([]string{}, want...)
						ws[i] = string(c)
						if oc.name == "plain-split" && (len(c) == 0 || strings.ContainsAny(string(c), specialBytes)) {
							return false
						}
						return failsWith("", ws)
					})
					want[i] = string(wi)
				}
			} else {
				value = string(common.ShrinkBytes([]byte(value), func(c []byte) bool { return failsWith(string(c), nil) }))
			}
			lines, want = oc.build(value, want)
			a, ok = rn.argvOf(lines)
			oc2 := &oracleCase{name: oc.name, want: want, key: oc.key, value: value}
			if f3, d3 := rn.checkOracle(oc2, a, ok); f3 {
				detail, argv = d3, a
			}
		}
	} else {
		// only fails inside the longer script: report the script prefix
		lines = scriptLines(sc, oc.item)
	}
	rn.oracleFail(oc.name, lines, sc.names, detail, showWords(argv), showWords(want),
		map[string]string{"want": hexes(want), "key": common.Hex([]byte(oc.key)), "value": common.Hex([]byte(value)), "value_text": fmt.Sprintf("%q", value)})
}

// one batch = a set of scripts evaluated by one RunT call and one model conversation
func (rn *runner) batch(scripts []*script, ocs []*oracleCase, trackers [][]map[string]string, feats map[int]map[int]feature) {
	obs := runImpl(rn.f.Work, scripts, true)
	for s, o := range obs {
		if o.verdict != "PASS" && o.verdict != "FAIL" {
			rn.res.Notes = append(rn.res.Notes, fmt.Sprintf("script %d: verdict %s", s, o.verdict))
			rn.res.Violate(common.Violation{Kind: "correspondence", Oracle: "runner", Key: "script-not-run",
				Input: map[string]string{"script": common.Hex([]byte(strings.Join(scriptLines(scripts[s], len(scripts[s].items)), "\n")))}, Detail: "RunT did not run the script to completion: " + o.verdict})
		}
	}
	mos, err := runModel(rn.m, scripts, obs)
	if err != nil {
		rn.res.Notes = append(rn.res.Notes, "model error: "+err.Error())
		rn.res.Violate(common.Violation{Kind: "correspondence", Oracle: "model-process", Key: "model-died", Detail: err.Error(), Input: map[string]string{}})
		return
	}
	// direct oracles first
	for _, oc := range ocs {
		rn.handleOracle(oc, scripts[oc.script], obs[oc.script])
	}
	type vcase struct {
		s, i int
		want string
	}
	var verdictCases []vcase
	for s, sc := range scripts {
		o, mo := obs[s], mos[s]
		for _, mm := range compareScript(sc, o, mo) {
			rn.reportMismatch(sc, mm)
		}
		for i, it := range sc.items {
			switch it.kind {
			case 'T':
				ma := mo.lines[i]
				class := "args"
				f := strings.Fields(ma)
				switch {
				case ma == "fail":
					class = "fail"
				case ma == "args":
					class = "blank"
				case len(f) >= 2 && f[1] == common.Hex([]byte("args")):
					class = "args"
					rn.res.Count(fmt.Sprintf("argc:%d", min(len(f)-2, 6)))
				case len(f) >= 2 && f[1] == common.Hex([]byte("env")):
					class = "env"
				default:
					class = "other-first-word"
				}
				rn.res.Count("outcome:" + class)
				nontriv := strings.ContainsAny(it.text, "'$#\r\t")
				rn.res.Case(it.text, nontriv)
				if ft := feats[s][i]; ft != nil {
					for k := range ft {
						rn.res.Count("feature:" + k)
					}
				}
				if (class == "fail" || class == "blank") && len(o.inv[i]) == 0 {
					verdictCases = append(verdictCases, vcase{s, i, map[string]string{"fail": "FAIL", "blank": "PASS"}[class]})
				}
				if rn.res.Evaluations%2999 == 1 {
					rn.res.Sample(map[string]any{"line": fmt.Sprintf("%q", it.text), "model": ma, "impl_argv": showWords(flatten(o.inv[i]))})
				}
			case 'H':
				rn.res.Count("history-lines")
			case 'P':
				rn.res.Count("probes")
				// latest assignment wins, stated Go-side (tracker), independent of the model
				if tm := trackers[s][i]; tm != nil && o.probes[i] != nil {
					for j, n := range sc.names {
						if want, ok := tm[n]; ok && j < len(o.probes[i]) && o.probes[i][j] != want {
							lines := scriptLines(sc, i)
							if rn.shrunk["o:latest-wins"] < 3 && !strings.Contains(n, "=") {
								// smallest candidate: the assignment alone
								mini := fromLines([]string{"Henv " + sqGo(n+"="+want)}, []string{n})
								if mo := runImpl(rn.f.Work, []*script{mini}, true); mo[0].probes[1] != nil && mo[0].probes[1][0] != want {
									lines = []string{"Henv " + sqGo(n+"="+want)}
								}
							}
							rn.oracleFail("latest-wins", lines, sc.names,
								fmt.Sprintf("Getenv(%q) = %q, last assignment was %q", n, o.probes[i][j], want), o.probes[i][j], want, map[string]string{"key": common.Hex([]byte(n))})
						}
						rn.res.Count("oracle:latest-wins")
					}
				}
			case 'X', 'E':
				rn.res.Count("child-env:" + string(it.kind))
				// child value == Getenv value, for every probe name except PWD (needs the probe just before)
				c := o.child[i]
				if sc.apiMisuse {
					rn.res.Count("child-env:after-api-misuse")
					break
				}
				if c == nil || i == 0 || sc.items[i-1].kind != 'P' || o.probes[i-1] == nil {
					break
				}
				if c.failed {
					rn.res.Count("child-env:exec-failed")
					break
				}
				for j, n := range sc.names {
					if n == "PWD" || n == "" || strings.Contains(n, "=") {
						continue
					}
					cv, _ := childValue(c.entries, n)
					rn.res.Count("oracle:child-agrees")
					if cv != o.probes[i-1][j] {
						rn.oracleFail("child-agrees", scriptLines(sc, i), sc.names,
							fmt.Sprintf("child sees %q=%q, script sees %q", n, cv, o.probes[i-1][j]), cv, o.probes[i-1][j], map[string]string{"key": common.Hex([]byte(n))})
					}
				}
				if cv, ok := childValue(c.entries, "PWD"); !ok || cv != o.cd {
					rn.oracleFail("child-pwd", scriptLines(sc, i), sc.names, fmt.Sprintf("child PWD=%q, ts.cd=%q", cv, o.cd), cv, o.cd, nil)
				}
			}
		}
	}
	// verdicts of lines that did not reach the args command: alone in a script, a line with an
	// unterminated quote fails the script, a blank / comment-only line passes
	if len(verdictCases) > 0 {
		var minis []*script
		for _, vc := range verdictCases {
			minis = append(minis, &script{items: []item{{kind: 'T', text: scripts[vc.s].items[vc.i].text}}, names: nil})
		}
		vobs := runImpl(rn.f.Work, minis, false)
		for j, vc := range verdictCases {
			rn.res.Count("verdict-check:" + vc.want)
			if vobs[j].verdict != vc.want || len(vobs[j].inv[0]) != 0 {
				line := scripts[vc.s].items[vc.i].text
				rn.res.Count("mismatch:verdict")
				rn.res.Violate(common.Violation{Kind: "correspondence", Oracle: "ts_parse-verdict",
					Input: map[string]string{"script": common.Hex([]byte("T" + line)), "script_text": fmt.Sprintf("%q", "T"+line), "names": ""},
					Model: vc.want, Impl: vobs[j].verdict, Key: "verdict:" + common.Hex([]byte(line)),
					Detail: "a script consisting of this line alone: model says " + vc.want + " (FAIL = unterminated quoted argument, PASS = no words)"})
			}
		}
	}
}

func flatten(x [][]string) []string {
	var out []string
	for _, a := range x {
		out = append(out, a...)
	}
	return out
}


// multi-chunk words: quoted chunks interleaved with unquoted text and references, where the
// quoted literals and the values hold $NAME of defined variables; everything already
// accumulated in the word must stay as it is when the next chunk starts
func piecesValid(ps []string) bool {
	for i, p := range ps {
		if len(p) < 2 || p[1] != ':' {
			return false
		}
		if i > 0 && p[0] == 'q' && ps[i-1][0] == 'q' {
			return false // two adjacent quoted chunks would read as a doubled quote
		}
		if i > 0 && p[0] == 'p' && ps[i-1][0] == 'v' && startsAlnum(p[2:]) {
			return false // the text would continue the name
		}
		if p[0] == 'p' && (p[2:] == "" || strings.ContainsAny(p[2:], specialBytes)) {
			return false
		}
	}
	return len(ps) > 0
}

func piecesWord(ps []string, vals map[string]string) (src, want string) {
	for _, p := range ps {
		switch p[0] {
		case 'q':
			src += sqGo(p[2:])
			want += p[2:]
		case 'p':
			src += p[2:]
			want += p[2:]
		case 'v':
			src += "$" + p[2:]
			want += vals[p[2:]]
		case 'b':
			src += "${" + p[2:] + "}"
			want += vals[p[2:]]
		}
	}
	return
}

func genMultiChunk(r *common.RNG) (hist []string, vals map[string]string, pieces []string) {
	a, v := "A", common.Pick(r, []string{"V", "K", "x", "_y"})
	vals = map[string]string{
		a: common.Pick(r, []string{"AVAL", "a val", "1", "$V", ""}),
		v: common.Pick(r, []string{"$A", "${A}", "x$Ay", "$A $A", "'$A'", "${A@R}", "$" + v}),
	}
	hist = []string{"env " + sqGo(a+"="+vals[a]), "env " + sqGo(v+"="+vals[v])}
	lits := []string{"lit$A", "$A", "${A}", "q", "", " sp ", "$" + v, "it''s", "#", "${A@R}", "$$", "x"}
	plains := []string{"mid", "-", ".", "/x", "=", "@R", "{", "é"}
	n := 3 + r.Intn(5)
	for len(pieces) < n {
		var p string
		switch r.Intn(6) {
		case 0, 1, 2:
			p = "q:" + common.Pick(r, lits)
		case 3:
			p = "p:" + common.Pick(r, plains)
		case 4:
			p = "v:" + common.Pick(r, []string{a, v})
		default:
			p = "b:" + common.Pick(r, []string{a, v})
		}
		if piecesValid(append(append([]string{}, pieces...), p)) {
			pieces = append(pieces, p)
		}
	}
	return
}

// buildScript generates one script of ncases cases; returns oracle cases, trackers (per probe
// item: the exactly known values), features per T item.
func buildScript(r *common.RNG, sidx, ncases int, execEvery int) (*script, []*oracleCase, []map[string]string, map[int]feature) {
	sc := &script{names: probeNames, setupMode: sidx % 6}
	allowNul, allowMisuse = sidx%8 == 3, sidx%8 == 6
	tr := newTracker()
	for k, v := range setupKnown(sc.setupMode) {
		tr.set(k, v)
	}
	tr.set("$", "$") // predefined: $$ is a literal dollar sign
	var ocs []*oracleCase
	trk := []map[string]string{}
	feats := map[int]feature{}
	add := func(it item) int {
		sc.items = append(sc.items, it)
		trk = append(trk, nil)
		return len(sc.items) - 1
	}
	snapshot := func() map[string]string {
		m := map[string]string{}
		for k, ok := range tr.known {
			if ok {
				m[k] = tr.val[k]
			}
		}
		return m
	}
	for c := 0; c < ncases; c++ {
		ft := feature{}
		switch k := r.Intn(20); {
		case k < 3: // oracle: quoting round trip
			n := r.Intn(5)
			ws := []string{}
			for i := 0; i < n; i++ {
				if r.Chance(1, 3) {
					ws = append(ws, genPlain(r, 0))
				} else {
					ws = append(ws, genValue(r))
				}
			}
			var q []string
			for _, w := range ws {
				q = append(q, sqGo(w))
			}
			line := strings.TrimRight("args "+strings.Join(q, " "), " ")
			if n == 0 {
				line = "args"
			}
			ft["oracle-quote-roundtrip"] = true
			i := add(item{kind: 'T', text: line})
			feats[i] = ft
			ocs = append(ocs, &oracleCase{name: "quote-roundtrip", script: sidx, item: i, want: ws, lines: []string{"T" + line},
				build: func(_ string, ws []string) ([]string, []string) {
					var q []string
					for _, w := range ws {
						q = append(q, sqGo(w))
					}
					return []string{"T" + strings.TrimRight("args "+strings.Join(q, " "), " ")}, ws
				}})
		case k < 4: // oracle: plain words separated by runs of spaces and tabs parse to themselves
			n := 1 + r.Intn(4)
			ws := []string{}
			for i := 0; i < n; i++ {
				if r.Chance(1, 2) {
					ws = append(ws, genWide(r))
				} else {
					ws = append(ws, genPlain(r, 1))
				}
			}
			seps := []string{common.Pick(r, []string{" ", "\t", "  ", " \t", "\t\t ", "\t "}), common.Pick(r, []string{" ", "\t", "\t \t"}), "\t", " "}
			lead, trail := common.Pick(r, []string{"", "", " ", "\t"}), common.Pick(r, []string{"", "", " ", "\t", " \t "})
			mk := func(ws []string) string {
				line := lead + "args"
				for i, w := range ws {
					line += seps[i%len(seps)] + w
				}
				return line + trail
			}
			line := mk(ws)
			ft["oracle-plain-split"] = true
			i := add(item{kind: 'T', text: line})
			feats[i] = ft
			ocs = append(ocs, &oracleCase{name: "plain-split", script: sidx, item: i, want: ws, lines: []string{"T" + line},
				build: func(_ string, ws []string) ([]string, []string) { return []string{"T" + mk(ws)}, ws }})
		case k < 6: // oracle: an expanded value is one argument, not re-split, not re-expanded
			key := common.Pick(r, validNames)
			v := genValue(r)
			h := "env " + sqGo(key+"="+v)
			tr.set(key, v)
			if strings.Contains(h, "\x00") {
				tr.nul = true
			}
			add(item{kind: 'H', text: h})
			pre, post := "", ""
			if r.Chance(1, 3) {
				pre = genPlain(r, 1)
			}
			form := r.Intn(3)
			var line string
			switch form {
			case 0:
				line = "args " + pre + "$" + key
			case 1:
				if r.Chance(1, 3) {
					post = genPlain(r, 1)
				}
				line = "args " + pre + "${" + key + "}" + post
			default:
				post = common.Pick(r, []string{".x", "-", "/p", ":", "é"})
				line = "args " + pre + "$" + key + post
			}
			ft["oracle-expand-once"] = true
			i := add(item{kind: 'T', text: line})
			feats[i] = ft
			ocs = append(ocs, &oracleCase{name: "expand-once", script: sidx, item: i, want: []string{pre + v + post}, key: key, value: v, lines: []string{"H" + h, "T" + line},
				build: func(v string, _ []string) ([]string, []string) {
					return []string{"Henv " + sqGo(key+"="+v), "T" + line}, []string{pre + v + post}
				}})
		case k == 10 && r.Chance(1, 2): // oracle: the predefined variable "$": $$, ${$}, ${$@R}, also after env '$=v', and what a child sees
			if r.Chance(1, 2) {
				v := common.Pick(r, []string{"x", "x.y", "$", "$$", "two words", "", "a$b", "(d)"})
				h := "env " + sqGo("$="+v)
				add(item{kind: 'H', text: h})
				tr.set("$", v)
			}
			v, known := tr.current("$")
			if !known {
				v = "z.z"
				add(item{kind: 'H', text: "env " + sqGo("$="+v)})
				tr.set("$", v)
			}
			line := "args $$ ${$} ${$@R} a$$b"
			ft["oracle-dollar-var"] = true
			i := add(item{kind: 'T', text: line})
			feats[i] = ft
			oc := &oracleCase{name: "dollar-var", script: sidx, item: i, want: []string{v, v, regexp.QuoteMeta(v), "a" + v + "b"},
				lines: append(scriptLinesOf(sc, "$"), "T"+line), childItem: -1}
			if !tr.nul {
				add(item{kind: 'P'})
				oc.childItem = add(item{kind: 'X'})
			}
			ocs = append(ocs, oc)
		case k == 10: // oracle: an unquoted # ends the line also when glued to a word, a quoted chunk or a reference
			key := common.Pick(r, validNames)
			v := genValue(r)
			h := "env " + sqGo(key+"="+v)
			add(item{kind: 'H', text: h})
			tr.set(key, v)
			if strings.Contains(h, "\x00") {
				tr.nul = true
			}
			var src, want []string
			for j, n := 0, 1+r.Intn(3); j < n; j++ {
				switch r.Intn(4) {
				case 0:
					w := genPlain(r, 1)
					src, want = append(src, w), append(want, w)
				case 1:
					w := genValue(r)
					src, want = append(src, sqGo(w)), append(want, w)
				case 2:
					src, want = append(src, "$"+key), append(want, v)
				default:
					src, want = append(src, "${"+key+"}"), append(want, v)
				}
			}
			tail := common.Pick(r, []string{"#", "#b c", "#'unbalanced", "#$" + key, "# x", "##", "#\tc"})
			glue := common.Pick(r, []string{"", "", "", " ", "\t"})
			line := "args " + strings.Join(src, " ") + glue + tail
			ft["oracle-comment-ends-line"] = true
			i := add(item{kind: 'T', text: line})
			feats[i] = ft
			ocs = append(ocs, &oracleCase{name: "comment-ends-line", script: sidx, item: i, want: want, key: key, value: v,
				lines: []string{"H" + h, "T" + line}, childItem: -1})
		case k == 9: // oracle: a word of several quoted / unquoted chunks and references
			hist, vals, pieces := genMultiChunk(r)
			for _, h := range hist {
				add(item{kind: 'H', text: h})
			}
			for n := range vals {
				tr.set(n, vals[n])
			}
			mk := func(ps []string) ([]string, []string) {
				src, want := piecesWord(ps, vals)
				return []string{"H" + hist[0], "H" + hist[1], "Targs " + src}, []string{want}
			}
			lines, want := mk(pieces)
			ft["oracle-multi-chunk"] = true
			i := add(item{kind: 'T', text: lines[2][1:]})
			feats[i] = ft
			ocs = append(ocs, &oracleCase{name: "multi-chunk", script: sidx, item: i, want: want, lines: lines, pieces: pieces,
				build: func(_ string, ps []string) ([]string, []string) { return mk(ps) }})
		case k < 8: // oracle: ${k@R} matches exactly the value
			key := common.Pick(r, validNames)
			v := genValue(r)
			h := "env " + sqGo(key+"="+v)
			tr.set(key, v)
			if strings.Contains(h, "\x00") {
				tr.nul = true
			}
			add(item{kind: 'H', text: h})
			line := "args ${" + key + "@R}"
			ft["oracle-regex"] = true
			i := add(item{kind: 'T', text: line})
			feats[i] = ft
			ocs = append(ocs, &oracleCase{name: "regex-exact", script: sidx, item: i, key: key, value: v, lines: []string{"H" + h, "T" + line},
				build: func(v string, _ []string) ([]string, []string) {
					return []string{"Henv " + sqGo(key+"="+v), "T" + line}, nil
				}})
		case k < 9 && r.Chance(1, 3): // blank and comment-only lines
			ft["blank-line"] = true
			i := add(item{kind: 'T', text: common.Pick(r, []string{"", " ", "\t", "\r", " \r", "# phase comment", " # comment", "\t#", "#", " #'unbalanced", "  \t  ", "#$A"})})
			feats[i] = ft
		case k < 9 && r.Chance(1, 4): // an env command written in an unusual way, as a test line
			ft["env-as-test-line"] = true
			key := common.Pick(r, validNames)
			tr.unknown(key)
			i := add(item{kind: 'T', text: common.Pick(r, []string{"'env' ", "e''nv ", "en${nope}v\t", " env  ", "en'v' "}) + key + "=" + common.Pick(r, []string{"1", "$A", "'q r'", "${B}x", "''", "a#b"})})
			feats[i] = ft
		case k < 9: // malformed stream
			ft["stream"] = true
			line := genStreamLine(r)
			if strings.Contains(line, "\x00") {
				tr.nul = true
			}
			i := add(item{kind: 'T', text: line})
			feats[i] = ft
		default: // grammar line after a bit of history
			for h := r.Intn(3); h > 0; h-- {
				add(item{kind: 'H', text: genEnvLine(r, tr, ft)})
			}
			if r.Chance(1, 40) {
				k, v := common.Pick(r, assignKeys), genValue(r)+common.Pick(r, []string{"", "\nline2", "\n"})
				if allowMisuse && r.Chance(1, 3) {
					k = "a=b"
				}
				if k == "a=b" {
					// the list entry "a=b=v" is a later assignment to a for children and for nobody else
					sc.apiMisuse = true
				}
				if strings.Contains(v, "\x00") {
					tr.nul = true
				}
				tr.set(k, v)
				add(item{kind: 'S', k: k, v: v})
				ft["api-setenv"] = true
			}
			i := add(item{kind: 'T', text: genTestLine(r, ft)})
			feats[i] = ft
		}
		if r.Chance(1, 3) || (execEvery > 0 && c%execEvery == execEvery-1) {
			p := add(item{kind: 'P'})
			trk[p] = snapshot()
			if execEvery > 0 && c%execEvery == execEvery-1 {
				if tr.nul || r.Chance(1, 2) {
					add(item{kind: 'X'})
				} else {
					add(item{kind: 'E'})
				}
			}
		}
	}
	p := add(item{kind: 'P'})
	trk[p] = snapshot()
	add(item{kind: 'X'})
	for _, oc := range ocs {
		if oc.key != "" {
			sc.items[oc.item].k, sc.items[oc.item].v = oc.key, oc.value
		}
	}
	for i := range sc.items {
		if it := &sc.items[i]; it.kind == 'T' && it.k == "" {
			it.k, it.v = common.Pick(r, assignKeys), genValue(r)
		}
	}
	return sc, ocs, trk, feats
}


// ---------------------------------------------------------------- cmp / cmpenv and arguments of built-in commands

// one script per case, run without ContinueOnError: the verdict of the script is the verdict
// of its single line that can fail

var textAtoms = []string{"plain text ", "'quoted' ", "# hash ", "tab\t", "cr\r", "é日本 ", "\\ back ", "(x|y)* ", "end.", "\n", "\n", "  ", "a=b ", "\"dq\" ",
	"\u00a0", "- -", "{}", "@R", "\xff\xfe", "100% "}

type cmpCase struct {
	sc      *script
	kind    string
	expect  string // PASS | FAIL by construction
	citem   int    // index of the C item (cmp modes)
	lines   []string
	keys    []string
	unknown bool // expectation not known by construction (exotic $-forms): model comparison only
}

func startsAlnum(s string) bool {
	if s == "" {
		return false
	}
	c := s[0]
	return c == '_' || c >= '0' && c <= '9' || c >= 'a' && c <= 'z' || c >= 'A' && c <= 'Z'
}

// genCmpCase: text2 is a template with references, text1 what the harness knows the expansion to be
func genCmpCase(r *common.RNG) *cmpCase {
	sc := &script{names: probeNames}
	cc := &cmpCase{sc: sc}
	vals := map[string]string{}
	nk := 1 + r.Intn(3)
	for i := 0; i < nk; i++ {
		k := common.Pick(r, validNames)
		v := genValue(r)
		if r.Chance(1, 3) {
			v = common.Pick(r, []string{"$" + k, "${" + k + "}", "$" + common.Pick(r, validNames), "a$b", "${", "$$", "x $" + k + " y"})
		}
		v = strings.ReplaceAll(v, "\x00", "")
		vals[k] = v
		h := "env " + sqGo(k+"="+v)
		sc.items = append(sc.items, item{kind: 'H', text: h})
		cc.lines = append(cc.lines, "H"+h)
		cc.keys = append(cc.keys, k)
	}
	var raw, exp strings.Builder
	np := 1 + r.Intn(6)
	for i := 0; i < np; i++ {
		switch r.Intn(9) {
		case 0, 1:
			k := common.Pick(r, validNames)
			next := common.Pick(r, textAtoms)
			if startsAlnum(next) {
				next = "." + next
			}
			raw.WriteString("$" + k + next)
			exp.WriteString(vals[k] + next)
		case 2, 3:
			k := common.Pick(r, validNames)
			raw.WriteString("${" + k + "}")
			exp.WriteString(vals[k])
		case 4:
			k := common.Pick(r, validNames)
			raw.WriteString("${" + k + "@R}")
			exp.WriteString(regexp.QuoteMeta(vals[k]))
		case 5:
			raw.WriteString("$$ ")
			exp.WriteString("$ ") // the initial environment binds "$" to "$"
		case 6:
			if r.Chance(1, 2) {
				// exotic form: no expectation by construction, model comparison only
				raw.WriteString(common.Pick(r, dollarForms) + " ")
				cc.unknown = true
			} else {
				raw.WriteString("$ ")
				exp.WriteString("$ ")
			}
		default:
			a := common.Pick(r, textAtoms)
			raw.WriteString(a)
			exp.WriteString(a)
		}
	}
	text2 := raw.String() + "\n"
	expanded := exp.String() + "\n"
	// (no atom and no value starts with the marker prefix "-- ", so no line of either text can be
	// taken for a file marker of the archive)
	env, neg := r.Chance(2, 3), r.Chance(1, 4)
	var text1 string
	switch r.Intn(5) {
	case 0, 1:
		text1 = expanded
		cc.kind = "file1=expansion"
	case 2:
		text1 = text2
		cc.kind = "file1=file2"
	case 3:
		text1 = expanded[:len(expanded)-1] + "x\n"
		cc.kind = "file1=perturbed"
	default:
		// file1 holds a reference itself: it must not be expanded
		k := common.Pick(r, validNames)
		text1 = "$" + k + "\n"
		text2 = "$" + k + "\n"
		expanded = vals[k] + "\n"
		cc.unknown = false
		cc.kind = "file1-has-reference"
	}
	want2 := text2
	if env {
		want2 = expanded
	}
	ok := (text1 == want2) != neg
	cc.expect = map[bool]string{true: "PASS", false: "FAIL"}[ok]
	cmd := "cmp"
	if env {
		cmd = "cmpenv"
	}
	if neg {
		cmd = "! " + cmd
	}
	line := cmd + " a b"
	cc.kind = cmd + ":" + cc.kind
	sc.items = append(sc.items, item{kind: 'C', text: line, neg: neg, env: env, text1: text1, text2: text2})
	cc.citem = len(sc.items) - 1
	cc.lines = append(cc.lines, "C"+line)
	sc.archive = "-- a --\n" + text1 + "-- b --\n" + text2
	return cc
}

var fileNames = []string{"a b.txt", "q'x.txt", "p$q.txt", "h#x", "d$F", "t\tx", "${F}", "$$", "two  sp", " lead", "é 日本", "*", "a'b'' c", "x=y", "-n", "c\rd", "\u00a0n", "$SRC", "#"}

// genArgCase: cp / exists / stdin with arguments that come out of variables
func genArgCase(r *common.RNG) *cmpCase {
	sc := &script{names: probeNames}
	cc := &cmpCase{sc: sc, kind: "builtin-args", expect: "PASS"}
	name := common.Pick(r, fileNames)
	addL := func(line string, want ...string) {
		sc.items = append(sc.items, item{kind: 'L', text: line, want: want})
		cc.lines = append(cc.lines, "L"+line)
	}
	h := "env " + sqGo("F="+name) + " SRC=src"
	sc.items = append(sc.items, item{kind: 'H', text: h})
	cc.lines = append(cc.lines, "H"+h)
	ref := common.Pick(r, []string{"$F", "${F}"})
	if r.Chance(1, 5) {
		// negative control: were the value expanded again / split again, the file would be found
		name = common.Pick(r, []string{"$SRC", "src nope", "${SRC}", "'src'"})
		sc.items[0].text = "env " + sqGo("F="+name) + " SRC=src"
		cc.lines[0] = "H" + sc.items[0].text
		addL("exists "+ref, "exists", name)
		cc.expect = "FAIL"
		cc.kind = "builtin-args:must-fail"
	} else {
		addL("cp $SRC "+ref, "cp", "src", name)
		addL("exists "+ref, "exists", name)
		addL("exists "+sqGo(name), "exists", name)
		addL("cp "+ref+" out", "cp", name, "out")
		addL("cmp out src", "cmp", "out", "src")
		addL("stdin "+ref, "stdin", name)
		addL("exec catin", "exec", "catin")
		addL("cmp stdout src", "cmp", "stdout", "src")
		addL("! exists "+ref+".x", "!", "exists", name+".x")
	}
	sc.archive = "-- src --\ncontent of src: " + genPlain(r, 3) + "\n"
	return cc
}

func (rn *runner) fileModes(r *common.RNG, nCmp, nArgs int) {
	var cases []*cmpCase
	for i := 0; i < nCmp; i++ {
		cases = append(cases, genCmpCase(r))
	}
	for i := 0; i < nArgs; i++ {
		cases = append(cases, genArgCase(r))
	}
	rn.runFileCases(cases)
}

func (rn *runner) runFileCases(cases []*cmpCase) {
	scs := make([]*script, len(cases))
	for i, c := range cases {
		scs[i] = c.sc
	}
	obs := runImpl(rn.f.Work, scs, false)
	save := askHolds
	askHolds = false
	mos, err := runModel(rn.m, scs, obs)
	askHolds = save
	if err != nil {
		rn.res.Violate(common.Violation{Kind: "correspondence", Oracle: "model-process", Key: "model-died", Detail: err.Error(), Input: map[string]string{}})
		return
	}
	// report the smallest failing cases: visit the cases in order of size
	order := make([]int, len(cases))
	for i := range order {
		order[i] = i
	}
	size := func(c *cmpCase) int { return len(c.sc.archive) + len(strings.Join(c.lines, "\n")) }
	sort.SliceStable(order, func(a, b int) bool { return size(cases[order[a]]) < size(cases[order[b]]) })
	for _, i := range order {
		c := cases[i]
		o, mo := obs[i], mos[i]
		rn.res.Count("file-mode:" + c.kind)
		rn.res.Count("file-mode-verdict:" + o.verdict)
		text := strings.Join(c.lines, "\n")
		rn.res.Case("file:"+text+c.sc.archive, true)
		in := map[string]string{"script": common.Hex([]byte(text)), "script_text": fmt.Sprintf("%q", text),
			"archive": common.Hex([]byte(c.sc.archive)), "archive_text": fmt.Sprintf("%q", c.sc.archive), "expect": c.expect, "mode": c.kind}
		// model-free: the verdict known by construction
		if !c.unknown && o.verdict != c.expect {
			rn.res.Count("oracle-fails:" + strings.SplitN(c.kind, ":", 2)[0])
			name := "cmpenv-expands-once"
			if strings.HasPrefix(c.kind, "builtin") {
				name = "builtin-args-expand-once"
			} else if !strings.Contains(c.kind, "cmpenv") {
				name = "cmp-no-expand"
			}
			in["oracle"] = name
			rn.res.Violate(common.Violation{Kind: "impl-violation", Oracle: name, Input: in, Impl: o.verdict, Model: c.expect,
				Key: name + ":" + common.Hex([]byte(text+c.sc.archive)),
				Detail: "verdict of the script differs from the one known by construction (the harness knows the values and therefore the expanded text / the argument vectors)"})
		}
		rn.res.Count("oracle:file-verdict")
		// against the model
		for j, it := range c.sc.items {
			switch it.kind {
			case 'C':
				want := map[string]string{"true": "PASS", "false": "FAIL"}[mo.lines[j]]
				if want != o.verdict {
					rn.res.Count("mismatch:do_cmd_cmp")
					rn.res.Violate(common.Violation{Kind: "correspondence", Oracle: "do_cmd_cmp", Input: in, Model: mo.lines[j], Impl: o.verdict,
						Key: "do_cmd_cmp:" + common.Hex([]byte(text+c.sc.archive)), Detail: "model of cmp/cmpenv and the verdict of the script differ"})
				}
			case 'L':
				want := strings.TrimSpace("args " + hexes(it.want))
				if mo.lines[j] != want {
					rn.res.Count("mismatch:ts_parse-builtin-args")
					rn.res.Violate(common.Violation{Kind: "correspondence", Oracle: "ts_parse-builtin-args", Input: in, Model: mo.lines[j], Impl: want,
						Key: "largs:" + common.Hex([]byte(text)), Detail: fmt.Sprintf("model's words for %q differ from the argument vector intended by construction", it.text)})
				}
			}
		}
	}
}

// ---------------------------------------------------------------- stateless checks of the standard-library models

const reAlphabet = "ab1_\\\\\\.+*?()|[]{}^$-/ \t'\"#=@<>!~,:;%&\xc3\xa9\xe6\x97\xa5\xf0\x9f\x98\x80\xff\x80\xc0"

func genRe(r *common.RNG) string {
	n := r.Intn(8)
	b := make([]byte, 0, n)
	for i := 0; i < n; i++ {
		switch r.Intn(8) {
		case 0:
			b = append(b, '\\', reAlphabet[r.Intn(len(reAlphabet))])
		case 1:
			b = append(b, "é日😀\u00a0"[0:]...)
			b = b[:len(b)-r.Intn(3)]
		case 2:
			b = append(b, byte(r.Intn(256)))
		default:
			b = append(b, reAlphabet[r.Intn(len(reAlphabet))])
		}
	}
	return string(b)
}

func (rn *runner) stdlibChecks(r *common.RNG, n int) {
	var reqs []string
	type chk struct {
		kind string
		in   string
		want string
	}
	var cs []chk
	for i := 0; i < n; i++ {
		v := genRe(r)
		if r.Chance(1, 2) {
			v = genValue(r)
		}
		hv := common.Hex([]byte(v))
		q := regexp.QuoteMeta(v)
		reqs = append(reqs, "quotemeta "+hv)
		cs = append(cs, chk{"quote_meta", v, common.Hex([]byte(q))})
		reqs = append(reqs, "utf8 "+hv)
		cs = append(cs, chk{"utf8_ok", v, fmt.Sprint(utf8.ValidString(v))})
		// the theorem's statement on the implementation's QuoteMeta: literal of QuoteMeta(v) is v
		reqs = append(reqs, "reliteral "+common.Hex([]byte(q)))
		if utf8.ValidString(v) {
			cs = append(cs, chk{"re_literal-of-QuoteMeta", v, "some " + hv})
		} else {
			cs = append(cs, chk{"re_literal-of-QuoteMeta", v, "none"})
		}
		// re_literal against regexp/syntax on arbitrary patterns: Some s => Parse gives the literal s
		p := genRe(r)
		reqs = append(reqs, "reliteral "+common.Hex([]byte(p)))
		cs = append(cs, chk{"re_literal", p, ""})
	}
	ans, err := rn.m.Ask(reqs)
	if err != nil {
		rn.res.Violate(common.Violation{Kind: "correspondence", Oracle: "model-process", Key: "model-died", Detail: err.Error(), Input: map[string]string{}})
		return
	}
	for i, c := range cs {
		rn.res.Count("stdlib:" + c.kind)
		got := ans[i]
		want := c.want
		ok := got == want
		detail := ""
		if c.kind == "re_literal" {
			ok = true
			if strings.HasPrefix(got, "some") {
				s := ""
				if f := strings.Fields(got); len(f) == 2 {
					s = string(common.UnHex(f[1]))
				}
				rn.res.Count("stdlib:re_literal:some")
				re, err := syntax.Parse(c.in, syntax.Perl)
				switch {
				case err != nil:
					ok, detail = false, "regexp/syntax rejects the pattern: "+err.Error()
				case s == "" && re.Op != syntax.OpEmptyMatch:
					ok, detail = false, "regexp/syntax: not the empty match: "+re.String()
				case s != "" && (re.Op != syntax.OpLiteral || re.Flags&syntax.FoldCase != 0 || string(re.Rune) != s):
					ok, detail = false, "regexp/syntax: not the literal: "+re.String()
				}
				want = "OpLiteral " + fmt.Sprintf("%q", s)
			} else {
				rn.res.Count("stdlib:re_literal:none")
				// completeness on the fragment: a pattern regexp/syntax reads as a literal without
				// any operator other than escapes of punctuation is accepted by the model when
				// it is made of non-special characters and \punct only (checked structurally)
				if inFragment(c.in) {
					ok, detail = false, "pattern is a sequence of literal characters / escaped punctuation but the model rejects it"
				}
			}
		}
		if !ok {
			rn.res.Count("mismatch:" + c.kind)
			rn.res.Violate(common.Violation{Kind: "correspondence", Oracle: c.kind,
				Input: map[string]string{"x": common.Hex([]byte(c.in)), "x_text": fmt.Sprintf("%q", c.in), "stdlib": c.kind},
				Model: got, Impl: want, Key: c.kind + ":" + common.Hex([]byte(c.in)), Detail: detail})
		}
	}
}

// inFragment: valid UTF-8, every backslash is followed by ASCII punctuation, no other QuoteMeta-special byte.
func inFragment(p string) bool {
	if !utf8.ValidString(p) {
		return false
	}
	for i := 0; i < len(p); i++ {
		c := p[i]
		if c == '\\' {
			if i+1 >= len(p) {
				return false
			}
			d := p[i+1]
			if d >= 0x80 || d >= '0' && d <= '9' || d >= 'a' && d <= 'z' || d >= 'A' && d <= 'Z' {
				return false
			}
			i++
			continue
		}
		if strings.IndexByte(`\.+*?()|[]{}^$`, c) >= 0 {
			return false
		}
	}
	return true
}

// expandChecks: TestScript.expand as modelled (os_expand + @R) against os.Expand itself with the
// same mapping written in Go, on strings the tokenizer would never pass (blanks, quotes, #).
func (rn *runner) expandChecks(r *common.RNG, n int) {
	vars := []string{"A=x y", "B=", "K='q'", "a=.*", "1=one", "$=$", "*=star", "A=latest $A", "a@R=never", "=empty", "é=e", "a-b=dash"}
	env := map[string]string{}
	for _, kv := range vars {
		i := strings.Index(kv, "=")
		env[kv[:i]] = kv[i+1:]
	}
	mapping := func(key string) string {
		if k1 := strings.TrimSuffix(key, "@R"); len(k1) != len(key) {
			return regexp.QuoteMeta(env[k1])
		}
		return env[key]
	}
	reqs := []string{"reset 2f " + hexes(vars)}
	var ins []string
	for i := 0; i < n; i++ {
		var s string
		if r.Chance(1, 2) {
			s = strings.TrimPrefix(genStreamLine(r), "args ")
		} else {
			for j, k := 0, r.Intn(4); j < k; j++ {
				s += common.Pick(r, dollarForms) + common.Pick(r, []string{"", " ", "x", "'", "#", "}", "{", "$"})
			}
		}
		ins = append(ins, s)
		reqs = append(reqs, "expand "+common.Hex([]byte(s)))
	}
	ans, err := rn.m.Ask(reqs)
	if err != nil {
		rn.res.Violate(common.Violation{Kind: "correspondence", Oracle: "model-process", Key: "model-died", Detail: err.Error(), Input: map[string]string{}})
		return
	}
	for i, s := range ins {
		rn.res.Count("stdlib:os_expand")
		want := common.Hex([]byte(os.Expand(s, mapping)))
		if ans[i+1] != want {
			rn.res.Count("mismatch:os_expand")
			rn.res.Violate(common.Violation{Kind: "correspondence", Oracle: "os_expand",
				Input: map[string]string{"x": common.Hex([]byte(s)), "x_text": fmt.Sprintf("%q", s), "stdlib": "os_expand"},
				Model: ans[i+1], Impl: want, Key: "os_expand:" + common.Hex([]byte(s))})
		}
	}
}

// sqChecks: the sq / join_sp of the theorem statement is the quoting the harness uses.
func (rn *runner) sqChecks(r *common.RNG, n int) {
	var reqs, want []string
	for i := 0; i < n; i++ {
		var ws, q []string
		for j, k := 0, r.Intn(4); j < k; j++ {
			w := genValue(r)
			ws = append(ws, w)
			q = append(q, sqGo(w))
		}
		reqs = append(reqs, strings.TrimSpace("sqline "+hexes(ws)))
		want = append(want, common.Hex([]byte(strings.Join(q, " "))))
	}
	ans, err := rn.m.Ask(reqs)
	if err != nil {
		return
	}
	for i := range ans {
		rn.res.Count("stdlib:sq")
		if ans[i] != want[i] {
			rn.res.Violate(common.Violation{Kind: "correspondence", Oracle: "sq", Input: map[string]string{"request": reqs[i]},
				Model: ans[i], Impl: want[i], Key: "sq:" + reqs[i]})
		}
	}
}

func (rn *runner) corpusScript(path string) (*script, bool) {
	b, err := os.ReadFile(path)
	if err != nil {
		return nil, false
	}
	var ls []string
	for _, l := range strings.Split(strings.TrimSuffix(string(b), "\n"), "\n") {
		if strings.HasPrefix(l, "env") {
			ls = append(ls, "H"+l)
		} else {
			ls = append(ls, "T"+l)
		}
	}
	return fromLines(ls, probeNames), true
}

func main() {
	if filepath.Base(os.Args[0]) == "envdump" {
		envdumpMain()
	}
	if filepath.Base(os.Args[0]) == "catin" {
		io.Copy(os.Stdout, os.Stdin)
		os.Exit(0)
	}
	f := common.ParseFlags()
	plantHostCanaries() // hostenv.go: the runner's own environment defines the names no script assigns
	res := common.NewResult("C02", f.Tier, f.Seed)
	if f.Work == "" {
		d, _ := os.MkdirTemp("", "tsparse-work-")
		f.Work = d
		defer os.RemoveAll(d)
	}
	m, err := common.StartModel(f.Model)
	if err != nil {
		fmt.Fprintln(os.Stderr, "cannot start model:", err)
		os.Exit(2)
	}
	defer m.Close()
	for i := 0; i < 3; i++ {
		if em, err := common.StartModel(f.Model); err == nil {
			extraModels = append(extraModels, em)
			defer em.Close()
		}
	}
	rn := &runner{f: f, res: res, m: m, shrunk: map[string]int{}}
	if c := strings.Fields(m.Ask1("consts")); len(c) == 2 {
		specialBytes = string(common.UnHex(c[0])) + string(common.UnHex(c[1])) + "$\n"
	} else {
		res.Notes = append(res.Notes, "model driver did not answer the consts request; using the built-in special byte set")
	}

	// the helper program: this binary under the name envdump
	helperDir = filepath.Join(f.Work, "helperbin")
	os.MkdirAll(helperDir, 0o777)
	self, err := os.Executable()
	if err == nil {
		os.Remove(filepath.Join(helperDir, "envdump"))
		os.Remove(filepath.Join(helperDir, "catin"))
		err = os.Symlink(self, filepath.Join(helperDir, "envdump"))
		if err == nil {
			err = os.Symlink(self, filepath.Join(helperDir, "catin"))
		}
	}
	if err != nil {
		fmt.Fprintln(os.Stderr, "cannot install the envdump helper:", err)
		os.Exit(2)
	}

	if f.Replay != "" {
		rp, err := common.LoadReplay(f.Replay)
		if err != nil {
			fmt.Fprintln(os.Stderr, err)
			os.Exit(2)
		}
		rn.replay(rp.Violation)
		res.Write(f.Out)
		return
	}

	// 1. corpus first
	if f.Corpus != "" {
		ents, _ := filepath.Glob(filepath.Join(f.Corpus, "*"))
		sort.Strings(ents)
		var scs []*script
		for _, e := range ents {
			if strings.HasSuffix(e, ".json") {
				// a script-level case: {"mode": "long-lines" | "history" | "listing", "spec": ...}
				if b, err := os.ReadFile(e); err == nil {
					var c struct {
						Mode string          `json:"mode"`
						Spec json.RawMessage `json:"spec"`
					}
					if json.Unmarshal(b, &c) == nil && c.Mode != "" {
						res.Count("src:corpus")
						rn.replay(common.Violation{Oracle: "corpus", Key: "corpus:" + filepath.Base(e), Input: map[string]string{"mode": c.Mode, "spec": string(c.Spec), "corpus_file": filepath.Base(e)}})
					}
				}
				continue
			}
			if sc, ok := rn.corpusScript(e); ok {
				scs = append(scs, sc)
				res.Count("src:corpus")
			}
		}
		if len(scs) > 0 {
			trk := make([][]map[string]string, len(scs))
			for i, sc := range scs {
				trk[i] = make([]map[string]string, len(sc.items))
			}
			rn.batch(scs, nil, trk, map[int]map[int]feature{})
		}
	}

	// 2. generated scripts
	r := common.NewRNG(f.Seed)
	nScripts, nCases, execEvery := 64, 470, 24
	nStd := 25000
	if f.Tier == "thorough" {
		nScripts, nStd = 900, 400000
	}
	// development aid: TSPARSE_ONLY=script runs the script-level scenarios alone
	only := os.Getenv("TSPARSE_ONLY")
	if only == "script" {
		nScripts, nStd = 0, 0
	}
	const perBatch = 16
	for b := 0; b < nScripts; b += perBatch {
		var scs []*script
		var ocs []*oracleCase
		var trk [][]map[string]string
		feats := map[int]map[int]feature{}
		for s := 0; s < perBatch && b+s < nScripts; s++ {
			sc, oc, tk, ft := buildScript(r.Fork(), s, nCases, execEvery)
			scs = append(scs, sc)
			ocs = append(ocs, oc...)
			trk = append(trk, tk)
			feats[s] = ft
		}
		rn.batch(scs, ocs, trk, feats)
	}

	// 3. cmp / cmpenv and the arguments of cp / exists / stdin: one script per case
	nCmp, nArgs := 2400, 400
	if f.Tier == "thorough" {
		nCmp, nArgs = 40000, 4000
	}
	for done := 0; done < nCmp+nArgs && only == ""; done += 2800 {
		rn.fileModes(r.Fork(), min(nCmp, 2400), min(nArgs, 400))
	}

	// 3b. the script level: long lines at every position of multi-line scripts, histories of commands
	t0 := time.Now()
	nLongScripts := rn.longLines(r.Fork())
	t1 := time.Now()
	nHistories := rn.histories(r.Fork())
	t2 := time.Now()
	nListings := rn.listings(r.Fork())
	t3 := time.Now()
	nHost := rn.hostScenario()
	res.Notes = append(res.Notes, fmt.Sprintf("host environment (hostenv.go): %d canary variables of the runner's own environment (planted names incl. every short name the generators reference unassigned, and the regular names of the real host environment), each referenced by one script in every expansion position (words, env arguments, ts.Getenv, env NAME, [exec:] and Params.Condition, cmpenv template, archive entry name, environment of exec / ts.Exec programs), then assigned (the script's value wins); oracles host-env-invisible, host-env-not-in-child, host-untouched (environment and directory of the runner during and after the run); %.1fs", nHost, time.Since(t3).Seconds()))
	res.Notes = append(res.Notes, fmt.Sprintf("script level: long lines %.1fs, histories %.1fs, listings %.1fs", t1.Sub(t0).Seconds(), t2.Sub(t1).Seconds(), time.Since(t2).Seconds()))

	// 4. the standard-library models on their own
	rn.stdlibChecks(r.Fork(), nStd)
	rn.expandChecks(r.Fork(), nStd)
	rn.sqChecks(r.Fork(), 2000)

	res.Exhaustive = false
	res.Rule = fmt.Sprintf("corpus scripts, then %d generated scripts of %d cases each run through testscript.RunT (recording commands args/probe/child, helper envdump on PATH): "+
		"test lines from a grammar of plain / single-quoted chunks, $NAME ${NAME} ${NAME@R}, special and malformed $-forms, comments, CR/tab separators, unterminated quotes, and a random special-character stream, "+
		"after histories of env K=V lines (quoted, half-quoted, plain, through expansion, display form, odd keys) and ts.Setenv calls; every line is one evaluation (argv vs ts_parse), "+
		"probes compare ts.Getenv with getenv, child observations compare the environment block of the helper with child_env; lines that do not reach args are re-run alone for the verdict; "+
		"Params.Setup also rewrites / removes / inserts / duplicates / moves predefined entries (six modes), with the values known by construction; oracles without the model: dollar-var ($$ ${$} ${$@R}, after env '$=v', and in the child), comment-ends-line (# glued to a word, a quoted chunk, a reference), quote-roundtrip, plain-split, multi-chunk (words of 3-7 quoted / unquoted chunks and references whose literals and values hold $NAME), expand-once, regex-exact, latest-wins, child-agrees, child-pwd; then %d strings each for quote_meta / utf8_ok / re_literal vs regexp, regexp/syntax, unicode/utf8 and os_expand vs os.Expand. "+
		"after every test line the model is asked c02_holds_on (the boolean form of the statements) for the line and a name/value of the case; "+
		"%d scripts with one cmp/cmpenv line each (second file a template with $K ${K} ${K@R} $$ and exotic forms, first file the expansion known by construction / the raw text / a perturbation / a reference itself, verdict by construction and against do_cmd_cmp) and %d scripts passing variable-held file names (blanks, quotes, $, #, tab, CR) to cp / exists / stdin, with a must-fail control; env K=$OTHER chains are followed by the latest-wins tracker. "+
		"Script level: %d multi-line scripts with a long line first / in the middle / last (one plain or quoted word, several long words, thousands of words, a long comment, a long phase comment or blank line, a long env line, long values through ts.Setenv and ${VAR} / ${VAR@R}; 1 KiB ... 1 MiB around 4 KiB and 64 KiB; CRLF; last line without LF) with the model-free oracle every-line-runs (the rec command is seen once per line, in order, with the words known by construction), script_lines_tr of the model on every text, and run_script of the model on the long-line scripts the extracted tokenizer handles in linear time; "+
		"%d histories of 10-23 steps (env K=V repeated in non-sorted order, several assignments per line, env NAME, the argument-less env, ts.Setenv, cd, exists / grep / cmp / stdout / [exec:] lines that only read, six Setup modes, one run in five with testing.Verbose, i.e. with the listing at the start) where after EVERY step $K ${K} ${K@R} ts.Getenv and the environment / PWD of an executed program are compared with the latest assignment known by construction (history-latest-wins) and with the model; %d histories ending in the listing, read from T.Log (listing-shows-latest, env_listing); every script is also read as a history by the model (histholds: hrun reproduces the state, history_holds is true). "+
		"Dimensions of CONVENTIONS addendum 4: 1 state carried between calls (histories; every script of a batch shares one RunT call and the package-level execCache), 4 sizes past internal limits (lines and values past 4 KiB / 64 KiB / 1 MiB, thousands of words), 6 data that looks like syntax (CR / CRLF, NUL, invalid UTF-8, %%, quotes, $, # in values and words), 7 host environment (PATH / HOME / the variables of Params.Setup are part of the compared child environment; the runner's own environment defines, for the whole run, every short name the generators reference without assigning it plus dedicated canaries, so a reference to an unassigned name that expands to a host value fails the existing oracles too; hostenv.go references every such name and every regular name of the real host environment in every expansion position and checks that the runner's environment and directory are untouched by env / ts.Setenv / cd), 8 (a changed source shape is reported by the regenerated constants / fingerprints while every oracle still runs); 2, 3, 5 do not apply to a pure tokenizer / environment property. "+
		"A line is non-trivial when it contains a quote, $, #, CR or tab; distinct = distinct line text", nScripts, nCases, nStd, nCmp, nArgs, nLongScripts, nHistories, nListings)
	rn.srcStats() // srcstats.go: the translated source, run beside the model by the driver
	res.Write(f.Out)
}

// replay re-executes one recorded case.
func (rn *runner) replay(v common.Violation) {
	if kind := v.Input["stdlib"]; kind != "" {
		x := string(common.UnHex(v.Input["x"]))
		hx := common.Hex([]byte(x))
		switch kind {
		case "quote_meta":
			rn.replayCmp(kind, x, rn.m.Ask1("quotemeta "+hx), common.Hex([]byte(regexp.QuoteMeta(x))))
		case "utf8_ok":
			rn.replayCmp(kind, x, rn.m.Ask1("utf8 "+hx), fmt.Sprint(utf8.ValidString(x)))
		default:
			rn.res.Notes = append(rn.res.Notes, "replay of "+kind+": run the quick tier (stateless stdlib model checks are re-run there)")
			rn.stdlibChecks(common.NewRNG(rn.f.Seed), 2000)
			rn.expandChecks(common.NewRNG(rn.f.Seed), 2000)
		}
		return
	}
	switch v.Input["mode"] {
	case "long-lines":
		rn.replayLong(v)
		return
	case "history":
		rn.replayHistory(v)
		return
	case "listing":
		rn.replayListing(v)
		return
	case "host-env":
		rn.replayHost(v)
		return
	}
	if arch, ok := v.Input["archive"]; ok {
		rn.replayFileCase(string(common.UnHex(v.Input["script"])), string(common.UnHex(arch)), v.Input["expect"], v.Input["mode"])
		return
	}
	text := string(common.UnHex(v.Input["script"]))
	var names []string
	for _, h := range strings.Fields(v.Input["names"]) {
		names = append(names, string(common.UnHex(h)))
	}
	if names == nil {
		names = probeNames
	}
	lines := strings.Split(text, "\n")
	sc := fromLines(lines, names)
	o, _, ms := rn.evalOne(sc)
	rn.res.Case(text, true)
	for _, mm := range ms {
		rn.res.Violate(common.Violation{Kind: "correspondence", Oracle: mm.fn, Input: v.Input, Model: mm.model, Impl: mm.impl,
			Key: mm.fn + ":" + v.Input["script"], Detail: mm.detail})
	}
	if len(lines) == 1 && strings.HasPrefix(lines[0], "T") && v.Oracle == "ts_parse-verdict" {
		vo := runImpl(rn.f.Work, []*script{{items: []item{{kind: 'T', text: lines[0][1:]}}}}, false)
		if vo[0].verdict != v.Model {
			rn.res.Violate(common.Violation{Kind: "correspondence", Oracle: "ts_parse-verdict", Input: v.Input, Model: v.Model, Impl: vo[0].verdict, Key: v.Key})
		}
	}
	if name := v.Input["oracle"]; name != "" {
		// the T item is the last line; items are line, P, X per line
		last := len(sc.items) - 3
		oc := &oracleCase{name: name, item: last, key: string(common.UnHex(v.Input["key"])), value: string(common.UnHex(v.Input["value"]))}
		for _, h := range strings.Fields(v.Input["want"]) {
			oc.want = append(oc.want, string(common.UnHex(h)))
		}
		if oc.want == nil {
			oc.want = []string{}
		}
		switch name {
		case "quote-roundtrip", "expand-once", "regex-exact", "plain-split", "multi-chunk", "dollar-var", "comment-ends-line":
			inv := o.inv[last]
			var argv []string
			if len(inv) == 1 {
				argv = inv[0]
			}
			if fails, d := rn.checkOracle(oc, argv, len(inv) == 1); fails {
				rn.res.Violate(common.Violation{Kind: "impl-violation", Oracle: name, Input: v.Input, Impl: showWords(argv), Model: showWords(oc.want), Key: v.Key, Detail: d})
			}
		case "latest-wins", "child-agrees", "child-pwd":
			key := oc.key
			j := -1
			for i, n := range names {
				if n == key {
					j = i
				}
			}
			p, c := o.probes[last+1], o.child[last+2]
			if name == "child-pwd" && c != nil && !c.failed {
				if cv, ok := childValue(c.entries, "PWD"); !ok || cv != o.cd {
					rn.res.Violate(common.Violation{Kind: "impl-violation", Oracle: name, Input: v.Input, Impl: cv, Model: o.cd, Key: v.Key})
				}
			}
			if name == "child-agrees" && j >= 0 && p != nil && c != nil && !c.failed {
				if cv, _ := childValue(c.entries, key); cv != p[j] {
					rn.res.Violate(common.Violation{Kind: "impl-violation", Oracle: name, Input: v.Input, Impl: cv, Model: p[j], Key: v.Key})
				}
			}
			if name == "latest-wins" && j >= 0 && p != nil && p[j] != v.Model {
				rn.res.Violate(common.Violation{Kind: "impl-violation", Oracle: name, Input: v.Input, Impl: p[j], Model: v.Model, Key: v.Key})
			}
		}
	}
}

func (rn *runner) replayCmp(kind, x, model, impl string) {
	rn.res.Case(x, true)
	if model != impl {
		rn.res.Violate(common.Violation{Kind: "correspondence", Oracle: kind, Input: map[string]string{"x": common.Hex([]byte(x)), "stdlib": kind},
			Model: model, Impl: impl, Key: kind + ":" + common.Hex([]byte(x))})
	}
}

var _ = hex.EncodeToString

// replayFileCase rebuilds a cmp / cmpenv / builtin-arguments case from its replay form.
func (rn *runner) replayFileCase(text, archive, expect, mode string) {
	sc := &script{names: probeNames, archive: archive}
	cc := &cmpCase{sc: sc, kind: mode, expect: expect, unknown: expect == ""}
	for _, l := range strings.Split(text, "\n") {
		if l == "" {
			continue
		}
		cc.lines = append(cc.lines, l)
		switch l[0] {
		case 'H':
			sc.items = append(sc.items, item{kind: 'H', text: l[1:]})
		case 'L':
			// the intended argument vector is not stored: compare the verdict only
			sc.items = append(sc.items, item{kind: 'H', text: l[1:]})
		case 'C':
			it := item{kind: 'C', text: l[1:]}
			f := strings.Fields(l[1:])
			if len(f) > 0 && f[0] == "!" {
				it.neg = true
				f = f[1:]
			}
			it.env = len(f) > 0 && f[0] == "cmpenv"
			if i := strings.Index(archive, "-- b --\n"); i >= 0 && strings.HasPrefix(archive, "-- a --\n") {
				it.text1, it.text2 = archive[len("-- a --\n"):i], archive[i+len("-- b --\n"):]
			}
			sc.items = append(sc.items, it)
		}
	}
	rn.runFileCases([]*cmpCase{cc})
}

package main

import (
	"fmt"
	"strconv"
	"strings"

	"verif/harness/common"
)

// srcStats: the model driver runs the functions of Gen/TsParseSrc.v -- parse, expand, Getenv,
// Setenv, setEnv, cmdEnv of testscript.go / cmd.go as translated by harness/go2coq on this run -- beside the
// hand-written model on every request (ocaml/tsparse/driver.ml) and answers SRC-MISMATCH where
// they disagree, so every comparison of a model answer with the implementation made above is
// also a comparison of the translated function with the implementation: a test of the
// translator and of Lib/GoSem*.v.  Here the counts are collected from every model process and
// written into the evidence; a disagreement that no comparison picked up is reported.
func (rn *runner) srcStats() {
	names := []string{"parse", "expand", "getenv", "setenv", "setEnv", "cmdEnv", "skipped-long", "mismatch"}
	total := map[string]int{}
	first := ""
	for _, m := range append([]*common.Model{rn.m}, extraModels...) {
		f := strings.Fields(m.Ask1("srcstats"))
		if len(f) < 10 || f[0] != "src" {
			rn.res.Notes = append(rn.res.Notes, "model driver did not answer the srcstats request: the translated functions were not run")
			return
		}
		for i, n := range names {
			v, _ := strconv.Atoi(f[1+i])
			total[n] += v
		}
		if first == "" && f[9] != "-" {
			first = strings.Join(f[9:], " ")
		}
	}
	for _, n := range names {
		rn.res.Distribution["translated-src:"+n] += total[n]
	}
	if total["mismatch"] > 0 {
		rn.res.Violate(common.Violation{Kind: "correspondence", Oracle: "translated-source",
			Key: "translated-source:" + first, Model: first, Input: map[string]string{"first": first},
			Detail: fmt.Sprintf("a function of Gen/TsParseSrc.v (testscript.go translated by go2coq) disagrees with the hand-written model on %d requests; first: %s", total["mismatch"], first)})
	}
	rn.res.Notes = append(rn.res.Notes, fmt.Sprintf("translated source (Gen/TsParseSrc.v) run beside the model and thereby compared with the implementation: parse %d, expand %d, Getenv %d, Setenv %d, setEnv %d, cmdEnv %d evaluations; %d lines longer than the cap left to the model; %d disagreements",
		total["parse"], total["expand"], total["getenv"], total["setenv"], total["setEnv"], total["cmdEnv"], total["skipped-long"], total["mismatch"]))
}

package main

// Direct oracles on the UNMODIFIED package (continued): what lives BETWEEN objects and what depends on wall-clock time.
//
// The controlled runs put ONE Work / ONE Cache on the cooperative scheduler; a package-level addition to par/work.go
// (a pool, a semaphore, a timeout) is invisible to that per-object schedule.  The property is stated per object and
// without any bound on the running time of the user function, so this file exercises, in one process and on the Go
// scheduler,
//
//   - multi-work: several Work values used one after the other AND alive at the same time (filled before any of them runs,
//     run concurrently, run in turn), over item sets that are shared between the Works or private to each: every Work on
//     its own must call f exactly once for each of ITS items and for nothing else;
//   - nested: Works run from inside f of other Works (two and three levels), with the outer n at and past plausible
//     global limits (64, 256, 1024), with and without a rendezvous that forces all outer calls to be in progress at once:
//     must terminate (watchdog that has to fire twice) and every level must satisfy the per-Work oracles;
//   - slow-f: a computation that takes seconds (past plausible timeouts) with concurrent Do and Get callers of the same
//     key arriving while it runs: f exactly once, every Do returns its value and not before it completed, Get does not
//     block and returns nil or that value;
//   - multi-cache: several Cache values with the SAME keys, one after the other and concurrently: each Cache computes
//     and returns its own values.

import (
	"fmt"
	"sort"
	"strings"
	"sync"
	"sync/atomic"
	"time"

	realpar "github.com/rogpeppe/go-internal/par"

	"verif/harness/common"
)

// poisoned: a scenario of this process ended with goroutines of the package still blocked (a Do that did not return).
// Whatever state they hold (package-level or not) is still held, so later scenarios of this process say nothing about
// the package any more; they are skipped (the finding is already recorded).
var poisoned bool

// ---------------------------------------------------------------- a Work with its bookkeeping

type taggedItem struct{ work, id int }

// dwork: one real par.Work with the counters of the direct oracles.  tag < 0: the items are the values of newItems
// (shared by every Work of the process: the same Go values are items of several Works); tag >= 0: the items are private
// to this Work (taggedItem{tag, i}, and a pointer for every third id).
type dwork struct {
	c            workCfg
	tag          int
	items        *itemTable
	ptrs         map[int]*taggedItem
	ids          map[any]int
	w            realpar.Work
	begun, ended []int32
	active       int32
	maxActive    int32
	unknown      int32
	unkMu        sync.Mutex
	unk          []string
	inside       func(d *dwork, i int) // runs inside f(i) after its Adds (a nested Do, a rendezvous)
}

func newDwork(c workCfg, tag int) *dwork {
	d := &dwork{c: c, tag: tag, begun: make([]int32, len(c.g)), ended: make([]int32, len(c.g))}
	if tag < 0 {
		d.items = newItems(len(c.g))
		d.ids = d.items.ids
		return d
	}
	d.ptrs = map[int]*taggedItem{}
	d.ids = map[any]int{}
	for i := range c.g {
		if i%3 == 2 {
			d.ptrs[i] = &taggedItem{tag, i}
		}
		d.ids[d.val(i)] = i
	}
	return d
}

func (d *dwork) val(i int) any {
	if d.tag < 0 {
		return d.items.val(i)
	}
	if p, ok := d.ptrs[i]; ok {
		return p
	}
	return taggedItem{d.tag, i}
}

func (d *dwork) fill() {
	for _, i := range d.c.inits {
		d.w.Add(d.val(i))
	}
}

func (d *dwork) f(item any) {
	i, ok := d.ids[item]
	if !ok {
		atomic.AddInt32(&d.unknown, 1)
		d.unkMu.Lock()
		if len(d.unk) < 4 {
			d.unk = append(d.unk, showKey(item))
		}
		d.unkMu.Unlock()
		return
	}
	a := atomic.AddInt32(&d.active, 1)
	for {
		m := atomic.LoadInt32(&d.maxActive)
		if a <= m || atomic.CompareAndSwapInt32(&d.maxActive, m, a) {
			break
		}
	}
	atomic.AddInt32(&d.begun[i], 1)
	for _, ch := range d.c.g[i] {
		d.w.Add(d.val(ch))
	}
	if d.inside != nil {
		d.inside(d, i)
	}
	atomic.AddInt32(&d.ended[i], 1)
	atomic.AddInt32(&d.active, -1)
}

// do runs Do in a goroutine of its own; the channel is closed when Do has returned.
func (d *dwork) do() chan struct{} {
	done := make(chan struct{})
	go func() { d.w.Do(d.c.n, d.f); close(done) }()
	return done
}

// verdict: the per-Work oracles, evaluated after Do returned.
func (d *dwork) verdict() (oracle, detail string) {
	if n := atomic.LoadInt32(&d.unknown); n > 0 {
		d.unkMu.Lock()
		defer d.unkMu.Unlock()
		return "work/exactly-once", fmt.Sprintf("f was called %d time(s) with a value that was never added to this Work: %s", n, strings.Join(d.unk, ", "))
	}
	if a := atomic.LoadInt32(&d.active); a != 0 {
		return "work/do-returns-when-done", fmt.Sprintf("%d calls of f still in progress when Do returned", a)
	}
	if m := atomic.LoadInt32(&d.maxActive); int(m) > d.c.n {
		return "work/at-most-n", fmt.Sprintf("%d calls of f in progress with n=%d", m, d.c.n)
	}
	reach := d.c.reach()
	var bad []string
	for i := range d.c.g {
		want := int32(0)
		if reach[i] {
			want = 1
		}
		if b, e := atomic.LoadInt32(&d.begun[i]), atomic.LoadInt32(&d.ended[i]); b != want || e != want {
			bad = append(bad, fmt.Sprintf("item %d (%s): f begun %d ended %d times, want %d", i, showKey(d.val(i)), b, e, want))
		}
	}
	if len(bad) > 0 {
		more := ""
		if len(bad) > 3 {
			more = fmt.Sprintf(" (and %d more items)", len(bad)-3)
			bad = bad[:3]
		}
		return "work/exactly-once", strings.Join(bad, "; ") + more
	}
	return "", ""
}

// waitFor: all channels closed within patience?
func waitFor(dones []chan struct{}, patience time.Duration) (missing int) {
	t := time.After(patience)
	for k, ch := range dones {
		select {
		case <-ch:
		case <-t:
			missing = 0
			for _, c2 := range dones[k:] {
				select {
				case <-c2:
				default:
					missing++
				}
			}
			return missing
		}
	}
	return 0
}

// ---------------------------------------------------------------- C09: several Works in one process

// multiWorkSession: session idx of the family given by seed.  A session is 1..4 rounds; in each round 1..3 Works are
// alive at the same time, in one of four ways:
//
//	turn:       Work by Work: Adds, Do, verdict, then the next one
//	fill-turn:  the initial Adds of ALL Works of the round first (interleaved item by item), then Do on each in turn
//	fill-conc:  the initial Adds of all Works first, then all Do calls concurrently
//	conc:       every Work is filled and run in a goroutine of its own
//
// Oracle: the per-Work oracles on every Work (exactly once for its own items and for nothing else, at most n, Do returns
// when done) and termination of the round.
func multiWorkSession(seed uint64, idx int, patience time.Duration) (oracle, detail, text string) {
	r := common.NewRNG(mix64(seed ^ uint64(idx)*0x9E3779B97F4A7C15))
	rounds := 1 + r.Intn(4)
	tag := 0
	var desc []string
	for rd := 0; rd < rounds; rd++ {
		k := 1 + r.Intn(3)
		how := []string{"turn", "fill-turn", "fill-conc", "conc"}[r.Intn(4)]
		ws := make([]*dwork, k)
		var wd []string
		for j := range ws {
			maxN := 8
			if r.Intn(10) == 0 {
				maxN = 70
			}
			c := randWorkCfg(r, maxN, 12)
			if len(c.inits) == 0 && r.Intn(3) != 0 { // mostly non-empty work sets
				c.inits = []int{r.Intn(len(c.g))}
			}
			t := -1
			if r.Intn(3) != 0 {
				t = tag
			}
			tag++
			ws[j] = newDwork(c, t)
			wd = append(wd, fmt.Sprintf("W%d.%d{n=%d children=%v inits=%v items=%s}", rd, j, c.n, c.g, c.inits, map[bool]string{true: "shared values", false: "private values"}[t < 0]))
		}
		desc = append(desc, fmt.Sprintf("round %d (%s): %s", rd, how, strings.Join(wd, " ")))
		text = strings.Join(desc, "; ")
		check := func(j int) bool {
			if o, d := ws[j].verdict(); o != "" {
				oracle, detail = o, fmt.Sprintf("session %d, round %d (%s), Work W%d.%d: %s", idx, rd, how, rd, j, d)
				return false
			}
			return true
		}
		hang := func(missing int) {
			poisoned = true
			oracle, detail = "work/no-deadlock", fmt.Sprintf("session %d, round %d (%s): %d of the %d Do calls did not return within %v", idx, rd, how, missing, k, patience)
		}
		switch how {
		case "turn":
			for j := range ws {
				ws[j].fill()
				if m := waitFor([]chan struct{}{ws[j].do()}, patience); m > 0 {
					hang(m)
					return
				}
				if !check(j) {
					return
				}
			}
		case "fill-turn", "fill-conc":
			for p := 0; ; p++ { // interleaved: the p-th initial Add of every Work
				any := false
				for _, d := range ws {
					if p < len(d.c.inits) {
						d.w.Add(d.val(d.c.inits[p]))
						any = true
					}
				}
				if !any {
					break
				}
			}
			if how == "fill-turn" {
				for j := range ws {
					if m := waitFor([]chan struct{}{ws[j].do()}, patience); m > 0 {
						hang(m)
						return
					}
				}
			} else {
				var dones []chan struct{}
				for _, d := range ws {
					dones = append(dones, d.do())
				}
				if m := waitFor(dones, patience); m > 0 {
					hang(m)
					return
				}
			}
			for j := range ws {
				if !check(j) {
					return
				}
			}
		case "conc":
			var dones []chan struct{}
			for _, d := range ws {
				d := d
				done := make(chan struct{})
				dones = append(dones, done)
				go func() { d.fill(); d.w.Do(d.c.n, d.f); close(done) }()
			}
			if m := waitFor(dones, patience); m > 0 {
				hang(m)
				return
			}
			for j := range ws {
				if !check(j) {
					return
				}
			}
		}
	}
	return "", "", text
}

// multiWorkCase runs sessions from..upto-1 of the family (in this order, in this process).  A finding is reported with the
// whole prefix of sessions as its input: state that survives between Work values may stem from any earlier session.
func multiWorkCase(seed uint64, from, upto int, src string) bool {
	announce(fmt.Sprintf("multi-work %d %d", seed, upto))
	for idx := from; idx < upto; idx++ {
		res.Case(fmt.Sprintf("multi-work#%d#%d", seed, idx), true)
		res.Count("src:" + src)
		o, d, text := multiWorkSession(seed, idx, 8*time.Second)
		if o == "work/no-deadlock" {
			// the one timing-dependent oracle: it must repeat (same session again, more patience)
			o, d, text = multiWorkSession(seed, idx, 25*time.Second)
			if o == "" {
				poisoned = false // slow, not stuck
			}
		}
		if o == "" {
			continue
		}
		directViolate(o, d, map[string]string{"cfg": fmt.Sprintf("multi-work %d %d", seed, idx+1), "source": src,
			"text": fmt.Sprintf("unmodified par.Work on the Go scheduler, ONE process: sessions 0..%d of family %d run one after the other; each session is a few rounds of 1-3 Work values alive at the same time. The failing session %d: %s", idx, seed, idx, text)})
		return false
	}
	return true
}

// ---------------------------------------------------------------- C09: Works nested inside f of other Works

// nestedCfg: the outer Work has the items 0..k (item 0 adds 1..k from inside f; with pre, 1..k are initial Adds as well);
// outer.Do(n, f).  f(i), i >= 1, first waits (if rv) until all k of f(1..k) are in progress -- possible iff n >= k -- and
// then runs a FRESH inner Work over a small item graph (a chain of m items whose head also fans out to m more) with
// inner.Do(nin, g); with depth 3 the calls g(1) run a third-level Work of the same shape.  Every Work of every level is
// judged by the per-Work oracles; the whole must terminate.
type nestedCfg struct {
	k, n, m, nin, depth int
	rv                  bool
}

func (c nestedCfg) String() string {
	return fmt.Sprintf("nested %d %d %d %d %d %v", c.k, c.n, c.m, c.nin, c.depth, c.rv)
}

func innerGraph(m int) workCfg {
	// items 0..m-1: a chain; item 0 also adds m..2m-1 (leaves)
	g := make([][]int, 2*m)
	for i := 0; i < m; i++ {
		if i+1 < m {
			g[i] = append(g[i], i+1)
		}
	}
	for i := m; i < 2*m; i++ {
		g[0] = append(g[0], i)
		g[i] = []int{}
	}
	return workCfg{g: g, inits: []int{0, 0}}
}

type nestedRun struct {
	mu      sync.Mutex
	oracle  string
	detail  string
	innerN  int32 // inner Works that ran to their verdict
	gcalls  int32
	arrived int32
	allIn   chan struct{}
}

func (nr *nestedRun) fail(o, d string) {
	nr.mu.Lock()
	if nr.oracle == "" {
		nr.oracle, nr.detail = o, d
	}
	nr.mu.Unlock()
}

func runNested(c nestedCfg, patience time.Duration) (oracle, detail string) {
	nr := &nestedRun{allIn: make(chan struct{})}
	var tagc int32 = 1
	var runInner func(level, nin int, path string)
	runInner = func(level, nin int, path string) {
		ic := innerGraph(c.m)
		ic.n = nin
		t := -1
		if level%2 == 1 {
			t = int(atomic.AddInt32(&tagc, 1))
		}
		in := newDwork(ic, t)
		in.inside = func(d *dwork, i int) {
			atomic.AddInt32(&nr.gcalls, 1)
			if level+1 < c.depth && i == 1 {
				runInner(level+1, 1+(nin%3), path+"/1")
			}
		}
		in.fill()
		in.w.Do(ic.n, in.f) // inline, as a user function would: the calling runner is one of the inner runners
		if o, d := in.verdict(); o != "" {
			nr.fail(o, fmt.Sprintf("level-%d Work run from inside f(%s) of the level above (Do(%d), children=%v, inits=%v): %s", level+1, path, ic.n, ic.g, ic.inits, d))
		}
		atomic.AddInt32(&nr.innerN, 1)
	}
	oc := rendezvousCfg(c.k, c.n)
	if c.k%2 == 0 { // half of the configurations: the k items are initial Adds as well (duplicates of what item 0 adds)
		for i := 1; i <= c.k; i++ {
			oc.inits = append(oc.inits, i)
		}
	}
	outer := newDwork(oc, 0)
	outer.inside = func(d *dwork, i int) {
		if i == 0 {
			return
		}
		if c.rv {
			if atomic.AddInt32(&nr.arrived, 1) == int32(c.k) {
				close(nr.allIn)
			}
			<-nr.allIn
		}
		runInner(1, 1+(i+c.nin-1)%c.nin, fmt.Sprint(i))
	}
	outer.fill()
	if m := waitFor([]chan struct{}{outer.do()}, patience); m > 0 {
		poisoned = true
		return "work/no-deadlock", fmt.Sprintf("the outer Do(%d) did not return within %v: %d outer calls of f in progress (%d of %d at the rendezvous), %d of %d inner Works have returned, the inner user function was called %d times; no Work of any level shares anything with another one, so this can only be state outside the Work values",
			c.n, patience, atomic.LoadInt32(&outer.active), atomic.LoadInt32(&nr.arrived), c.k, atomic.LoadInt32(&nr.innerN), c.k, atomic.LoadInt32(&nr.gcalls))
	}
	if o, d := outer.verdict(); o != "" {
		return o, "outer Work: " + d
	}
	nr.mu.Lock()
	defer nr.mu.Unlock()
	if nr.oracle != "" {
		return nr.oracle, nr.detail
	}
	if got := atomic.LoadInt32(&nr.innerN); c.depth == 2 && int(got) != c.k {
		return "work/do-returns-when-done", fmt.Sprintf("%d inner Works ran to completion, want %d", got, c.k)
	}
	return "", ""
}

func nestedCase(c nestedCfg, src string) bool {
	announce(c.String())
	res.Case("unmodified#"+c.String(), true)
	res.Count("src:" + src)
	o, d := runNested(c, 8*time.Second)
	if o == "work/no-deadlock" {
		// timing-dependent: must repeat with more patience.  The goroutines of the first attempt are still there; what
		// they hold is part of the process state the second attempt runs in -- as it would be in the user's program.
		d1 := d
		if o, d = runNested(c, 25*time.Second); o == "work/no-deadlock" {
			d = d1 + "; a second attempt in the same process (the blocked goroutines of the first one still there): " + d
		} else if o == "" {
			poisoned = false // the first attempt was slow, not stuck
		}
	}
	if o == "" {
		return true
	}
	directViolate(o, d, map[string]string{"cfg": c.String(), "source": src,
		"text": fmt.Sprintf("unmodified par.Work on the Go scheduler: outer Work with items 0..%d (item 0 adds 1..%d), outer.Do(%d, f); f(i>=1)%s runs a fresh inner Work (a chain of %d items whose head adds %d more; Do(1..%d, g)) and returns when it is done; %d levels",
			c.k, c.k, c.n, map[bool]string{true: " waits until all " + fmt.Sprint(c.k) + " such calls are in progress, then", false: ""}[c.rv], c.m, c.m, c.nin, c.depth)})
	return false
}

func parseNested(cfg string) (c nestedCfg, ok bool) {
	if k, _ := fmt.Sscanf(cfg, "nested %d %d %d %d %d %t", &c.k, &c.n, &c.m, &c.nin, &c.depth, &c.rv); k != 6 {
		return c, false
	}
	ok = c.k >= 1 && c.k <= 8192 && c.n >= 1 && c.n <= 8192 && c.m >= 1 && c.m <= 64 && c.nin >= 1 && c.nin <= 64 && c.depth >= 2 && c.depth <= 4
	return
}

// directWorkObjects: the C09 scenarios about state between Work values.  Returns what ran.
func directWorkObjects(r *common.RNG, thorough bool) []string {
	var ran []string
	nSess := 400
	if thorough {
		nSess = 20000
	}
	if !poisoned {
		multiWorkCase(r.Uint64()|1, 0, nSess, "unmodified-multi-work")
		ran = append(ran, fmt.Sprintf("multi-work (%d sessions of 1-4 rounds of 1-3 Work values alive at the same time, in one process: state carried between objects -- pools, package-level variables -- dimension 1 of CONVENTIONS addendum 4)", nSess))
	}
	// outer n at and past plausible global limits; rendezvous first (deterministic), then free-running
	limits := []int{3, 8, 63, 64, 65, 256, 1024}
	if thorough {
		limits = append(limits, 128, 257, 512, 1025, 4096)
	}
nest:
	for _, rv := range []bool{true, false} {
		for li, n := range limits {
			if poisoned {
				break nest
			}
			c := nestedCfg{k: n, n: n, m: 1 + li%3, nin: 1 + li%3, depth: 2, rv: rv}
			if n <= 65 && li%2 == 0 {
				c.depth = 3
			}
			if !nestedCase(c, "unmodified-nested") {
				break nest
			}
			if !rv && n >= 64 { // more outer items than runners
				if !nestedCase(nestedCfg{k: 2 * n, n: n, m: 1, nin: 1, depth: 2}, "unmodified-nested") {
					break nest
				}
			}
		}
	}
	ran = append(ran, fmt.Sprintf("nested (Works run from inside f of other Works, 2-3 levels, outer n in %v -- at and past plausible global limits, dimension 4 -- with and without a rendezvous of all outer calls; watchdog that must fire twice)", limits))
	return ran
}

// ---------------------------------------------------------------- C10: a computation that takes seconds

type slowVal struct {
	key string
	inv int32
}

// slowF: one Cache, one key; the first caller's f takes d; while it runs, `callers` further goroutines call Do for the
// same key (arriving evenly spread over the computation, the first one at once) and two goroutines poll Get.  Every f is
// the same function: count the invocation, take d if it is the first, return (key, invocation number).
func slowF(d time.Duration, callers int) (oracle, detail string) {
	var c realpar.Cache
	key := fmt.Sprintf("slow-%v", d)
	var calls, fdone int32
	var mu sync.Mutex
	bad := func(o, s string) {
		mu.Lock()
		if oracle == "" {
			oracle, detail = o, s
		}
		mu.Unlock()
	}
	f := func() any {
		n := atomic.AddInt32(&calls, 1)
		if n == 1 {
			time.Sleep(d)
			atomic.StoreInt32(&fdone, 1)
		}
		return slowVal{key, n}
	}
	want := any(slowVal{key, 1})
	start := time.Now()
	var wg sync.WaitGroup
	do := func(who string, delay time.Duration) {
		defer wg.Done()
		time.Sleep(delay)
		v := c.Do(key, f)
		el := time.Since(start)
		done := atomic.LoadInt32(&fdone) == 1
		if v != want {
			bad("cache/do-returns-f-value", fmt.Sprintf("%s (arrived %v after the computation began, returned after %v): Do returned %v, the single invocation of f for that key returns %v; f was invoked %d times", who, delay.Round(time.Millisecond), el.Round(time.Millisecond), v, want, atomic.LoadInt32(&calls)))
		}
		if !done {
			bad("cache/do-after-f", fmt.Sprintf("%s: Do returned %v after %v, before the one invocation of f for the key (which takes %v) had completed", who, v, el.Round(time.Millisecond), d))
		}
	}
	wg.Add(1)
	go do("the first caller", 0)
	for atomic.LoadInt32(&calls) == 0 && time.Since(start) < 20*time.Second {
		time.Sleep(100 * time.Microsecond)
	}
	for j := 0; j < callers; j++ {
		wg.Add(1)
		go do(fmt.Sprintf("caller %d", j+1), time.Duration(j)*d/time.Duration(callers+1))
	}
	stop := make(chan struct{})
	var gwg sync.WaitGroup
	var slowest int64
	for g := 0; g < 2; g++ {
		gwg.Add(1)
		go func() {
			defer gwg.Done()
			for {
				select {
				case <-stop:
					return
				default:
				}
				t0 := time.Now()
				v := c.Get(key)
				if el := int64(time.Since(t0)); el > atomic.LoadInt64(&slowest) {
					atomic.StoreInt64(&slowest, el)
				}
				if v != nil && (v != want || atomic.LoadInt32(&fdone) != 1) {
					bad("cache/get-nil-or-value", fmt.Sprintf("Get returned %v while/after the key was computed (f completed: %v); want nil or %v", v, atomic.LoadInt32(&fdone) == 1, want))
					return
				}
				time.Sleep(d/40 + time.Millisecond)
			}
		}()
	}
	wg.Wait()
	close(stop)
	getDone := make(chan struct{})
	go func() { gwg.Wait(); close(getDone) }()
	select {
	case <-getDone:
	case <-time.After(25 * time.Second):
		bad("cache/get-nonblocking", "a Get for the key did not return within 25 s after every Do had returned")
	}
	if s := time.Duration(atomic.LoadInt64(&slowest)); d >= 5*time.Second && s > d/2 && s > 4*time.Second {
		bad("cache/get-nonblocking", fmt.Sprintf("a Get for the key took %v while f (which takes %v) was running", s, d))
	}
	if n := atomic.LoadInt32(&calls); n != 1 {
		bad("cache/f-once-per-key", fmt.Sprintf("f for the key was invoked %d times: one computation taking %v, %d more Do calls for the same key while it ran", n, d, callers))
	}
	if v := c.Do(key, f); v != want {
		bad("cache/do-returns-f-value", fmt.Sprintf("a Do after all others had returned gives %v, want %v", v, want))
	}
	if v := c.Get(key); v != want {
		bad("cache/get-after-done", fmt.Sprintf("Get after all Do calls had returned gives %v, want %v", v, want))
	}
	return
}

type slowResult struct {
	d              time.Duration
	callers        int
	oracle, detail string
}

// startSlowF starts one slow-f scenario per duration, all at once (they only sleep); join collects them and reports the
// failing one with the shortest computation.
func startSlowF(durs []time.Duration, src string) (join func() bool) {
	out := make(chan slowResult, len(durs))
	for i, d := range durs {
		callers := 2 + i%3
		announce(fmt.Sprintf("slow-f %d %d", d.Milliseconds(), callers))
		res.Case(fmt.Sprintf("slow-f#%v#%d", d, callers), true)
		res.Count("src:" + src)
		go func(d time.Duration, callers int) {
			o, s := slowF(d, callers)
			out <- slowResult{d, callers, o, s}
		}(d, callers)
	}
	return func() bool {
		var failed []slowResult
		for range durs {
			if r := <-out; r.oracle != "" {
				failed = append(failed, r)
			}
		}
		if len(failed) == 0 {
			return true
		}
		sort.Slice(failed, func(a, b int) bool { return failed[a].d < failed[b].d })
		r := failed[0]
		var others []string
		for _, f := range failed[1:] {
			others = append(others, f.d.String())
		}
		directViolate(r.oracle, r.detail, map[string]string{"cfg": fmt.Sprintf("slow-f %d %d", r.d.Milliseconds(), r.callers), "source": src,
			"text": fmt.Sprintf("one par.Cache, one key; the first Do's f takes %v (time.Sleep) and returns (key, invocation number); %d more goroutines call Do for the same key while it runs (spread evenly over the computation), two poll Get. Shortest failing computation of %v; also failing: %v",
				r.d, r.callers, durs, others)})
		return false
	}
}

// ---------------------------------------------------------------- C10: several Caches with the same keys

type mcVal struct{ cache, key, inv int }

// multiCache: nc Cache values and nk keys (the same keys on every Cache).  The first half of the Caches is used one after
// the other (all keys: Do, Do, Get), the second half concurrently by g goroutines each.  Before a Cache is first used,
// Get on it must return nil for keys already computed on OTHER Caches.
func multiCache(fam keyFamily, nc, nk, g int) (oracle, detail string) {
	caches := make([]realpar.Cache, nc)
	calls := make([]int32, nc*nk)
	var mu sync.Mutex
	bad := func(o, s string) {
		mu.Lock()
		if oracle == "" {
			oracle, detail = o, s
		}
		mu.Unlock()
	}
	use := func(ci, k int, phase string) {
		c := &caches[ci]
		want := any(mcVal{ci, k, 1})
		v := c.Do(fam.key(k), func() any { return mcVal{ci, k, int(atomic.AddInt32(&calls[ci*nk+k], 1))} })
		if v != want {
			bad("cache/do-returns-f-value", fmt.Sprintf("%s: Do(key #%d) on Cache #%d returned %v, want %v (the value of the single invocation of f for that key ON THAT Cache)", phase, k, ci, v, want))
		}
		if v := c.Get(fam.key(k)); v != want {
			bad("cache/get-after-done", fmt.Sprintf("%s: Get(key #%d) on Cache #%d returned %v, want %v", phase, k, ci, v, want))
		}
	}
	fresh := func(ci int) {
		for k := 0; k < nk; k += 1 + nk/16 {
			if v := caches[ci].Get(fam.key(k)); v != nil {
				bad("cache/get-nil-or-value", fmt.Sprintf("Get(key #%d) on the unused Cache #%d returned %v (the key was computed on other Cache values only)", k, ci, v))
			}
		}
	}
	for ci := 0; ci < nc/2; ci++ {
		fresh(ci)
		for k := 0; k < nk; k++ {
			use(ci, k, "one after the other")
		}
	}
	var wg sync.WaitGroup
	for ci := nc / 2; ci < nc; ci++ {
		fresh(ci)
		for gi := 0; gi < g; gi++ {
			wg.Add(1)
			go func(ci, gi int) {
				defer wg.Done()
				for j := 0; j < nk; j++ {
					use(ci, (j+gi*(nk/g+1))%nk, "concurrently")
				}
			}(ci, gi)
		}
	}
	wg.Wait()
	for ci := 0; ci < nc; ci++ { // everything again, after all Caches were used
		for k := 0; k < nk; k++ {
			use(ci, k, "second pass")
		}
	}
	for i, n := range calls {
		if n != 1 {
			bad("cache/f-once-per-key", fmt.Sprintf("f for key #%d on Cache #%d was invoked %d times", i%nk, i/nk, n))
			break
		}
	}
	return
}

func multiCacheCase(fi, nc, nk, g int, src string) bool {
	fam := keyFamilies()[fi%len(keyFamilies())]
	cfg := fmt.Sprintf("multi-cache %d %d %d %d", fi%len(keyFamilies()), nc, nk, g)
	announce(cfg)
	res.Case(cfg, true)
	res.Count("src:" + src)
	o, d := multiCache(fam, nc, nk, g)
	if o == "" {
		return true
	}
	// shrink: fewer Caches, fewer keys
	for _, try := range [][2]int{{2, 1}, {2, 2}, {2, nk}, {4, 2}, {nc, 2}} {
		if try[0] <= nc && try[1] <= nk {
			if o2, d2 := multiCache(fam, try[0], try[1], g); o2 == o {
				nc, nk, d = try[0], try[1], d2
				break
			}
		}
	}
	directViolate(o, d, map[string]string{"cfg": fmt.Sprintf("multi-cache %d %d %d %d", fi%len(keyFamilies()), nc, nk, g), "source": src,
		"text": fmt.Sprintf("%d par.Cache values in one process, the same %d keys of type %s on each; the first half used one after the other, the second half concurrently by %d goroutines each; f returns (cache, key, invocation number)", nc, nk, fam.name, g)})
	return false
}

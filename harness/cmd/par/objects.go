package main

// Several Work objects on ONE controlled scheduler (instrumented copy): two Works run concurrently (`pair`) and Works
// run from inside f of another Work (`nested`).  Ties Par/ParWorkMulti.v to the code:
//
//   - every object's PROJECTION of the run (its own steps, thread ids local to the object, its own runnable set) is
//     judged by the per-Work oracles and replayed on the single-Work model (world_components / nested_projection: each
//     object is in a reachable state of its own system);
//   - FRAME (works_independent / nested_frame), as a direct oracle on the code's own states: a step of one object
//     changes neither where the threads of another object stand nor whether they are runnable;
//   - a nested run as a whole is replayed on ParWorkMulti.nstep (request `nested`): which outer runner is inside
//     which inner Do, f(i) returning only after its inner Do returned, the runnable set over all levels after every
//     step, the potential nphi decreasing, the final state.
//
// Thread contexts.  A managed thread belongs to one object at a time: the goroutines started by a Do belong to that
// Work; the goroutine that calls Do belongs to it from the call to the return.  The harness's user functions announce
// the boundaries: "ib:<i>" (f(i) of the outer Work turns to its inner Work: the initial Adds follow), the scheduling point
// Yield("ic") (the step granted there is the call of the inner Do: its prologue), "ie:<i>" (the inner Do returned).

import (
	"fmt"
	"strconv"
	"strings"

	"verif/harness/common"
	"verif/harness/gen/parv"
	"verif/harness/internal/vsync"
)

const (
	objOuter   = 0  // pair: object A; nested: the outer Work
	stepDrop   = -1 // a step no object's model has (initial Adds on a Work that is still private to its creator)
	stepCreate = -2 // nested: the call of an inner Do (Do's prologue)
)

// objRun: how the steps and threads of a run divide among its objects.
type objRun struct {
	out     *vsync.Outcome
	stepObj []int         // per step: object id (>= 0), stepDrop or stepCreate
	created []int         // per step: for stepCreate the object created
	threads map[int][]int // object -> global thread ids in local order
	noteObj []int         // per note: object id the note belongs to (-1: none)
	// nested runs only: per step, for every OUTER runner the object it is in after the step (0, 1+i, or negative
	// between "ib" and the creation step: in no object)
	ctxAfter []map[int]int
}

func (o *objRun) local(obj, g int) int {
	for l, t := range o.threads[obj] {
		if t == g {
			return l
		}
	}
	return -1
}

// project: the run as seen by one object (steps of its threads while they belong to it; thread ids local).
func (o *objRun) project(obj int) *vsync.Outcome {
	out := o.out
	p := &vsync.Outcome{Mode: out.Mode, Panic: out.Panic, StepLimit: out.StepLimit, Stuck: out.Stuck, Threads: len(o.threads[obj]), Decisions: out.Decisions}
	stepIdx := map[int]int{}
	for si, st := range out.Steps {
		if o.stepObj[si] != obj {
			continue
		}
		stepIdx[si] = len(p.Steps)
		// the caller of a nested Do leaves the object when its runner returns: that is its exit from the object
		ns := vsync.Step{T: o.local(obj, st.T), Exited: st.Exited || o.leftFor(si, st.T, obj)}
		for _, op := range st.Ops {
			if len(op.Woke) > 0 {
				w := make([]int, 0, len(op.Woke))
				for _, g := range op.Woke {
					w = append(w, o.local(obj, g))
				}
				op.Woke = w
			}
			ns.Ops = append(ns.Ops, op)
		}
		for _, g := range st.EnabledAfter {
			if l := o.local(obj, g); l >= 0 && o.belongsAfter(si, g, obj) {
				ns.EnabledAfter = append(ns.EnabledAfter, l)
			}
		}
		if st.After != nil {
			ns.After = make([]byte, len(o.threads[obj]))
			for l, g := range o.threads[obj] {
				switch {
				case g >= len(st.After):
					ns.After[l] = 'L' // not started yet: it will be at the loop head
				case !o.belongsAfter(si, g, obj):
					ns.After[l] = 'x' // the caller of Do has left the object: Do returned
				default:
					ns.After[l] = st.After[g]
				}
			}
		}
		p.Steps = append(p.Steps, ns)
	}
	for ni, nt := range out.Notes {
		if o.noteObj[ni] != obj {
			continue
		}
		n2 := vsync.Note{T: o.local(obj, nt.T), Step: -1, Text: nt.Text}
		if nt.Step >= 0 {
			if k, ok := stepIdx[nt.Step]; ok {
				n2.Step = k
			} else {
				// emitted during a step that is not the object's own (e.g. the outer pick step never emits inner notes):
				// attach it to the object's next step
				n2.Step = len(p.Steps)
				for s2 := nt.Step; s2 < len(out.Steps); s2++ {
					if k, ok := stepIdx[s2]; ok {
						n2.Step = k
						break
					}
				}
			}
		}
		p.Notes = append(p.Notes, n2)
	}
	if out.Deadlock {
		for _, g := range out.Blocked {
			if l := o.local(obj, g); l >= 0 && o.belongsAfter(len(out.Steps)-1, g, obj) {
				p.Blocked = append(p.Blocked, l)
			}
		}
		p.Deadlock = len(p.Blocked) > 0
	}
	return p
}

// leftFor: after step si thread g, a member of obj, is in ANOTHER object (its nested Do returned)
func (o *objRun) leftFor(si, g, obj int) bool {
	if o.ctxAfter == nil || si < 0 || si >= len(o.ctxAfter) {
		return false
	}
	c, ok := o.ctxAfter[si][g]
	return ok && c >= 0 && c != obj
}

// belongsAfter: does thread g belong to obj after step si?  (Only the caller of a nested Do changes object.)
func (o *objRun) belongsAfter(si, g, obj int) bool {
	if o.ctxAfter == nil {
		return true
	}
	if si < 0 || si >= len(o.ctxAfter) {
		return true
	}
	c, ok := o.ctxAfter[si][g]
	if !ok {
		return true // a goroutine of a Do: it never changes object
	}
	return c == obj
}

// frame: a step of one object changes neither where the threads of the others stand nor their runnability.
func (o *objRun) frame() string {
	out := o.out
	owner := func(si, g int) (int, bool) { // object of thread g after step si
		if o.ctxAfter != nil {
			if c, ok := o.ctxAfter[si][g]; ok {
				return c, true
			}
		}
		for obj, ts := range o.threads {
			for _, t := range ts {
				if t == g {
					return obj, true
				}
			}
		}
		return 0, false
	}
	for si := 1; si < len(out.Steps); si++ {
		st, prev := out.Steps[si], out.Steps[si-1]
		if st.After == nil || prev.After == nil {
			continue
		}
		actor := o.stepObj[si]
		if actor == stepCreate {
			actor = o.created[si]
		}
		if actor == stepDrop {
			continue
		}
		en := map[int]bool{}
		for _, g := range st.EnabledAfter {
			en[g] = true
		}
		enPrev := map[int]bool{}
		for _, g := range prev.EnabledAfter {
			enPrev[g] = true
		}
		for g := 0; g < len(prev.After); g++ {
			if g == st.T {
				continue
			}
			ob, ok := owner(si, g)
			obPrev, _ := owner(si-1, g)
			if !ok || ob == actor || obPrev == actor {
				continue
			}
			if st.After[g] != prev.After[g] || en[g] != enPrev[g] {
				return fmt.Sprintf("step %d (thread %d, a step of object %s) changed thread %d of object %s: it stood at %q (runnable %v) and now stands at %q (runnable %v); distinct Work values share no state",
					si, st.T, objName(actor), g, objName(ob), prev.After[g], enPrev[g], st.After[g], en[g])
			}
		}
	}
	return ""
}

func objName(obj int) string {
	if obj == objOuter {
		return "#0 (outer / first Work)"
	}
	return "#" + strconv.Itoa(obj)
}

// ---------------------------------------------------------------- pair: two Works run concurrently

type pairCfg struct{ a, b workCfg }

func (p pairCfg) String() string { return "pair " + p.a.String() + " & " + p.b.String() }

func parsePairCfg(s string) (p pairCfg, ok bool) {
	s = strings.TrimPrefix(s, "pair ")
	parts := strings.Split(s, " & ")
	if len(parts) != 2 {
		return p, false
	}
	var ok1, ok2 bool
	p.a, ok1 = parseWorkCfg(parts[0])
	p.b, ok2 = parseWorkCfg(parts[1])
	return p, ok1 && ok2
}

// userF: the data-only user function of the model (Add each child in order, return) on Work w.
func userF(w *parv.Work, c workCfg, items *itemTable) func(any) {
	return func(item any) {
		i, ok := items.ids[item]
		if !ok {
			i = -1
		}
		vsync.Trace("b:" + strconv.Itoa(i))
		if ok {
			for _, ch := range c.g[i] {
				vsync.Trace("a:" + strconv.Itoa(ch))
				w.Add(items.val(ch))
			}
		}
		vsync.Yield("fe")
		vsync.Trace("e:" + strconv.Itoa(i))
	}
}

// runPair: both Works are filled first (both alive before either runs; the same Go values are items of both), then
// the two Do calls run as threads 0 and 1 of one schedule.
func runPair(p pairCfg, st vsync.Strategy) *objRun {
	wa, wb := &parv.Work{}, &parv.Work{}
	ia, ib := newItems(len(p.a.g)), newItems(len(p.b.g))
	for k := 0; k < len(p.a.inits) || k < len(p.b.inits); k++ { // interleaved, single goroutine: not scheduled
		if k < len(p.a.inits) {
			wa.Add(ia.val(p.a.inits[k]))
		}
		if k < len(p.b.inits) {
			wb.Add(ib.val(p.b.inits[k]))
		}
	}
	fa, fb := userF(wa, p.a, ia), userF(wb, p.b, ib)
	out := vsync.Run(vsync.Coarse, st, p.a.stepBound()+p.b.stepBound()+2,
		func() { wa.Do(p.a.n, fa); vsync.Trace("doret") },
		func() { wb.Do(p.b.n, fb); vsync.Trace("doret") })
	o := &objRun{out: out, threads: map[int][]int{0: {0}, 1: {1}}}
	owner := map[int]int{0: 0, 1: 1}
	for _, ev := range out.Events {
		if ev.Op.Kind == vsync.OpSpawn {
			ob := owner[ev.T]
			owner[int(ev.Op.R)] = ob
			o.threads[ob] = append(o.threads[ob], int(ev.Op.R))
		}
	}
	o.stepObj = make([]int, len(out.Steps))
	o.created = make([]int, len(out.Steps))
	for si, stp := range out.Steps {
		o.stepObj[si] = owner[stp.T]
	}
	o.noteObj = make([]int, len(out.Notes))
	for ni, nt := range out.Notes {
		o.noteObj[ni] = owner[nt.T]
	}
	return o
}

// objOracles: the per-Work oracles on every object's projection, the frame oracle and the happens-before check of the
// whole run.
func objOracles(o *objRun, cfgs map[int]workCfg, order []int) (fs []finding) {
	if o.out.Stuck {
		noteOnce("a goroutine blocked outside the scheduler shim; run ignored")
		return nil
	}
	if o.out.Panic != "" {
		return []finding{{"work/no-panic", "panic: " + o.out.Panic}}
	}
	for _, obj := range order {
		p := o.project(obj)
		p.Events = nil
		for _, f := range workOracles(cfgs[obj], p) {
			fs = append(fs, finding{f.oracle, fmt.Sprintf("Work %s (Do(%d), children=%v, initial Adds=%v) seen on its own: %s", objName(obj), cfgs[obj].n, cfgs[obj].g, cfgs[obj].inits, f.detail)})
		}
	}
	if d := o.frame(); d != "" {
		fs = append(fs, finding{"work/objects-independent", d})
	}
	if parv.WorkTouches > 0 {
		for _, r := range hbRaces(o.out) {
			fs = append(fs, finding{"work/race-free", "a field of a Work is accessed outside the protection of its mutex: " + r})
			break
		}
	}
	return
}

// shrinkDecisions: the shortest forced prefix of the decisions (default continuation after it) failing the same oracle.
func shrinkDecisions(dec []int, oracle string, judge func(prefix []int) []finding) ([]int, []finding) {
	for k := 0; k < len(dec) && k <= 300; k++ {
		if f2 := judge(dec[:k]); len(f2) > 0 && f2[0].oracle == oracle {
			return dec[:k], f2
		}
	}
	return dec, nil
}

func onePair(p pairCfg, o *objRun, src string) bool {
	cfgs := map[int]workCfg{0: p.a, 1: p.b}
	order := []int{0, 1}
	fs := objOracles(o, cfgs, order)
	dec := chosen(o.out.Decisions)
	res.Case(p.String()+"#"+dots(dec), preemptions(o.out.Decisions) > 0)
	res.Count("src:" + src)
	input := map[string]string{"prop": "C09", "cfg": p.String(), "decisions": dots(dec), "mode": "pair", "source": src}
	if len(fs) > 0 {
		d2, f2 := shrinkDecisions(dec, fs[0].oracle, func(pre []int) []finding {
			return objOracles(runPair(p, &prefixStrat{prefix: pre}), cfgs, order)
		})
		if f2 != nil {
			dec, fs = d2, f2
		}
		in2 := map[string]string{"prop": "C09", "cfg": p.String(), "decisions": dots(dec), "mode": "pair", "source": src,
			"text": fmt.Sprintf("two Work values on one controlled scheduler, both filled before either runs, then A.Do(%d) and B.Do(%d) concurrently; A: children=%v inits=%v, B: children=%v inits=%v; %s; forced decisions %s, then the default schedule",
				p.a.n, p.b.n, p.a.g, p.a.inits, p.b.g, p.b.inits, itemsDesc(max(len(p.a.g), len(p.b.g))), dots(dec))}
		for _, f := range fs {
			violate(f.oracle, f.detail, in2)
		}
		return false
	}
	// each object's projection replayed on the single-Work model
	for _, obj := range order {
		c := cfgs[obj]
		proj := o.project(obj)
		events, sched, tail, _, _ := workEvents(c, proj)
		in := map[string]string{}
		for k, v := range input {
			in[k] = v
		}
		in["object"] = strconv.Itoa(obj)
		in["schedule"] = sched
		cmpBatch = append(cmpBatch, pendingCmp{req: fmt.Sprintf("work %d %s %s %s", c.n, c.graphStr(), dots(c.inits), sched),
			implEvents: events, implTail: tail, input: in, what: "work/pair-projection-on-model"})
	}
	if len(cmpBatch) >= 500 {
		flushCmp()
	}
	return true
}

// ---------------------------------------------------------------- nested: f of the outer Work runs a fresh inner Work

type nestCfg struct {
	outer workCfg
	inner workCfg // graph and initial Adds of every inner Work (n unused)
	ins   []int   // inner Do(n_i): ins[i % len]
}

func (c nestCfg) innerN(i int) int { return c.ins[i%len(c.ins)] }
func (c nestCfg) String() string {
	return "nest " + c.outer.String() + " & " + dots(c.ins) + "|" + c.inner.graphStr() + "|" + dots(c.inner.inits)
}

func parseNestCfg(s string) (c nestCfg, ok bool) {
	parts := strings.Split(strings.TrimPrefix(s, "nest "), " & ")
	if len(parts) != 2 {
		return c, false
	}
	var ok1 bool
	c.outer, ok1 = parseWorkCfg(parts[0])
	f := strings.SplitN(parts[1], "|", 2)
	if !ok1 || len(f) != 2 {
		return c, false
	}
	c.ins = undots(f[0])
	for _, n := range c.ins {
		if n < 1 || n > 8 {
			return c, false
		}
	}
	var ok2 bool
	c.inner, ok2 = parseWorkCfg("1|" + f[1])
	return c, ok2 && len(c.ins) > 0
}

func (c nestCfg) innerCfg(i int) workCfg {
	return workCfg{n: c.innerN(i), g: c.inner.g, inits: c.inner.inits}
}

func (c nestCfg) stepBound() int {
	b := c.outer.stepBound() + 10
	for i := range c.outer.g {
		b += c.innerCfg(i).stepBound() + len(c.inner.inits) + 3
	}
	return b
}

func runNest(c nestCfg, st vsync.Strategy) *objRun {
	w := &parv.Work{}
	items := newItems(len(c.outer.g))
	for _, i := range c.outer.inits {
		w.Add(items.val(i))
	}
	f := func(item any) {
		i, ok := items.ids[item]
		if !ok {
			i = -1
		}
		vsync.Trace("b:" + strconv.Itoa(i))
		if !ok {
			vsync.Yield("fe")
			vsync.Trace("e:-1")
			return
		}
		for _, ch := range c.outer.g[i] {
			vsync.Trace("a:" + strconv.Itoa(ch))
			w.Add(items.val(ch))
		}
		// the inner Work: fresh, private to this call until its Do starts goroutines
		vsync.Trace("ib:" + strconv.Itoa(i))
		iw := &parv.Work{}
		iitems := newItems(len(c.inner.g))
		for _, x := range c.inner.inits {
			iw.Add(iitems.val(x))
		}
		vsync.Yield("ic")
		iw.Do(c.innerN(i), userF(iw, c.inner, iitems))
		vsync.Trace("doret")
		vsync.Trace("ie:" + strconv.Itoa(i))
		vsync.Yield("fe")
		vsync.Trace("e:" + strconv.Itoa(i))
	}
	out := vsync.Run(vsync.Coarse, st, c.stepBound(), func() {
		w.Do(c.outer.n, f)
		vsync.Trace("doret")
	})
	return classifyNest(c, out)
}

// classifyNest: object ids: 0 = the outer Work, 1+i = the inner Work of outer item i.
func classifyNest(c nestCfg, out *vsync.Outcome) *objRun {
	o := &objRun{out: out, threads: map[int][]int{}}
	for g := 0; g < c.outer.n && g < out.Threads; g++ {
		o.threads[objOuter] = append(o.threads[objOuter], g)
	}
	o.stepObj = make([]int, len(out.Steps))
	o.created = make([]int, len(out.Steps))
	o.noteObj = make([]int, len(out.Notes))
	o.ctxAfter = make([]map[int]int, len(out.Steps))
	goOwner := map[int]int{} // goroutines of inner Do calls
	ctx := map[int]int{}     // outer runner -> object it is in (0 or 1+i)
	pre := map[int]int{}     // outer runner -> inner object it is about to create (after "ib", before the creation step)
	for g := 0; g < c.outer.n; g++ {
		ctx[g] = objOuter
	}
	ni := 0
	note := func(k int) { // bookkeeping for note k, in emission order
		nt := out.Notes[k]
		if _, isGo := goOwner[nt.T]; isGo {
			o.noteObj[k] = goOwner[nt.T]
			return
		}
		switch {
		case strings.HasPrefix(nt.Text, "ib:"):
			i, _ := strconv.Atoi(nt.Text[3:])
			pre[nt.T] = 1 + i
			o.noteObj[k] = -1
		case strings.HasPrefix(nt.Text, "ie:"):
			ctx[nt.T] = objOuter
			o.noteObj[k] = -1
		default:
			o.noteObj[k] = ctx[nt.T]
		}
	}
	for si, st := range out.Steps {
		for ni < len(out.Notes) && out.Notes[ni].Step < si {
			note(ni)
			ni++
		}
		g := st.T
		switch {
		case goOwner[g] != 0:
			o.stepObj[si] = goOwner[g]
		case pre[g] != 0 && len(st.Ops) > 0 && st.Ops[0].Kind == vsync.OpYield && st.Ops[0].Tag == "ic":
			obj := pre[g]
			o.stepObj[si], o.created[si] = stepCreate, obj
			o.threads[obj] = append(o.threads[obj], g) // the caller of Do is its thread 0
			for _, op := range st.Ops {
				if op.Kind == vsync.OpSpawn {
					goOwner[int(op.R)] = obj
					o.threads[obj] = append(o.threads[obj], int(op.R))
				}
			}
			delete(pre, g)
			ctx[g] = obj
		case pre[g] != 0:
			o.stepObj[si] = stepDrop // an initial Add on the still private inner Work
		default:
			o.stepObj[si] = ctx[g]
		}
		for ni < len(out.Notes) && out.Notes[ni].Step == si {
			note(ni)
			ni++
		}
		m := map[int]int{}
		for t, ob := range ctx {
			if pre[t] != 0 {
				ob = -3 - pre[t] // between "ib" and the creation: in no object
			}
			m[t] = ob
		}
		o.ctxAfter[si] = m
	}
	for ; ni < len(out.Notes); ni++ {
		note(ni)
	}
	return o
}

// nestEvents renders a nested run for the `nested` request of the model: per step <obj>|<event with local thread ids>
// and the runnable GLOBAL thread ids after it; the schedule with global thread ids and local choices.
func nestEvents(c nestCfg, o *objRun) (events, sched, tail string) {
	type perObj struct {
		evs, sch []string
		k        int
	}
	per := map[int]*perObj{}
	var fin string
	for obj := range o.threads {
		cfg := c.outer
		if obj != objOuter {
			cfg = c.innerCfg(obj - 1)
		}
		ev, sc, tl, _, _ := workEvents(cfg, o.project(obj))
		po := &perObj{}
		if ev != "-" {
			po.evs, po.sch = strings.Split(ev, ","), strings.Split(sc, ".")
		}
		per[obj] = po
		if obj == objOuter {
			fin = strings.Fields(tl)[0]
		}
	}
	var evs, sch []string
	for si, st := range o.out.Steps {
		obj := o.stepObj[si]
		switch {
		case obj == stepDrop:
			continue
		case obj == stepCreate:
			evs = append(evs, fmt.Sprintf("o|C%d:%d/%d", st.T, o.created[si]-1, mask(st.EnabledAfter)))
			sch = append(sch, fmt.Sprintf("%d:0", st.T))
		default:
			po := per[obj]
			if po == nil || po.k >= len(po.evs) {
				evs = append(evs, "?")
				sch = append(sch, fmt.Sprintf("%d:0", st.T))
				continue
			}
			ev := po.evs[po.k]
			if j := strings.LastIndex(ev, "/"); j >= 0 {
				ev = ev[:j]
			}
			choice := "0"
			if tc := strings.SplitN(po.sch[po.k], ":", 2); len(tc) == 2 {
				choice = tc[1]
			}
			po.k++
			name := "o"
			if obj != objOuter {
				name = "i" + strconv.Itoa(obj-1)
			}
			evs = append(evs, fmt.Sprintf("%s|%s/%d", name, ev, mask(st.EnabledAfter)))
			sch = append(sch, fmt.Sprintf("%d:%s", st.T, choice))
		}
	}
	done := !o.out.Deadlock && !o.out.StepLimit && o.out.Panic == ""
	if len(evs) == 0 {
		return "-", "-", fmt.Sprintf("%s done=%v", fin, done)
	}
	return strings.Join(evs, ","), strings.Join(sch, "."), fmt.Sprintf("%s done=%v", fin, done)
}

// nestCoupling: f(i) of the outer Work returns only after the Do of its inner Work returned and every item of that
// inner Work was processed; read off the notes of the run (direct oracle).
func nestCoupling(c nestCfg, o *objRun) string {
	innerDone := map[int]bool{}
	for _, nt := range o.out.Notes {
		switch {
		case strings.HasPrefix(nt.Text, "ie:"):
			i, _ := strconv.Atoi(nt.Text[3:])
			innerDone[i] = true
		case strings.HasPrefix(nt.Text, "e:"):
			if obj := o.noteObjOf(nt); obj == objOuter {
				if i, _ := strconv.Atoi(nt.Text[2:]); i >= 0 && !innerDone[i] {
					return fmt.Sprintf("f(%d) of the outer Work returned before the Do of its inner Work had returned", i)
				}
			}
		}
	}
	return ""
}

func (o *objRun) noteObjOf(nt vsync.Note) int {
	for k, n2 := range o.out.Notes {
		if n2 == nt {
			return o.noteObj[k]
		}
	}
	return -1
}

func nestOracles(c nestCfg, o *objRun) []finding {
	cfgs := map[int]workCfg{objOuter: c.outer}
	order := []int{objOuter}
	for i := range c.outer.g {
		if _, ok := o.threads[1+i]; ok {
			cfgs[1+i] = c.innerCfg(i)
			order = append(order, 1+i)
		}
	}
	fs := objOracles(o, cfgs, order)
	if len(fs) == 0 {
		if d := nestCoupling(c, o); d != "" {
			fs = append(fs, finding{"work/do-returns-when-done", d})
		}
		reach := c.outer.reach()
		if !o.out.Deadlock && !o.out.StepLimit {
			for i := range c.outer.g {
				if _, ok := o.threads[1+i]; ok != reach[i] {
					fs = append(fs, finding{"work/exactly-once", fmt.Sprintf("outer item %d: reachable %v, its inner Work ran %v", i, reach[i], ok)})
					break
				}
			}
		}
	}
	return fs
}

func oneNest(c nestCfg, o *objRun, src string) bool {
	fs := nestOracles(c, o)
	dec := chosen(o.out.Decisions)
	res.Case(c.String()+"#"+dots(dec), preemptions(o.out.Decisions) > 0)
	res.Count("src:" + src)
	if len(fs) > 0 {
		d2, f2 := shrinkDecisions(dec, fs[0].oracle, func(pre []int) []finding {
			return nestOracles(c, runNest(c, &prefixStrat{prefix: pre}))
		})
		if f2 != nil {
			dec, fs = d2, f2
		}
		in2 := map[string]string{"prop": "C09", "cfg": c.String(), "decisions": dots(dec), "mode": "nest", "source": src,
			"text": fmt.Sprintf("nested Works on one controlled scheduler: outer.Do(%d), children=%v, inits=%v; f(i) adds its children, then runs a fresh inner Work (children=%v, inits=%v) with Do(%v[i mod %d]) and returns; forced decisions %s, then the default schedule",
				c.outer.n, c.outer.g, c.outer.inits, c.inner.g, c.inner.inits, c.ins, len(c.ins), dots(dec))}
		for _, f := range fs {
			violate(f.oracle, f.detail, in2)
		}
		return false
	}
	events, sched, tail := nestEvents(c, o)
	input := map[string]string{"prop": "C09", "cfg": c.String(), "decisions": dots(dec), "mode": "nest", "source": src, "schedule": sched}
	cmpBatch = append(cmpBatch, pendingCmp{req: fmt.Sprintf("nested %d %s %s %s %s %s %s", c.outer.n, c.outer.graphStr(), dots(c.outer.inits), dots(c.ins), c.inner.graphStr(), dots(c.inner.inits), sched),
		implEvents: events, implTail: tail, input: input, what: "work/nested-replay-on-model"})
	if len(cmpBatch) >= 300 {
		flushCmp()
	}
	return true
}

// ---------------------------------------------------------------- entry point

func smallNestCfgs() []nestCfg {
	one := workCfg{g: [][]int{{}}, inits: []int{0}}
	chain := workCfg{g: [][]int{{1}, {}}, inits: []int{0}}
	fan := workCfg{g: [][]int{{1, 2}, {}, {}}, inits: []int{0, 0}}
	return []nestCfg{
		{outer: workCfg{n: 1, g: [][]int{{}}, inits: []int{0}}, inner: one, ins: []int{1}},
		{outer: workCfg{n: 2, g: [][]int{{1}, {}}, inits: []int{0}}, inner: one, ins: []int{2}},
		{outer: workCfg{n: 2, g: [][]int{{1}, {}}, inits: []int{0}}, inner: chain, ins: []int{2, 1}},
		{outer: workCfg{n: 2, g: [][]int{{}, {}}, inits: []int{0, 1}}, inner: chain, ins: []int{1, 2}},
		{outer: workCfg{n: 3, g: [][]int{{1, 2}, {}, {}}, inits: []int{0}}, inner: fan, ins: []int{2}},
		{outer: workCfg{n: 2, g: [][]int{{1, 1, 0}, {0}}, inits: []int{0}}, inner: workCfg{g: [][]int{{}}, inits: nil}, ins: []int{2}}, // inner Do on an empty work set
	}
}

// mainObjects: the controlled scenarios with several Work objects.  Returns a sentence for the rule.
func mainObjects(r *common.RNG, thorough bool) string {
	bound, maxRuns, nRand := 1, 250, 500
	if thorough {
		bound, maxRuns, nRand = 2, 20000, 30000
	}
	pairs := 0
	small := smallGraphs()
	for k := 0; k+1 < len(small) && !enough(); k += 2 {
		p := pairCfg{a: workCfg{n: 1 + k%2, g: small[k].g, inits: small[k].inits}, b: workCfg{n: 2, g: small[k+1].g, inits: small[k+1].inits}}
		dfs(func(st vsync.Strategy) *vsync.Outcome { o := runPair(p, st); lastObj = o; return o.out }, bound, maxRuns,
			func(out *vsync.Outcome) bool { pairs++; return onePair(p, lastObj, "pair-dfs") && !enough() })
	}
	for i := 0; i < nRand && !enough(); i++ {
		p := pairCfg{a: randWorkCfg(r, 3, 6), b: randWorkCfg(r, 3, 6)}
		st := &randStrat{r: r.Fork(), prio: i%2 == 0}
		if st.prio {
			st.changes = map[int]bool{r.Intn(40): true, r.Intn(40): true}
		}
		pairs++
		onePair(p, runPair(p, st), "pair-random")
	}
	flushCmp()
	nests := 0
	for _, c := range smallNestCfgs() {
		if enough() {
			break
		}
		c := c
		dfs(func(st vsync.Strategy) *vsync.Outcome { o := runNest(c, st); lastObj = o; return o.out }, bound, maxRuns,
			func(out *vsync.Outcome) bool { nests++; return oneNest(c, lastObj, "nest-dfs") && !enough() })
	}
	for i := 0; i < nRand && !enough(); i++ {
		ic := randWorkCfg(r, 1, 3)
		c := nestCfg{outer: randWorkCfg(r, 3, 4), inner: workCfg{g: ic.g, inits: ic.inits}, ins: []int{1 + r.Intn(3), 1 + r.Intn(2)}}
		st := &randStrat{r: r.Fork(), prio: i%2 == 0}
		if st.prio {
			st.changes = map[int]bool{r.Intn(60): true, r.Intn(60): true}
		}
		nests++
		oneNest(c, runNest(c, st), "nest-random")
	}
	flushCmp()
	return fmt.Sprintf(" SEVERAL Work objects on the controlled scheduler (Par/ParWorkMulti.v): %d schedules of TWO Works filled together and run concurrently (DFS with <= %d pre-emption(s) over pairs of the small configurations, random / priority schedules over random pairs) -- each object's projection judged by the per-Work oracles and replayed on the single-Work model, and the frame oracle (a step of one Work changes neither the position nor the runnability of a runner of the other) on every step; %d schedules of NESTED Works (f of the outer Work runs a fresh inner Work; DFS over %d small configurations, random beyond) -- per-object oracles and frame as above, f(i) returns only after its inner Do, and the whole run replayed on the nested model (ParWorkMulti.nstep: events, runnable set over all levels after every step, potential, final state).",
		pairs, bound, nests, len(smallNestCfgs()))
}

var lastObj *objRun

package main

// Direct oracles on the UNMODIFIED package github.com/rogpeppe/go-internal/par of the checked tree, on the real Go
// scheduler and at full speed.  They need neither the instrumented copy nor the model, so they run in every
// mode of the runner (also when the copy cannot be produced) and cover what a controlled schedule of a handful of
// keys / items cannot: the size of the key space (hundreds of thousands of distinct keys), the identity of keys
// (Go's == on interface values, for keys of many shapes), user functions that do not return (panic, runtime.Goexit),
// user functions that need each other to make progress (rendezvous between sibling items), large backlogs.
//
// Every finding carries mode=unmodified and enough parameters to be re-executed by -replay.

import (
	"fmt"
	"math"
	"runtime"
	"sort"
	"strconv"
	"strings"
	"sync"
	"sync/atomic"
	"time"

	realpar "github.com/rogpeppe/go-internal/par"

	"verif/harness/common"
)

// announce tells the parent process which scenario is about to run (a panic on a goroutine started by the package
// under test cannot be recovered: it ends the process, and the parent reports the scenario as the failing input).
func announce(cfg string) {
	if directChild {
		fmt.Printf("CASE %s\n", cfg)
	}
}

var directChild bool

func directViolate(oracle, detail string, input map[string]string) {
	input["prop"] = prop
	input["mode"] = "unmodified"
	if input["decisions"] == "" {
		input["decisions"] = "-"
	}
	res.Count("oracle-fail:" + oracle)
	res.Violate(common.Violation{Kind: "impl-violation", Oracle: oracle, Input: input, Detail: detail,
		Key: oracle + ":" + input["cfg"]})
}

// ---------------------------------------------------------------- C10: the key space

// keyMaker: the i-th key of a family.  Families differ in the dynamic type of the key.
type keyFamily struct {
	name string
	key  func(i int) any
}

type wideKey struct {
	a, b int
	s    string
}

func keyFamilies() []keyFamily {
	return []keyFamily{
		{"int", func(i int) any { return i }},
		{"string", func(i int) any { return "k" + strconv.Itoa(i) }},
		{"struct", func(i int) any { return wideKey{i, -i, strconv.Itoa(i % 7)} }},
		{"[2]uint32", func(i int) any { return [2]uint32{uint32(i), uint32(i >> 3)} }},
	}
}

// manyKeys: n distinct keys on ONE Cache.  Phase 1 (sequential or by g goroutines with overlapping key ranges):
// Do(k) for every key, f_k returns (k, number of this invocation).  Phase 2, after ALL keys were inserted: Do(k)
// again and Get(k) for every key.  Oracle: f_k was invoked exactly once, every Do(k) / Get(k) returned (k, 1).
// Returns the first finding (oracle, detail, index of the key) or "".
func manyKeys(fam keyFamily, n, g int) (oracle, detail string, at int) {
	type res2 struct{ k, inv int }
	var c realpar.Cache
	calls := make([]int32, n)
	var mu sync.Mutex
	at = -1
	report := func(o, d string, k int) {
		mu.Lock()
		if oracle == "" || k < at {
			oracle, detail, at = o, d, k
		}
		mu.Unlock()
	}
	do := func(k int, phase string) {
		v := c.Do(fam.key(k), func() any { return res2{k, int(atomic.AddInt32(&calls[k], 1))} })
		if r, ok := v.(res2); !ok || r != (res2{k, 1}) {
			report("cache/do-returns-f-value", fmt.Sprintf("%s: Do(key #%d) returned %v, the single invocation of f for that key returns {%d 1}", phase, k, v, k), k)
		}
	}
	if g <= 1 {
		for k := 0; k < n; k++ {
			do(k, "first pass")
		}
	} else {
		var wg sync.WaitGroup
		for gi := 0; gi < g; gi++ {
			wg.Add(1)
			go func(gi int) {
				defer wg.Done()
				// goroutine gi walks the keys from a different starting point: every key is asked for by all of them
				for j := 0; j < n; j++ {
					do((j+gi*(n/g))%n, fmt.Sprintf("concurrent pass (%d goroutines)", g))
				}
			}(gi)
		}
		wg.Wait()
	}
	for k := 0; k < n; k++ {
		do(k, fmt.Sprintf("second pass, after all %d keys were inserted", n))
		if v := c.Get(fam.key(k)); v != any(res2{k, 1}) {
			report("cache/get-after-done", fmt.Sprintf("Get(key #%d) returned %v after Do for that key had returned {%d 1} (and %d keys were inserted)", k, v, k, n), k)
		}
	}
	for k := 0; k < n; k++ {
		if calls[k] != 1 {
			report("cache/f-once-per-key", fmt.Sprintf("f for key #%d was invoked %d times (one Cache, %d distinct keys)", k, calls[k], n), k)
			break
		}
	}
	return
}

func manyKeysCase(fi, n, g int, src string) bool {
	fam := keyFamilies()[fi%len(keyFamilies())]
	announce(fmt.Sprintf("many-keys %d %d %d", fi%len(keyFamilies()), n, g))
	res.Case(fmt.Sprintf("many-keys#%s#%d#%d", fam.name, n, g), true)
	res.Count("src:many-keys")
	o, d, _ := manyKeys(fam, n, g)
	if o == "" {
		return true
	}
	// shrink: the smallest number of keys that still fails the same oracle (doubling, then bisection)
	lo, hi := 1, n
	for m := 2; m < n; m *= 2 {
		if o2, _, _ := manyKeys(fam, m, g); o2 == o {
			hi = m
			break
		}
		lo = m
	}
	for hi-lo > 1 && g <= 1 {
		mid := (lo + hi) / 2
		if o2, _, _ := manyKeys(fam, mid, g); o2 == o {
			hi = mid
		} else {
			lo = mid
		}
	}
	if o2, d2, _ := manyKeys(fam, hi, g); o2 == o {
		n, d = hi, d2
	}
	directViolate(o, d, map[string]string{"cfg": fmt.Sprintf("many-keys %d %d %d", fi%len(keyFamilies()), n, g), "source": src,
		"text": fmt.Sprintf("one par.Cache, %d distinct keys of type %s (key #i = %#v, ...), %s; every key: Do, then after all keys Do and Get again; f returns (key, invocation number)",
			n, fam.name, fam.key(1), map[bool]string{true: "sequential", false: fmt.Sprintf("%d goroutines over overlapping ranges", g)}[g <= 1])})
	return false
}

// ---------------------------------------------------------------- C10: key identity

type (
	myInt    int
	myString string
	pair     struct {
		a int
		b string
	}
	boxKey struct{ v any }
)

func mix64(z uint64) uint64 {
	z += 0x9E3779B97F4A7C15
	z = (z ^ (z >> 30)) * 0xBF58476D1CE4E5B9
	z = (z ^ (z >> 27)) * 0x94D049BB133111EB
	return z ^ (z >> 31)
}

// longString: a string of exactly n bytes whose content is a well-mixed function of (seed, i)
func longString(seed uint64, i, n int) string {
	b := make([]byte, n)
	const hexd = "0123456789abcdef"
	var z uint64
	for j := 0; j < n; j++ {
		if j%16 == 0 {
			z = mix64(seed ^ uint64(i)*0x100000001B3 ^ uint64(j)<<40)
		}
		b[j] = hexd[z&15]
		z >>= 4
	}
	return string(b)
}

// identityKeys: keys of many shapes.  Which of them are THE SAME key is decided by Go's == on interface values
// (computed by the caller with an ordinary map[any]int, independent of the package under test).
func identityKeys(seed uint64, nLong int) []any {
	var ks []any
	// long strings of equal length, well-mixed contents (any 32-bit digest of them collides for some pair)
	for i := 0; i < nLong; i++ {
		ks = append(ks, longString(seed, i, 80))
	}
	for i := 0; i < nLong/8; i++ {
		ks = append(ks, longString(seed+1, i, 200))
	}
	// strings sharing a long prefix / a long suffix, lengths around typical thresholds
	pre := strings.Repeat("/usr/local/bin:", 8)
	for i := 0; i < 3000; i++ {
		ks = append(ks, pre+strconv.Itoa(i), strconv.Itoa(i)+pre, pre[:i%len(pre)], pre[:i%len(pre)]+"\x00"+strconv.Itoa(i%10))
	}
	for _, n := range []int{0, 1, 7, 8, 15, 16, 31, 32, 63, 64, 65, 127, 128, 129, 255, 256, 257, 1023, 1024, 1025, 4096} {
		ks = append(ks, strings.Repeat("a", n), strings.Repeat("a", n)+"b", "b"+strings.Repeat("a", n), myString(strings.Repeat("a", n)))
	}
	// numbers: equal printed form, different dynamic types
	for i := -40; i < 2000; i++ {
		ks = append(ks, i, int8(i), int16(i), int32(i), int64(i), uint(i), uint8(i), uint16(i), uint32(i), uint64(i), uintptr(i),
			float32(i), float64(i), complex(float64(i), 0), myInt(i), strconv.Itoa(i), myString(strconv.Itoa(i)),
			[1]int{i}, [2]int{i, i}, [2]int{i, 0}, pair{i, ""}, pair{0, strconv.Itoa(i)}, &pt{i}, boxKey{i}, boxKey{int64(i)}, boxKey{strconv.Itoa(i)},
			fmt.Sprintf("[%d %d]", i, i), fmt.Sprintf("{%d }", i))
	}
	// special values: +0 and -0 ARE the same key; typed nil pointers and the nil interface are different keys
	ks = append(ks, 0.0, math.Copysign(0, -1), float32(0), float32(math.Copysign(0, -1)), nil, (*pt)(nil), (*pair)(nil), true, false, struct{}{}, [0]int{}, "", myString(""), 'a', "a", byte('a'),
		1e300, 1e-300, 1<<62, uint64(1)<<63, int64(-1)<<63)
	p := &pt{7}
	ks = append(ks, p, p, &pt{7}, &p, boxKey{p}, boxKey{nil}, boxKey{boxKey{nil}})
	ch := make(chan int)
	ks = append(ks, ch, (<-chan int)(ch), make(chan int))
	return ks
}

func showKey(k any) string {
	s := fmt.Sprintf("%#v", k)
	if len(s) > 300 {
		s = s[:300] + "..."
	}
	return fmt.Sprintf("(%T) %s", k, s)
}

// keyIdentity: f_k returns the identity class of k.  only != nil: restrict the run to these positions of the list.
func keyIdentity(ks []any, only []int) (oracle, detail string, i, j int) {
	class := map[any]int{} // Go's own ==: the reference
	cls := make([]int, len(ks))
	first := []int{}
	for x, k := range ks {
		c, ok := class[k]
		if !ok {
			c = len(first)
			class[k] = c
			first = append(first, x)
		}
		cls[x] = c
	}
	idx := only
	if idx == nil {
		idx = make([]int, len(ks))
		for x := range ks {
			idx[x] = x
		}
	}
	type ident struct{ class int }
	var c realpar.Cache
	calls := make([]int32, len(first))
	i, j = -1, -1
	bad := func(o, d string, a, b int) {
		if oracle == "" {
			oracle, detail, i, j = o, d, a, b
		}
	}
	check := func(what string, x int, v any) {
		id, ok := v.(ident)
		switch {
		case !ok:
			bad("cache/key-identity", fmt.Sprintf("%s(key #%d = %s) returned %v, not the value computed for that key", what, x, showKey(ks[x]), v), x, x)
		case id.class != cls[x]:
			y := first[id.class]
			bad("cache/key-identity", fmt.Sprintf("%s(key #%d = %s) returned the value computed for the DIFFERENT key #%d = %s (the two are not == )", what, x, showKey(ks[x]), y, showKey(ks[y])), x, y)
		}
	}
	for _, x := range idx {
		cl := cls[x]
		check("Do", x, c.Do(ks[x], func() any { atomic.AddInt32(&calls[cl], 1); return ident{cl} }))
	}
	for _, x := range idx {
		cl := cls[x]
		check("Do (again, after all keys were inserted)", x, c.Do(ks[x], func() any { atomic.AddInt32(&calls[cl], 1); return ident{cl} }))
		check("Get", x, c.Get(ks[x]))
	}
	asked := map[int]bool{}
	for _, x := range idx {
		asked[cls[x]] = true
	}
	for cl := range first {
		want := int32(0)
		if asked[cl] {
			want = 1
		}
		if calls[cl] != want {
			bad("cache/key-identity", fmt.Sprintf("f for key #%d = %s was invoked %d times, want exactly %d", first[cl], showKey(ks[first[cl]]), calls[cl], want), first[cl], first[cl])
		}
	}
	return
}

func keyIdentityCase(seed uint64, nLong int, only []int, src string) bool {
	ks := identityKeys(seed, nLong)
	announce(fmt.Sprintf("key-identity %d %d %s", seed, nLong, map[bool]string{true: "all", false: dots(only)}[only == nil]))
	res.Case(fmt.Sprintf("key-identity#%d#%d#%v", seed, nLong, only), true)
	res.Count("src:key-identity")
	for _, x := range only {
		if x < 0 || x >= len(ks) {
			return true
		}
	}
	o, d, i, j := keyIdentity(ks, only)
	if o == "" {
		return true
	}
	// shrink to the two keys involved (the foreign key first)
	pairIdx := []int{j, i}
	if i == j {
		pairIdx = []int{i}
	}
	if o2, d2, _, _ := keyIdentity(ks, pairIdx); o2 == o {
		only, d = pairIdx, d2
	}
	onlyS := "all"
	if only != nil {
		onlyS = dots(only)
	}
	directViolate(o, d, map[string]string{"cfg": fmt.Sprintf("key-identity %d %d %s", seed, nLong, onlyS), "source": src,
		"key_i": showKey(ks[i]), "key_j": showKey(ks[j]),
		"text": fmt.Sprintf("one par.Cache; keys = positions %s of identityKeys(seed %d, %d long strings) (%d keys of many shapes); f_k returns k's identity; Do for each, then Do and Get again", onlyS, seed, nLong, len(ks))})
	return false
}

// ---------------------------------------------------------------- C10: a user function that does not return

// fCrash: the single invocation of f for a key panics (recovered by its caller) or calls runtime.Goexit.  The
// property allows ONE invocation per key: a later (or waiting) Do for that key must not invoke f again -- it may block
// for ever, as the unmodified code does -- and Get must neither block nor return a value.
// waiter: a second Do is already waiting for the entry when f crashes.  nested: f_0 calls Do(1), f_1 crashes.
func fCrash(mode string, waiter, nested bool) (oracle, detail string) {
	var c realpar.Cache
	var calls [2]int32
	crashKey := 0
	if nested {
		crashKey = 1
	}
	started, release := make(chan struct{}), make(chan struct{})
	crash := func() any {
		close(started)
		<-release
		if mode == "panic" {
			panic("f fails")
		}
		runtime.Goexit()
		return nil
	}
	var fOf func(k int) func() any
	fOf = func(k int) func() any {
		return func() any {
			n := atomic.AddInt32(&calls[k], 1)
			if n == 1 && k == crashKey {
				return crash()
			}
			if n == 1 && nested && k == 0 {
				return c.Do("key1", fOf(1))
			}
			return "from invocation " + strconv.Itoa(int(n))
		}
	}
	key := func(k int) any { return "key" + strconv.Itoa(k) }
	doneA := make(chan struct{})
	go func() {
		defer close(doneA)
		defer func() { recover() }()
		c.Do(key(0), fOf(0))
	}()
	<-started
	later := make(chan any, 4)
	ask := func() {
		for k := 0; k <= crashKey; k++ {
			k := k
			go func() { later <- c.Do(key(k), fOf(k)) }()
		}
	}
	if waiter {
		ask()
		time.Sleep(3 * time.Millisecond) // let them reach the entry mutex (not needed for soundness)
	}
	close(release)
	<-doneA
	if !waiter {
		ask()
	}
	// watchdog: give the later Do calls time to (wrongly) run f again; they are allowed to block
	deadline := time.After(120 * time.Millisecond)
wait:
	for {
		select {
		case <-later:
		case <-deadline:
			break wait
		}
		if atomic.LoadInt32(&calls[0]) > 1 || atomic.LoadInt32(&calls[1]) > 1 {
			break
		}
	}
	for k := 0; k <= crashKey; k++ {
		if n := atomic.LoadInt32(&calls[k]); n > 1 {
			return "cache/f-once-per-key", fmt.Sprintf("f for %v was invoked %d times: its first invocation ended by %s, and a %s Do for the same key invoked f again (exactly one invocation per key is allowed, whether or not it returns)",
				key(k), n, mode, map[bool]string{true: "waiting", false: "later"}[waiter])
		}
	}
	for k := 0; k <= crashKey; k++ {
		got := make(chan any, 1)
		go func() { got <- c.Get(key(k)) }()
		select {
		case v := <-got:
			if v != nil {
				return "cache/get-nil-or-value", fmt.Sprintf("Get(%v) returned %v although the only invocation of f for that key never returned", key(k), v)
			}
		case <-time.After(25 * time.Second):
			return "cache/get-nonblocking", fmt.Sprintf("Get(%v) blocked (25 s) after the invocation of f for that key ended by %s", key(k), mode)
		}
	}
	return "", ""
}

func fCrashCase(mode string, waiter, nested bool, src string) bool {
	cfg := fmt.Sprintf("f-crash %s %v %v", mode, waiter, nested)
	announce(cfg)
	res.Case(cfg, true)
	res.Count("src:f-crash")
	o, d := fCrash(mode, waiter, nested)
	if o == "" {
		return true
	}
	directViolate(o, d, map[string]string{"cfg": cfg, "source": src,
		"text": fmt.Sprintf("goroutine A: Do(key0, f) where the invocation of f%s ends by %s (A recovers); %s goroutine B: Do on the same key(s), then Get",
			map[bool]string{true: " calls Do(key1, f1) and f1", false: ""}[nested], mode, map[bool]string{true: "already waiting,", false: "afterwards,"}[waiter])})
	return false
}

// ---------------------------------------------------------------- C09 on the unmodified package

// directWork runs a configuration on the real par.Work with real goroutines.  rendezvous > 0: the calls of f for
// the items 1..rendezvous do not return before all of them are in progress (they need each other).  Oracles as in the
// controlled runs: exactly once, at most n, Do returns when done, termination (watchdog, must repeat).
func directWork(c workCfg, rendezvous int, patience time.Duration) (oracle, detail string) {
	items := newItems(len(c.g))
	begun := make([]int32, len(c.g))
	ended := make([]int32, len(c.g))
	var active, maxActive, unknown, arrived int32
	allIn := make(chan struct{})
	var w realpar.Work
	for _, i := range c.inits {
		w.Add(items.val(i))
	}
	f := func(item any) {
		i, ok := items.ids[item]
		if !ok {
			atomic.AddInt32(&unknown, 1)
			return
		}
		a := atomic.AddInt32(&active, 1)
		for {
			m := atomic.LoadInt32(&maxActive)
			if a <= m || atomic.CompareAndSwapInt32(&maxActive, m, a) {
				break
			}
		}
		atomic.AddInt32(&begun[i], 1)
		if rendezvous > 0 && i == 0 {
			time.Sleep(3 * time.Millisecond) // let the other runners find the queue empty and go to sleep first
		}
		for _, ch := range c.g[i] {
			w.Add(items.val(ch))
		}
		if i >= 1 && i <= rendezvous {
			if atomic.AddInt32(&arrived, 1) == int32(rendezvous) {
				close(allIn)
			}
			<-allIn
		}
		atomic.AddInt32(&ended[i], 1)
		atomic.AddInt32(&active, -1)
	}
	done := make(chan struct{})
	go func() { w.Do(c.n, f); close(done) }()
	select {
	case <-done:
	case <-time.After(patience):
		in := atomic.LoadInt32(&arrived)
		poisoned = true
		return "work/no-deadlock", fmt.Sprintf("Do did not return within %v; %d calls of f in progress, %d of the %d rendezvous items picked up: runners are asleep although items are queued (lost wake-up)", patience, atomic.LoadInt32(&active), in, rendezvous)
	}
	if unknown > 0 {
		return "work/exactly-once", "f was called with a value that was never added"
	}
	if a := atomic.LoadInt32(&active); a != 0 {
		return "work/do-returns-when-done", fmt.Sprintf("%d calls of f still in progress when Do returned", a)
	}
	if m := atomic.LoadInt32(&maxActive); int(m) > c.n {
		return "work/at-most-n", fmt.Sprintf("%d calls of f in progress with n=%d", m, c.n)
	}
	reach := c.reach()
	for i := range c.g {
		want := int32(0)
		if reach[i] {
			want = 1
		}
		if b, e := atomic.LoadInt32(&begun[i]), atomic.LoadInt32(&ended[i]); b != want || e != want {
			return "work/exactly-once", fmt.Sprintf("item %d: f begun %d ended %d times, want %d", i, b, e, want)
		}
	}
	return "", ""
}

// rendezvousCfg: item 0 adds items 1..k from inside f; n runners
func rendezvousCfg(k, n int) workCfg {
	g := make([][]int, k+1)
	for i := 1; i <= k; i++ {
		g[0] = append(g[0], i)
		g[i] = []int{}
	}
	return workCfg{n: n, g: g, inits: []int{0}}
}

func directWorkCase(cfgName string, c workCfg, rendezvous int, src string) bool {
	announce(cfgName)
	res.Case("unmodified#"+cfgName, true)
	res.Count("src:" + src)
	o, d := directWork(c, rendezvous, 8*time.Second)
	if o == "work/no-deadlock" { // the one timing-dependent oracle: it must repeat, with more patience
		if o, d = directWork(c, rendezvous, 25*time.Second); o == "" {
			poisoned = false // slow, not stuck
		}
	}
	if o == "" {
		return true
	}
	directViolate(o, d, map[string]string{"cfg": cfgName, "source": src,
		"text": fmt.Sprintf("unmodified par.Work on the Go scheduler: %s; %s", cfgName, itemsDesc(min(len(c.g), 16)))})
	return false
}

// parseDirectWork: the configurations directWorkCase can be replayed from
func parseDirectWork(name string) (c workCfg, rendezvous int, ok bool) {
	var a, b int
	if k, _ := fmt.Sscanf(name, "rendezvous %d %d", &a, &b); k == 2 && a > 0 && a <= 4096 && b > 0 && b <= 8192 {
		return rendezvousCfg(a, b), a, true
	}
	if k, _ := fmt.Sscanf(name, "backlog %d %d", &a, &b); k == 2 && a > 0 && a <= 100000 && b > 0 && b <= 8192 {
		return backlogCfg(a, b), 0, true
	}
	if strings.HasPrefix(name, "cfg ") {
		c, ok = parseWorkCfg(strings.TrimPrefix(name, "cfg "))
		return c, 0, ok
	}
	return workCfg{}, 0, false
}

// ---------------------------------------------------------------- entry points

// directOracles runs everything above for the property at hand.  Returns the names of what ran (for the notes).
func directOracles(r *common.RNG, thorough bool) (ran []string) {
	if prop == "C10" {
		nSeq, nConc, nLong := 120000, 60000, 400000
		durs := []time.Duration{40 * time.Millisecond, 600 * time.Millisecond, 1100 * time.Millisecond, 2300 * time.Millisecond, 3400 * time.Millisecond, 5600 * time.Millisecond}
		if thorough {
			nSeq, nConc, nLong = 1500000, 400000, 1200000
			durs = append(durs, 11*time.Second, 16*time.Second, 31*time.Second, 61*time.Second)
		}
		// computations that take seconds, with concurrent callers of the same key: they only sleep, so they run
		// alongside everything below and are collected at the end
		joinSlow := startSlowF(durs, "slow-f")
		defer func() {
			joinSlow()
		}()
		for fi := range keyFamilies() {
			if !multiCacheCase(fi, 6+fi, []int{300, 40, 7, 1}[fi], 3, "multi-cache") {
				break
			}
		}
		ran = append(ran, "multi-cache (6-9 Cache values with the same keys, one after the other and concurrently)",
			fmt.Sprintf("slow-f (computations of %v with concurrent Do / Get callers of the same key)", durs))
		for fi := range keyFamilies() {
			n := nSeq
			if fi > 0 {
				n = nSeq / 4
			}
			manyKeysCase(fi, n, 1, "many-keys")
		}
		manyKeysCase(0, nConc, 8, "many-keys")
		manyKeysCase(1, nConc/2, 3, "many-keys")
		ran = append(ran, fmt.Sprintf("many-keys (up to %d distinct keys on one Cache, sequential and concurrent)", nSeq))
		keyIdentityCase(r.Uint64()|1, nLong, nil, "key-identity")
		ran = append(ran, fmt.Sprintf("key-identity (%d long strings of equal length and ~70000 keys of other shapes)", nLong+nLong/8))
	crash:
		for _, mode := range []string{"panic", "goexit"} {
			for _, wn := range [][2]bool{{false, false}, {true, false}, {true, true}} {
				if !fCrashCase(mode, wn[0], wn[1], "f-crash") {
					break crash // one failing input is enough (a blocked call costs the whole patience of the watchdog)
				}
			}
		}
		ran = append(ran, "f-crash (the invocation of f panics / calls runtime.Goexit)")
		return ran
	}
	defer func() {
		if poisoned {
			ran = append(ran, "(a Do that did not return left goroutines of the package blocked: the remaining scenarios of this process were skipped)")
		}
	}()
	for _, kn := range [][2]int{{3, 4}, {2, 3}, {4, 4}, {7, 8}, {31, 32}, {5, 9}} {
		if poisoned {
			return ran
		}
		if !directWorkCase(fmt.Sprintf("rendezvous %d %d", kn[0], kn[1]), rendezvousCfg(kn[0], kn[1]), kn[0], "unmodified-rendezvous") {
			break // one failing input is enough (a hanging Do costs the whole patience of the watchdog)
		}
	}
	for _, fn := range [][2]int{{1100, 1}, {2600, 2}, {5000, 5}, {3000, 64}} {
		if poisoned {
			return ran
		}
		if !directWorkCase(fmt.Sprintf("backlog %d %d", fn[0], fn[1]), backlogCfg(fn[0], fn[1]), 0, "unmodified-backlog") {
			break
		}
	}
	nRand := 300
	if thorough {
		nRand = 20000
	}
	for i := 0; i < nRand && !poisoned; i++ {
		c := randWorkCfg(r, 8, 40)
		if !directWorkCase("cfg "+c.String(), c, 0, "unmodified-random") {
			break
		}
	}
	ran = append(ran, "rendezvous (sibling items that need each other, n = k+1)", "large backlogs", fmt.Sprintf("%d random item graphs", nRand))
	if !poisoned {
		ran = append(ran, directWorkObjects(r, thorough)...)
	}
	return ran
}

// replayDirect re-executes a finding of the direct oracles.
func replayDirect(in map[string]string) bool {
	cfg := in["cfg"]
	f := strings.Fields(cfg)
	if len(f) == 0 {
		return false
	}
	atoi := func(s string) int { v, _ := strconv.Atoi(s); return v }
	switch {
	case f[0] == "many-keys" && len(f) == 4:
		n, g := atoi(f[2]), atoi(f[3])
		if n > 0 && n <= 5000000 && g >= 0 && g <= 64 {
			manyKeysCase(atoi(f[1]), n, g, "replay")
		}
	case f[0] == "key-identity" && len(f) == 4:
		seed, _ := strconv.ParseUint(f[1], 10, 64)
		var only []int
		if f[3] != "all" {
			only = undots(f[3])
		}
		if n := atoi(f[2]); n >= 0 && n <= 5000000 {
			keyIdentityCase(seed, n, only, "replay")
		}
	case f[0] == "f-crash" && len(f) == 4:
		fCrashCase(f[1], f[2] == "true", f[3] == "true", "replay")
	case f[0] == "multi-work" && len(f) == 3:
		// the sessions of the family from the first one on, in a fresh process; a few hundred more than recorded (what
		// survives between Work values -- pools, the garbage collector -- need not repeat exactly)
		seed, _ := strconv.ParseUint(f[1], 10, 64)
		if n := atoi(f[2]); n > 0 && n <= 1000000 {
			multiWorkCase(seed, 0, n+300, "replay")
		}
	case f[0] == "nested" && len(f) == 7:
		if c, ok := parseNested(cfg); ok {
			nestedCase(c, "replay")
		}
	case f[0] == "slow-f" && len(f) == 3:
		if ms, callers := atoi(f[1]), atoi(f[2]); ms > 0 && ms <= 600000 && callers >= 1 && callers <= 64 {
			startSlowF([]time.Duration{time.Duration(ms) * time.Millisecond}, "replay")()
		}
	case f[0] == "multi-cache" && len(f) == 5:
		if nc, nk, g := atoi(f[2]), atoi(f[3]), atoi(f[4]); nc >= 2 && nc <= 64 && nk >= 1 && nk <= 100000 && g >= 1 && g <= 64 {
			multiCacheCase(atoi(f[1]), nc, nk, g, "replay")
		}
	default:
		c, rv, ok := parseDirectWork(cfg)
		if !ok {
			return false
		}
		directWorkCase(cfg, c, rv, "replay")
	}
	return true
}

var _ = sort.Ints

// Command par is the correspondence + oracle runner for C09 (par.Work) and C10 (par.Cache),
// selected by VERIF_PROP.
//
// The real code of $VERIF_REPO/par/work.go runs on a cooperative scheduler: harness/cmd/pargen
// (a pre_build step of the check) regenerates verif/harness/gen/parv, a copy of the file whose
// sync / sync/atomic / math/rand imports point to harness/internal/vsync.  An interleaving is then a
// list of decisions (thread to run, Intn answers, which waiter Signal wakes) that this runner
//
//	(a) enumerates exhaustively by depth-first search with a pre-emption bound for small configurations,
//	(b) draws at random / with random priorities for larger ones,
//	(c) takes from the Coq model (random walks of the extracted transition system) and replays on the code,
//
// and every executed schedule is replayed on the extracted model (bin/model_par), comparing the event
// trace step by step (which thread did what: f-begin/f-end per item, Adds and wake-ups, parks, returns;
// values returned by Cache.Do/Get) and, after every step, the set of runnable threads.  Independent of the
// model, direct oracles evaluate the property on the implementation's own trace.  A state in which no
// goroutine is runnable and some have not returned is reported as a deadlock (impl-violation).
//
// direct.go holds the oracles that work on the UNMODIFIED package at full speed (key space, key identity, user
// functions that do not return, items that need each other, large backlogs); they run first, in a child process.
//
// If the instrumented copy cannot be produced (parv.Available == false) that is a broken correspondence, not an
// environment problem: the direct oracles and the race-detector stress of the unmodified package (cmd/parrace)
// still run, and the run ends with a correspondence finding naming what could not be tied (uninstrumentable).
package main

import (
	"encoding/json"
	"fmt"
	"os"
	"os/exec"
	"path/filepath"
	"runtime"
	"sort"
	"strconv"
	"strings"
	"time"

	"verif/harness/common"
	"verif/harness/gen/parv"
	"verif/harness/internal/vsync"
)

var (
	prop string
	res  *common.Result
	mdl  *common.Model
	fl   *common.Flags
)

// ---------------------------------------------------------------- strategies

// prefixStrat follows a list of option indices (one per recorded decision), then takes option 0:
// continue the running thread when it can, else the lowest runnable thread; Intn = 0; wake the longest waiter.
type prefixStrat struct {
	prefix []int
	pos    int
}

func (p *prefixStrat) next(n int) int {
	v := 0
	if p.pos < len(p.prefix) {
		v = p.prefix[p.pos]
	}
	p.pos++
	if v >= n {
		v = 0
	}
	return v
}
func (p *prefixStrat) PickThread(o []int, cur int, curOK bool, step int) int { return p.next(len(o)) }
func (p *prefixStrat) Choose(kind string, t int, o []int) int                { return p.next(len(o)) }

// randStrat: uniformly random thread and data choices; with prio it is priority based (PCT-like): every
// thread gets a random priority, the highest runnable one runs, and at a few random steps the running
// thread's priority drops below all others.
type randStrat struct {
	r       *common.RNG
	prio    bool
	prios   map[int]int
	changes map[int]bool
	low     int
}

func (s *randStrat) PickThread(o []int, cur int, curOK bool, step int) int {
	if !s.prio {
		return s.r.Intn(len(o))
	}
	if s.prios == nil {
		s.prios = map[int]int{}
	}
	for _, t := range o {
		if _, ok := s.prios[t]; !ok {
			s.prios[t] = 1000 + s.r.Intn(1000)
		}
	}
	if s.changes[step] && curOK {
		s.low--
		s.prios[cur] = s.low
	}
	best := 0
	for i, t := range o {
		if s.prios[t] > s.prios[o[best]] {
			best = i
		}
	}
	return best
}
func (s *randStrat) Choose(kind string, t int, o []int) int { return s.r.Intn(len(o)) }

// replayStrat follows a schedule given as (thread, choice) pairs, as produced by the model.
type replayStrat struct {
	sched    [][2]int
	fine     bool // cache schedules have no choices
	step     int
	diverged string
}

func (s *replayStrat) PickThread(o []int, cur int, curOK bool, step int) int {
	s.step = step
	if step >= len(s.sched) {
		if s.diverged == "" {
			s.diverged = fmt.Sprintf("the code has a step %d beyond the end of the model schedule", step)
		}
		return 0
	}
	for i, t := range o {
		if t == s.sched[step][0] {
			return i
		}
	}
	if s.diverged == "" {
		s.diverged = fmt.Sprintf("step %d: thread %d is not runnable on the code (runnable: %v)", step, s.sched[step][0], o)
	}
	return 0
}
func (s *replayStrat) Choose(kind string, t int, o []int) int {
	if s.step >= len(s.sched) {
		return 0
	}
	c := s.sched[s.step][1]
	for i, v := range o {
		if v == c {
			return i
		}
	}
	if s.diverged == "" {
		s.diverged = fmt.Sprintf("step %d: choice %d is not possible on the code (%s options %v)", s.step, c, kind, o)
	}
	return 0
}

// ---------------------------------------------------------------- generic helpers

func dots(xs []int) string {
	if len(xs) == 0 {
		return "-"
	}
	p := make([]string, len(xs))
	for i, x := range xs {
		p[i] = strconv.Itoa(x)
	}
	return strings.Join(p, ".")
}
func undots(s string) []int {
	if s == "-" || s == "" {
		return nil
	}
	var r []int
	for _, p := range strings.Split(s, ".") {
		v, _ := strconv.Atoi(p)
		r = append(r, v)
	}
	return r
}
func mask(xs []int) int {
	m := 0
	for _, x := range xs {
		m |= 1 << uint(x)
	}
	return m
}
func chosen(ds []vsync.Decision) []int {
	r := make([]int, len(ds))
	for i, d := range ds {
		r[i] = d.Chosen
	}
	return r
}
func preemptions(ds []vsync.Decision) int {
	n := 0
	for _, d := range ds {
		if d.Kind == "thread" && d.CurOK && d.Chosen != 0 {
			n++
		}
	}
	return n
}

// dfs enumerates all decision sequences of run with at most bound pre-emptions (depth first, stateless).
func dfs(run func(vsync.Strategy) *vsync.Outcome, bound, maxRuns int, visit func(*vsync.Outcome) bool) (runs int, complete bool) {
	var prefix []int
	for {
		out := run(&prefixStrat{prefix: prefix})
		runs++
		if !visit(out) {
			return runs, false
		}
		decs := out.Decisions
		cost := func(d vsync.Decision, alt int) int {
			if d.Kind == "thread" && d.CurOK && alt != 0 {
				return 1
			}
			return 0
		}
		pc := make([]int, len(decs)+1)
		for i, d := range decs {
			pc[i+1] = pc[i] + cost(d, d.Chosen)
		}
		found := false
		for i := len(decs) - 1; i >= 0 && !found; i-- {
			d := decs[i]
			for alt := d.Chosen + 1; alt < len(d.Options); alt++ {
				if pc[i]+cost(d, alt) <= bound {
					prefix = append(chosen(decs[:i]), alt)
					found = true
					break
				}
			}
		}
		if !found {
			return runs, true
		}
		if runs >= maxRuns {
			return runs, false
		}
	}
}

type pendingCmp struct {
	req, implEvents, implTail string
	input                     map[string]string
	what                      string
}

var cmpBatch []pendingCmp

func flushCmp() {
	if len(cmpBatch) == 0 {
		return
	}
	reqs := make([]string, len(cmpBatch))
	for i, p := range cmpBatch {
		reqs[i] = p.req
	}
	ans, err := mdl.Ask(reqs)
	if err != nil {
		res.Violate(common.Violation{Kind: "correspondence", Oracle: "model", Input: map[string]string{}, Detail: err.Error(), Key: "model-died"})
		cmpBatch = cmpBatch[:0]
		return
	}
	for i, p := range cmpBatch {
		want := "ok " + p.implEvents + " | " + p.implTail
		got := ans[i]
		// the model's tail carries extra fields (phi/psi, inv): compare field by field
		if !sameAnswer(got, p.implEvents, p.implTail) {
			res.Count("correspondence:mismatch")
			res.Violate(common.Violation{Kind: "correspondence", Oracle: p.what, Input: p.input, Model: got, Impl: want,
				Key:    p.what + ":" + p.input["cfg"] + ":" + p.input["decisions"],
				Detail: "the extracted model replaying the schedule observed on the code gives a different event trace / runnable sets / final state"})
		} else {
			res.Count("correspondence:agree")
		}
	}
	cmpBatch = cmpBatch[:0]
}

func sameAnswer(model, implEvents, implTail string) bool {
	if !strings.HasPrefix(model, "ok ") {
		return false
	}
	parts := strings.SplitN(model[3:], " | ", 2)
	if len(parts) != 2 || parts[0] != implEvents {
		return false
	}
	mf := map[string]string{}
	for _, f := range strings.Fields(parts[1]) {
		if i := strings.Index(f, "="); i > 0 {
			mf[f[:i]] = f[i+1:]
		}
	}
	if mf["inv"] != "ok" {
		return false
	}
	for _, f := range strings.Fields(implTail) {
		if i := strings.Index(f, "="); i > 0 && mf[f[:i]] != f[i+1:] {
			return false
		}
	}
	return true
}

var (
	failedCfgs = map[string]bool{}
	notesSeen  = map[string]bool{}
	deadline   time.Time
)

func noteOnce(n string) {
	if !notesSeen[n] {
		notesSeen[n] = true
		res.Notes = append(res.Notes, n)
	}
}

// enough: stop searching (the replays exist already) or out of time
func enough() bool {
	nImpl := 0
	for _, v := range res.Violations {
		if v.Kind == "impl-violation" {
			nImpl++
		}
	}
	if nImpl >= 6 {
		noteOnce("search cut short: six implementation violations recorded already")
		return true
	}
	if time.Now().After(deadline) {
		noteOnce("search cut short: time budget of the tier used up")
		return true
	}
	return false
}

func violate(oracle, detail string, input map[string]string) {
	res.Count("oracle-fail:" + oracle)
	res.Violate(common.Violation{Kind: "impl-violation", Oracle: oracle, Input: input, Detail: detail,
		Key: oracle + ":" + input["cfg"] + ":" + input["decisions"]})
}

// ---------------------------------------------------------------- C09: par.Work

type workCfg struct {
	n     int
	g     [][]int
	inits []int
}

func (c workCfg) graphStr() string {
	p := make([]string, len(c.g))
	for i, ch := range c.g {
		p[i] = dots(ch)
	}
	return strings.Join(p, "/")
}
func (c workCfg) String() string { return fmt.Sprintf("%d|%s|%s", c.n, c.graphStr(), dots(c.inits)) }

func parseWorkCfg(s string) (workCfg, bool) {
	p := strings.Split(s, "|")
	if len(p) != 3 {
		return workCfg{}, false
	}
	n, err := strconv.Atoi(p[0])
	if err != nil || n < 1 {
		return workCfg{}, false
	}
	c := workCfg{n: n, inits: undots(p[2])}
	for _, ch := range strings.Split(p[1], "/") {
		c.g = append(c.g, undots(ch))
	}
	for _, l := range append(append([][]int{}, c.g...), c.inits) {
		for _, x := range l {
			if x < 0 || x >= len(c.g) {
				return workCfg{}, false
			}
		}
	}
	return c, true
}

func (c workCfg) reach() map[int]bool {
	r := map[int]bool{}
	var go1 func(i int)
	go1 = func(i int) {
		if !r[i] {
			r[i] = true
			for _, ch := range c.g[i] {
				go1(ch)
			}
		}
	}
	for _, i := range c.inits {
		go1(i)
	}
	return r
}

// stepBound is phi of the initial state (Par/ParWork.v): the proved bound on the number of steps.
func (c workCfg) stepBound() int {
	K := c.n + 3
	added := map[int]bool{}
	sum := c.n * (c.n + 2)
	for _, i := range c.inits {
		if !added[i] {
			added[i] = true
			sum += (len(c.g[i]) + 1) * K
		}
	}
	for i := range c.g {
		if !added[i] {
			sum += (len(c.g[i])+1)*K + 2
		}
	}
	return sum
}

// Items.  The model's items are numbers; on the implementation item id i is the Go value items.val(i), of
// mixed dynamic types chosen so that DISTINCT items (distinct under == on interface values, which is what a
// map[any]bool keys on) share their printed form: within a group g = i/8 the kinds are
//
//	0 int(g)   1 "g"   2 the nil interface value (g = 0) / float64(g)   3 int64(g)   4 [2]int{g,g}
//	5 "[g g]"   6 and 7 two different pointers to pt{g}.
//
// nil is a legitimate item (a valid map key).  Value kinds are built afresh on every Add, so duplicate Adds
// hand over equal but not identical values (they must be ignored); the pointers are fixed per run.  f maps
// what it receives back to the id by identity.
type pt struct{ v int }

const itemKinds = 8

type itemTable struct {
	ptrs map[int]*pt
	ids  map[any]int
}

func newItems(n int) *itemTable {
	t := &itemTable{ptrs: map[int]*pt{}, ids: map[any]int{}}
	for i := 0; i < n; i++ {
		if k := i % itemKinds; k >= 6 {
			t.ptrs[i] = &pt{i / itemKinds}
		}
		t.ids[t.val(i)] = i
	}
	if len(t.ids) != n {
		panic("harness: item values are not pairwise distinct")
	}
	return t
}

func (t *itemTable) val(i int) any {
	g := i / itemKinds
	switch i % itemKinds {
	case 0:
		return g
	case 1:
		return strconv.Itoa(g)
	case 2:
		if g == 0 {
			return nil
		}
		return float64(g)
	case 3:
		return int64(g)
	case 4:
		return [2]int{g, g}
	case 5:
		return fmt.Sprintf("[%d %d]", g, g)
	}
	return t.ptrs[i]
}

func itemsDesc(n int) string {
	kinds := []string{"int(%d)", "string %q", "float64(%d)", "int64(%d)", "[2]int{%[1]d,%[1]d}", "string \"[%[1]d %[1]d]\"", "pointer A to pt{%d}", "pointer B to pt{%d}"}
	var p []string
	for i := 0; i < n && i < 16; i++ {
		g := i / itemKinds
		var v any = g
		if i%itemKinds == 1 {
			v = strconv.Itoa(g)
		}
		d := fmt.Sprintf(kinds[i%itemKinds], v)
		if i == 2 {
			d = "nil (the nil interface value)"
		}
		p = append(p, strconv.Itoa(i)+"="+d)
	}
	return "item ids stand for the Go values " + strings.Join(p, ", ") + " (and so on, 8 kinds per group)"
}

func runWork(c workCfg, st vsync.Strategy) *vsync.Outcome { return runWorkMode(c, st, false) }

// runWorkMode: fine = every operation of the shim is a scheduling point (a thread can be pre-empted inside a
// critical section, between any two synchronisation operations); used with the direct oracles only.
func runWorkMode(c workCfg, st vsync.Strategy, fine bool) *vsync.Outcome {
	w := &parv.Work{}
	items := newItems(len(c.g))
	for _, i := range c.inits {
		w.Add(items.val(i)) // single goroutine, before Do: not scheduled
	}
	f := func(item any) {
		i, ok := items.ids[item]
		if !ok {
			i = -1 // f was handed something that was never added
		}
		vsync.Trace("b:" + strconv.Itoa(i))
		if ok {
			for _, ch := range c.g[i] {
				vsync.Trace("a:" + strconv.Itoa(ch))
				w.Add(items.val(ch))
			}
		}
		vsync.Yield("fe")
		vsync.Trace("e:" + strconv.Itoa(i))
	}
	limit := c.stepBound() + 1
	if fine {
		limit *= 12
	}
	mode := vsync.Coarse
	if fine {
		mode = vsync.FineUnlock
	}
	return vsync.Run(mode, st, limit, func() {
		w.Do(c.n, f)
		vsync.Trace("doret")
	})
}

type finding struct{ oracle, detail string }

// workOracles evaluates C09 on the implementation's own trace (no model involved).
func workOracles(c workCfg, out *vsync.Outcome) (fs []finding) {
	bad := func(o, d string) { fs = append(fs, finding{o, d}) }
	if out.Stuck {
		noteOnce("a goroutine blocked outside the scheduler shim; run ignored")
		return nil
	}
	if out.Panic != "" {
		bad("work/no-panic", "panic: "+out.Panic)
		return
	}
	reach := c.reach()
	begun, ended := map[int]int{}, map[int]int{}
	active, doret := 0, false
	for _, nt := range out.Notes {
		switch {
		case strings.HasPrefix(nt.Text, "b:"):
			i, _ := strconv.Atoi(nt.Text[2:])
			begun[i]++
			active++
			if begun[i] > 1 {
				bad("work/exactly-once", fmt.Sprintf("f(%d) called a second time (thread %d)", i, nt.T))
			}
			if active > c.n {
				bad("work/at-most-n", fmt.Sprintf("%d calls of f in progress with n=%d", active, c.n))
			}
			if doret {
				bad("work/do-returns-when-done", fmt.Sprintf("f(%d) began after Do returned", i))
			}
		case strings.HasPrefix(nt.Text, "e:"):
			i, _ := strconv.Atoi(nt.Text[2:])
			ended[i]++
			active--
			if doret {
				bad("work/do-returns-when-done", fmt.Sprintf("f(%d) ended after Do returned", i))
			}
		case nt.Text == "doret":
			doret = true
			if active != 0 {
				bad("work/do-returns-when-done", fmt.Sprintf("Do returned with %d calls of f in progress", active))
			}
			for i := range reach {
				if begun[i] != 1 || ended[i] != 1 {
					bad("work/do-returns-when-done", fmt.Sprintf("Do returned although item %d has begun %d / ended %d times", i, begun[i], ended[i]))
					break
				}
			}
		}
	}
	if begun[-1] > 0 {
		bad("work/exactly-once", "f was called with a value that was never added")
	}
	if parv.WorkTouches > 0 {
		for _, r := range hbRaces(out) {
			bad("work/race-free", "a field of Work is accessed outside the protection of w.mu: "+r+" (happens-before check over the access markers of the instrumented copy)")
			break
		}
	}
	if out.Mode == vsync.Coarse {
		if d := lostWakeup(c, out); d != "" {
			bad("work/no-lost-wakeup", d)
		}
	}
	if out.Deadlock {
		bad("work/no-deadlock", fmt.Sprintf("DEADLOCK: no goroutine runnable, threads %v have not returned (Do returned: %v)", out.Blocked, doret))
		return
	}
	if out.StepLimit {
		bad("work/terminates", fmt.Sprintf("the run took more than %d steps, the bound proved for the model (C09_schedules_finite: phi of the initial state): it does not terminate", c.stepBound()))
		return
	}
	if !doret {
		bad("work/terminates", "Do did not return")
	}
	for i := range c.g {
		want := 0
		if reach[i] {
			want = 1
		}
		if begun[i] != want || ended[i] != want {
			bad("work/exactly-once", fmt.Sprintf("item %d: f begun %d ended %d times, want %d", i, begun[i], ended[i], want))
			break
		}
	}
	return
}

// lostWakeup evaluates the model's invariant C09_wakeup_per_item (ParWork.wakeup_ok) on the implementation's own
// states, after every atomic step of a coarse run: whenever some runner is asleep in Wait (not signalled), the
// number of queued items -- added, f not yet begun -- is at most the number of runners on their way to the queue
// (at the head of the loop about to take the lock, or signalled and about to re-acquire it).  A state that breaks it
// has a queued item nobody is coming for while a runner sleeps: a lost wake-up, whether or not the run then happens
// to finish serially.  Everything is read off the run itself: the notes of the user function (Add / begin / end)
// and where the scheduler shim says each goroutine stands.
func lostWakeup(c workCfg, out *vsync.Outcome) string {
	inF := map[int]bool{}
	lastAdd := map[int]int{}
	ever := map[int]bool{}
	queued := 0
	for _, i := range c.inits {
		if !ever[i] {
			ever[i] = true
			queued++
		}
	}
	ni := 0
	for si, st := range out.Steps {
		for ni < len(out.Notes) && out.Notes[ni].Step < si {
			if nt := out.Notes[ni]; strings.HasPrefix(nt.Text, "a:") {
				lastAdd[nt.T], _ = strconv.Atoi(nt.Text[2:])
			}
			ni++
		}
		began, ended := false, false
		for k := ni; k < len(out.Notes) && out.Notes[k].Step == si; k++ {
			switch nt := out.Notes[k]; {
			case strings.HasPrefix(nt.Text, "b:"):
				began = true
			case strings.HasPrefix(nt.Text, "e:"):
				ended = true
			}
		}
		switch {
		case began:
			queued--
			inF[st.T] = true
		case ended:
			inF[st.T] = false
		case inF[st.T] && len(st.Ops) > 0 && st.Ops[0].Kind == vsync.OpLock && st.Ops[0].Obj != rendezvousMu:
			if it, ok := lastAdd[st.T]; ok && !ever[it] { // the critical section of an Add of a new item
				ever[it] = true
				queued++
			}
		}
		if st.After == nil {
			continue
		}
		parked, coming := 0, 0
		for t, b := range st.After {
			if inF[t] {
				continue
			}
			switch b {
			case 'p':
				parked++
			case 'n', 'L':
				coming++
			}
		}
		if parked > 0 && queued > coming {
			return fmt.Sprintf("LOST WAKE-UP after step %d (thread %d): %d item(s) are queued (added, f not begun), %d runner(s) sleep in Wait without having been signalled, and only %d runner(s) are on their way to the queue (at the loop head or signalled); goroutine states %q (L about to lock, p asleep, n signalled, y/. inside f, x returned)",
				si, st.T, queued, parked, coming, string(st.After))
		}
	}
	return ""
}

// rendezvousMu: the mutex of the barrier the rendezvous scenario's user function waits on (not part of Work)
var rendezvousMu *vsync.Mutex

// runWorkRendezvous: item 0 adds items 1..k from inside f, and the calls of f for 1..k do not return before all k
// of them are in progress (a barrier built from the shim's own Mutex and Cond, so that a hang is seen as a
// deadlock).  With n >= k runners this must terminate under every schedule: direct oracles only.
func runWorkRendezvous(k, n int, st vsync.Strategy) (workCfg, *vsync.Outcome) {
	c := rendezvousCfg(k, n)
	w := &parv.Work{}
	items := newItems(len(c.g))
	w.Add(items.val(0))
	bm := &vsync.Mutex{}
	bc := vsync.NewCond(bm)
	rendezvousMu = bm
	arrived := 0
	f := func(item any) {
		i, ok := items.ids[item]
		if !ok {
			i = -1
		}
		vsync.Trace("b:" + strconv.Itoa(i))
		if ok {
			for _, ch := range c.g[i] {
				vsync.Trace("a:" + strconv.Itoa(ch))
				w.Add(items.val(ch))
			}
		}
		if i >= 1 {
			bm.Lock()
			arrived++
			if arrived == k {
				bc.Broadcast()
			}
			for arrived < k {
				bc.Wait()
			}
			bm.Unlock()
		}
		vsync.Yield("fe")
		vsync.Trace("e:" + strconv.Itoa(i))
	}
	out := vsync.Run(vsync.Coarse, st, c.stepBound()+6*k+10, func() {
		w.Do(n, f)
		vsync.Trace("doret")
	})
	rendezvousMu = nil
	return c, out
}

func rendezvousCase(k, n int, st vsync.Strategy, src string) bool {
	c, out := runWorkRendezvous(k, n, st)
	res.Case(fmt.Sprintf("rendezvous#%d#%d#%s", k, n, dots(chosen(out.Decisions))), true)
	res.Count("src:" + src)
	fs := workOracles(c, out)
	if len(fs) == 0 {
		return true
	}
	// shortest forced prefix of the decisions that still fails the same oracle
	dec := chosen(out.Decisions)
	for j := 0; j < len(dec) && j <= 300; j++ {
		_, o2 := runWorkRendezvous(k, n, &prefixStrat{prefix: dec[:j]})
		if f2 := workOracles(c, o2); len(f2) > 0 && f2[0].oracle == fs[0].oracle {
			dec, fs = dec[:j], f2
			break
		}
	}
	for _, f := range fs {
		violate(f.oracle, f.detail, map[string]string{"prop": "C09", "cfg": fmt.Sprintf("rendezvous %d %d", k, n), "decisions": dots(dec), "mode": "rendezvous", "source": src,
			"text": fmt.Sprintf("Work.Do(n=%d) on the controlled scheduler; item 0 adds items 1..%d from inside f; the calls of f for 1..%d each wait until all %d of them are in progress; forced decisions %s, then the default schedule", n, k, k, k, dots(dec))})
	}
	return false
}

// workEvents renders the run at the granularity of the model: events + runnable sets, the schedule as
// (thread, choice) pairs, and the final fields.
func workEvents(c workCfg, out *vsync.Outcome) (events, sched, tail string, parks, wakes int) {
	lastAdd := map[int]int{}
	ni := 0
	var evs, sch, fin []string
	for si, st := range out.Steps {
		// notes emitted before this step (by earlier steps / start segments)
		for ni < len(out.Notes) && out.Notes[ni].Step < si {
			nt := out.Notes[ni]
			if strings.HasPrefix(nt.Text, "a:") {
				lastAdd[nt.T], _ = strconv.Atoi(nt.Text[2:])
			}
			ni++
		}
		begin, end := -1, -1
		for k := ni; k < len(out.Notes) && out.Notes[k].Step == si; k++ {
			nt := out.Notes[k]
			if strings.HasPrefix(nt.Text, "b:") && begin < 0 {
				begin, _ = strconv.Atoi(nt.Text[2:])
			}
			if strings.HasPrefix(nt.Text, "e:") {
				end, _ = strconv.Atoi(nt.Text[2:])
				fin = append(fin, nt.Text[2:])
			}
		}
		choice, intnN, woke, waited := 0, -1, -1, false
		first := vsync.OpExit
		if len(st.Ops) > 0 {
			first = st.Ops[0].Kind
		}
		for _, o := range st.Ops {
			switch o.Kind {
			case vsync.OpIntn:
				choice, intnN = int(o.R), int(o.N)
			case vsync.OpSignal:
				if len(o.Woke) > 0 {
					woke = o.Woke[0]
					choice = woke
				}
			case vsync.OpWait:
				waited = true
			}
		}
		var ev string
		switch {
		case first == vsync.OpYield:
			ev = fmt.Sprintf("E%d:%d", st.T, end)
		case intnN >= 0:
			ev = fmt.Sprintf("B%d:%d:%d", st.T, begin, intnN)
		case waited:
			ev = fmt.Sprintf("P%d", st.T)
			parks++
		case st.Exited:
			ev = fmt.Sprintf("D%d", st.T)
		default:
			ev = fmt.Sprintf("A%d:%d", st.T, lastAdd[st.T])
			if woke >= 0 {
				ev += fmt.Sprintf(":w%d", woke)
				wakes++
			}
		}
		evs = append(evs, fmt.Sprintf("%s/%d", ev, mask(st.EnabledAfter)))
		sch = append(sch, fmt.Sprintf("%d:%d", st.T, choice))
	}
	join := func(x []string, sep string) string {
		if len(x) == 0 {
			return "-"
		}
		return strings.Join(x, sep)
	}
	done := !out.Deadlock && !out.StepLimit && out.Panic == ""
	return join(evs, ","), join(sch, "."), fmt.Sprintf("fin=%s done=%v", join(fin, "."), done), parks, wakes
}

var workSeen = map[string]bool{}

// oneWork: oracles + model comparison for one executed schedule.
func oneWork(c workCfg, out *vsync.Outcome, src string) bool {
	events, sched, tail, parks, wakes := workEvents(c, out)
	input := map[string]string{"prop": "C09", "cfg": c.String(), "decisions": dots(chosen(out.Decisions)), "schedule": sched, "source": src}
	fs := workOracles(c, out)
	ok := len(fs) == 0
	if !ok {
		// shrink: the shortest forced prefix of the decisions (default continuation after it) that still fails the same oracle
		dec := chosen(out.Decisions)
		best, bestOut := dec, out
		for k := 0; k < len(dec) && k <= 400; k++ {
			o2 := runWork(c, &prefixStrat{prefix: dec[:k]})
			f2 := workOracles(c, o2)
			if len(f2) > 0 && f2[0].oracle == fs[0].oracle {
				best, bestOut, fs = dec[:k], o2, f2
				break
			}
		}
		if c.n <= 16 {
			c2, best2, out2 := shrinkWorkCfg(c, best, bestOut, fs[0].oracle)
			if f2 := workOracles(c2, out2); len(f2) > 0 {
				c, best, bestOut, fs = c2, best2, out2, f2
			}
		}
		_, sched2, _, _, _ := workEvents(c, bestOut)
		in2 := map[string]string{"prop": "C09", "cfg": c.String(), "decisions": dots(best), "schedule": sched2, "source": src,
			"text": fmt.Sprintf("Work.Do(n=%d), children=%v, initial Adds=%v; %s; schedule (thread:choice) %s", c.n, c.g, c.inits, itemsDesc(len(c.g)), sched2)}
		for _, f := range fs {
			violate(f.oracle, f.detail, in2)
		}
		failedCfgs[c.String()] = true
	}
	pre := preemptions(out.Decisions)
	res.Case(c.String()+"#"+events, pre > 0 || parks > 0 || wakes > 0)
	res.Count("src:" + src)
	res.Count(fmt.Sprintf("n=%d", c.n))
	res.Count(fmt.Sprintf("items=%d", len(c.g)))
	res.Count(fmt.Sprintf("preemptions=%d", min(pre, 5)))
	if parks > 0 {
		res.Count("has-park")
	}
	if wakes > 0 {
		res.Count("has-signal-wakeup")
	}
	if out.Deadlock {
		res.Count("outcome:deadlock")
	} else {
		res.Count("outcome:returned")
	}
	if res.Evaluations%997 == 1 {
		res.Sample(map[string]any{"cfg": c.String(), "schedule": sched, "events": events, "final": tail, "source": src})
	}
	cmpBatch = append(cmpBatch, pendingCmp{req: fmt.Sprintf("work %d %s %s %s", c.n, c.graphStr(), dots(c.inits), sched),
		implEvents: events, implTail: tail, input: input, what: "work/replay-on-model"})
	if len(cmpBatch) >= 500 {
		flushCmp()
	}
	return ok
}

// searchWork looks for a schedule of c failing the given oracle: the default schedule, then a bounded DFS.
func searchWork(c workCfg, oracle string, budget int) (dec []int, out *vsync.Outcome, found bool) {
	dfs(func(st vsync.Strategy) *vsync.Outcome { return runWork(c, st) }, 2, budget, func(o *vsync.Outcome) bool {
		if f := workOracles(c, o); len(f) > 0 && f[0].oracle == oracle {
			dec, out, found = chosen(o.Decisions), o, true
			return false
		}
		return true
	})
	return
}

// dropItem removes item i from the configuration (edges to it and initial Adds of it go, larger ids shift down).
func (c workCfg) dropItem(i int) workCfg {
	ren := func(l []int) []int {
		r := []int{}
		for _, x := range l {
			if x < i {
				r = append(r, x)
			} else if x > i {
				r = append(r, x-1)
			}
		}
		return r
	}
	c2 := workCfg{n: c.n, inits: ren(c.inits)}
	for j, ch := range c.g {
		if j != i {
			c2.g = append(c2.g, ren(ch))
		}
	}
	return c2
}

// shrinkWorkCfg: greedily fewer runners, fewer items, fewer edges, fewer initial Adds, while some schedule still
// fails the oracle; then the shortest forced decision prefix.
func shrinkWorkCfg(c workCfg, dec []int, out *vsync.Outcome, oracle string) (workCfg, []int, *vsync.Outcome) {
	budget := 200
	try := func(c2 workCfg) bool {
		if d2, o2, ok := searchWork(c2, oracle, budget); ok {
			c, dec, out = c2, d2, o2
			return true
		}
		return false
	}
	for changed, rounds := true, 0; changed && rounds < 6; rounds++ {
		changed = false
		for c.n > 1 {
			c2 := c
			c2.n = c.n - 1
			if !try(c2) {
				break
			}
			changed = true
		}
		for i := len(c.g) - 1; i >= 0 && len(c.g) > 1; i-- {
			if try(c.dropItem(i)) {
				changed = true
			}
			if i > len(c.g) {
				i = len(c.g)
			}
		}
		for i := 0; i < len(c.g); i++ {
			for j := 0; j < len(c.g[i]); j++ {
				c2 := c
				c2.g = append([][]int{}, c.g...)
				c2.g[i] = append(append([]int{}, c.g[i][:j]...), c.g[i][j+1:]...)
				if try(c2) {
					changed = true
					j--
				}
			}
		}
		for j := 0; j < len(c.inits); j++ {
			c2 := c
			c2.inits = append(append([]int{}, c.inits[:j]...), c.inits[j+1:]...)
			if try(c2) {
				changed = true
				j--
			}
		}
	}
	for k := 0; k < len(dec); k++ {
		o2 := runWork(c, &prefixStrat{prefix: dec[:k]})
		if f := workOracles(c, o2); len(f) > 0 && f[0].oracle == oracle {
			return c, dec[:k], o2
		}
	}
	return c, dec, out
}

// runWorkPre: the initial Adds are made by several goroutines CONCURRENTLY before Do is called (the API allows
// Add from any goroutine; the adders are joined before Do).  Returns the order in which the Adds took the lock,
// which is the model's list of initial Adds, and the outcome of the Do phase.
func runWorkPre(c workCfg, adders [][]int, stPre, st vsync.Strategy) ([]int, *vsync.Outcome, *vsync.Outcome) {
	w := &parv.Work{}
	items := newItems(len(c.g))
	bodies := make([]func(), len(adders))
	for a, list := range adders {
		list := list
		_ = a
		bodies[a] = func() {
			for _, i := range list {
				vsync.Trace("pa:" + strconv.Itoa(i))
				w.Add(items.val(i))
			}
		}
	}
	pre := vsync.Run(vsync.Coarse, stPre, 10000, bodies...)
	// one coarse step = one Add (Lock ... Unlock); the item is the thread's last announcement before the step
	var order []int
	last := map[int]int{}
	ni := 0
	for si, stp := range pre.Steps {
		for ni < len(pre.Notes) && pre.Notes[ni].Step < si {
			if nt := pre.Notes[ni]; strings.HasPrefix(nt.Text, "pa:") {
				last[nt.T], _ = strconv.Atoi(nt.Text[3:])
			}
			ni++
		}
		locked := false
		for _, o := range stp.Ops {
			if o.Kind == vsync.OpLock {
				locked = true
			}
		}
		if locked {
			order = append(order, last[stp.T])
		}
	}
	f := func(item any) {
		i, ok := items.ids[item]
		if !ok {
			i = -1
		}
		vsync.Trace("b:" + strconv.Itoa(i))
		if ok {
			for _, ch := range c.g[i] {
				vsync.Trace("a:" + strconv.Itoa(ch))
				w.Add(items.val(ch))
			}
		}
		vsync.Yield("fe")
		vsync.Trace("e:" + strconv.Itoa(i))
	}
	c2 := c
	c2.inits = order
	out := vsync.Run(vsync.Coarse, st, c2.stepBound()+1, func() {
		w.Do(c.n, f)
		vsync.Trace("doret")
	})
	return order, pre, out
}

type smallCfg struct {
	g     [][]int
	inits []int
}

func smallGraphs() []smallCfg {
	return []smallCfg{
		{[][]int{{}}, nil},                                       // Do on an EMPTY work set: returns at once, f never called
		{[][]int{{1}, {}}, nil},                                  // empty initial set, items exist but are never added
		{[][]int{{}}, []int{0}},                                  // one item
		{[][]int{{1}, {}}, []int{0}},                             // chain of 2
		{[][]int{{1, 2}, {}, {}}, []int{0}},                      // fan-out; the three items print alike (0, "0", int64 0)
		{[][]int{{1, 1, 0}, {0}}, []int{0}},                      // duplicate Adds and a cycle
		{[][]int{{1, 2}, {2, 3}, {3}, {}}, []int{0, 0}},          // diamond with duplicates (the Coq example)
		{[][]int{{1}, {2}, {3}, {4}, {}}, []int{0}},              // chain of 5: workers park and are woken repeatedly
		{[][]int{{1, 2, 3, 4}, {}, {}, {}, {}}, []int{0}},        // wide fan-out: more work than workers
		{[][]int{{}, {}, {}}, []int{0, 1, 2, 1}},                 // several initial items, no children
		{[][]int{{3}, {3}, {4}, {4}, {}}, []int{0, 1, 2}},        // two roots joining
		{[][]int{{}, {}, {}, {}, {}, {}, {7}, {6}}, []int{6, 6}}, // two different pointers to equal structs adding each other
	}
}

func initsFor(sc smallCfg, k int) []int { return sc.inits }

func modelExplore(req, key string) {
	ans := mdl.Ask1(req)
	res.Count("model-explore")
	if !strings.HasPrefix(ans, "ok ") {
		res.Violate(common.Violation{Kind: "correspondence", Oracle: "model-explore", Input: map[string]string{"request": req}, Model: ans,
			Key: "model-explore:" + key, Detail: "exhaustive exploration of the extracted model (compiled against the constants regenerated from the source) finds a state violating the executable form of the property: the regenerated constants no longer satisfy what the proofs need (see the PROOF stage), or extraction / the driver is at fault"})
	} else {
		res.Sample(map[string]any{"model-explore": req, "answer": ans})
	}
}

func mainWork() {
	thorough := fl.Tier == "thorough"
	r := common.NewRNG(fl.Seed)
	exhaustiveAll := true
	// 0. API contract probes (single goroutine, no scheduler): Do is for one use, n must be >= 1
	{
		panics := func(f func()) (p bool) {
			defer func() { p = recover() != nil }()
			f()
			return
		}
		calls := 0
		second, zero := false, false
		probe := vsync.Run(vsync.Coarse, &prefixStrat{}, 500, func() {
			w := &parv.Work{}
			w.Add(1)
			w.Do(1, func(any) { calls++ })
			second = panics(func() { w.Do(1, func(any) { calls++ }) })
			zero = panics(func() { (&parv.Work{}).Do(0, func(any) {}) })
		})
		if probe.Deadlock || probe.StepLimit || probe.Panic != "" {
			noteOnce(fmt.Sprintf("API probe (one item, Do(1), a second Do, Do(0)) did not run to its end: deadlock=%v panic=%q", probe.Deadlock, probe.Panic))
		}
		res.Count(fmt.Sprintf("probe:second-Do-panics=%v", second))
		res.Count(fmt.Sprintf("probe:Do(0)-panics=%v", zero))
		if calls != 1 && !probe.Deadlock && !probe.StepLimit && probe.Panic == "" {
			violate("work/exactly-once", fmt.Sprintf("sequential probe: one item, Do(1) twice: f called %d times", calls),
				map[string]string{"prop": "C09", "cfg": "1|-|0", "decisions": "-", "mode": "direct", "text": "w.Add(1); w.Do(1,f); w.Do(1,f) on a single goroutine"})
		}
		if !second {
			noteOnce("a second Do on the same Work did not panic (the documentation says Do should only be used once; the model covers one Do)")
		}
	}
	// 1. the model's own state space on the small configurations
	for k, sg := range smallGraphs() {
		for n := 1; n <= 3; n++ {
			c := workCfg{n: n, g: sg.g, inits: initsFor(sg, k)}
			if !thorough && n == 3 && len(sg.g) >= 5 {
				continue
			}
			modelExplore(fmt.Sprintf("workexplore %d %s %s %d", n, c.graphStr(), dots(c.inits), 3000000), c.String())
		}
	}
	// 1b. transition cover: every transition of the model's complete state graph is taken on the code at least once
	coverCap := 8000
	if thorough {
		coverCap = 400000
	}
	allCovered := true
	for k, sg := range smallGraphs() {
		for n := 1; n <= 3; n++ {
			c := workCfg{n: n, g: sg.g, inits: initsFor(sg, k)}
			if enough() {
				allCovered = false
				break
			}
			if !coverConfig(fmt.Sprintf("workcover %d %s %s %d", n, c.graphStr(), dots(c.inits), coverCap), c.String(), func(sch [][2]int) (*vsync.Outcome, string) {
				st := &replayStrat{sched: sch}
				out := runWork(c, st)
				oneWork(c, out, "transition-cover")
				return out, st.diverged
			}) {
				allCovered = false
			}
		}
	}
	flushCmp()
	// 2. exhaustive DFS over schedules of the real code with a pre-emption bound
	bound, maxRuns := 2, 1500
	if thorough {
		bound, maxRuns = 3, 60000
	}
	for k, sg := range smallGraphs() {
		for n := 1; n <= 3; n++ {
			c := workCfg{n: n, g: sg.g, inits: initsFor(sg, k)}
			runs, complete := dfs(func(st vsync.Strategy) *vsync.Outcome { return runWork(c, st) }, bound, maxRuns,
				func(out *vsync.Outcome) bool { return oneWork(c, out, "dfs") && !enough() })
			if enough() {
				break
			}
			res.Count(fmt.Sprintf("dfs-configs"))
			if complete {
				res.Count("dfs-complete")
			} else {
				exhaustiveAll = false
				res.Count("dfs-truncated")
			}
			_ = runs
		}
	}
	flushCmp()
	// 3. schedules drawn from the model, replayed on the code
	nModel := 300
	if thorough {
		nModel = 5000
	}
	var reqs []string
	var cfgs []workCfg
	for i := 0; i < nModel; i++ {
		c := randWorkCfg(r, 3, 5)
		cfgs = append(cfgs, c)
		reqs = append(reqs, fmt.Sprintf("workrand %d %s %s %d", c.n, c.graphStr(), dots(c.inits), r.Intn(1<<30)))
	}
	ans, err := mdl.Ask(reqs)
	if err == nil {
		for i, a := range ans {
			f := strings.Fields(a)
			if len(f) != 2 || !strings.HasPrefix(f[0], "sched=") || f[1] != "done=true" {
				res.Violate(common.Violation{Kind: "correspondence", Oracle: "model-random-walk", Input: map[string]string{"request": reqs[i]}, Model: a, Key: "workrand:" + reqs[i]})
				continue
			}
			sch := parseSched(strings.TrimPrefix(f[0], "sched="))
			st := &replayStrat{sched: sch}
			out := runWork(cfgs[i], st)
			if st.diverged == "" && len(out.Steps) != len(sch) {
				st.diverged = fmt.Sprintf("the code ran %d steps, the model schedule has %d", len(out.Steps), len(sch))
			}
			if st.diverged != "" {
				res.Violate(common.Violation{Kind: "correspondence", Oracle: "work/model-schedule-on-code",
					Input:  map[string]string{"prop": "C09", "cfg": cfgs[i].String(), "schedule": strings.TrimPrefix(f[0], "sched="), "decisions": dots(chosen(out.Decisions))},
					Detail: st.diverged, Key: "model-sched:" + cfgs[i].String() + ":" + f[0]})
			}
			oneWork(cfgs[i], out, "model-walk")
		}
	}
	flushCmp()
	// 4. random and priority-based schedules on larger configurations
	nRand := 4000
	if thorough {
		nRand = 150000
	}
	for i := 0; i < nRand && !enough(); i++ {
		c := randWorkCfg(r, 8, 24)
		st := &randStrat{r: r.Fork(), prio: i%2 == 0}
		if st.prio {
			st.changes = map[int]bool{}
			for k := r.Intn(4); k > 0; k-- {
				st.changes[r.Intn(60)] = true
			}
		}
		out := runWork(c, st)
		src := "random"
		if st.prio {
			src = "priority"
		}
		oneWork(c, out, src)
	}
	flushCmp()
	// 4a. initial Adds made concurrently by several goroutines before Do (random interleaving of the adders)
	nPre := 400
	if thorough {
		nPre = 20000
	}
	for i := 0; i < nPre && !enough(); i++ {
		c := randWorkCfg(r, 4, 10)
		adders := make([][]int, 2+r.Intn(2))
		for a := range adders {
			for k := r.Intn(4); k > 0; k-- {
				adders[a] = append(adders[a], r.Intn(len(c.g)))
			}
		}
		order, pre, out := runWorkPre(c, adders, &randStrat{r: r.Fork()}, &randStrat{r: r.Fork()})
		if pre.Deadlock || pre.Panic != "" || pre.StepLimit {
			violate("work/add-before-do", fmt.Sprintf("concurrent Adds before Do: deadlock=%v panic=%q", pre.Deadlock, pre.Panic),
				map[string]string{"prop": "C09", "cfg": c.String(), "decisions": dots(chosen(pre.Decisions)), "mode": "pre-adders", "source": "pre-adders",
					"text": fmt.Sprintf("adders %v on a Work with %d items", adders, len(c.g))})
			continue
		}
		c.inits = order
		oneWork(c, out, "pre-adders")
	}
	flushCmp()
	// 4b. large worker counts (direct oracles only: the model replay is not worth its cost there)
	for _, n := range []int{257, 300, 1000} {
		for gi, g := range [][][]int{{{}}, {{1}, {2}, {}}, {{1, 2, 3}, {}, {}, {}}} {
			if enough() {
				break
			}
			c := workCfg{n: n, g: g, inits: []int{0}}
			if gi == 0 && n == 300 {
				c.inits = nil
			}
			for v := 0; v < 2; v++ {
				var st vsync.Strategy = &prefixStrat{}
				if v == 1 {
					st = &randStrat{r: r.Fork()}
				}
				out := runWork(c, st)
				res.Case(c.String()+"#large#"+strconv.Itoa(v), true)
				res.Count("src:large-n")
				for _, f := range workOracles(c, out) {
					violate(f.oracle, f.detail, map[string]string{"prop": "C09", "cfg": c.String(), "decisions": dots(chosen(out.Decisions)), "mode": "direct", "source": "large-n",
						"text": fmt.Sprintf("Work.Do(n=%d), children=%v, initial Adds=%v; %s", c.n, c.g, c.inits, itemsDesc(len(c.g)))})
				}
			}
		}
	}
	// 4c. large backlogs: one call of f adds thousands of items (the queue grows far beyond any
	// initial capacity and then drains), for few and for many runners; direct oracles only
	for _, fan := range []int{1100, 2600, 5000} {
		for _, n := range []int{1, 2, 5} {
			if enough() {
				break
			}
			backlogCase(fan, n, r)
		}
	}
	// 4d. rendezvous: sibling items whose calls of f need each other (every one of them must get a runner)
	nRv := 150
	if thorough {
		nRv = 5000
	}
rv:
	for i := 0; i < nRv && !enough(); i++ {
		k := 2 + i%5
		for _, n := range []int{k + 1, k, k + 3} {
			var st vsync.Strategy = &prefixStrat{}
			if i >= 5 {
				st = &randStrat{r: r.Fork(), prio: i%2 == 0}
			}
			if !rendezvousCase(k, n, st, "rendezvous") {
				break rv
			}
		}
	}
	// 5. the same with every shim operation a scheduling point (pre-emption inside critical sections and
	// between Unlock and the next statement); direct oracles only
	nFine := 1500
	if thorough {
		nFine = 60000
	}
	for i := 0; i < nFine && !enough(); i++ {
		c := randWorkCfg(r, 4, 8)
		st := &randStrat{r: r.Fork(), prio: i%2 == 0}
		if st.prio {
			st.changes = map[int]bool{}
			for k := r.Intn(5); k > 0; k-- {
				st.changes[r.Intn(200)] = true
			}
		}
		out := runWorkMode(c, st, true)
		fs := workOracles(c, out)
		res.Case(c.String()+"#fine#"+dots(chosen(out.Decisions)), preemptions(out.Decisions) > 0)
		res.Count("src:fine-grained")
		for _, f := range fs {
			violate(f.oracle, f.detail+" (fine-grained schedule: every sync operation a scheduling point)",
				map[string]string{"prop": "C09", "cfg": c.String(), "decisions": dots(chosen(out.Decisions)), "mode": "fine", "source": "fine-grained",
					"text": fmt.Sprintf("Work.Do(n=%d), children=%v, initial Adds=%v; %s; fine-grained decisions %s", c.n, c.g, c.inits, itemsDesc(len(c.g)), dots(chosen(out.Decisions)))})
		}
	}
	objRule := mainObjects(r, thorough)
	res.Exhaustive = allCovered
	_ = exhaustiveAll
	defer func() { res.Rule += objRule }()
	res.Rule = fmt.Sprintf("real par.Work on the vsync scheduler (instrumented copy regenerated from the source): exhaustive DFS over all schedules with <= %d pre-emptions (cap %d runs per configuration) for n in 1..3 over %d configurations (item graphs of <= 8 nodes, the nil interface value among the items, empty initial sets included; items are Go values of mixed dynamic types whose printed forms collide), incl. every Intn answer and every choice of the woken waiter; %d complete schedules drawn from the Coq model and replayed on the code; %d random / priority-based schedules for n <= 8 and random graphs of <= 24 items; a TRANSITION COVER of the model's complete state graph for each of these configurations whose graph has <= %d states (every transition of every reachable state taken on the code at least once; `exhaustive` = the cover was complete for all of them); %d runs whose initial Adds are made concurrently by 2-3 goroutines before Do; every executed schedule is replayed on the extracted model (event trace + runnable set after every step); %d further random schedules at the granularity of single sync operations (direct oracles only); the model's own state space is explored exhaustively for the small configurations. A case is non-trivial when its schedule has a pre-emption, a park or a Signal wake-up; distinct = distinct (configuration, event trace).", bound, maxRuns, len(smallGraphs()), nModel, nRand, coverCap, nPre, nFine)
}

// backlogCfg: item 0 adds items 1..fan from inside f; when fan > 2000 the last of them adds 300 more
func backlogCfg(fan, n int) workCfg {
	g := make([][]int, fan+1)
	for i := 1; i <= fan; i++ {
		g[0] = append(g[0], i)
		g[i] = []int{}
	}
	if fan > 2000 {
		for i := 0; i < 300; i++ {
			g = append(g, []int{})
			g[fan] = append(g[fan], len(g)-1)
		}
	}
	return workCfg{n: n, g: g, inits: []int{0}}
}

func backlogCase(fan, n int, r *common.RNG) {
	c := backlogCfg(fan, n)
	var st vsync.Strategy = &prefixStrat{}
	if n == 2 && r != nil {
		st = &randStrat{r: r.Fork()}
	}
	out := runWork(c, st)
	res.Case(fmt.Sprintf("backlog#%d#%d", fan, n), true)
	res.Count("src:large-backlog")
	for _, f := range workOracles(c, out) {
		violate(f.oracle, f.detail, map[string]string{"prop": "C09", "cfg": fmt.Sprintf("backlog %d %d", fan, n), "decisions": "-", "mode": "direct", "source": "large-backlog",
			"text": fmt.Sprintf("Work.Do(n=%d); item 0 adds items 1..%d from inside f (and item %d adds 300 more when fan > 2000); %s", n, fan, fan, f.detail)})
	}
}

func parseSched(s string) [][2]int {
	var r [][2]int
	if s == "-" || s == "" {
		return r
	}
	for _, p := range strings.Split(s, ".") {
		tc := strings.Split(p, ":")
		t, _ := strconv.Atoi(tc[0])
		c := 0
		if len(tc) > 1 {
			c, _ = strconv.Atoi(tc[1])
		}
		r = append(r, [2]int{t, c})
	}
	return r
}

func randWorkCfg(r *common.RNG, maxN, maxItems int) workCfg {
	ni := 1 + r.Intn(maxItems)
	c := workCfg{n: 1 + r.Intn(maxN), g: make([][]int, ni)}
	for i := range c.g {
		c.g[i] = []int{}
		for k := r.Intn(4); k > 0; k-- {
			c.g[i] = append(c.g[i], r.Intn(ni))
		}
	}
	if r.Intn(12) == 0 {
		return c // Do on an empty work set
	}
	for k := 1 + r.Intn(3); k > 0; k-- {
		c.inits = append(c.inits, r.Intn(ni))
	}
	return c
}

// ---------------------------------------------------------------- C10: par.Cache

type ccall struct {
	do bool
	k  int
}

// cacheCfg: programs of Do/Get calls per goroutine; vals[k] is what f_k returns (0 = nil); deps[k] are the keys
// f_k calls Do on (nested Do on other keys, as goproxytest's zip cache calls the archive cache) before it returns.
type cacheCfg struct {
	progs [][]ccall
	vals  []int
	deps  [][]int
}

func (c cacheCfg) progStr() string {
	var ts []string
	for _, p := range c.progs {
		var cs []string
		for _, cl := range p {
			if cl.do {
				cs = append(cs, "D"+strconv.Itoa(cl.k))
			} else {
				cs = append(cs, "G"+strconv.Itoa(cl.k))
			}
		}
		if len(cs) == 0 {
			ts = append(ts, "-")
		} else {
			ts = append(ts, strings.Join(cs, "."))
		}
	}
	return strings.Join(ts, "/")
}
func (c cacheCfg) depStr() string {
	if len(c.deps) == 0 {
		return "-"
	}
	p := make([]string, len(c.deps))
	for i, d := range c.deps {
		p[i] = dots(d)
	}
	return strings.Join(p, "/")
}
func (c cacheCfg) String() string { return c.progStr() + "|" + dots(c.vals) + "|" + c.depStr() }

// fval: what f_k returns.  The value 0 stands for a nil result (an f may return the nil interface); the values 1 and
// 2 for an f that does not return at all: it panics (1) or calls runtime.Goexit (2) after its nested calls.
func (c cacheCfg) fval(k int) any {
	if c.vals[k] == 0 {
		return nil
	}
	return c.vals[k]
}
func (c cacheCfg) crashes(k int) bool { return c.vals[k] == 1 || c.vals[k] == 2 }
func (c cacheCfg) anyCrash() bool {
	for k := range c.vals {
		if c.crashes(k) {
			return true
		}
	}
	return false
}

// fFails is what a crashing f panics with; the goroutine bodies of the harness recover exactly this value (as a
// caller that survives a failing computation would) and let every other panic through.
type fFails struct{ k int }

func (c cacheCfg) want(k int) string { return showVal(c.fval(k)) }
func (c cacheCfg) depsOf(k int) []int {
	if k < len(c.deps) {
		return c.deps[k]
	}
	return nil
}

// cost of one Do(k) in model steps (kcL of Par/ParCacheProofs.v); ok = false when the dependencies are cyclic
func (c cacheCfg) costs() (cost []int, ok bool) {
	n := len(c.vals)
	cost = make([]int, n)
	state := make([]int, n) // 0 new, 1 on stack, 2 done
	ok = true
	var go1 func(k int) int
	go1 = func(k int) int {
		if state[k] == 2 {
			return cost[k]
		}
		if state[k] == 1 {
			ok = false
			return 0
		}
		state[k] = 1
		v := 13
		for _, d := range c.depsOf(k) {
			v += 1 + go1(d)
		}
		state[k], cost[k] = 2, v
		return v
	}
	for k := 0; k < n; k++ {
		go1(k)
	}
	return
}

func parseCacheCfg(s string) (cacheCfg, bool) {
	p := strings.Split(s, "|")
	if len(p) != 2 && len(p) != 3 {
		return cacheCfg{}, false
	}
	c := cacheCfg{vals: undots(p[1])}
	for _, t := range strings.Split(p[0], "/") {
		var prog []ccall
		if t != "-" && t != "" {
			for _, cl := range strings.Split(t, ".") {
				if len(cl) < 2 || (cl[0] != 'D' && cl[0] != 'G') {
					return cacheCfg{}, false
				}
				k, err := strconv.Atoi(cl[1:])
				if err != nil || k < 0 || k >= len(c.vals) {
					return cacheCfg{}, false
				}
				prog = append(prog, ccall{cl[0] == 'D', k})
			}
		}
		c.progs = append(c.progs, prog)
	}
	if len(p) == 3 && p[2] != "-" {
		for _, d := range strings.Split(p[2], "/") {
			ds := undots(d)
			for _, x := range ds {
				if x < 0 || x >= len(c.vals) {
					return cacheCfg{}, false
				}
			}
			c.deps = append(c.deps, ds)
		}
		if len(c.deps) > len(c.vals) {
			return cacheCfg{}, false
		}
	}
	return c, true
}

func showVal(v any) string {
	if v == nil {
		return "nil"
	}
	return fmt.Sprint(v)
}

// stepBound is psi of the initial state (Par/ParCache.v with kcL): the proved bound on the number of steps.
func (c cacheCfg) stepBound() int {
	cost, ok := c.costs()
	if !ok {
		return 400 + 100*len(c.progs) // cyclic dependencies: the run is expected to deadlock long before
	}
	sum := 0
	for _, p := range c.progs {
		for i, cl := range p {
			v := 5
			if cl.do {
				v = cost[cl.k]
			}
			if i == 0 {
				v--
			}
			sum += v
		}
	}
	return sum
}

// plainVisible: the instrumented copy makes the plain accesses to e.result scheduling points of their own
const plainVisible = parv.PlainAccesses > 0

func runCache(c cacheCfg, st vsync.Strategy) *vsync.Outcome {
	ch := &parv.Cache{}
	var fOf func(k int) func() any
	fOf = func(k int) func() any {
		return func() any {
			vsync.Yield("fb")
			vsync.Trace("fb:" + strconv.Itoa(k))
			for _, d := range c.depsOf(k) {
				vsync.Yield("nd")
				vsync.Trace("c:N" + strconv.Itoa(d))
				v := ch.Do(d, fOf(d))
				vsync.Trace(fmt.Sprintf("r:N%d=%s", d, showVal(v)))
			}
			if c.crashes(k) {
				vsync.Yield("fx")
				vsync.Trace("fx:" + strconv.Itoa(k))
				if c.vals[k] == 1 {
					panic(fFails{k})
				}
				runtime.Goexit()
			}
			vsync.Yield("fe")
			vsync.Trace("fe:" + strconv.Itoa(k))
			return c.fval(k)
		}
	}
	bodies := make([]func(), len(c.progs))
	for i, prog := range c.progs {
		prog := prog
		bodies[i] = func() {
			defer func() {
				if r := recover(); r != nil {
					if _, mine := r.(fFails); !mine {
						panic(r)
					}
				}
			}()
			for _, cl := range prog {
				k := cl.k
				if cl.do {
					vsync.Trace("c:D" + strconv.Itoa(k))
					v := ch.Do(k, fOf(k))
					vsync.Trace(fmt.Sprintf("r:D%d=%s", k, showVal(v)))
				} else {
					vsync.Trace("c:G" + strconv.Itoa(k))
					v := ch.Get(k)
					vsync.Trace(fmt.Sprintf("r:G%d=%s", k, showVal(v)))
				}
			}
		}
	}
	return vsync.Run(vsync.Fine, st, c.stepBound()+1, bodies...)
}

// hbRaces: happens-before check over the shim's event log (vector clocks; mutexes, atomics, sync.Map entries and
// goroutine creation synchronise; the plain accesses are checked): the direct form of "no data race".
func hbRaces(out *vsync.Outcome) (races []string) {
	n := out.Threads
	clock := make([][]int, n)
	for t := range clock {
		clock[t] = make([]int, n)
		clock[t][t] = 1
	}
	join := func(dst, src []int) {
		for i := range src {
			if src[i] > dst[i] {
				dst[i] = src[i]
			}
		}
	}
	rel := map[any][]int{} // release clock per synchronisation object
	acquire := func(t int, o any) {
		if l, ok := rel[o]; ok {
			join(clock[t], l)
		}
	}
	release := func(t int, o any, replace bool) {
		l, ok := rel[o]
		if !ok || replace {
			l = make([]int, n)
			rel[o] = l
		}
		join(l, clock[t])
		clock[t][t]++
	}
	type mapKey struct{ m, k any }
	type epoch struct{ t, c int }
	lastW := map[any]epoch{}
	reads := map[any]map[int]int{}
	ordered := func(e epoch, t int) bool { return e.c <= clock[t][e.t] }
	for _, ev := range out.Events {
		t, o := ev.T, ev.Op
		if t >= n {
			continue
		}
		switch o.Kind {
		case vsync.OpLock, vsync.OpWaitWake:
			acquire(t, o.Obj)
		case vsync.OpTryLock:
			if o.Hit {
				acquire(t, o.Obj)
			}
		case vsync.OpUnlock, vsync.OpWait:
			release(t, o.Obj, true)
		case vsync.OpLoadU32, vsync.OpAtomicLoad:
			acquire(t, o.Obj)
		case vsync.OpStoreU32, vsync.OpAtomicStore:
			release(t, o.Obj, false)
		case vsync.OpAtomicRMW:
			acquire(t, o.Obj)
			release(t, o.Obj, false)
		case vsync.OpBlock:
			acquire(t, o.Obj)
		case vsync.OpRelease:
			release(t, o.Obj, false)
		case vsync.OpMapStore, vsync.OpMapDelete:
			acquire(t, mapKey{o.Obj, o.Key})
			release(t, mapKey{o.Obj, o.Key}, false)
		case vsync.OpMapClear, vsync.OpMapRange:
			acquire(t, o.Obj)
			release(t, o.Obj, false)
		case vsync.OpMapLoad:
			acquire(t, mapKey{o.Obj, o.Key})
		case vsync.OpMapLoadOrStore:
			acquire(t, mapKey{o.Obj, o.Key})
			if !o.Hit {
				release(t, mapKey{o.Obj, o.Key}, false)
			}
		case vsync.OpSpawn:
			if c := int(o.R); c < n {
				copy(clock[c], clock[t])
				clock[c][c] = 1
				clock[t][t]++
			}
		case vsync.OpPlainLoad:
			if w, ok := lastW[o.Obj]; ok && w.t != t && !ordered(w, t) {
				races = append(races, fmt.Sprintf("plain read by thread %d is not ordered after the plain write by thread %d (no happens-before path through the mutex or the done flag)", t, w.t))
			}
			if reads[o.Obj] == nil {
				reads[o.Obj] = map[int]int{}
			}
			reads[o.Obj][t] = clock[t][t]
		case vsync.OpPlainStore:
			if w, ok := lastW[o.Obj]; ok && w.t != t && !ordered(w, t) {
				races = append(races, fmt.Sprintf("plain write by thread %d is not ordered after the plain write by thread %d", t, w.t))
			}
			for u, c := range reads[o.Obj] {
				if u != t && !ordered(epoch{u, c}, t) {
					races = append(races, fmt.Sprintf("plain write by thread %d is not ordered after the plain read by thread %d", t, u))
				}
			}
			lastW[o.Obj] = epoch{t, clock[t][t]}
			delete(reads, o.Obj)
		}
	}
	return
}

func cacheOracles(c cacheCfg, out *vsync.Outcome) (fs []finding) {
	bad := func(o, d string) { fs = append(fs, finding{o, d}) }
	if out.Stuck {
		noteOnce("a goroutine blocked outside the scheduler shim; run ignored")
		return nil
	}
	if out.Panic != "" {
		bad("cache/no-panic", "panic: "+out.Panic)
		return
	}
	_, acyclic := c.costs()
	crashed := false // some invocation of f ended without returning (the configuration says which keys do that)
	fcalls, fdone := map[int]int{}, map[int]bool{}
	inGet := map[int]int{}
	getStart := map[int]int{}
	doReturned := map[int]bool{}   // some Do(k) has returned
	getAfterDone := map[int]bool{} // the thread's current Get(k) started after a Do(k) had returned
	for _, nt := range out.Notes {
		switch {
		case strings.HasPrefix(nt.Text, "fb:"):
			k, _ := strconv.Atoi(nt.Text[3:])
			fcalls[k]++
			if fcalls[k] > 1 {
				bad("cache/f-once-per-key", fmt.Sprintf("f for key %d invoked %d times (thread %d)", k, fcalls[k], nt.T))
			}
		case strings.HasPrefix(nt.Text, "fe:"):
			k, _ := strconv.Atoi(nt.Text[3:])
			fdone[k] = true
		case strings.HasPrefix(nt.Text, "fx:"):
			crashed = true
		case strings.HasPrefix(nt.Text, "c:G"):
			inGet[nt.T] = 1
			getStart[nt.T] = nt.Step
			k, _ := strconv.Atoi(nt.Text[3:])
			getAfterDone[nt.T] = doReturned[k]
		case strings.HasPrefix(nt.Text, "r:D"), strings.HasPrefix(nt.Text, "r:N"):
			kv := strings.SplitN(nt.Text[3:], "=", 2)
			k, _ := strconv.Atoi(kv[0])
			what := "Do"
			if nt.Text[2] == 'N' {
				what = "nested Do"
			}
			if kv[1] != c.want(k) && !c.crashes(k) {
				bad("cache/do-returns-f-value", fmt.Sprintf("thread %d: %s(%d) returned %s, f returns %s", nt.T, what, k, kv[1], c.want(k)))
			}
			if c.crashes(k) {
				bad("cache/do-after-f", fmt.Sprintf("thread %d: %s(%d) returned %s although the one invocation of f for key %d never returns (it %s)", nt.T, what, k, kv[1], k, map[int]string{1: "panics", 2: "calls runtime.Goexit"}[c.vals[k]]))
			} else if !fdone[k] {
				bad("cache/do-after-f", fmt.Sprintf("thread %d: %s(%d) returned before the call of f completed", nt.T, what, k))
			}
			doReturned[k] = true
		case strings.HasPrefix(nt.Text, "r:G"):
			kv := strings.SplitN(nt.Text[3:], "=", 2)
			k, _ := strconv.Atoi(kv[0])
			if kv[1] != "nil" && (kv[1] != c.want(k) || !fdone[k]) {
				bad("cache/get-nil-or-value", fmt.Sprintf("thread %d: Get(%d) returned %s (f's value %s, f completed: %v)", nt.T, k, kv[1], c.want(k), fdone[k]))
			}
			if kv[1] == "nil" && c.want(k) != "nil" && getAfterDone[nt.T] {
				bad("cache/get-after-done", fmt.Sprintf("thread %d: Get(%d) returned nil although a Do(%d) had returned %s before this Get started (nil means: not computed yet)", nt.T, k, k, c.want(k)))
			}
			// Get never blocks: between its start and its return the thread executed no Lock / Wait
			for si := getStart[nt.T] + 1; si <= nt.Step && si < len(out.Steps); si++ {
				if si < 0 || out.Steps[si].T != nt.T {
					continue
				}
				for _, o := range out.Steps[si].Ops {
					if o.Kind == vsync.OpLock || o.Kind == vsync.OpWait || o.Kind == vsync.OpWaitWake {
						bad("cache/get-nonblocking", fmt.Sprintf("thread %d executed a blocking %v inside Get(%d)", nt.T, o.Kind, k))
					}
				}
			}
			inGet[nt.T] = 0
		}
	}
	for _, r := range hbRaces(out) {
		bad("cache/race-free", "unordered conflicting plain accesses to e.result: "+r)
		break
	}
	if out.Deadlock {
		if !acyclic || crashed {
			// f_k reaching Do(k) again blocks on its own entry mutex; a Do for a key whose f did not return blocks
			// for ever (the entry stays locked: no second invocation).  The model says so too.
			return
		}
		what := ""
		for _, t := range out.Blocked {
			if inGet[t] == 1 {
				what = fmt.Sprintf(" (thread %d is blocked inside Get)", t)
			}
		}
		bad("cache/no-deadlock", fmt.Sprintf("DEADLOCK: no goroutine runnable, threads %v have not returned%s", out.Blocked, what))
		return
	}
	if out.StepLimit {
		bad("cache/terminates", fmt.Sprintf("the run took more than %d steps, the bound proved for the model (C10_schedules_finite: psi of the initial state)", c.stepBound()))
		return
	}
	if crashed {
		return // the failing goroutine abandoned the rest of its program
	}
	// every key some Do asked for, directly or through f's nested calls, was computed exactly once
	need := map[int]bool{}
	var mark func(k int)
	mark = func(k int) {
		if !need[k] {
			need[k] = true
			for _, d := range c.depsOf(k) {
				mark(d)
			}
		}
	}
	for _, p := range c.progs {
		for _, cl := range p {
			if cl.do {
				mark(cl.k)
			}
		}
	}
	for k := range need {
		if fcalls[k] != 1 {
			bad("cache/f-once-per-key", fmt.Sprintf("key %d: f invoked %d times although Do(%d) was called", k, fcalls[k], k))
		}
	}
	return
}

func cacheEvents(c cacheCfg, out *vsync.Outcome) (events, sched, tail string) {
	keyStack := map[int][]int{}
	top := func(t int) int {
		if s := keyStack[t]; len(s) > 0 {
			return s[len(s)-1]
		}
		return -1
	}
	apply := func(nt vsync.Note) {
		switch {
		case strings.HasPrefix(nt.Text, "c:D"), strings.HasPrefix(nt.Text, "c:G"):
			k, _ := strconv.Atoi(nt.Text[3:])
			keyStack[nt.T] = []int{k}
		case strings.HasPrefix(nt.Text, "c:N"):
			k, _ := strconv.Atoi(nt.Text[3:])
			keyStack[nt.T] = append(keyStack[nt.T], k)
		case strings.HasPrefix(nt.Text, "r:N"):
			if s := keyStack[nt.T]; len(s) > 0 {
				keyStack[nt.T] = s[:len(s)-1]
			}
		}
	}
	ni := 0
	var evs, sch []string
	fb := map[int]int{}
	for si, st := range out.Steps {
		for ni < len(out.Notes) && out.Notes[ni].Step < si {
			apply(out.Notes[ni])
			ni++
		}
		var ops []string
		k := top(st.T)
		for _, o := range st.Ops {
			switch o.Kind {
			case vsync.OpMapLoad:
				hm := "m"
				if o.Hit {
					hm = "h"
				}
				ops = append(ops, fmt.Sprintf("ld%v%s", o.Key, hm))
			case vsync.OpMapLoadOrStore:
				ops = append(ops, fmt.Sprintf("los%v", o.Key))
			case vsync.OpLoadU32:
				ops = append(ops, fmt.Sprintf("al%d=%d", k, o.N))
			case vsync.OpStoreU32:
				ops = append(ops, fmt.Sprintf("as%d=%d", k, o.N))
			case vsync.OpLock:
				ops = append(ops, fmt.Sprintf("lk%d", k))
			case vsync.OpUnlock:
				ops = append(ops, fmt.Sprintf("ul%d", k))
			case vsync.OpPlainStore:
				ops = append(ops, fmt.Sprintf("pw%d", k))
			case vsync.OpPlainLoad:
				ops = append(ops, fmt.Sprintf("pr%d", k))
			case vsync.OpYield:
				ops = append(ops, fmt.Sprintf("%s%d", o.Tag, k))
				if o.Tag == "fb" {
					fb[k]++
				}
			default:
				ops = append(ops, "?"+o.Kind.String())
			}
		}
		for kk := ni; kk < len(out.Notes) && out.Notes[kk].Step == si; kk++ {
			nt := out.Notes[kk]
			if strings.HasPrefix(nt.Text, "r:N") {
				ops = append(ops, "nret:D"+nt.Text[3:])
			} else if strings.HasPrefix(nt.Text, "r:") {
				ops = append(ops, "ret:"+nt.Text[2:])
			}
		}
		evs = append(evs, fmt.Sprintf("%d:%s/%d", st.T, strings.Join(ops, "+"), mask(st.EnabledAfter)))
		sch = append(sch, strconv.Itoa(st.T))
	}
	keys := map[int]bool{}
	var mark func(k int)
	mark = func(k int) {
		if !keys[k] {
			keys[k] = true
			for _, d := range c.depsOf(k) {
				mark(d)
			}
		}
	}
	for _, p := range c.progs {
		for _, cl := range p {
			mark(cl.k)
		}
	}
	var ks []int
	for k := range keys {
		ks = append(ks, k)
	}
	sort.Ints(ks)
	var fbs []string
	for _, k := range ks {
		fbs = append(fbs, fmt.Sprintf("%d:%d", k, fb[k]))
	}
	join := func(x []string, sep string) string {
		if len(x) == 0 {
			return "-"
		}
		return strings.Join(x, sep)
	}
	idle := !out.Deadlock && !out.StepLimit && out.Panic == ""
	return join(evs, ","), join(sch, "."), fmt.Sprintf("idle=%v fb=%s", idle, join(fbs, "."))
}

func cacheMode() string {
	if plainVisible {
		return "p"
	}
	return "i"
}

func (c cacheCfg) text(sched string) string {
	d := ""
	if len(c.deps) > 0 {
		d = fmt.Sprintf(", f_k calls Do on the keys deps[k] = %v", c.deps)
	}
	return fmt.Sprintf("goroutine programs %s (D = Do, G = Get, number = key), f values %v (0 = nil, 1 = f panics and the goroutine recovers at its top, 2 = f calls runtime.Goexit)%s; schedule (thread per operation) %s", c.progStr(), c.vals, d, sched)
}

func oneCache(c cacheCfg, out *vsync.Outcome, src string) bool {
	events, sched, tail := cacheEvents(c, out)
	input := map[string]string{"prop": "C10", "cfg": c.String(), "decisions": dots(chosen(out.Decisions)), "schedule": sched, "source": src}
	fs := cacheOracles(c, out)
	ok := len(fs) == 0
	if !ok {
		dec := chosen(out.Decisions)
		best, bestOut := dec, out
		for k := 0; k < len(dec) && k <= 400; k++ {
			o2 := runCache(c, &prefixStrat{prefix: dec[:k]})
			f2 := cacheOracles(c, o2)
			if len(f2) > 0 && f2[0].oracle == fs[0].oracle {
				best, bestOut, fs = dec[:k], o2, f2
				break
			}
		}
		c2, best2, out2 := shrinkCacheCfg(c, best, bestOut, fs[0].oracle)
		if f2 := cacheOracles(c2, out2); len(f2) > 0 {
			c, best, bestOut, fs = c2, best2, out2, f2
		}
		_, sched2, _ := cacheEvents(c, bestOut)
		in2 := map[string]string{"prop": "C10", "cfg": c.String(), "decisions": dots(best), "schedule": sched2, "source": src, "text": c.text(sched2)}
		for _, f := range fs {
			violate(f.oracle, f.detail, in2)
		}
		failedCfgs[c.String()] = true
	}
	pre := preemptions(out.Decisions)
	contended := strings.Contains(events, "=0+ret:G") || strings.Count(events, "lk") > 1
	res.Case(c.String()+"#"+events, pre > 0)
	res.Count("src:" + src)
	res.Count(fmt.Sprintf("threads=%d", len(c.progs)))
	res.Count(fmt.Sprintf("preemptions=%d", min(pre, 5)))
	if contended {
		res.Count("contended(lock or Get during f)")
	}
	if strings.Contains(events, "nret:") {
		res.Count("nested-do")
	}
	if strings.Contains(events, "=nil") {
		res.Count("returned-nil")
	}
	if out.Deadlock {
		res.Count("outcome:deadlock")
	} else {
		res.Count("outcome:returned")
	}
	if res.Evaluations%1499 == 1 {
		res.Sample(map[string]any{"cfg": c.String(), "schedule": sched, "events": events, "final": tail, "source": src})
	}
	cmpBatch = append(cmpBatch, pendingCmp{req: fmt.Sprintf("cache %s %s %s %s %s", cacheMode(), c.progStr(), dots(c.vals), c.depStr(), sched),
		implEvents: events, implTail: tail, input: input, what: "cache/replay-on-model"})
	if len(cmpBatch) >= 500 {
		flushCmp()
	}
	return ok
}

// searchCache looks for a schedule of c failing the given oracle: the default schedule, then a bounded DFS.
func searchCache(c cacheCfg, oracle string, budget int) (dec []int, out *vsync.Outcome, found bool) {
	dfs(func(st vsync.Strategy) *vsync.Outcome { return runCache(c, st) }, 2, budget, func(o *vsync.Outcome) bool {
		if f := cacheOracles(c, o); len(f) > 0 && f[0].oracle == oracle {
			dec, out, found = chosen(o.Decisions), o, true
			return false
		}
		return true
	})
	return
}

// shrinkCacheCfg: greedily remove goroutines, calls and dependencies while some schedule still fails the oracle.
func shrinkCacheCfg(c cacheCfg, dec []int, out *vsync.Outcome, oracle string) (cacheCfg, []int, *vsync.Outcome) {
	budget := 300
	try := func(c2 cacheCfg) bool {
		if d2, o2, ok := searchCache(c2, oracle, budget); ok {
			c, dec, out = c2, d2, o2
			return true
		}
		return false
	}
	for changed := true; changed; {
		changed = false
		for t := 0; t < len(c.progs) && len(c.progs) > 1; t++ { // drop a goroutine
			c2 := c
			c2.progs = append(append([][]ccall{}, c.progs[:t]...), c.progs[t+1:]...)
			if try(c2) {
				changed = true
				t--
			}
		}
		for t := 0; t < len(c.progs); t++ { // drop a call
			for i := 0; i < len(c.progs[t]) && len(c.progs[t]) > 1; i++ {
				c2 := c
				c2.progs = append([][]ccall{}, c.progs...)
				c2.progs[t] = append(append([]ccall{}, c.progs[t][:i]...), c.progs[t][i+1:]...)
				if try(c2) {
					changed = true
					i--
				}
			}
		}
		for k := 0; k < len(c.deps); k++ { // drop a dependency
			for i := 0; i < len(c.deps[k]); i++ {
				c2 := c
				c2.deps = append([][]int{}, c.deps...)
				c2.deps[k] = append(append([]int{}, c.deps[k][:i]...), c.deps[k][i+1:]...)
				if try(c2) {
					changed = true
					i--
				}
			}
		}
	}
	// shortest forced prefix again
	for k := 0; k < len(dec); k++ {
		o2 := runCache(c, &prefixStrat{prefix: dec[:k]})
		if f := cacheOracles(c, o2); len(f) > 0 && f[0].oracle == oracle {
			return c, dec[:k], o2
		}
	}
	return c, dec, out
}

func smallCacheCfgs() []cacheCfg {
	mk := func(s string) cacheCfg {
		c, ok := parseCacheCfg(s)
		if !ok {
			panic("bad built-in configuration " + s)
		}
		return c
	}
	return []cacheCfg{
		mk("D0/D0|100.101"), mk("D0/G0|100.101"), mk("D0.G0/G0.D0|100.101"), mk("D0/D0/D0|100.101"), mk("D0/D0/G0|100.101"),
		mk("D0.D1/D1.D0|100.101"), mk("D0.G1/G0.D0/D1|100.101"), mk("G0.D0.G0/D0|100.101"), mk("D0.D0/G0.G0|100.101"), mk("D0/G0/G0.D0|100.101"),
		mk("D0.D0.G0/D0|0"), mk("D0.D1/G0.D0|0.7"), // f_0 returns nil: still computed once
		mk("D0/D1|100.101|1/-"),                 // f_0 calls Do(1) while another goroutine calls Do(1) itself
		mk("D0/D0.G1|100.101|1/-"),              // two callers of the outer key
		mk("D0/D2.G0|100.101.0|1.2/2/-"),        // two levels of nesting, f_2 returns nil (the Coq example)
		mk("D0|100|0"), mk("D0/D1|100.101|1/0"), // CYCLIC dependencies: Do deadlocks on its own entry mutex (model and code agree)
		// f does not return (1: panics, 2: runtime.Goexit): exactly one invocation all the same; later Do calls block, Get returns nil
		mk("D0/D0|1"), mk("D0/D0.G0|2"), mk("D0.G1/G0.D0/D1|1.101"), mk("D0/G0.D1|2.101"),
		mk("D0/D1.D0|100.1|1/-"), // f_1 fails inside f_0's nested Do(1): both entries stay locked
	}
}

func randCacheCfg(r *common.RNG, maxT, maxCalls, maxKeys int) cacheCfg {
	nk := 1 + r.Intn(maxKeys)
	c := cacheCfg{}
	crashy := r.Intn(5) == 0
	for k := 0; k < nk; k++ {
		switch {
		case crashy && r.Intn(2) == 0:
			c.vals = append(c.vals, 1+r.Intn(2)) // f_k panics / calls runtime.Goexit
		case r.Intn(5) == 0:
			c.vals = append(c.vals, 0) // f_k returns nil
		default:
			c.vals = append(c.vals, 100+k)
		}
	}
	if r.Intn(3) == 0 { // acyclic nested Do: f_k only calls keys above k
		c.deps = make([][]int, nk)
		for k := 0; k < nk; k++ {
			c.deps[k] = []int{}
			for d := k + 1; d < nk; d++ {
				if r.Intn(2) == 0 {
					c.deps[k] = append(c.deps[k], d)
				}
			}
		}
	}
	for t := 2 + r.Intn(maxT-1); t > 0; t-- {
		var p []ccall
		for k := 1 + r.Intn(maxCalls); k > 0; k-- {
			p = append(p, ccall{r.Intn(3) != 0, r.Intn(nk)})
		}
		c.progs = append(c.progs, p)
	}
	return c
}

func mainCache() {
	thorough := fl.Tier == "thorough"
	r := common.NewRNG(fl.Seed)
	if !plainVisible {
		noteOnce("the plain accesses to e.result could not be made scheduling points in the instrumented copy; the model runs through them after each step and the happens-before oracle has nothing to check")
	}
	for _, c := range smallCacheCfgs() {
		if !thorough && len(c.progs) >= 3 && len(c.progs[0])+len(c.progs[1])+len(c.progs[2]) > 4 {
			continue
		}
		modelExplore(fmt.Sprintf("cacheexplore %s %s %s %d", c.progStr(), dots(c.vals), c.depStr(), 3000000), c.String())
	}
	// transition cover: every transition of the model's state graph taken on the code at least once
	coverCap := 6000
	if thorough {
		coverCap = 400000
	}
	allCovered := true
	if plainVisible {
		for _, c := range smallCacheCfgs() {
			if enough() {
				allCovered = false
				break
			}
			if !coverConfig(fmt.Sprintf("cachecover %s %s %s %d", c.progStr(), dots(c.vals), c.depStr(), coverCap), c.String(), func(sch [][2]int) (*vsync.Outcome, string) {
				st := &replayStrat{sched: sch}
				out := runCache(c, st)
				oneCache(c, out, "transition-cover")
				return out, st.diverged
			}) {
				allCovered = false
			}
		}
	} else {
		allCovered = false
	}
	bound, maxRuns := 2, 1200
	if thorough {
		bound, maxRuns = 3, 60000
	}
	for _, c := range smallCacheCfgs() {
		c := c
		_, complete := dfs(func(st vsync.Strategy) *vsync.Outcome { return runCache(c, st) }, bound, maxRuns,
			func(out *vsync.Outcome) bool { return oneCache(c, out, "dfs") && !enough() })
		if complete {
			res.Count("dfs-complete(bounded)")
		} else {
			res.Count("dfs-truncated")
		}
		if enough() {
			break
		}
	}
	flushCmp()
	nModel := 300
	if thorough {
		nModel = 5000
	}
	var reqs []string
	var cfgs []cacheCfg
	for i := 0; i < nModel; i++ {
		c := randCacheCfg(r, 3, 3, 3)
		cfgs = append(cfgs, c)
		reqs = append(reqs, fmt.Sprintf("cacherand %s %s %s %s %d", cacheMode(), c.progStr(), dots(c.vals), c.depStr(), r.Intn(1<<30)))
	}
	ans, err := mdl.Ask(reqs)
	if err == nil {
		for i, a := range ans {
			f := strings.Fields(a)
			if len(f) != 2 || !strings.HasPrefix(f[0], "sched=") || (f[1] != "idle=true" && !(cfgs[i].anyCrash() && f[1] == "idle=false")) {
				res.Violate(common.Violation{Kind: "correspondence", Oracle: "model-random-walk", Input: map[string]string{"request": reqs[i]}, Model: a, Key: "cacherand:" + reqs[i]})
				continue
			}
			sch := parseSched(strings.TrimPrefix(f[0], "sched="))
			st := &replayStrat{sched: sch}
			out := runCache(cfgs[i], st)
			if st.diverged == "" && len(out.Steps) != len(sch) {
				st.diverged = fmt.Sprintf("the code ran %d steps, the model schedule has %d", len(out.Steps), len(sch))
			}
			if st.diverged != "" {
				res.Violate(common.Violation{Kind: "correspondence", Oracle: "cache/model-schedule-on-code",
					Input:  map[string]string{"prop": "C10", "cfg": cfgs[i].String(), "schedule": strings.TrimPrefix(f[0], "sched="), "decisions": dots(chosen(out.Decisions))},
					Detail: st.diverged, Key: "model-sched:" + cfgs[i].String() + ":" + f[0]})
			}
			oneCache(cfgs[i], out, "model-walk")
		}
	}
	flushCmp()
	nRand := 3000
	if thorough {
		nRand = 150000
	}
	for i := 0; i < nRand && !enough(); i++ {
		c := randCacheCfg(r, 6, 4, 4)
		st := &randStrat{r: r.Fork(), prio: i%2 == 0}
		if st.prio {
			st.changes = map[int]bool{}
			for k := r.Intn(4); k > 0; k-- {
				st.changes[r.Intn(60)] = true
			}
		}
		src := "random"
		if st.prio {
			src = "priority"
		}
		oneCache(c, runCache(c, st), src)
	}
	flushCmp()
	res.Exhaustive = allCovered
	res.Rule = fmt.Sprintf("real par.Cache on the vsync scheduler, every sync.Map / atomic / mutex operation AND the plain write/read of e.result a scheduling point (instrumented copy regenerated from the source; plain accesses instrumented: %v): for %d small configurations (2-3 goroutines, 1-3 keys, Do/Get mixes, nil-returning f, nested Do with acyclic and cyclic dependencies) a TRANSITION COVER of the model's complete state graph (every transition of every reachable state taken on the code at least once; `exhaustive` = this cover was complete for every configuration, cap %d states) and a DFS over all interleavings with <= %d pre-emptions (cap %d runs per configuration); %d complete schedules drawn from the Coq model and replayed on the code; %d random / priority-based schedules for up to 6 goroutines x 4 calls x 4 keys with random acyclic nesting; every executed schedule is replayed on the extracted model (operation trace with loaded/stored values, returned values incl. those of nested calls, runnable set after every step); direct oracles incl. a happens-before (vector clock) check of the plain accesses over the shim's event log. A case is non-trivial when its schedule has a pre-emption; distinct = distinct (configuration, operation trace).",
		plainVisible, len(smallCacheCfgs()), coverCap, bound, maxRuns, nModel, nRand)
}

// coverConfig asks the model for a transition cover of a configuration's state graph and replays every path on the code.
func coverConfig(req, key string, replay func(sch [][2]int) (*vsync.Outcome, string)) bool {
	ans := mdl.Ask1(req)
	f := strings.Fields(ans)
	if len(f) < 5 || f[0] != "ok" {
		res.Violate(common.Violation{Kind: "correspondence", Oracle: "model-cover", Input: map[string]string{"request": req}, Model: ans, Key: "cover:" + key})
		return false
	}
	if !strings.Contains(ans, "complete=true") {
		res.Count("cover:state-graph-too-large")
		return false
	}
	paths := strings.Split(f[len(f)-1], ";")
	n := 0
	for _, p := range paths {
		if p == "-" || p == "" {
			continue
		}
		if enough() {
			res.Count("cover:truncated")
			return false
		}
		sch := parseSched(p)
		out, diverged := replay(sch)
		if diverged == "" && len(out.Steps) != len(sch) && !out.Deadlock {
			diverged = fmt.Sprintf("the code ran %d steps, the model path has %d", len(out.Steps), len(sch))
		}
		if diverged != "" {
			res.Violate(common.Violation{Kind: "correspondence", Oracle: "model-path-on-code",
				Input:  map[string]string{"prop": prop, "cfg": key, "schedule": p, "decisions": dots(chosen(out.Decisions))},
				Detail: diverged, Key: "cover-path:" + key + ":" + p})
		}
		n++
	}
	res.Count("cover:complete-configs")
	res.Sample(map[string]any{"transition-cover": key, "graph": strings.Join(f[1:len(f)-1], " "), "paths-replayed": n})
	return true
}

// ---------------------------------------------------------------- race detector on the unmodified package

func raceEvidence(what string, dur time.Duration, fallback bool) {
	bin := filepath.Join(fl.Work, "parrace")
	if fl.Work == "" {
		bin = filepath.Join(os.TempDir(), "parrace")
	}
	cmd := exec.Command("go", "build", "-race", "-o", bin, "./cmd/parrace")
	if b, err := cmd.CombinedOutput(); err != nil {
		res.Notes = append(res.Notes, "race-enabled build of the unmodified par package not available: "+strings.TrimSpace(string(b)))
		return
	}
	defer os.Remove(bin)
	{
		run := func() (string, error) {
			c := exec.Command(bin, "-what", what, "-seed", strconv.FormatUint(fl.Seed, 10), "-dur", dur.String())
			c.Env = append(os.Environ(), "GORACE=halt_on_error=1 exitcode=66")
			b, err := c.CombinedOutput()
			res.Count("race-stress-runs")
			return string(b), err
		}
		outS, err := run()
		if strings.Contains(outS, "FAIL deadlock") {
			// the only timing-dependent oracle (a watchdog): a miss must repeat to be reported
			noteOnce("the stress watchdog fired once (" + strings.TrimSpace(outS) + "); re-running")
			outS, err = run()
		}
		switch {
		case strings.Contains(outS, "DATA RACE"):
			i := strings.Index(outS, "WARNING: DATA RACE")
			d := outS[i:]
			if len(d) > 1500 {
				d = d[:1500]
			}
			violate(what+"/race-detector", "the race detector reports a data race in the unmodified package under stress:\n"+d,
				map[string]string{"prop": prop, "cfg": "parrace -what " + what, "decisions": "-", "seed": strconv.FormatUint(fl.Seed, 10)})
		case strings.HasPrefix(outS, "FAIL ") || strings.Contains(outS, "\nFAIL "):
			line := outS[strings.Index(outS, "FAIL "):]
			if j := strings.Index(line, "\n"); j > 0 {
				line = line[:j]
			}
			f := strings.SplitN(line, " ", 3)
			violate(what+"/stress-"+f[1], "uncontrolled stress of the unmodified package: "+line,
				map[string]string{"prop": prop, "cfg": "parrace -what " + what, "decisions": "-", "seed": strconv.FormatUint(fl.Seed, 10)})
		case err != nil:
			res.Notes = append(res.Notes, "race stress run failed to execute: "+err.Error()+": "+strings.TrimSpace(outS))
		default:
			res.Notes = append(res.Notes, "go build -race stress of the unmodified package: "+strings.TrimSpace(outS))
			res.Evaluations++
		}
	}
}

// usersEvidence: the repository's own users of par.Cache (goproxytest's zip/archive caches under concurrent
// requests, testscript's execCache under parallel scripts) built with -race.  Supporting evidence (thorough tier).
func usersEvidence(dur time.Duration) {
	bin := filepath.Join(fl.Work, "parusers")
	if fl.Work == "" {
		bin = filepath.Join(os.TempDir(), "parusers")
	}
	if b, err := exec.Command("go", "build", "-race", "-o", bin, "./cmd/parusers").CombinedOutput(); err != nil {
		res.Notes = append(res.Notes, "race-enabled build of the real users of par.Cache not available: "+strings.TrimSpace(string(b)))
		return
	}
	defer os.Remove(bin)
	c := exec.Command(bin, "-dur", dur.String())
	c.Env = append(os.Environ(), "GORACE=halt_on_error=1 exitcode=66")
	b, err := c.CombinedOutput()
	outS := string(b)
	res.Count("users-stress-runs")
	switch {
	case strings.Contains(outS, "DATA RACE"):
		d := outS[strings.Index(outS, "WARNING: DATA RACE"):]
		if len(d) > 1500 {
			d = d[:1500]
		}
		if strings.Contains(d, "/par.") || strings.Contains(d, "par/work.go") {
			violate("cache/users-race-detector", "the race detector reports a data race through par.Cache in the repository's own users (goproxytest / testscript):\n"+d,
				map[string]string{"prop": prop, "cfg": "parusers", "decisions": "-"})
		} else {
			res.Notes = append(res.Notes, "race detector report outside par in the users stress (not attributed to C10): "+d[:min(len(d), 400)])
		}
	case strings.Contains(outS, "got different answers"):
		violate("cache/users-same-answer", "concurrent users of the proxy caches got different answers: "+strings.TrimSpace(outS),
			map[string]string{"prop": prop, "cfg": "parusers", "decisions": "-"})
	case err != nil || !strings.Contains(outS, "ok users"):
		res.Notes = append(res.Notes, "users stress did not complete (environment; not a finding): "+strings.TrimSpace(outS[:min(len(outS), 400)]))
	default:
		res.Notes = append(res.Notes, "go build -race stress of goproxytest.Server and testscript (execCache): "+strings.TrimSpace(outS))
		res.Evaluations++
	}
}

// ---------------------------------------------------------------- replay, corpus, main

func replayInput(in map[string]string, src string) {
	if in["mode"] == "unmodified" {
		if directChild {
			replayDirect(in)
		} else {
			directInChild(fl.Replay)
		}
		return
	}
	if !parv.Available {
		uninstrumentable()
		return
	}
	decs := undots(in["decisions"])
	if prop == "C09" && strings.HasPrefix(in["cfg"], "pair ") {
		if p, ok := parsePairCfg(in["cfg"]); ok {
			onePair(p, runPair(p, &prefixStrat{prefix: decs}), src)
		}
		return
	}
	if prop == "C09" && strings.HasPrefix(in["cfg"], "nest ") {
		if c, ok := parseNestCfg(in["cfg"]); ok {
			oneNest(c, runNest(c, &prefixStrat{prefix: decs}), src)
		}
		return
	}
	if prop == "C09" {
		c, ok := parseWorkCfg(in["cfg"])
		if !ok {
			var fan, n int
			if k, _ := fmt.Sscanf(in["cfg"], "backlog %d %d", &fan, &n); k == 2 && fan > 0 && fan <= 100000 && n > 0 {
				backlogCase(fan, n, nil)
				return
			}
			if k, _ := fmt.Sscanf(in["cfg"], "rendezvous %d %d", &fan, &n); k == 2 && fan > 0 && fan <= 64 && n > 0 && n <= 4096 {
				rendezvousCase(fan, n, &prefixStrat{prefix: decs}, src)
				return
			}
			if strings.HasPrefix(in["cfg"], "parrace") {
				raceEvidence("work", 5*time.Second, false)
			}
			return
		}
		var st vsync.Strategy = &prefixStrat{prefix: decs}
		if in["decisions"] == "" && in["schedule"] != "" {
			st = &replayStrat{sched: parseSched(in["schedule"])}
		}
		if in["mode"] == "direct" {
			out := runWork(c, st)
			res.Case("direct-replay", true)
			for _, f := range workOracles(c, out) {
				violate(f.oracle, f.detail, in)
			}
			return
		}
		if in["mode"] == "fine" {
			out := runWorkMode(c, st, true)
			res.Case("fine-replay", true)
			for _, f := range workOracles(c, out) {
				violate(f.oracle, f.detail, in)
			}
			return
		}
		oneWork(c, runWork(c, st), src)
	} else {
		c, ok := parseCacheCfg(in["cfg"])
		if !ok {
			if strings.HasPrefix(in["cfg"], "parrace") {
				raceEvidence("cache", 5*time.Second, false)
			}
			if in["cfg"] == "parusers" {
				usersEvidence(10 * time.Second)
			}
			return
		}
		var st vsync.Strategy = &prefixStrat{prefix: decs}
		if in["decisions"] == "" && in["schedule"] != "" {
			st = &replayStrat{sched: parseSched(in["schedule"])}
		}
		oneCache(c, runCache(c, st), src)
	}
}

func main() {
	fl = common.ParseFlags()
	prop = os.Getenv("VERIF_PROP")
	if prop == "" {
		prop = "C09"
	}
	res = common.NewResult(prop, fl.Tier, fl.Seed)
	deadline = time.Now().Add(50 * time.Second)
	if fl.Tier == "thorough" {
		deadline = time.Now().Add(25 * time.Minute)
	}
	if out := os.Getenv("VERIF_PAR_DIRECT"); out != "" {
		// child process: only the direct oracles on the unmodified package (or the replay of one of their findings)
		directChild = true
		if fl.Replay != "" {
			rp, err := common.LoadReplay(fl.Replay)
			if err != nil {
				fmt.Fprintln(os.Stderr, err)
				os.Exit(2)
			}
			replayDirect(rp.Violation.Input)
		} else {
			res.Notes = directOracles(common.NewRNG(fl.Seed^0x5eed), fl.Tier == "thorough")
		}
		res.Write(out)
		return
	}
	var err error
	mdl, err = common.StartModel(fl.Model)
	if err != nil {
		fmt.Fprintln(os.Stderr, "cannot start model:", err)
		os.Exit(2)
	}
	defer mdl.Close()
	what := "work"
	if prop == "C10" {
		what = "cache"
	}

	if fl.Replay != "" {
		rp, err := common.LoadReplay(fl.Replay)
		if err != nil {
			fmt.Fprintln(os.Stderr, err)
			os.Exit(2)
		}
		replayInput(rp.Violation.Input, "replay")
		flushCmp()
		res.Rule = "replay of one recorded schedule / direct scenario"
		res.Write(fl.Out)
		return
	}
	// the direct oracles on the unmodified package: they need neither the instrumented copy nor the model
	t0 := time.Now()
	ran := directInChild("")
	directRule := fmt.Sprintf(" Direct oracles on the UNMODIFIED package on the Go scheduler, in a process of their own (%.1f s): %s.", time.Since(t0).Seconds(), strings.Join(ran, "; "))
	// the time budget of the controlled search starts now (a hanging scenario above has used up to ~35 s of watchdog time)
	deadline = time.Now().Add(50 * time.Second)
	if fl.Tier == "thorough" {
		deadline = time.Now().Add(25 * time.Minute)
	}

	if !parv.Available {
		// No controlled interleavings and no comparison with the model are possible: the theorems can no longer be tied
		// to this source.  Everything that works on the unmodified package still runs; the run ends with a
		// correspondence finding whatever the direct oracles found.
		res.Notes = append(res.Notes, "the instrumented copy of par/work.go could not be produced ("+parv.Reason+"): schedules are not controlled in this run; the direct oracles and the race-detector stress of the unmodified package were run, and the model was explored on its own")
		d := 20 * time.Second
		if fl.Tier == "thorough" {
			d = 180 * time.Second
		}
		raceEvidence(what, d, true)
		if prop == "C09" {
			for k, sg := range smallGraphs() {
				c := workCfg{n: 2, g: sg.g, inits: initsFor(sg, k)}
				modelExplore(fmt.Sprintf("workexplore %d %s %s %d", c.n, c.graphStr(), dots(c.inits), 3000000), c.String())
			}
		} else {
			for _, c := range smallCacheCfgs()[:6] {
				modelExplore(fmt.Sprintf("cacheexplore %s %s %s %d", c.progStr(), dots(c.vals), c.depStr(), 3000000), c.String())
			}
		}
		uninstrumentable()
		res.Rule = "the instrumented copy is unavailable: no controlled schedules, no comparison with the model." + directRule + " Uncontrolled stress of the unmodified package under the race detector."
		res.Write(fl.Out)
		return
	}

	// corpus first: files with lines "cfg=<...>" "decisions=<...>" or "schedule=<...>"
	if fl.Corpus != "" {
		ents, _ := filepath.Glob(filepath.Join(fl.Corpus, "*"))
		sort.Strings(ents)
		for _, e := range ents {
			b, err := os.ReadFile(e)
			if err != nil {
				continue
			}
			in := map[string]string{}
			for _, l := range strings.Split(string(b), "\n") {
				if i := strings.Index(l, "="); i > 0 && !strings.HasPrefix(l, "#") {
					in[strings.TrimSpace(l[:i])] = strings.TrimSpace(l[i+1:])
				}
			}
			replayInput(in, "corpus")
		}
		flushCmp()
	}
	if prop == "C09" {
		mainWork()
	} else {
		mainCache()
	}
	res.Rule += directRule
	if fl.Tier == "thorough" {
		if prop == "C10" {
			usersEvidence(40 * time.Second)
		}
		raceEvidence(what, 60*time.Second, false)
	} else {
		raceEvidence(what, 3*time.Second, false)
	}
	res.Write(fl.Out)
}

// directInChild runs the direct oracles on the unmodified package (replay == "": all of them; else the finding stored
// in that replay file) in a child process and merges what it found.  A panic on a goroutine started by the package
// under test ends that process only; the scenario it was running is then reported as the failing input.
func directInChild(replay string) (ran []string) {
	tmp, err := os.CreateTemp(fl.Work, "direct-*.json")
	if err != nil {
		tmp, err = os.CreateTemp("", "direct-*.json")
	}
	if err != nil {
		res.Notes = append(res.Notes, "direct oracles not run: "+err.Error())
		return nil
	}
	tmp.Close()
	defer os.Remove(tmp.Name())
	os.Remove(tmp.Name())
	args := []string{"-tier", fl.Tier, "-seed", strconv.FormatUint(fl.Seed, 10), "-out", tmp.Name(), "-work", fl.Work}
	if replay != "" {
		args = append(args, "-replay", replay)
	}
	cmd := exec.Command(os.Args[0], args...)
	cmd.Env = append(os.Environ(), "VERIF_PAR_DIRECT="+tmp.Name())
	var outb strings.Builder
	cmd.Stdout, cmd.Stderr = &outb, &outb
	runErr := cmd.Run()
	outS := outb.String()
	if b, err := os.ReadFile(tmp.Name()); err == nil {
		var cr common.Result
		if json.Unmarshal(b, &cr) == nil {
			for _, v := range cr.Violations {
				res.Violate(v)
			}
			for k, n := range cr.Distribution {
				res.Distribution[k] += n
			}
			res.Evaluations += cr.Evaluations
			return cr.Notes
		}
	}
	// no result: the child died.  The last announced scenario is the failing input.
	last := ""
	for _, l := range strings.Split(outS, "\n") {
		if strings.HasPrefix(l, "CASE ") {
			last = strings.TrimPrefix(l, "CASE ")
		}
	}
	msg := outS
	if i := strings.Index(msg, "panic:"); i >= 0 {
		msg = msg[i:]
	} else if i := strings.Index(msg, "fatal error:"); i >= 0 {
		msg = msg[i:]
	}
	if len(msg) > 1200 {
		msg = msg[:1200]
	}
	what := "work"
	if prop == "C10" {
		what = "cache"
	}
	if last == "" {
		res.Notes = append(res.Notes, fmt.Sprintf("the process of the direct oracles ended without a result before any scenario started (%v): %s", runErr, msg))
		return nil
	}
	directViolate(what+"/no-panic", "the process running the unmodified package died during this scenario (a panic on a goroutine of the package, or a fatal runtime error):\n"+msg,
		map[string]string{"cfg": last, "source": "direct", "text": "unmodified package, scenario " + last})
	return []string{"(the run of the direct oracles ended early: see the work/no-panic finding)"}
}

// uninstrumentable records that the source could not be put on the controlled scheduler: the theorems are about a
// model whose correspondence with this source cannot be checked any more.
func uninstrumentable() {
	res.Violate(common.Violation{Kind: "correspondence", Oracle: "instrumented-copy", Key: "instrumented-copy",
		Input: map[string]string{"prop": prop, "file": "par/work.go", "reason": parv.Reason},
		Detail: "par/work.go of the checked tree can no longer be tied to the model: harness/cmd/pargen could not produce the copy that runs on the cooperative scheduler (" + parv.Reason +
			"), so no interleaving is controlled, no trace is compared with the extracted model and the transition cover is not taken; only the direct oracles on the unmodified package ran"})
}

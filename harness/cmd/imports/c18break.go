package main

// A malformed-but-plausible stream per kind of syntax error.
//
// Every template is a valid Go file whose import section exercises every reader position of
// read.go: inside the package keyword, the package name, the import keyword, before and after
// '(', inside an alias / '.' / '_', inside an interpreted path (also right after a backslash),
// inside a raw path, between specs, before ')', in a line comment, in a block comment, in the
// blanks and semicolons between all of these, and just behind the section.  At EVERY byte offset
// of the section each breaking element is applied: a newline, end of input, a NUL, a stray quote
// of each kind, a backslash (alone, before a newline, before the end), the start of a comment of
// each kind (also never closed), a lone slash, a rune quote, CR, an invalid UTF-8 byte, a stray
// parenthesis, a byte-order mark, a non-identifier byte; inserted, written over the byte that was
// there, or followed by the end of the input.  Each resulting stream goes through all oracles --
// in particular the ones that compare the two values of reportSyntaxError -- and, like every
// other case, through the model.

import (
	"fmt"
)

var breakTemplates = []string{
	"package p\nimport \"fmt\"\nvar x = 1\n",
	"package p\n\nimport (\n\t\"os\"\n\tf \"fm\\tt\"\n)\n\nvar X = 1\n",
	"package p;import(. \"a\";_ `b\nc`;d \"e\\\"f\")\nfunc f(){}\n",
	"// c\n/* b */package /* c */ p // d\nimport /* e */ x /* f */ \"y\" // g\n/* h */\nimport `r`\ntype T int\n",
	"\xef\xbb\xbfpackage é\nimport \"a/b\"\nimport (\n)\nimport ( \"c\" )\nconst c = \"import\"\n",
}

var breakElements = []struct{ name, b string }{
	{"newline", "\n"}, {"NUL", "\x00"}, {"dquote", "\""}, {"bquote", "`"}, {"backslash", "\\"}, {"backslash-newline", "\\\n"},
	{"slash", "/"}, {"line-comment", "//"}, {"block-comment-open", "/*"}, {"block-comment", "/**/"}, {"rune-quote", "'"}, {"CR", "\r"},
	{"invalid-utf8", "\xff"}, {"lparen", "("}, {"rparen", ")"}, {"BOM", "\xef\xbb\xbf"}, {"non-ident", "+"}, {"letter-i", "i"}, {"semicolon", ";"},
}

// sectionEnd: the offset just behind the byte that ends the import section of a template (the
// first byte of the first declaration), so that positions behind the section are included once.
func sectionEnd(t string) int {
	for _, kw := range []string{"var ", "func ", "type ", "const "} {
		for i := 0; i+len(kw) <= len(t); i++ {
			if t[i:i+len(kw)] == kw && (i == 0 || t[i-1] == '\n') {
				return i + 2
			}
		}
	}
	return len(t)
}

// breakCases calls f with every broken stream (name of the case for the distribution).
func breakCases(stride int, f func(name string, x []byte)) {
	n := 0
	for ti, t := range breakTemplates {
		end := sectionEnd(t)
		for p := 0; p <= end; p++ {
			// end of input at p
			if n++; n%stride == 0 {
				f("EOF", []byte(t[:p]))
			}
			for _, e := range breakElements {
				n++
				if n%stride != 0 {
					continue
				}
				f(e.name+"/insert", []byte(t[:p]+e.b+t[p:]))
				f(e.name+"/then-EOF", []byte(t[:p]+e.b))
				if p < len(t) {
					f(e.name+"/overwrite", []byte(t[:p]+e.b+t[p+1:]))
				}
			}
		}
		_ = ti
	}
}

func breakRule() string {
	return fmt.Sprintf("a syntax-error stream: %d valid templates covering every reader position of read.go x every byte offset of their import section x %d breaking elements (newline, NUL, quotes of each kind, backslash alone / before a newline, comment openers of each kind, lone slash, CR, invalid UTF-8, parentheses, BOM, ...) x {inserted, overwriting, followed by the end of the input} and the end of the input at every offset", len(breakTemplates), len(breakElements))
}

package main

import (
	"bytes"
	"fmt"
	"go/parser"
	"os"
	"path/filepath"
	"sort"
	"strconv"
	"strings"

	"github.com/rogpeppe/go-internal/imports"

	"verif/harness/common"
)

// The consumers of ReadImports / ShouldBuild / MatchFile: imports.ScanDir and imports.ScanFiles run
// on generated directories, compared with the model (scan_dir / scan_files of Imports/Scan.v) and with
// a direct oracle built from go/parser, strconv, the re-stated MatchFile / ShouldBuild rules and
// go/build/constraint.

const scanRule = "imports.ScanDir and ScanFiles on generated directories of 10-30 entries (OS/arch/_test suffixes, _ and . prefixes, non-.go names, sub-directories, +build headers, BOM files, import \"C\", duplicate and escaped paths, empty, mutated, NUL and syntax-error files) under two tag sets each (incl. \"*\" and cgo), compared with the model scan_dir / scan_files and, when every considered file is accepted by go/parser, with a direct oracle: go/parser import specs + strconv.Unquote + the re-stated MatchFile and +build rules (cross-checked with go/build/constraint), sorted sets with tests separated; and always with the composition oracle (scan.go's rules re-stated over the package's ReadImports and ShouldBuild, the re-stated MatchFile and strconv.Unquote)."

type dirEntry struct {
	name  string
	isDir bool
	data  []byte
	kind  string
}

func showScan(imps, tests []string, err error) string {
	switch {
	case err == nil:
		parts := []string{"S", "ok", fmt.Sprint(len(imps))}
		for _, p := range imps {
			parts = append(parts, common.Hex([]byte(p)))
		}
		parts = append(parts, fmt.Sprint(len(tests)))
		for _, p := range tests {
			parts = append(parts, common.Hex([]byte(p)))
		}
		return strings.Join(parts, " ")
	case err == imports.ErrNoGo:
		return "S nogo"
	}
	return "S readerr"
}

func implScanDir(dir string, tags []string) string {
	return common.Safely(func() string { return showScan(imports.ScanDir(dir, tagMap(tags))) })
}
func implScanFiles(files []string, tags []string) string {
	return common.Safely(func() string { return showScan(imports.ScanFiles(files, tagMap(tags))) })
}

func scanRequest(fn string, tags []string, ents []dirEntry) string {
	parts := []string{fn, fmt.Sprint(len(tags))}
	for _, t := range tags {
		parts = append(parts, common.Hex([]byte(t)))
	}
	parts = append(parts, fmt.Sprint(len(ents)))
	for _, e := range ents {
		reg := "1"
		if e.isDir {
			reg = "0"
		}
		parts = append(parts, common.Hex([]byte(e.name)), reg, common.Hex(e.data))
	}
	return strings.Join(parts, " ")
}

// ---------------------------------------------------------------- direct oracle (no model)

// oracleScanDir: what ScanDir must return according to go/parser (import specs), strconv.Unquote,
// the documented file-name rule, the documented +build rule (cross-checked with go/build/constraint
// where the rules coincide) and the rules of scan.go's doc / the property text: regular files named
// *.go not starting with "_", import "C" needs the cgo tag, _test.go files give test imports, the
// result is the sorted set.  applicable=false when a considered file is not accepted by go/parser
// (ImportsOnly) or contains NUL: then only the model comparison speaks.
func oracleScanDir(ents []dirEntry, tags []string) (res string, applicable bool) {
	tm := tagMap(tags)
	imps, tests := map[string]bool{}, map[string]bool{}
	n := 0
	for _, e := range ents {
		if e.isDir || strings.HasPrefix(e.name, "_") || !strings.HasSuffix(e.name, ".go") || !docMatchFile(e.name, tm) {
			continue
		}
		if bytes.IndexByte(e.data, 0) >= 0 {
			return "", false
		}
		ok, lits := parserImports(e.data, parser.ImportsOnly)
		if !ok {
			return "", false
		}
		needC := false
		for _, l := range lits {
			if l == `"C"` {
				needC = true
			}
		}
		if needC && !tm["cgo"] && !tm["*"] {
			continue
		}
		body := sansBOM(e.data)
		sb := docShouldBuild(body, tm)
		if c, ok := constraintShouldBuild(body, tm); ok && c != sb {
			return "", false // the two readings disagree: reported by the ShouldBuild oracles of C19
		}
		if !sb {
			continue
		}
		n++
		m := imps
		if strings.HasSuffix(e.name, "_test.go") {
			m = tests
		}
		for _, l := range lits {
			if q, err := strconv.Unquote(l); err == nil {
				m[q] = true
			}
		}
	}
	if n == 0 {
		return "S nogo", true
	}
	return showScan(sortedKeys(imps), sortedKeys(tests), nil), true
}

// composedScan re-states scan.go's rules on top of the package's own ReadImports and ShouldBuild
// (which have their own oracles) and the re-stated MatchFile: always applicable, also to files that
// go/parser rejects.  explicit = ScanFiles (no name filter, no +build filter).
func composedScan(ents []dirEntry, tags []string, explicit bool) string {
	tm := tagMap(tags)
	imps, tests := map[string]bool{}, map[string]bool{}
	n := 0
	for _, e := range ents {
		if !explicit && (e.isDir || strings.HasPrefix(e.name, "_") || !strings.HasSuffix(e.name, ".go") || !docMatchFile(e.name, tm)) {
			continue
		}
		var lits []string
		data, err := imports.ReadImports(bytes.NewReader(e.data), false, &lits)
		if err != nil {
			return "S readerr"
		}
		needC := false
		for _, l := range lits {
			needC = needC || l == `"C"`
		}
		if needC && !tm["cgo"] && !tm["*"] {
			continue
		}
		if !explicit && !imports.ShouldBuild(data, tm) {
			continue
		}
		n++
		m := imps
		if strings.HasSuffix(e.name, "_test.go") {
			m = tests
		}
		for _, l := range lits {
			if q, err := strconv.Unquote(l); err == nil {
				m[q] = true
			}
		}
	}
	if n == 0 {
		return "S nogo"
	}
	return showScan(sortedKeys(imps), sortedKeys(tests), nil)
}

func sortedKeys(m map[string]bool) []string {
	var l []string
	for k := range m {
		l = append(l, k)
	}
	sort.Strings(l)
	return l
}

// ---------------------------------------------------------------- generation

var scanBases = []string{"a", "b", "c", "main", "x", "util", "doc", "zz"}
var scanSuffixes = []string{"", "", "", "_linux", "_windows", "_android", "_arm", "_amd64", "_linux_arm", "_windows_amd64", "_foo", "_plan9", "_linux_foo", "_test_linux"}
var scanExts = []string{".go", ".go", ".go", ".go", ".go", ".go", ".txt", ".s", ".go.bak", "", ".GO"}
var scanTagSets = [][]string{{}, {"linux"}, {"android"}, {"*"}, {"linux", "amd64"}, {"android", "arm"}, {"windows", "amd64", "foo"},
	{"linux", "cgo"}, {"*", "ignore"}, {"ignore", "linux", "arm"}, {"foo", "bar"}, {"plan9", "arm", "cgo", "bar"}}

func (g *gen18) goFile(r *common.RNG) ([]byte, string) {
	sec, rest := g.section()
	var hdr strings.Builder
	kind := "valid"
	if r.Chance(1, 2) {
		n := 1 + r.Intn(2)
		for i := 0; i < n; i++ {
			if r.Chance(1, 4) {
				hdr.WriteString("// some comment\n")
			}
			hdr.WriteString(genBuildLine(r) + "\n")
		}
		if r.Chance(5, 6) {
			hdr.WriteString("\n")
		}
		if !modelable([]byte(hdr.String()+"\n")) && r.Chance(9, 10) {
			return g.goFile(r) // keep most directories inside the model's tag alphabet
		}
		kind = "valid+build"
	}
	body := hdr.String() + sec.renderBody() + rest
	if sec.bom {
		body = string(bomBytes) + body
		kind += "+BOM"
	}
	return []byte(body), kind
}

func (g *gen18) genDir(r *common.RNG) []dirEntry {
	n := 10 + r.Intn(21)
	seen := map[string]bool{}
	var ents []dirEntry
	broken := r.Chance(1, 3) // directories with files that are not valid Go
	for len(ents) < n {
		name := common.Pick(r, scanBases) + common.Pick(r, scanSuffixes)
		if r.Chance(1, 4) {
			name += "_test"
		}
		name += common.Pick(r, scanExts)
		switch r.Intn(14) {
		case 0:
			name = "_" + name
		case 1:
			name = "." + name
		}
		if seen[name] || seen[strings.ToLower(name)] {
			continue
		}
		seen[name], seen[strings.ToLower(name)] = true, true
		e := dirEntry{name: name}
		switch k := r.Intn(40); {
		case k == 0:
			e.isDir, e.kind = true, "directory"
		case k == 1:
			e.data, e.kind = []byte("package p\nimport \"C\"\nimport \"unsafe\"\nimport `x/cgo`\n"), "import-C"
		case k == 2:
			e.data, e.kind = nil, "empty"
		case k == 3:
			e.data, e.kind = []byte("package p\n\nimport (\n\t\"a/dup\"\n\tb \"a/dup\"\n\t`r\rr`\n\t\"e\\x41\\u00e9\\101\"\n)\n"), "dups+escapes"
		case k == 4 && broken:
			e.data, e.kind = []byte("package p\nimport \"a\"\nimport \"bad\\q\" \"x\x00y\"\n"), "NUL"
		case k <= 8 && broken:
			src, _ := g.goFile(r)
			e.data, e.kind = mutate(r, src), "mutated"
		case k == 9 && broken:
			e.data, e.kind = []byte("package p\nimport \"ok/before\"\nimport \"unterminated\nfunc"), "syntax-error-after-import"
		default:
			e.data, e.kind = g.goFile(r)
		}
		ents = append(ents, e)
	}
	sort.Slice(ents, func(i, j int) bool { return ents[i].name < ents[j].name }) // os.ReadDir order
	return ents
}

func writeDir(dir string, ents []dirEntry) error {
	if err := os.MkdirAll(dir, 0o755); err != nil {
		return err
	}
	for _, e := range ents {
		p := filepath.Join(dir, e.name)
		if e.isDir {
			if err := os.Mkdir(p, 0o755); err != nil {
				return err
			}
			continue
		}
		if err := os.WriteFile(p, e.data, 0o644); err != nil {
			return err
		}
	}
	return nil
}

func entsText(ents []dirEntry) string {
	var b strings.Builder
	for _, e := range ents {
		if e.isDir {
			fmt.Fprintf(&b, "%s/\n", e.name)
		} else {
			fmt.Fprintf(&b, "%s: %q\n", e.name, clipN(string(e.data), 160))
		}
	}
	return b.String()
}
func clipN(s string, n int) string {
	if len(s) > n {
		return s[:n] + "..."
	}
	return s
}

// encode / decode a directory for replay files
func entsInput(ents []dirEntry, tags []string, fn string) map[string]string {
	return map[string]string{"fn": fn, "dir": scanRequest("d", nil, ents), "dir_text": clipN(entsText(ents), 3000),
		"tags": hexList(tags), "tags_text": fmt.Sprintf("%q", tags)}
}
func entsFromInput(in map[string]string) []dirEntry {
	f := strings.Fields(in["dir"])
	if len(f) < 3 {
		return nil
	}
	var ents []dirEntry
	for i := 3; i+2 < len(f); i += 3 {
		ents = append(ents, dirEntry{name: string(common.UnHex(f[i])), isDir: f[i+1] == "0", data: common.UnHex(f[i+2])})
	}
	return ents
}

// ---------------------------------------------------------------- cases

var scanSeq int

func (rn *runner) caseScan(ents []dirEntry, tags []string, src string) {
	res := rn.res
	rn.seen++
	scanSeq++
	dir := filepath.Join(rn.f.Work, fmt.Sprintf("scan%d", scanSeq))
	if err := writeDir(dir, ents); err != nil {
		res.Count("scan:cannot-write-directory")
		if rn.shrunk["scanwrite"]++; rn.shrunk["scanwrite"] <= 2 {
			res.Notes = append(res.Notes, "cannot write a scan directory (case skipped): "+err.Error())
		}
		return
	}
	defer os.RemoveAll(dir)
	res.Count("scan:src:" + src)
	for _, e := range ents {
		res.Count("scan:file:" + e.kind)
	}
	impl := implScanDir(dir, tags)
	res.Case("scan:"+scanRequest("sd", tags, ents), true)
	res.Count("scan:ScanDir:" + strings.Join(strings.Fields(impl)[:min(2, len(strings.Fields(impl)))], "-"))
	in := entsInput(ents, tags, "ScanDir")
	if want, ok := oracleScanDir(ents, tags); ok {
		res.Count("scan:oracle:go/parser+rules")
		if impl != want {
			// shrink: drop entries while the oracle still disagrees
			bad := func(es []dirEntry) bool {
				d2 := dir + "s"
				defer os.RemoveAll(d2)
				if writeDir(d2, es) != nil {
					return false
				}
				w, ok := oracleScanDir(es, tags)
				return ok && implScanDir(d2, tags) != w
			}
			small := ents
			if rn.shrunk["o:scan"]++; rn.shrunk["o:scan"] <= 4 {
				small = common.ShrinkList(ents, bad)
			}
			d3 := dir + "t"
			writeDir(d3, small)
			w, _ := oracleScanDir(small, tags)
			got := implScanDir(d3, tags)
			os.RemoveAll(d3)
			res.Count("oracle-fails:ScanDir/go-parser+rules")
			res.Violate(common.Violation{Kind: "impl-violation", Oracle: "ScanDir/go-parser+rules", Input: entsInput(small, tags, "ScanDir"),
				Impl: clip(got), Model: clip(w), Key: "scan:" + clip(scanRequest("sd", tags, small)),
				Detail: "ScanDir differs from the imports go/parser finds in the files selected by the documented name and +build rules (sorted sets, tests separated)"})
		}
	} else {
		res.Count("scan:oracle-not-applicable(file not accepted by go/parser or NUL)")
	}
	if want := common.Safely(func() string { return composedScan(ents, tags, false) }); want != impl {
		res.Count("oracle-fails:ScanDir/composition")
		small := ents
		if rn.shrunk["o:scanc"]++; rn.shrunk["o:scanc"] <= 4 {
			small = common.ShrinkList(ents, func(es []dirEntry) bool {
				d2 := dir + "c"
				defer os.RemoveAll(d2)
				return writeDir(d2, es) == nil && implScanDir(d2, tags) != composedScan(es, tags, false)
			})
		}
		d3 := dir + "d"
		writeDir(d3, small)
		got := implScanDir(d3, tags)
		os.RemoveAll(d3)
		res.Violate(common.Violation{Kind: "impl-violation", Oracle: "ScanDir/composition", Input: entsInput(small, tags, "ScanDir"),
			Impl: clip(got), Model: clip(composedScan(small, tags, false)), Key: "scanc:" + clip(scanRequest("sd", tags, small)),
			Detail: "ScanDir differs from scan.go's documented rules re-stated over ReadImports, ShouldBuild, the re-stated MatchFile and strconv.Unquote"})
	}
	for _, e := range ents {
		if !e.isDir && !modelable(sansBOM(e.data)) {
			res.Count("scan:not-modelled(tag letters >= U+0250 in a header)")
			return
		}
	}
	// model: ScanDir
	rn.addScan("ScanDir", "sd", tags, ents, in, func(es []dirEntry) string {
		d2 := dir + "m"
		defer os.RemoveAll(d2)
		if writeDir(d2, es) != nil {
			return "?"
		}
		return implScanDir(d2, tags)
	}, impl)
	// ScanFiles on a subset of the regular files, in a shuffled order
	var sub []dirEntry
	var paths []string
	for _, e := range ents {
		if !e.isDir && (scanSeq+len(e.name))%3 != 0 {
			sub = append(sub, e)
		}
	}
	if scanSeq%2 == 0 {
		for i, j := 0, len(sub)-1; i < j; i, j = i+1, j-1 {
			sub[i], sub[j] = sub[j], sub[i]
		}
	}
	for _, e := range sub {
		paths = append(paths, filepath.Join(dir, e.name))
	}
	implF := implScanFiles(paths, tags)
	if want := common.Safely(func() string { return composedScan(sub, tags, true) }); want != implF {
		res.Count("oracle-fails:ScanFiles/composition")
		small := sub
		rerun := func(es []dirEntry) string {
			d2 := dir + "g"
			defer os.RemoveAll(d2)
			if writeDir(d2, es) != nil {
				return "?"
			}
			var ps []string
			for _, e := range es {
				ps = append(ps, filepath.Join(d2, e.name))
			}
			return implScanFiles(ps, tags)
		}
		if rn.shrunk["o:scanfc"]++; rn.shrunk["o:scanfc"] <= 4 {
			small = common.ShrinkList(sub, func(es []dirEntry) bool { return rerun(es) != composedScan(es, tags, true) })
		}
		res.Violate(common.Violation{Kind: "impl-violation", Oracle: "ScanFiles/composition", Input: entsInput(small, tags, "ScanFiles"),
			Impl: clip(rerun(small)), Model: clip(composedScan(small, tags, true)), Key: "scanfc:" + clip(scanRequest("sf", tags, small)),
			Detail: "ScanFiles differs from scan.go's documented rules (no name or +build filtering for explicitly named files) re-stated over ReadImports and strconv.Unquote"})
	}
	res.Count("scan:ScanFiles:" + strings.Join(strings.Fields(implF)[:min(2, len(strings.Fields(implF)))], "-"))
	rn.addScan("ScanFiles", "sf", tags, sub, entsInput(sub, tags, "ScanFiles"), func(es []dirEntry) string {
		d2 := dir + "f"
		defer os.RemoveAll(d2)
		if writeDir(d2, es) != nil {
			return "?"
		}
		var ps []string
		for _, e := range es {
			ps = append(ps, filepath.Join(d2, e.name))
		}
		return implScanFiles(ps, tags)
	}, implF)
	if scanSeq%97 == 1 {
		res.Sample(map[string]any{"fn": "ScanDir", "tags": tags, "dir": clipN(entsText(ents), 1200), "impl": clip(impl)})
	}
}

type scanPending struct {
	fn, req, impl string
	tags          []string
	ents          []dirEntry
	in            map[string]string
	rerun         func([]dirEntry) string
	cmd           string
}

var scanBatch []scanPending

func (rn *runner) addScan(fn, cmd string, tags []string, ents []dirEntry, in map[string]string, rerun func([]dirEntry) string, impl string) {
	scanBatch = append(scanBatch, scanPending{fn: fn, cmd: cmd, req: scanRequest(cmd, tags, ents), impl: impl, tags: tags, ents: ents, in: in, rerun: rerun})
}

// flushScan compares the pending scans with the model.  (The directories are gone by then: a
// mismatch re-creates them for shrinking.)
func (rn *runner) flushScan() {
	if len(scanBatch) == 0 {
		return
	}
	reqs := make([]string, len(scanBatch))
	for i, p := range scanBatch {
		reqs[i] = p.req
	}
	ans, err := rn.m.Ask(reqs)
	if err != nil {
		rn.res.Notes = append(rn.res.Notes, "model error on scan requests: "+err.Error())
		rn.res.Violate(common.Violation{Kind: "correspondence", Oracle: "model-process", Key: "model-died", Detail: err.Error(), Input: map[string]string{}})
		scanBatch = scanBatch[:0]
		return
	}
	for i, p := range scanBatch {
		if ans[i] == p.impl {
			continue
		}
		rn.res.Count("mismatch:" + p.fn)
		if rn.shrunk["m:"+p.fn]++; rn.shrunk["m:"+p.fn] > 4 {
			continue
		}
		small := common.ShrinkList(p.ents, func(es []dirEntry) bool {
			return rn.m.Ask1(scanRequest(p.cmd, p.tags, es)) != p.rerun(es)
		})
		rn.res.Violate(common.Violation{Kind: "correspondence", Oracle: p.fn, Input: entsInput(small, p.tags, p.fn),
			Model: clip(rn.m.Ask1(scanRequest(p.cmd, p.tags, small))), Impl: clip(p.rerun(small)),
			Key:    p.fn + ":" + clip(scanRequest(p.cmd, p.tags, small)),
			Detail: "model of scan.go (corrected behaviour of its callees) and implementation differ"})
	}
	scanBatch = scanBatch[:0]
}

func (rn *runner) replayScan(in map[string]string) {
	ents := entsFromInput(in)
	rn.caseScan(ents, unHexList(in["tags"]), "replay")
	rn.flushScan()
}

func runScan(rn *runner, nDirs int) {
	r := common.NewRNG(rn.f.Seed ^ 0x5ca9)
	g := &gen18{r: r.Fork()}
	for i := 0; i < nDirs; i++ {
		ents := g.genDir(r)
		k := 2
		for j := 0; j < k; j++ {
			ts := scanTagSets[(i*k+j)%len(scanTagSets)]
			rn.caseScan(ents, ts, "generated")
		}
		if len(scanBatch) >= 200 {
			rn.flushScan()
		}
	}
	rn.flushScan()
}

// ---------------------------------------------------------------- strconv.Unquote vs the model's unquote

var uqAtoms = []string{"a", "b", "/", ".", "é", "ü", "\xff", "\xc3", "\xe2\x82", "\xe2\x82\xac", "\xf0\x9f\x98\x80", "\xed\xa0\x80", "\xc0\x80", "\\n", "\\t", "\\\\", "\\\"", "\\'", "\\a", "\\v",
	"\\x41", "\\x4", "\\xg1", "\\xff", "\\101", "\\377", "\\400", "\\18", "\\1", "\\u00e9", "\\u12", "\\ud800", "\\uFFFF", "\\U0001F600", "\\U00110000", "\\UFFFFFFFF", "\\U0001f60",
	"\\q", "\\", "\n", "\r", "\"", "`", "'", " ", "\x00", "\\0", "\\u0041"}

func genLiteral(r *common.RNG) string {
	var b strings.Builder
	q := "\""
	if r.Chance(1, 4) {
		q = "`"
	}
	if !r.Chance(1, 30) {
		b.WriteString(q)
	}
	n := r.Intn(6)
	for i := 0; i < n; i++ {
		b.WriteString(common.Pick(r, uqAtoms))
	}
	if !r.Chance(1, 20) {
		b.WriteString(q)
	}
	if r.Chance(1, 25) {
		b.WriteString(common.Pick(r, uqAtoms))
	}
	return b.String()
}

func implUnquote(l string) string {
	q, err := strconv.Unquote(l)
	if err != nil {
		return "err"
	}
	return "ok " + common.Hex([]byte(q))
}

func runUnquote(rn *runner, n int) {
	r := common.NewRNG(rn.f.Seed ^ 0x0c07e)
	one := func(l string) {
		if l == "" || (l[0] != '"' && l[0] != '`') {
			rn.res.Count("unquote:outside-model(not a string literal)")
			return
		}
		rn.seen++
		rn.res.Count("unquote:" + strings.Fields(implUnquote(l))[0])
		rn.res.Case("uq:"+l, true)
		rn.add(pending{x: []byte(l), fn: "strconv.Unquote", extra: map[string]string{}, mk: func(c []byte) (string, string) {
			if len(c) == 0 || (c[0] != '"' && c[0] != '`') {
				return "uq " + common.Hex([]byte("\"\"")), "ok -"
			}
			return "uq " + common.Hex(c), implUnquote(string(c))
		}})
	}
	for _, a := range uqAtoms {
		one("\"" + a + "\"")
		one("`" + a + "`")
		for _, b := range uqAtoms {
			one("\"" + a + b + "\"")
		}
	}
	for i := 0; i < n; i++ {
		one(genLiteral(r))
	}
}

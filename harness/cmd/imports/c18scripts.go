package main

import (
	"fmt"
	"unicode"
	"unicode/utf8"
)

// Identifiers over many scripts.  importReader works on single BYTES of the UTF-8 input; what it
// decides about a byte >= 0x80 (start of an import name, continuation of an identifier, end of
// the package name) must hold for every byte value that the encoding of a Go letter or digit can
// put there.  scriptLetters gives, for EVERY UTF-8 lead byte that starts the encoding of a
// letter (0xC2..0xF0 with gaps; no letter is encoded with 0xF1..0xF4 -- checked below against
// the unicode tables, so a future table with such letters is picked up), the first and the last
// letter with that lead byte (thorough: also two from the middle); scriptIdents combines them in first and
// in later positions with ASCII letters, '_', digits (ASCII and of other scripts) and with
// letters of OTHER lead bytes.  scriptCases puts each identifier where an identifier can stand
// in the part of a file ReadImports reads -- package name, import name in a single declaration
// and in a group next to dot / blank / unnamed specs, with and without trivia or a separating
// blank -- together with the import literals go/parser must (and does, see caseC18) report.

type scriptLetter struct {
	lead byte
	r    rune
}

func scriptLetters(all bool) []scriptLetter {
	byLead := map[byte][]rune{}
	for r := rune(0x80); r <= unicode.MaxRune; r++ {
		if r >= 0xd800 && r <= 0xdfff {
			continue
		}
		if unicode.IsLetter(r) {
			var b [4]byte
			utf8.EncodeRune(b[:], r)
			byLead[b[0]] = append(byLead[b[0]], r)
		}
	}
	var out []scriptLetter
	for l := 0xc2; l <= 0xf4; l++ {
		rs := byLead[byte(l)]
		if len(rs) == 0 {
			continue
		}
		picks := []rune{rs[0], rs[len(rs)-1]}
		if all {
			picks = []rune{rs[0], rs[len(rs)/2], rs[len(rs)-1], rs[len(rs)/3]}
		}
		for i, p := range picks {
			dup := false
			for _, q := range picks[:i] {
				dup = dup || q == p
			}
			if dup {
				continue
			}
			out = append(out, scriptLetter{byte(l), p})
		}
	}
	return out
}

// digits of several scripts (Nd): allowed in an identifier after the first character
var scriptDigits = []rune{'7', 0x0663, 0x096a, 0x0e53, 0xff19, 0x1d7d8}

func scriptIdents(all bool) []string {
	ls := scriptLetters(all)
	var out []string
	for i, l := range ls {
		e := string(l.r)
		other := string(ls[(i+len(ls)/2)%len(ls)].r)
		out = append(out, e, e+"x", "x"+e, e+other, e+string(scriptDigits[i%len(scriptDigits)]))
		if all {
			out = append(out, "_"+e, other+e, e+e, "x1"+e+"_")
		}
	}
	return out
}

type scriptCase struct {
	src   string
	paths []string
	shape string
}

func scriptCases(all bool) []scriptCase {
	ids := scriptIdents(all)
	var out []scriptCase
	for i, id := range ids {
		id2 := ids[(i*7+3)%len(ids)]
		out = append(out,
			scriptCase{"package p\n\nimport " + id + " \"fmt\"\n\nvar X = " + id + ".Sprint()\n", []string{`"fmt"`}, "single-named"},
			scriptCase{"package " + id + "\n\nimport \"fmt\"\n", []string{`"fmt"`}, "package-name"},
			scriptCase{"package p\n\nimport (\n\t\"os\"\n\t" + id + " \"strings\"\n\t. \"io\"\n\t_ \"x\"\n\t" + id2 + " `y`\n\t\"z\"\n)\n\nvar X = 1\n",
				[]string{`"os"`, `"strings"`, `"io"`, `"x"`, "`y`", `"z"`}, "group-mixed"},
			scriptCase{"package " + id2 + ";import " + id + "\"a\";import .\"b\";import _\"c\";import(" + id + "`d`;" + id2 + "/**/\"e\")\ntype " + id + " int\n",
				[]string{`"a"`, `"b"`, `"c"`, "`d`", `"e"`}, "dense"},
			scriptCase{"package/**/" + id + "//\nimport/**/" + id2 + "/**/\"a\"//\nimport (//\n" + id + "/**/\"b\"//\n)\n", []string{`"a"`, `"b"`}, "trivia"},
		)
	}
	return out
}

// runScripts: every case through caseC18 (model, translated source, go/parser-based oracles, the
// expected literal list validated by go/parser).
func runScripts(rn *runner) {
	leads := map[byte]bool{}
	all := rn.f.Tier == "thorough"
	for _, l := range scriptLetters(all) {
		leads[l.lead] = true
	}
	rn.res.Count(fmt.Sprintf("scripts:lead-bytes=%d", len(leads)))
	for _, c := range scriptCases(all) {
		rn.res.Count("scripts:" + c.shape)
		rn.caseC18([]byte(c.src), "scripts", c.paths)
	}
}

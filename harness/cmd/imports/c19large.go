package main

// Leading comment blocks past every internal size limit a line-oriented reader could have.
//
// Lines of 4 KiB, 64 KiB (bufio.Scanner's default token limit, to the byte on both sides) and
// 1 MiB: as an ordinary comment before, between and behind the plus-build lines, as the
// plus-build line itself (thousands of options, thousands of comma-joined terms, one term of
// 64 KiB / 1 MiB, plain and negated), as the blank line that ends the block, as blanks in front
// of the slashes, as the first line after the block.  Very many lines (10^4..10^5 comment
// lines, blank lines, plus-build lines) before the decisive one.  With LF, CRLF and no final
// newline.  The decisive constraint sits before, on or behind the long element, and every
// block is evaluated under tag sets that satisfy and that do not satisfy it.  These go to the
// direct oracles (the re-stated rule, go/build/constraint, go/build); the extracted model is
// asked up to sbModelMax bytes (its theorems on the translated source have no size bound).

import (
	"fmt"
	"strings"
)

const sbModelMax = 2500

type largeBlock struct {
	name    string
	content string
}

func largeBlocks(tier string) []largeBlock {
	var out []largeBlock
	add := func(name, content string) { out = append(out, largeBlock{name, content}) }
	rep := strings.Repeat
	// quick: the limit itself on both sides everywhere, 1 MiB for every fourth kind
	sizes := []int{1500, 4096, 65536 - 20, 65536, 65536 + 1, 1 << 20}
	if tier == "thorough" {
		sizes = append(sizes, 65536-1, 65536+20, 131072, 200000, 4<<20)
	}
	kind := 0
	realAdd := add
	add = func(name, content string) {
		kind++
		if tier != "thorough" && len(content) > 500000 && kind%4 != 0 {
			return
		}
		realAdd(name, content)
	}
	const tail = "\npackage p\n"
	for _, n := range sizes {
		tag := fmt.Sprintf("%d", n)
		long := "// " + rep("c", n)
		// an ordinary comment line of n bytes before / between / behind the +build lines
		add("long-comment-before/"+tag, long+"\n// +build foo\n"+tail)
		add("long-comment-between/"+tag, "// +build linux darwin\n"+long+"\n// +build foo,!bar\n"+tail)
		add("long-comment-behind/"+tag, "// +build foo\n"+long+"\n"+tail)
		add("long-comment-CRLF/"+tag, long+"\r\n// +build foo\r\n\r\npackage p\r\n")
		// the line of n bytes is itself constraint-like but not a +build line
		add("long-not-plus-build/"+tag, "// +buildx "+rep("foo ", n/4)+"\n// +build foo\n"+tail)
		// a +build line of n bytes: many options, the satisfied one first / last / nowhere
		add("many-options-last/"+tag, "// +build "+rep("nope ", n/5)+"foo\n// +build bar\n"+tail)
		add("many-options-first/"+tag, "// +build foo "+rep("nope ", n/5)+"\n// +build bar\n"+tail)
		add("many-options-none/"+tag, "// +build "+rep("nope ", n/5)+"\n"+tail)
		add("many-options-then-line/"+tag, "// +build foo "+rep("!foo ", n/5)+"\n// +build bar\n"+tail)
		// one option of thousands of comma-joined terms, the false one at the end
		add("many-terms-all-true/"+tag, "// +build "+rep("foo,", n/4)+"foo\n"+tail)
		add("many-terms-last-false/"+tag, "// +build "+rep("foo,", n/4)+"bar\n"+tail)
		add("many-negations/"+tag, "// +build "+rep("!bar,", n/5)+"!foo\n"+tail)
		// one very long term: a tag nobody has (plain: false, negated: true), a malformed one
		add("long-term/"+tag, "// +build "+rep("t", n)+"\n"+tail)
		add("long-term-negated/"+tag, "// +build !"+rep("t", n)+"\n// +build foo\n"+tail)
		add("long-term-malformed/"+tag, "// +build "+rep("t", n)+"-x foo\n"+tail)
		// long blanks: in front of the slashes, as the blank line that ends the block, behind +build
		add("long-indent/"+tag, rep(" ", n)+"// +build foo\n"+tail)
		add("long-blank-line/"+tag, "// +build foo\n"+rep(" \t", n/2)+"\npackage p\n")
		add("long-gap/"+tag, "//"+rep(" ", n)+"+build"+rep("\t", n/8)+"foo\n"+tail)
		// the block is not followed by a blank line: nothing counts, however long
		add("long-no-blank-line/"+tag, long+"\n// +build foo\npackage p\n")
		// the long line is the first one after the block / has no final newline
		add("long-after-block/"+tag, "// +build foo\n\npackage "+rep("p", n)+"\n\n// +build bar\n\n")
		add("long-last-line-no-newline/"+tag, "// +build foo\n\n// "+rep("c", n))
		add("only-long-plus-build-no-newline/"+tag, "// +build "+rep("nope ", n/5)+"foo")
	}
	add = realAdd
	counts := []int{5000, 70000}
	if tier == "thorough" {
		counts = append(counts, 1000, 300000)
	}
	for _, n := range counts {
		tag := fmt.Sprintf("%d", n)
		add("many-comment-lines/"+tag, rep("// c\n", n)+"// +build foo\n"+tail)
		add("many-blank-lines/"+tag, rep("\n", n)+"// +build foo\n"+rep("\n", n)+"package p\n")
		add("many-plus-build-lines-last-decides/"+tag, rep("// +build foo !bar\n", n)+"// +build bar\n"+tail)
		add("many-plus-build-lines-all-true/"+tag, rep("// +build foo\n//\n", n)+tail)
		add("many-lines-then-code-then-plus-build/"+tag, rep("// c\n\n", n)+"package p\n\n// +build bar\n\n")
	}
	return out
}

var largeTagSets = [][]string{{"foo"}, {"bar"}, {"foo", "bar"}, {}, {"linux", "foo"}, {"*"}, {"nope", "android"}}

// largeTagSetsFor: thorough = all seven; quick = {foo}, {bar} and one more, rotating.
func largeTagSetsFor(tier string, i int) [][]string {
	if tier == "thorough" {
		return largeTagSets
	}
	return [][]string{largeTagSets[0], largeTagSets[1], largeTagSets[2+i%5]}
}

func largeRule() string {
	return "large leading blocks on the direct oracles (the model is asked up to " + fmt.Sprint(sbModelMax) + " bytes): lines of 1500 bytes, 4 KiB, 64 KiB-20, 64 KiB, 64 KiB+1 and (every fourth kind in the quick tier) 1 MiB as a comment before / between / behind the +build lines (LF and CRLF), as a near-+build line, as the +build line itself (thousands of options with the satisfied one first / last / absent, thousands of comma-joined terms with the false one last, one term of that length plain / negated / malformed), as indentation, as the blank line ending the block, as the gap inside `// +build`, in a block without its blank line, right behind the block, as an unterminated last line; 5000 and 70000 comment lines / blank lines / +build lines before the deciding line; each under 3 (thorough: 7) tag sets that do and do not satisfy the deciding line"
}

package main

import (
	"bytes"
	"fmt"
	"go/parser"
	"go/token"
	"os"
	"strconv"
	"strings"
	"time"

	"github.com/rogpeppe/go-internal/imports"

	"verif/harness/common"
)

// ---------------------------------------------------------------- implementation

type riOut struct {
	panicked bool
	hung     bool
	e        string // nil | syntax | nul | other
	imps     []string
	out      []byte
}

func errKind(err error) string {
	switch {
	case err == nil:
		return "nil"
	case err.Error() == "syntax error":
		return "syntax"
	case strings.Contains(err.Error(), "NUL"):
		return "nul"
	}
	return "other"
}

// watchdog runs f and gives up after 20 s (the reader is linear; a hang is a violation of "terminates").
func watchdog(f func()) (hung bool) {
	done := make(chan struct{})
	go func() {
		defer close(done)
		f()
	}()
	select {
	case <-done:
		return false
	case <-time.After(20 * time.Second):
		return true
	}
}

func implRI(x []byte, report bool) riOut {
	var o riOut
	o.hung = watchdog(func() {
		defer func() {
			if recover() != nil {
				o.panicked = true
			}
		}()
		var imps []string
		out, err := imports.ReadImports(bytes.NewReader(x), report, &imps)
		o.imps, o.out, o.e = imps, out, errKind(err)
	})
	return o
}

func implRC(x []byte) riOut {
	var o riOut
	o.hung = watchdog(func() {
		defer func() {
			if recover() != nil {
				o.panicked = true
			}
		}()
		out, err := imports.ReadComments(bytes.NewReader(x))
		o.out, o.e = out, errKind(err)
	})
	return o
}

func (o riOut) show() string {
	if o.hung {
		return "HANG"
	}
	if o.panicked {
		return "PANIC"
	}
	parts := []string{"R", o.e, fmt.Sprint(len(o.imps))}
	for _, p := range o.imps {
		parts = append(parts, common.Hex([]byte(p)))
	}
	parts = append(parts, common.Hex(o.out))
	return strings.Join(parts, " ")
}

// ---------------------------------------------------------------- oracles (no model)

var bomBytes = []byte{0xef, 0xbb, 0xbf}

func sansBOM(x []byte) []byte { return bytes.TrimPrefix(x, bomBytes) }

// parserImports: go/parser's view of the file: accepted?, import path literals in order.
func parserImports(x []byte, mode parser.Mode) (ok bool, lits []string) {
	fset := token.NewFileSet()
	f, err := parser.ParseFile(fset, "x.go", x, mode)
	if err != nil || f == nil {
		return false, nil
	}
	for _, s := range f.Imports {
		lits = append(lits, s.Path.Value)
	}
	return true, lits
}

func unquoteAll(lits []string) (string, bool) {
	var out []string
	for _, l := range lits {
		u, err := strconv.Unquote(l)
		if err != nil {
			return "", false
		}
		out = append(out, u)
	}
	return fmt.Sprintf("%q", out), true
}

// oracleFails evaluates one named oracle of C18 on the implementation for input x.
func oracleC18(name string, x []byte) (bad bool, impl, want string) {
	switch name {
	case "no-panic/terminates":
		for _, rep := range []bool{true, false} {
			o := implRI(x, rep)
			if o.panicked || o.hung {
				return true, o.show(), "returns"
			}
		}
		if o := implRC(x); o.panicked || o.hung {
			return true, o.show(), "returns"
		}
	case "output-is-prefix":
		for _, rep := range []bool{true, false} {
			o := implRI(x, rep)
			if !o.panicked && !o.hung && !bytes.HasPrefix(sansBOM(x), o.out) && !bytes.HasPrefix(x, o.out) {
				return true, o.show(), "a prefix of the input"
			}
		}
		if o := implRC(x); !o.panicked && !o.hung && !bytes.HasPrefix(sansBOM(x), o.out) && !bytes.HasPrefix(x, o.out) {
			return true, o.show(), "a prefix of the input"
		}
	case "no-report-whole":
		// a syntax error seen with reportSyntaxError=true must, with false, give the whole input and a
		// nil error (or the NUL error when the rest of the input contains a NUL byte)
		o1 := implRI(x, true)
		if o1.panicked || o1.hung || o1.e != "syntax" {
			return false, "", ""
		}
		o0 := implRI(x, false)
		if o0.panicked || o0.hung {
			return false, "", ""
		}
		if o0.e == "nil" && (bytes.Equal(o0.out, x) || bytes.Equal(o0.out, sansBOM(x))) {
			return false, "", ""
		}
		if o0.e == "nul" && bytes.IndexByte(x, 0) >= 0 {
			return false, "", ""
		}
		return true, o0.show(), "the whole input and a nil error"
	case "agrees-with-go/parser":
		ok, lits := parserImports(x, 0)
		if !ok {
			return false, "", ""
		}
		want, okq := unquoteAll(lits)
		if !okq {
			return false, "", ""
		}
		o := implRI(x, true)
		if o.panicked || o.hung {
			return false, "", "" // reported by no-panic
		}
		got, okg := unquoteAll(o.imps)
		if o.e != "nil" || !okg || got != want {
			return true, fmt.Sprintf("err=%s imports=%q", o.e, o.imps), "err=nil imports=" + want
		}
	case "prefix-reparses":
		ok, lits := parserImports(x, 0)
		if !ok {
			return false, "", ""
		}
		want, okq := unquoteAll(lits)
		o := implRI(x, true)
		if !okq || o.panicked || o.hung || o.e != "nil" {
			return false, "", ""
		}
		if !bytes.HasPrefix(sansBOM(x), o.out) && !bytes.HasPrefix(x, o.out) {
			return false, "", "" // reported by output-is-prefix
		}
		ok2, lits2 := parserImports(o.out, parser.ImportsOnly)
		got, okg := unquoteAll(lits2)
		if !ok2 || !okg || got != want {
			return true, fmt.Sprintf("prefix=%q parses=%v imports=%q", o.out, ok2, lits2), "prefix parses (ImportsOnly) to " + want
		}
	}
	return false, "", ""
}

var oraclesC18 = []string{"no-panic/terminates", "output-is-prefix", "no-report-whole", "agrees-with-go/parser", "prefix-reparses"}

// ---------------------------------------------------------------- grammar-based generator

type gen18 struct{ r *common.RNG }

var spaceAtoms = []string{" ", " ", " ", "\n", "\n", "\t", "\r\n", "  ", "\n\n", "\r"}
var commentAtoms = []string{"// c\n", "//\n", "// import \"no\"\n", "/* c */", "/**/", "/***/", "/*/ x */", "/* a\n b */", "/* \"q\" `r` */", "// é ü\n", "/* import ( */", "//go:build x\n", "// +build x\n"}

func (g *gen18) trivia(min int) string {
	n := min + g.r.Intn(3)
	if g.r.Chance(1, 2) {
		n = min
	}
	var b strings.Builder
	for i := 0; i < n; i++ {
		if g.r.Chance(1, 4) {
			b.WriteString(common.Pick(g.r, commentAtoms))
		} else {
			b.WriteString(common.Pick(g.r, spaceAtoms))
		}
	}
	return b.String()
}

// trivia without semicolons / newlines that would end the package clause early is not needed:
// `package` <trivia> ident accepts newlines; but a ';' between `package` and the name is a syntax
// error for go/parser, so the separators inside clauses avoid ';'.
func (g *gen18) inner(min int) string {
	s := g.trivia(min)
	s = strings.ReplaceAll(s, ";", " ")
	return s
}

// innerNoNL: separators inside an import spec: a newline after the name or after `import` would
// make go/parser insert a semicolon only after an identifier-like token ("import\n" is fine, "x\n"
// is not), so specs keep name and path on one line.
func (g *gen18) innerNoNL(min int) string {
	n := min + g.r.Intn(3)
	if g.r.Chance(1, 2) {
		n = min
	}
	var b strings.Builder
	for i := 0; i < n; i++ {
		b.WriteString(common.Pick(g.r, []string{" ", " ", "\t", "  ", "/* c */", "/**/", "/*/ x */", "/* \"q\" */"}))
	}
	return b.String()
}

var identAtoms = []string{"p", "main", "x", "_x", "a1", "é", "Ünï", "foo_bar", "imports", "i", "importx", "_"}
var pathAtoms = []string{"fmt", "os", "a/b", "x.y/z-w", "github.com/a/b", "a", "golang.org/x/tools/txtar", "é/ü", "a_b", "0"}

func (g *gen18) path() (lit string) {
	p := common.Pick(g.r, pathAtoms)
	switch g.r.Intn(6) {
	case 0:
		return "`" + p + "`"
	case 1: // escapes that denote valid path characters
		var b strings.Builder
		b.WriteByte('"')
		for i := 0; i < len(p); i++ {
			c := p[i]
			if c < 0x80 && g.r.Chance(1, 3) {
				switch g.r.Intn(3) {
				case 0:
					fmt.Fprintf(&b, "\\x%02x", c)
				case 1:
					fmt.Fprintf(&b, "\\%03o", c)
				default:
					fmt.Fprintf(&b, "\\u%04x", c)
				}
			} else {
				b.WriteByte(c)
			}
		}
		b.WriteByte('"')
		return b.String()
	default:
		return `"` + p + `"`
	}
}

func (g *gen18) spec(paths *[]string) string {
	var b strings.Builder
	switch g.r.Intn(6) {
	case 0:
		b.WriteString("." + g.innerNoNL(0))
	case 1:
		b.WriteString("_" + g.innerNoNL(0))
	case 2, 3:
		id := common.Pick(g.r, identAtoms)
		b.WriteString(id + g.innerNoNL(0))
	}
	p := g.path()
	*paths = append(*paths, p)
	b.WriteString(p)
	return b.String()
}

var restAtoms = []string{"", "func f() {}\n", "var x = 1\n", "type T int\n", "const c = \"import\"\n", "func init() { println(\"import (\") }\n",
	"var i = 1\n", "type i interface{}\n"}

// file renders one import section followed by declarations; paths are the expected literals.
func (g *gen18) file() (src []byte, paths []string) {
	var b strings.Builder
	if g.r.Chance(1, 8) {
		b.Write(bomBytes)
	}
	b.WriteString(g.trivia(0))
	b.WriteString("package")
	b.WriteString(g.inner(1))
	pkg := common.Pick(g.r, identAtoms)
	if pkg == "_" {
		pkg = "p"
	}
	b.WriteString(pkg)
	nd := g.r.Intn(4)
	term := func() string { // what ends a clause: newline or ';' (go/parser needs one of them)
		return common.Pick(g.r, []string{"\n", "\n", ";", " ;", "\n\n", " // c\n", "\r\n"})
	}
	rest := common.Pick(g.r, restAtoms)
	if nd > 0 || rest != "" || g.r.Chance(1, 2) {
		b.WriteString(term())
	}
	for i := 0; i < nd; i++ {
		b.WriteString(g.trivia(0))
		b.WriteString("import")
		if g.r.Chance(1, 2) {
			sep := g.innerNoNL(0)
			b.WriteString(sep)
			b.WriteString("(")
			ns := g.r.Intn(4)
			b.WriteString(g.trivia(0))
			for j := 0; j < ns; j++ {
				b.WriteString(g.spec(&paths))
				if j < ns-1 || g.r.Chance(3, 4) {
					b.WriteString(term())
				}
				b.WriteString(g.trivia(0))
			}
			b.WriteString(")")
		} else {
			// a named or plain single import; an identifier name needs a separator after `import`
			s := g.spec(&paths)
			sep := g.innerNoNL(0)
			if sep == "" && (s[0] != '"' && s[0] != '`' && s[0] != '.') {
				sep = " "
			}
			b.WriteString(sep + s)
		}
		b.WriteString(term())
	}
	b.WriteString(g.trivia(0))
	b.WriteString(rest)
	return []byte(b.String()), paths
}

const mutAlphabet = "\"`/*\n;()._ i\\\x00"

func mutate(r *common.RNG, x []byte) []byte {
	y := append([]byte{}, x...)
	n := 1 + r.Intn(3)
	for i := 0; i < n && len(y) > 0; i++ {
		p := r.Intn(len(y))
		switch r.Intn(6) {
		case 0:
			y = append(y[:p], y[p+1:]...)
		case 1:
			y[p] = mutAlphabet[r.Intn(len(mutAlphabet))]
		case 2:
			y = append(y[:p], append([]byte{mutAlphabet[r.Intn(len(mutAlphabet))]}, y[p:]...)...)
		case 3:
			y = y[:p]
		case 4:
			y[p] = byte(r.Intn(256))
		default:
			q := r.Intn(len(y))
			y[p], y[q] = y[q], y[p]
		}
	}
	return y
}

var rawAtoms = []string{"package", " ", "p", "\n", "import", "(", ")", "\"a\"", "`b`", "\"", "`", "/", "*", "//", "/*", "*/", ";", ".", "_", "x",
	"\\", "\x00", "\xef\xbb\xbf", "\xef\xbb", "i", "im", "\"\\\"\"", "\"a\nb\"", "é", "\xff", "func", "var"}

func genRaw(r *common.RNG) []byte {
	var b []byte
	n := r.Intn(14)
	for i := 0; i < n; i++ {
		if r.Chance(1, 10) {
			b = append(b, byte(r.Intn(256)))
		} else {
			b = append(b, common.Pick(r, rawAtoms)...)
		}
	}
	return b
}

// ---------------------------------------------------------------- cases

func (rn *runner) caseC18(x []byte, src string, expect []string) {
	rn.seen++
	res := rn.res
	res.Count("src:" + src)
	x = append([]byte{}, x...)
	o1 := implRI(x, true)
	res.Count("impl:err=" + o1.e)
	res.Count(fmt.Sprintf("impl:imports=%d", min(len(o1.imps), 4)))
	if bytes.HasPrefix(x, bomBytes) {
		res.Count("has-BOM")
	}
	okp, lits := parserImports(x, 0)
	if okp {
		res.Count("go/parser:accepts")
	}
	res.Case(string(x), okp || len(o1.imps) > 0 || o1.e != "nil")
	if expect != nil {
		// the generator's grammar itself is validated by go/parser
		if !okp || fmt.Sprint(lits) != fmt.Sprint(expect) {
			res.Count("generator-rejected-by-go/parser")
			if rn.shrunk["genrej"]++; rn.shrunk["genrej"] <= 3 {
				res.Notes = append(res.Notes, fmt.Sprintf("generated file not accepted by go/parser with the expected imports (generator issue, case skipped for the grammar oracle): %q", x))
			}
		} else {
			res.Count("generator-validated-by-go/parser")
		}
	}
	for _, name := range oraclesC18 {
		if bad, impl, want := oracleC18(name, x); bad {
			y := x
			if rn.shrunk["o:ReadImports/"+name] < 6 && len(x) > 40 {
				y = common.ShrinkBytes(x, func(c []byte) bool { b, _, _ := oracleC18(name, c); return b })
				_, impl, want = oracleC18(name, y)
			}
			rn.violate("ReadImports/"+name, y, map[string]string{"fn": "ReadImports"}, impl, want,
				"property C18 evaluated directly on the implementation", nil)
			if o1.hung {
				rn.flush()
				rn.res.Write(rn.f.Out)
				os.Exit(0)
			}
		}
	}
	if rn.seen%2503 == 1 {
		res.Sample(map[string]any{"input": string(x), "impl": clip(o1.show()), "source": src, "go/parser accepts": okp})
	}
	hx := common.Hex(x)
	_ = hx
	rn.add(pending{x: x, fn: "ReadImports(report=true)", extra: map[string]string{"report": "1"}, mk: func(c []byte) (string, string) {
		return "ri 1 " + common.Hex(c), implRI(c, true).show()
	}})
	rn.add(pending{x: x, fn: "ReadImports(report=false)", extra: map[string]string{"report": "0"}, mk: func(c []byte) (string, string) {
		return "ri 0 " + common.Hex(c), implRI(c, false).show()
	}})
	rn.add(pending{x: x, fn: "ReadComments", extra: map[string]string{}, mk: func(c []byte) (string, string) {
		return "rc " + common.Hex(c), implRC(c).show()
	}})
}

var handC18 = []string{
	"\xef\xbb\xbfpackage p;import \"fmt\"\n", "", "package p", "package p\n", "package p\nfunc main() {}\n\nimport \"late\"\n", "\xef\xbb\xbf", "\xef\xbb", "\xef\xbb\xbf\xef\xbb\xbfpackage p",
	"package p;import \"fmt\"\nfunc f(){}", "package p\nimport (\n\t\"a\"\n\tb \"c\"\n\t. \"d\"\n\t_ `e`\n)\nvar x int\n",
	"package p\nimport \"a\"\nimport \"b\"", "package p\nimport(\"a\";\"b\")", "package p\nimport \"a", "package p\nimport `a", "package p\nimport \"a\nb\"",
	"package p\nimport \"a\\\"b\"\n", "package p\nimport (", "package p\nimport ()", "package p\nimport x", "package", "packagep", "package p\nimportx \"a\"",
	"/* c", "/* c */ package p", "// c", "/", "/x", "package p\x00", "package p\nimport \"a\x00\"", "package p\nimport \"a\"\x00", "package p/**/import\"a\"",
	"package p\nimport.\"a\"", "package p\nimport _\"a\"", "package p;;import \"a\"", "package p\nimport \"a\" import \"b\"", "package é\nimport \"x\"\ntype T int",
	"package p\ninterface", "package p\nimport (\"a\"\n", "package p\nimport \"a\";func", "package p\nimport \"\\", "package p // c\nimport \"a\" // d\n// e\nfunc f()",
}

func runC18(rn *runner) {
	f, res := rn.f, rn.res
	if f.Replay != "" {
		rp, err := common.LoadReplay(f.Replay)
		if err == nil {
			rn.caseC18(common.UnHex(rp.Violation.Input["x"]), "replay", nil)
		} else {
			res.Notes = append(res.Notes, "cannot load replay: "+err.Error())
		}
		return
	}
	for _, p := range corpusFiles(f.Corpus) {
		if rp, err := common.LoadReplay(p); err == nil {
			rn.caseC18(common.UnHex(rp.Violation.Input["x"]), "corpus", nil)
		}
	}
	for _, h := range handC18 {
		rn.caseC18([]byte(h), "hand", nil)
		rn.caseC18(append(append([]byte{}, bomBytes...), h...), "hand+BOM", nil)
	}
	r := common.NewRNG(f.Seed)
	g := &gen18{r: r.Fork()}
	nGen, nMut, nRaw := 20000, 6000, 6000
	if f.Tier == "thorough" {
		nGen, nMut, nRaw = 300000, 150000, 150000
	}
	var keep [][]byte
	for i := 0; i < nGen; i++ {
		src, paths := g.file()
		if paths == nil {
			paths = []string{}
		}
		rn.caseC18(src, "grammar", paths)
		if i%4 == 0 {
			keep = append(keep, src)
		}
	}
	for i := 0; i < nMut; i++ {
		rn.caseC18(mutate(r, common.Pick(r, keep)), "mutated", nil)
	}
	for i := 0; i < nRaw; i++ {
		rn.caseC18(genRaw(r), "random", nil)
	}
	res.Exhaustive = false
	res.Rule = fmt.Sprintf("corpus; %d hand-written inputs, each also with a BOM in front; %d grammar-based Go files (optional BOM, trivia = blanks/newlines/semicolons/line and block comments, package clause, 0-3 import declarations single or grouped, specs plain/named/./_, raw, interpreted and escaped path literals, followed by declarations), every one validated by go/parser (accepted, same import literals); %d byte-level mutations of such files; %d random token/byte soups (NUL, partial BOM, unterminated strings and comments). Non-trivial: go/parser accepts, or the reader reports imports or an error. Oracles: no panic / termination under a 20 s watchdog; output is a prefix of the input (BOM aside); syntax error with report=true => whole input and nil error with report=false (NUL error allowed when the input contains NUL); whenever go/parser accepts the input, same unquoted import paths in order with a nil error, and the returned prefix parses (ImportsOnly) to the same imports.",
		len(handC18), nGen, nMut, nRaw)
}

package main

import (
	"bytes"
	"fmt"
	"go/parser"
	"go/scanner"
	"go/token"
	"os"
	"strconv"
	"strings"
	"sync"
	"time"
	"unicode"

	"github.com/rogpeppe/go-internal/imports"

	"verif/harness/common"
)

// ---------------------------------------------------------------- implementation

type riOut struct {
	panicked bool
	hung     bool
	e        string // nil | syntax | nul | other
	imps     []string
	out      []byte
}

func errKind(err error) string {
	switch {
	case err == nil:
		return "nil"
	case err.Error() == "syntax error":
		return "syntax"
	case strings.Contains(err.Error(), "NUL"):
		return "nul"
	}
	return "other"
}

// watchdog runs f and gives up after 20 s (the reader is linear; a hang is a violation of "terminates").
func watchdog(f func()) (hung bool) {
	done := make(chan struct{})
	go func() {
		defer close(done)
		f()
	}()
	select {
	case <-done:
		return false
	case <-time.After(20 * time.Second):
		return true
	}
}

func implRI(x []byte, report bool) riOut {
	var o riOut
	o.hung = watchdog(func() {
		defer func() {
			if recover() != nil {
				o.panicked = true
			}
		}()
		var imps []string
		out, err := imports.ReadImports(bytes.NewReader(x), report, &imps)
		o.imps, o.out, o.e = imps, out, errKind(err)
	})
	if !o.hung && !o.panicked {
		rememberAndVerify(x, o)
	}
	return o
}

// ---- results must stay what they were when returned: the last K results (the very slices
// ReadImports returned) are kept with a copy taken at return time and re-verified after every
// later call, from whatever goroutine.

type keptResult struct {
	x, out, outCopy []byte
	imps, impsCopy  []string
}
type stabilityFailure struct {
	earlier, later []byte
	detail         string
}

var (
	keptMu       sync.Mutex
	keptRing     []keptResult
	stabilityBad []stabilityFailure
)

const keptK = 8

func rememberAndVerify(x []byte, o riOut) {
	keptMu.Lock()
	defer keptMu.Unlock()
	for _, k := range keptRing {
		why := ""
		switch {
		case !bytes.Equal(k.out, k.outCopy):
			why = fmt.Sprintf("bytes returned earlier changed from %q to %q", clipN(string(k.outCopy), 80), clipN(string(k.out), 80))
		case fmt.Sprint(k.imps) != fmt.Sprint(k.impsCopy):
			why = fmt.Sprintf("imports returned earlier changed from %q to %q", k.impsCopy, k.imps)
		case !bytes.HasPrefix(sansBOM(k.x), k.out) && !bytes.HasPrefix(k.x, k.out):
			why = "bytes returned earlier are no longer a prefix of their input"
		}
		if why != "" && len(stabilityBad) < 4 {
			stabilityBad = append(stabilityBad, stabilityFailure{append([]byte{}, k.x...), append([]byte{}, x...), why})
		}
	}
	if len(stabilityBad) > 0 {
		keptRing = nil // report once, start afresh
	}
	keptRing = append(keptRing, keptResult{x: append([]byte{}, x...), out: o.out, outCopy: append([]byte{}, o.out...),
		imps: o.imps, impsCopy: append([]string{}, o.imps...)})
	if len(keptRing) > keptK {
		keptRing = keptRing[1:]
	}
}

// concurrentBurst calls ReadImports on several inputs from several goroutines at once.
func concurrentBurst(xs [][]byte) {
	var wg sync.WaitGroup
	for i, x := range xs {
		wg.Add(1)
		go func(i int, x []byte) {
			defer wg.Done()
			implRI(x, i%2 == 0)
		}(i, x)
	}
	wg.Wait()
}

func implRC(x []byte) riOut {
	var o riOut
	o.hung = watchdog(func() {
		defer func() {
			if recover() != nil {
				o.panicked = true
			}
		}()
		out, err := imports.ReadComments(bytes.NewReader(x))
		o.out, o.e = out, errKind(err)
	})
	return o
}

func (o riOut) show() string {
	if o.hung {
		return "HANG"
	}
	if o.panicked {
		return "PANIC"
	}
	parts := []string{"R", o.e, fmt.Sprint(len(o.imps))}
	for _, p := range o.imps {
		parts = append(parts, common.Hex([]byte(p)))
	}
	parts = append(parts, common.Hex(o.out))
	return strings.Join(parts, " ")
}

// ---------------------------------------------------------------- oracles (no model)

var bomBytes = []byte{0xef, 0xbb, 0xbf}

func sansBOM(x []byte) []byte { return bytes.TrimPrefix(x, bomBytes) }

// parserImports: go/parser's view of the file: accepted?, import path literals in order.
func parserImports(x []byte, mode parser.Mode) (ok bool, lits []string) {
	fset := token.NewFileSet()
	f, err := parser.ParseFile(fset, "x.go", x, mode)
	if err != nil || f == nil {
		return false, nil
	}
	for _, s := range f.Imports {
		lits = append(lits, s.Path.Value)
	}
	return true, lits
}

func unquoteAll(lits []string) (string, bool) {
	var out []string
	for _, l := range lits {
		u, err := strconv.Unquote(l)
		if err != nil {
			return "", false
		}
		out = append(out, u)
	}
	return fmt.Sprintf("%q", out), true
}

// oracleFails evaluates one named oracle of C18 on the implementation for input x.
// riMemo: the oracles of one case look at the same two calls (the runner's main loop is
// single-threaded; the first oracle of every case makes fresh calls, which also feed the
// result-stability check).
var memoRI struct {
	x   []byte
	o   [2]riOut
	set [2]bool
}

func riMemo(x []byte, report bool) riOut {
	i := 0
	if report {
		i = 1
	}
	if !bytes.Equal(memoRI.x, x) || memoRI.x == nil {
		memoRI.x, memoRI.set = append([]byte{}, x...), [2]bool{}
	}
	if !memoRI.set[i] {
		memoRI.o[i], memoRI.set[i] = implRI(x, report), true
	}
	return memoRI.o[i]
}

func oracleC18(name string, x []byte) (bad bool, impl, want string) {
	switch name {
	case "no-panic/terminates":
		for _, rep := range []bool{true, false} {
			o := implRI(x, rep)
			if o.panicked || o.hung {
				return true, o.show(), "returns"
			}
		}
		if o := implRC(x); o.panicked || o.hung {
			return true, o.show(), "returns"
		}
	case "output-is-prefix":
		for _, rep := range []bool{true, false} {
			o := riMemo(x, rep)
			if !o.panicked && !o.hung && !bytes.HasPrefix(sansBOM(x), o.out) && !bytes.HasPrefix(x, o.out) {
				return true, o.show(), "a prefix of the input"
			}
		}
		if o := implRC(x); !o.panicked && !o.hung && !bytes.HasPrefix(sansBOM(x), o.out) && !bytes.HasPrefix(x, o.out) {
			return true, o.show(), "a prefix of the input"
		}
	case "no-report-whole":
		// whatever ReadImports reports with reportSyntaxError=true -- the plain syntax error or any
		// other error value it may choose for one -- must, with false, give the whole input and a nil
		// error (or the NUL error when the input contains a NUL byte).  A NUL met while the imports
		// are being read is the NUL error in both modes.
		o1 := riMemo(x, true)
		if o1.panicked || o1.hung || o1.e == "nil" || o1.e == "nul" {
			return false, "", ""
		}
		o0 := riMemo(x, false)
		if o0.panicked || o0.hung {
			return false, "", ""
		}
		if o0.e == "nil" && (bytes.Equal(o0.out, x) || bytes.Equal(o0.out, sansBOM(x))) {
			return false, "", ""
		}
		if o0.e == "nul" && bytes.IndexByte(x, 0) >= 0 {
			return false, "", ""
		}
		return true, o0.show(), "the whole input and a nil error"
	case "no-report-no-error":
		// "when syntax errors are not requested": over an in-memory reader the only error left is the
		// NUL error, and only for an input that contains a NUL byte (independent of what the other
		// mode says)
		o0 := riMemo(x, false)
		if o0.panicked || o0.hung || o0.e == "nil" || (o0.e == "nul" && bytes.IndexByte(x, 0) >= 0) {
			return false, "", ""
		}
		return true, o0.show(), "a nil error (reportSyntaxError=false, no NUL in the input)"
	case "flag-irrelevant-without-error":
		// the flag decides what happens to an error and nothing else: a file read without error gives
		// the same imports and the same bytes in both modes
		o1 := riMemo(x, true)
		if o1.panicked || o1.hung || o1.e != "nil" {
			return false, "", ""
		}
		o0 := riMemo(x, false)
		if o0.panicked || o0.hung {
			return false, "", ""
		}
		if o0.show() != o1.show() {
			return true, o0.show(), o1.show()
		}
	case "same-errors-for-the-later-parse":
		// "... returns the whole input so that a later full parse reports the same errors": whenever
		// the reader finds fault with the input in either mode, what it returns with
		// reportSyntaxError=false must make go/parser (the consumer parses the returned bytes, as
		// go/build does) say exactly what it says about the input itself
		// (one leading byte-order mark aside: the reader drops it, the parser skips it; a second one
		// is an error to the parser only while the first is still in front of it -- not compared)
		if bytes.IndexByte(x, 0) >= 0 || bytes.HasPrefix(sansBOM(x), bomBytes) {
			return false, "", ""
		}
		o1, o0 := riMemo(x, true), riMemo(x, false)
		if o1.panicked || o1.hung || o0.panicked || o0.hung || (o1.e == "nil" && o0.e == "nil") {
			return false, "", ""
		}
		want := parserErrors(sansBOM(x))
		if o0.e != "nil" {
			return true, "error " + o0.e + " instead of bytes to parse; " + o0.show(), "go/parser on the input: " + clipN(want, 400)
		}
		if got := parserErrors(sansBOM(o0.out)); got != want {
			return true, "go/parser on the returned bytes: " + clipN(got, 400), "go/parser on the input: " + clipN(want, 400)
		}
	case "agrees-with-go/parser":
		ok, lits := parserImports(x, 0)
		if !ok {
			return false, "", ""
		}
		want, okq := unquoteAll(lits)
		if !okq {
			return false, "", ""
		}
		o := riMemo(x, true)
		if o.panicked || o.hung {
			return false, "", "" // reported by no-panic
		}
		got, okg := unquoteAll(o.imps)
		if o.e != "nil" || !okg || got != want {
			return true, fmt.Sprintf("err=%s imports=%q", o.e, o.imps), "err=nil imports=" + want
		}
	case "prefix-reparses":
		ok, lits := parserImports(x, 0)
		if !ok {
			return false, "", ""
		}
		want, okq := unquoteAll(lits)
		o := riMemo(x, true)
		if !okq || o.panicked || o.hung || o.e != "nil" {
			return false, "", ""
		}
		if !bytes.HasPrefix(sansBOM(x), o.out) && !bytes.HasPrefix(x, o.out) {
			return false, "", "" // reported by output-is-prefix
		}
		ok2, lits2 := parserImports(o.out, parser.ImportsOnly)
		got, okg := unquoteAll(lits2)
		if !ok2 || !okg || got != want {
			return true, fmt.Sprintf("prefix=%q parses=%v imports=%q", o.out, ok2, lits2), "prefix parses (ImportsOnly) to " + want
		}
	}
	return false, "", ""
}

var oraclesC18 = []string{"no-panic/terminates", "output-is-prefix", "no-report-whole", "no-report-no-error", "flag-irrelevant-without-error",
	"same-errors-for-the-later-parse", "agrees-with-go/parser", "prefix-reparses"}

// parserErrors: what go/parser (imports only, its usual limit of ten errors) says about src.
func parserErrors(src []byte) string {
	fset := token.NewFileSet()
	_, err := parser.ParseFile(fset, "x.go", src, parser.ImportsOnly)
	if err == nil {
		return "no errors"
	}
	if el, ok := err.(scanner.ErrorList); ok {
		var parts []string
		for _, e := range el {
			parts = append(parts, fmt.Sprintf("%d:%d: %s", e.Pos.Line, e.Pos.Column, e.Msg))
		}
		return strings.Join(parts, "; ")
	}
	return err.Error()
}

// ---------------------------------------------------------------- grammar-based generator

type gen18 struct{ r *common.RNG }

var identAtoms = append(append([]string{"p", "main", "x", "_x", "a1", "é", "Ünï", "foo_bar", "imports", "i", "importx", "_"}, unicodeIdents()...), leadFirstIdents()...)

// leadFirstIdents: for every UTF-8 lead byte that starts a letter, an identifier that STARTS with
// such a letter (unicodeIdents wraps a third of its letters in ASCII)
func leadFirstIdents() []string {
	var out []string
	seen := map[byte]bool{}
	for _, l := range scriptLetters(false) {
		if !seen[l.lead] {
			seen[l.lead] = true
			out = append(out, string(l.r))
		}
	}
	return out
}

// unicodeIdents: identifiers made of letters chosen so that, together, their UTF-8 encodings use
// every continuation byte value 0x80..0xBF in every position and every lead byte that starts a
// letter (C2..F0; no letters are encoded with F1..F4).  isIdent must accept all of these bytes.
func unicodeIdents() []string {
	type key struct{ pos, val int }
	need := map[key]bool{}
	for v := 0x80; v <= 0xbf; v++ {
		for pos := 1; pos <= 3; pos++ {
			need[key{pos, v}] = true
		}
	}
	for l := 0xc2; l <= 0xf0; l++ {
		need[key{0, l}] = true
	}
	var out []string
	for r := rune(0x80); r <= 0x3ffff && len(need) > 0; r++ {
		if !unicode.IsLetter(r) {
			continue
		}
		e := string(r)
		useful := false
		for i := 0; i < len(e); i++ {
			k := key{i, int(e[i])}
			if i > 0 && len(e)-i > 3 {
				continue
			}
			if need[k] {
				useful = true
				delete(need, k)
			}
		}
		if useful {
			switch len(out) % 3 {
			case 0:
				out = append(out, e)
			case 1:
				out = append(out, "x"+e+"1")
			default:
				out = append(out, e+e)
			}
		}
	}
	return out
}

var pathAtoms = []string{"fmt", "os", "a/b", "x.y/z-w", "github.com/a/b", "a", "golang.org/x/tools/txtar", "é/ü", "a_b", "0"}

var restAtoms = []string{"", "func f() {}\n", "var x = 1\n", "type T int\n", "const c = \"import\"\n", "func init() { println(\"import (\") }\n",
	"var i = 1\n", "type i interface{}\n"}

const mutAlphabet = "\"`/*\n;()._ i\\\x00"

func mutate(r *common.RNG, x []byte) []byte {
	y := append([]byte{}, x...)
	n := 1 + r.Intn(3)
	for i := 0; i < n && len(y) > 0; i++ {
		p := r.Intn(len(y))
		switch r.Intn(6) {
		case 0:
			y = append(y[:p], y[p+1:]...)
		case 1:
			y[p] = mutAlphabet[r.Intn(len(mutAlphabet))]
		case 2:
			y = append(y[:p], append([]byte{mutAlphabet[r.Intn(len(mutAlphabet))]}, y[p:]...)...)
		case 3:
			y = y[:p]
		case 4:
			y[p] = byte(r.Intn(256))
		default:
			q := r.Intn(len(y))
			y[p], y[q] = y[q], y[p]
		}
	}
	return y
}

var rawAtoms = []string{"package", " ", "p", "\n", "import", "(", ")", "\"a\"", "`b`", "\"", "`", "/", "*", "//", "/*", "*/", ";", ".", "_", "x",
	"\\", "\x00", "\xef\xbb\xbf", "\xef\xbb", "i", "im", "\"\\\"\"", "\"a\nb\"", "é", "\xff", "func", "var"}

func genRaw(r *common.RNG) []byte {
	var b []byte
	n := r.Intn(14)
	for i := 0; i < n; i++ {
		if r.Chance(1, 10) {
			b = append(b, byte(r.Intn(256)))
		} else {
			b = append(b, common.Pick(r, rawAtoms)...)
		}
	}
	return b
}

// ---------------------------------------------------------------- cases

const modelMaxLen = 3000

var recentC18 [][]byte

func (rn *runner) caseC18(x []byte, src string, expect []string) {
	rn.seen++
	res := rn.res
	res.Count("src:" + src)
	x = append([]byte{}, x...)
	o1 := implRI(x, true)
	res.Count("impl:err=" + o1.e)
	res.Count(fmt.Sprintf("impl:imports=%d", min(len(o1.imps), 4)))
	if bytes.HasPrefix(x, bomBytes) {
		res.Count("has-BOM")
	}
	okp, lits := parserImports(x, 0)
	if okp {
		res.Count("go/parser:accepts")
	}
	res.Case(string(x), okp || len(o1.imps) > 0 || o1.e != "nil")
	if expect != nil {
		// the generator's grammar itself is validated by go/parser
		if !okp || fmt.Sprint(lits) != fmt.Sprint(expect) {
			res.Count("generator-rejected-by-go/parser")
			if rn.shrunk["genrej"]++; rn.shrunk["genrej"] <= 3 {
				res.Notes = append(res.Notes, fmt.Sprintf("generated file not accepted by go/parser with the expected imports (generator issue, case skipped for the grammar oracle): %s", clip(fmt.Sprintf("%q", x))))
			}
		} else {
			res.Count("generator-validated-by-go/parser")
		}
	}
	for _, name := range oraclesC18 {
		if bad, impl, want := oracleC18(name, x); bad {
			y := x
			if rn.shrunk["o:ReadImports/"+name] < 6 && len(x) > 40 {
				// large inputs: a bounded number of oracle evaluations (chunk removal first, so the
				// budget goes where it shrinks most)
				budget := 1 << 30
				if len(x) > 5000 {
					budget = 400
				}
				y = common.ShrinkBytes(x, func(c []byte) bool {
					if budget--; budget < 0 {
						return false
					}
					b, _, _ := oracleC18(name, c)
					return b
				})
				_, impl, want = oracleC18(name, y)
			}
			rn.violate("ReadImports/"+name, y, map[string]string{"fn": "ReadImports"}, impl, want,
				"property C18 evaluated directly on the implementation", nil)
			if o1.hung {
				rn.flush()
				rn.res.Write(rn.f.Out)
				os.Exit(0)
			}
		}
	}
	recentC18 = append(recentC18, x)
	if len(recentC18) > 6 {
		recentC18 = recentC18[1:]
	}
	if rn.seen%64 == 0 {
		concurrentBurst(recentC18)
		res.Count("multi-call:concurrent-bursts")
	}
	keptMu.Lock()
	bad := stabilityBad
	stabilityBad = nil
	keptMu.Unlock()
	for _, b := range bad {
		res.Count("oracle-fails:ReadImports/result-stable-across-calls")
		rn.violate("ReadImports/result-stable-across-calls", b.earlier,
			map[string]string{"fn": "ReadImports-two-calls", "x2": common.Hex(b.later), "x2_text": clipN(fmt.Sprintf("%q", b.later), 300)},
			b.detail, "a result stays byte-identical after later calls", "the result of ReadImports(x) was changed by a later ReadImports(x2)", nil)
	}
	if rn.seen%2503 == 1 {
		res.Sample(map[string]any{"input": clip(string(x)), "impl": clip(o1.show()), "source": src, "go/parser accepts": okp})
	}
	if len(x) > modelMaxLen {
		// the extracted model keeps bytes as Coq lists (quadratic rev): large inputs go to the
		// direct oracles only
		res.Count("model-skipped(large input)")
		return
	}
	rn.add(pending{x: x, fn: "ReadImports(report=true)", extra: map[string]string{"report": "1"}, mk: func(c []byte) (string, string) {
		return "ri 1 " + common.Hex(c), implRI(c, true).show()
	}})
	rn.add(pending{x: x, fn: "ReadImports(report=false)", extra: map[string]string{"report": "0"}, mk: func(c []byte) (string, string) {
		return "ri 0 " + common.Hex(c), implRI(c, false).show()
	}})
	rn.add(pending{x: x, fn: "ReadComments", extra: map[string]string{}, mk: func(c []byte) (string, string) {
		return "rc " + common.Hex(c), implRC(c).show()
	}})
}

var handC18 = []string{
	"\xef\xbb\xbfpackage p;import \"fmt\"\n", "", "package p", "package p\n", "package p\nfunc main() {}\n\nimport \"late\"\n", "\xef\xbb\xbf", "\xef\xbb", "\xef\xbb\xbf\xef\xbb\xbfpackage p",
	"package p;import \"fmt\"\nfunc f(){}", "package p\nimport (\n\t\"a\"\n\tb \"c\"\n\t. \"d\"\n\t_ `e`\n)\nvar x int\n",
	"package p\nimport \"a\"\nimport \"b\"", "package p\nimport(\"a\";\"b\")", "package p\nimport \"a", "package p\nimport `a", "package p\nimport \"a\nb\"",
	"package p\nimport \"a\\\"b\"\n", "package p\nimport (", "package p\nimport ()", "package p\nimport x", "package", "packagep", "package p\nimportx \"a\"",
	"/* c", "/* c */ package p", "// c", "/", "/x", "package p\x00", "package p\nimport \"a\x00\"", "package p\nimport \"a\"\x00", "package p/**/import\"a\"",
	"package p\nimport.\"a\"", "package p\nimport _\"a\"", "package p;;import \"a\"", "package p\nimport \"a\" import \"b\"", "package é\nimport \"x\"\ntype T int",
	"package p\ninterface", "package p\nimport (\"a\"\n", "package p\nimport \"a\";func", "package p\nimport \"\\", "package p // c\nimport \"a\" // d\n// e\nfunc f()",
}

func runC18(rn *runner) {
	f, res := rn.f, rn.res
	if f.Replay != "" {
		rp, err := common.LoadReplay(f.Replay)
		if err == nil && strings.HasPrefix(rp.Violation.Input["fn"], "Scan") {
			rn.replayScan(rp.Violation.Input)
		} else if err == nil && rp.Violation.Input["fn"] == "strconv.Unquote" {
			x := common.UnHex(rp.Violation.Input["x"])
			rn.add(pending{x: x, fn: "strconv.Unquote", extra: map[string]string{}, mk: func(c []byte) (string, string) {
				return "uq " + common.Hex(c), implUnquote(string(c))
			}})
		} else if err == nil {
			rn.caseC18(common.UnHex(rp.Violation.Input["x"]), "replay", nil)
			if x2, ok := rp.Violation.Input["x2"]; ok {
				rn.caseC18(common.UnHex(x2), "replay", nil)
				rn.caseC18(common.UnHex(rp.Violation.Input["x"]), "replay", nil)
			}
		} else {
			res.Notes = append(res.Notes, "cannot load replay: "+err.Error())
		}
		return
	}
	for _, p := range corpusFiles(f.Corpus) {
		if rp, err := common.LoadReplay(p); err == nil {
			if strings.HasPrefix(rp.Violation.Input["fn"], "Scan") {
				rn.replayScan(rp.Violation.Input)
			} else {
				rn.caseC18(common.UnHex(rp.Violation.Input["x"]), "corpus", nil)
			}
		}
	}
	for _, h := range handC18 {
		rn.caseC18([]byte(h), "hand", nil)
		rn.caseC18(append(append([]byte{}, bomBytes...), h...), "hand+BOM", nil)
	}
	// identifiers over many scripts (a letter for every UTF-8 lead byte, first and later positions)
	// as package name and import name, see c18scripts.go
	runScripts(rn)
	// every kind of syntax error at every reader position (quick: every other combination, the
	// phase chosen by the seed; thorough: all)
	stride := 2
	if f.Tier == "thorough" {
		stride = 1
	}
	phase := int(f.Seed % 2)
	k := 0
	breakCases(1, func(name string, x []byte) {
		if k++; stride > 1 && (k/3)%stride != phase {
			return
		}
		res.Count("break:" + name)
		rn.caseC18(x, "syntax-error-stream", nil)
	})
	r := common.NewRNG(f.Seed)
	g := &gen18{r: r.Fork()}
	nGen, nMut, nRaw := 20000, 6000, 6000
	if f.Tier == "thorough" {
		nGen, nMut, nRaw = 300000, 150000, 150000
	}
	var keep [][]byte
	var greqs, gwant []string
	var gsrc [][]byte
	for i := 0; i < nGen; i++ {
		sec, rest := g.section()
		src := []byte(sec.render() + rest)
		paths := sec.paths()
		if paths == nil {
			paths = []string{}
		}
		rn.caseC18(src, "grammar", paths)
		// the same section in the terms of the Coq grammar G: the model must find it well-formed,
		// render it to the same bytes and list the same paths
		greqs = append(greqs, sec.serialise(rest))
		w := []string{"G", "true", common.Hex([]byte(sec.render())), fmt.Sprint(len(paths))}
		for _, p := range paths {
			w = append(w, common.Hex([]byte(p)))
		}
		gwant = append(gwant, strings.Join(append(w, common.Hex([]byte(sec.renderBody()))), " "))
		gsrc = append(gsrc, src)
		if i%4 == 0 {
			keep = append(keep, src)
		}
		if len(greqs) >= 2000 || i == nGen-1 {
			rn.flush()
			ans, err := rn.m.Ask(greqs)
			if err != nil {
				res.Notes = append(res.Notes, "model error on grammar requests: "+err.Error())
			}
			for j := range ans {
				res.Count("grammar:section-checked-by-the-Coq-grammar")
				if ans[j] != gwant[j] {
					res.Count("mismatch:grammar")
					res.Violate(common.Violation{Kind: "correspondence", Oracle: "grammar G (wf_section / render / paths)",
						Input: map[string]string{"x": common.Hex(gsrc[j]), "x_text": fmt.Sprintf("%q", gsrc[j]), "request": clip(greqs[j])},
						Model: clip(ans[j]), Impl: clip(gwant[j]), Key: "grammar:" + common.Hex(gsrc[j]),
						Detail: "the generated import section is not a well-formed member of the Coq grammar G with the same rendering and paths"})
				}
			}
			greqs, gwant, gsrc = greqs[:0], gwant[:0], gsrc[:0]
		}
	}
	for i := 0; i < nMut; i++ {
		rn.caseC18(mutate(r, common.Pick(r, keep)), "mutated", nil)
	}
	for i := 0; i < nRaw; i++ {
		rn.caseC18(genRaw(r), "random", nil)
	}
	// large inputs: hundreds to thousands of imports, 50k-byte comments / strings / identifiers, long
	// runs of blank lines and semicolons, long unterminated strings and comments
	nLarge := 1
	if f.Tier == "thorough" {
		nLarge = 8
	}
	for round := 0; round < nLarge; round++ {
		for _, lc := range largeCases(r, round) {
			res.Count("large:" + lc.name)
			rn.caseC18(lc.src, "large", lc.paths)
		}
	}
	// the consumers: ScanDir / ScanFiles on generated directories, strconv.Unquote of import literals
	nDirs, nUq := 250, 15000
	if f.Tier == "thorough" {
		nDirs, nUq = 4000, 400000
	}
	runScan(rn, nDirs)
	runUnquote(rn, nUq)
	res.Exhaustive = false
	res.Rule = fmt.Sprintf("corpus; %d hand-written inputs, each also with a BOM in front; "+breakRule()+"; %d grammar-based Go files (optional BOM, trivia = blanks/newlines/semicolons/line and block comments, package clause, 0-3 import declarations single or grouped, specs plain/named/./_, raw, interpreted and escaped path literals, followed by declarations), every one generated as an abstract section of the Coq grammar G, found well-formed (wf_section) and rendered to the same bytes with the same paths by the extracted model, and validated by go/parser (accepted, same import literals); %d byte-level mutations of such files; %d random token/byte soups (NUL, partial BOM, unterminated strings and comments); large inputs (600-3000 single/grouped/aliased imports, 50k-byte comments, path strings and identifiers, 20k blank lines / semicolons before and between imports, 20k-60k byte unterminated strings and comments) on the direct oracles only (the model is asked for inputs up to %d bytes). Non-trivial: go/parser accepts, or the reader reports imports or an error. Oracles: no panic / termination under a 20 s watchdog; the last 8 results (the returned slices themselves) stay byte-identical and prefixes of their inputs after every later call, including bursts of concurrent calls; output is a prefix of the input (BOM aside); any error with report=true other than the NUL error => whole input and nil error with report=false (NUL error allowed when the input contains NUL); with report=false the error is nil unless the input contains NUL; a file read without error gives identical results in both modes; whenever the reader finds fault with a NUL-free input in either mode, go/parser (ImportsOnly) reports on the bytes returned with report=false exactly the errors it reports on the input; whenever go/parser accepts the input, same unquoted import paths in order with a nil error, and the returned prefix parses (ImportsOnly) to the same imports. Translated source: every ReadImports case that goes to the model (both modes; every 8th also with imports == nil) is also answered by the extraction of read.go as translated by harness/go2coq (Gen/ImportsReadSrc.v, run with the bound 2*len+8 of the C18_source theorems) and compared with the implementation (bucket translated-source:*). Consumers: "+scanRule+" strconv.Unquote against the model's unquote on all pairs of an escape/UTF-8 atom vocabulary and on generated literals.",
		len(handC18), nGen, nMut, nRaw, modelMaxLen)
}

package main

// The TRANSLATED import reader run next to the implementation: coq/theories/Gen/ImportsReadSrc.v
// is imports/read.go translated to Gallina by harness/go2coq on every run; its extraction
// (Extract/ImportsReadSrcExtract.v, ocaml/importsreadsrc/driver.ml -> bin/model_importsreadsrc)
// answers the same "ri" request as the hand-written model, with the iteration bound of the
// C18_source_* theorems (2 * length input + 8), and "rin" (the same call with imports == nil).
// Every C18 case that goes to the hand-written model also goes to it, and its answer is
// compared with what imports.ReadImports returned: a test of the translator, of its table
// (bufio.Reader as the remaining bytes) and of the semantic libraries Lib/GoSem*.v.  The binary
// is built only when the current source could be translated and the translation compiled;
// otherwise this comparison is recorded as not run.

import (
	"bytes"
	"fmt"
	"os"
	"path/filepath"
	"strings"

	"github.com/rogpeppe/go-internal/imports"

	"verif/harness/common"
)

func (rn *runner) startSrc() {
	path := filepath.Join(filepath.Dir(rn.f.Model), "model_importsreadsrc")
	if _, err := os.Stat(path); err != nil {
		rn.res.Notes = append(rn.res.Notes, "translated source not run: bin/model_importsreadsrc was not built (the source could not be translated or the translation did not compile)")
		rn.res.Count("translated-source:not-run")
		return
	}
	m, err := common.StartModel(path)
	if err != nil {
		rn.res.Notes = append(rn.res.Notes, "translated source not run: "+err.Error())
		rn.res.Count("translated-source:not-run")
		return
	}
	rn.ms = m
}

func (rn *runner) closeSrc() {
	if rn.ms != nil {
		rn.ms.Close()
	}
}

// implRINil: ReadImports with imports == nil (nothing is collected).
func implRINil(x []byte, report bool) string {
	var o riOut
	o.hung = watchdog(func() {
		defer func() {
			if recover() != nil {
				o.panicked = true
			}
		}()
		out, err := imports.ReadImports(bytes.NewReader(x), report, nil)
		o.out, o.e = out, errKind(err)
	})
	return o.show()
}

// flushSrc: the ReadImports requests of the batch about to be compared with the hand-written
// model, also through the translation (reqs[i] / impls[i] as computed by flush).
func (rn *runner) flushSrc(reqs, impls []string) {
	if rn.ms == nil {
		return
	}
	var sreqs, want []string
	var idx []int
	for i, p := range rn.batch {
		if !strings.HasPrefix(p.fn, "ReadImports(") || !strings.HasPrefix(reqs[i], "ri ") {
			continue
		}
		sreqs = append(sreqs, reqs[i])
		want = append(want, impls[i])
		idx = append(idx, i)
		if rn.srcSeen++; rn.srcSeen%8 == 0 {
			// imports == nil on a share of the cases
			sreqs = append(sreqs, "rin "+strings.TrimPrefix(reqs[i], "ri "))
			want = append(want, implRINil(p.x, p.extra["report"] == "1"))
			idx = append(idx, i)
		}
	}
	if len(sreqs) == 0 {
		return
	}
	ans, err := rn.ms.Ask(sreqs)
	if err != nil {
		rn.res.Notes = append(rn.res.Notes, "translated-source process error: "+err.Error())
		rn.res.Violate(common.Violation{Kind: "correspondence", Oracle: "translated-source-process", Key: "srcmodel-died", Detail: err.Error(), Input: map[string]string{}})
		rn.ms = nil
		return
	}
	for j, i := range idx {
		if ans[j] == want[j] {
			rn.res.Count("translated-source:agrees")
			continue
		}
		rn.srcMismatch(rn.batch[i], sreqs[j], ans[j], want[j])
	}
}

func (rn *runner) srcMismatch(p pending, req, model, impl string) {
	rn.res.Count("mismatch:translated-source")
	if rn.shrunk["src"]++; rn.shrunk["src"] > 6 {
		return
	}
	verb := strings.Fields(req)[0]
	report := p.extra["report"]
	ask := func(c []byte) (string, string) {
		if verb == "rin" {
			return "rin " + report + " " + common.Hex(c), implRINil(c, report == "1")
		}
		return "ri " + report + " " + common.Hex(c), implRI(c, report == "1").show()
	}
	x := common.ShrinkBytes(p.x, func(c []byte) bool {
		r, want := ask(c)
		return rn.ms.Ask1(r) != want
	})
	r, want := ask(x)
	model = rn.ms.Ask1(r)
	rn.res.Violate(common.Violation{Kind: "correspondence", Oracle: "translated-source:" + p.fn,
		Input: map[string]string{"fn": p.fn, "x": common.Hex(x), "x_text": fmt.Sprintf("%q", x), "report": report, "request": clip(r)},
		Model: clip(model), Impl: clip(want), Key: "translated-source:" + verb + ":" + common.Hex(x) + ":" + report,
		Detail: "imports/read.go as translated by harness/go2coq (Gen/ImportsReadSrc.v, extracted and run with the bound of the C18_source theorems) and the implementation differ: the translator, its table or the semantic libraries misread the source"})
}

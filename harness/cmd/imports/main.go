// Command imports is the correspondence + oracle runner for C18 (imports.ReadImports)
// and C19 (imports.ShouldBuild / MatchFile).  VERIF_PROP selects the property.  It runs
// /repo's imports package and the extracted Coq model on the same inputs, compares
// projected observables, and evaluates the property itself on the implementation with
// oracles that do not use the model (go/parser, go/build, go/build/constraint and direct
// re-statements of the documented rules).
package main

import (
	"fmt"
	"os"
	"path/filepath"
	"sort"
	"strings"

	"verif/harness/common"
)

// pending is one model request whose answer must equal the implementation's.
type pending struct {
	x     []byte                            // the part of the input that is shrunk
	fn    string                            // compared function
	mk    func(x []byte) (req, impl string) // model request and implementation answer for x
	extra map[string]string                 // further named inputs (tags, flags)
}

type runner struct {
	f      *common.Flags
	res    *common.Result
	m      *common.Model
	batch  []pending
	shrunk map[string]int
	seen   int

	ms      *common.Model // the translated source (srcmodel.go), nil if it could not be built
	srcSeen int
}

func (rn *runner) add(p pending) {
	rn.batch = append(rn.batch, p)
	if len(rn.batch) >= 4000 {
		rn.flush()
	}
}

func (rn *runner) flush() {
	if len(rn.batch) == 0 {
		return
	}
	reqs := make([]string, len(rn.batch))
	impls := make([]string, len(rn.batch))
	for i, p := range rn.batch {
		reqs[i], impls[i] = p.mk(p.x)
	}
	ans, err := rn.m.Ask(reqs)
	if err != nil {
		rn.res.Notes = append(rn.res.Notes, "model error: "+err.Error())
		rn.res.Violate(common.Violation{Kind: "correspondence", Oracle: "model-process", Key: "model-died", Detail: err.Error(), Input: map[string]string{}})
		rn.batch = rn.batch[:0]
		return
	}
	for i, p := range rn.batch {
		if ans[i] != impls[i] {
			rn.mismatch(p, ans[i])
		}
	}
	rn.flushSrc(reqs, impls)
	rn.batch = rn.batch[:0]
}

func (rn *runner) mismatch(p pending, model string) {
	rn.res.Count("mismatch:" + p.fn)
	if rn.shrunk["m:"+p.fn]++; rn.shrunk["m:"+p.fn] > 6 {
		return
	}
	x := common.ShrinkBytes(p.x, func(c []byte) bool {
		req, impl := p.mk(c)
		return rn.m.Ask1(req) != impl
	})
	req, impl := p.mk(x)
	model = rn.m.Ask1(req)
	in := map[string]string{"fn": p.fn, "x": common.Hex(x), "x_text": fmt.Sprintf("%q", x), "request": clip(req)}
	for k, v := range p.extra {
		in[k] = v
	}
	rn.res.Violate(common.Violation{Kind: "correspondence", Oracle: p.fn, Input: in,
		Model: clip(model), Impl: clip(impl), Key: p.fn + ":" + common.Hex(x) + ":" + p.extra["tags"] + p.extra["report"],
		Detail: "model (corrected behaviour, theorems proved about it) and implementation differ"})
}

func clip(s string) string {
	if len(s) > 600 {
		return s[:600] + "..."
	}
	return s
}

// violate records a failure of the property itself on the implementation.
func (rn *runner) violate(oracle string, x []byte, extra map[string]string, impl, want, detail string, bad func([]byte) bool) {
	rn.res.Count("oracle-fails:" + oracle)
	if rn.shrunk["o:"+oracle]++; rn.shrunk["o:"+oracle] > 6 {
		return
	}
	if bad != nil && bad(x) {
		x = common.ShrinkBytes(x, bad)
	}
	in := map[string]string{"x": common.Hex(x), "x_text": fmt.Sprintf("%q", x)}
	for k, v := range extra {
		in[k] = v
	}
	rn.res.Violate(common.Violation{Kind: "impl-violation", Oracle: oracle, Input: in, Impl: clip(impl), Model: clip(want),
		Key: oracle + ":" + common.Hex(x) + ":" + extra["tags"] + extra["report"], Detail: detail})
}

func corpusFiles(dir string) []string {
	if dir == "" {
		return nil
	}
	ents, _ := filepath.Glob(filepath.Join(dir, "*.json"))
	sort.Strings(ents)
	return ents
}

func hexList(xs []string) string {
	var p []string
	for _, x := range xs {
		p = append(p, common.Hex([]byte(x)))
	}
	return strings.Join(p, " ")
}
func unHexList(s string) []string {
	var r []string
	for _, f := range strings.Fields(s) {
		r = append(r, string(common.UnHex(f)))
	}
	return r
}

func main() {
	f := common.ParseFlags()
	prop := os.Getenv("VERIF_PROP")
	if prop == "" {
		prop = "C19"
	}
	res := common.NewResult(prop, f.Tier, f.Seed)
	m, err := common.StartModel(f.Model)
	if err != nil {
		fmt.Fprintln(os.Stderr, "cannot start model:", err)
		os.Exit(2)
	}
	defer m.Close()
	rn := &runner{f: f, res: res, m: m, shrunk: map[string]int{}}
	switch prop {
	case "C18":
		rn.startSrc()
		defer rn.closeSrc()
		runC18(rn)
	default:
		runC19(rn)
	}
	rn.flush()
	res.Write(f.Out)
}

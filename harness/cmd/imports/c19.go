package main

import (
	"bytes"
	"crypto/sha256"
	"fmt"
	"go/build"
	"go/build/constraint"
	"io"
	"strings"
	"unicode"
	"unicode/utf8"

	"github.com/rogpeppe/go-internal/imports"

	"verif/harness/common"
)

// ---------------------------------------------------------------- implementation

func tagMap(tags []string) map[string]bool {
	m := map[string]bool{}
	for _, t := range tags {
		m[t] = true
	}
	return m
}

func implSB(content []byte, tags []string) string {
	return common.Safely(func() string { return fmt.Sprint(imports.ShouldBuild(content, tagMap(tags))) })
}
func implMF(name string, tags []string) string {
	return common.Safely(func() string { return fmt.Sprint(imports.MatchFile(name, tagMap(tags))) })
}

// ---------------------------------------------------------------- oracle 1: the documented rule, re-stated
//
// Written from the doc comments of ShouldBuild / MatchFile and the property text; uses neither
// the implementation nor the model.  The OS / architecture lists are those of Go's
// go/build/syslist.go at the time the package was copied (no wasip1).

var docOS = setOf("aix android darwin dragonfly freebsd hurd illumos ios js linux nacl netbsd openbsd plan9 solaris windows zos")
var docArch = setOf("386 amd64 amd64p32 arm armbe arm64 arm64be loong64 mips mipsle mips64 mips64le mips64p32 mips64p32le ppc ppc64 ppc64le riscv riscv64 s390 s390x sparc sparc64 wasm")

func setOf(s string) map[string]bool {
	m := map[string]bool{}
	for _, f := range strings.Fields(s) {
		m[f] = true
	}
	return m
}

func selects(tags map[string]bool, t string) bool {
	return tags[t] || (t == "linux" && tags["android"])
}

// docMatchFile: false exactly when the name (before its first '.', after its first '_', one
// trailing _test dropped) ends in _GOOS, _GOARCH or _GOOS_GOARCH that tags does not select.
func docMatchFile(name string, tags map[string]bool) bool {
	if tags["*"] {
		return true
	}
	base, _, _ := strings.Cut(name, ".")
	i := strings.IndexByte(base, '_')
	if i < 0 {
		return true
	}
	tail := strings.TrimSuffix(base[i:], "_test")
	j := strings.LastIndexByte(tail, '_')
	if j < 0 {
		return true
	}
	last := tail[j+1:]
	if (docOS[last] || docArch[last]) && !selects(tags, last) {
		return false
	}
	if docArch[last] {
		if k := strings.LastIndexByte(tail[:j], '_'); k >= 0 {
			if os := tail[k+1 : j]; docOS[os] && !selects(tags, os) {
				return false
			}
		}
	}
	return true
}

func validTag(t string) bool {
	if t == "" {
		return false
	}
	for _, c := range t {
		if !unicode.IsLetter(c) && !unicode.IsDigit(c) && c != '_' && c != '.' {
			return false
		}
	}
	return true
}

func docTerm(term string, tags map[string]bool) bool {
	neg := strings.HasPrefix(term, "!")
	t := strings.TrimPrefix(term, "!")
	if !validTag(t) { // includes "", "!", "!!x"
		return false
	}
	if tags["*"] && t != "ignore" {
		return true
	}
	return selects(tags, t) != neg
}

// headerLines: the leading run of // and blank lines, up to and including its last blank line.
func headerLines(content []byte) []string {
	var lines []string
	if len(content) > 0 {
		lines = strings.Split(strings.TrimSuffix(string(content), "\n"), "\n")
	}
	n, lastBlank := 0, -1
	for n < len(lines) {
		t := strings.TrimSpace(lines[n])
		if t == "" {
			lastBlank = n
		} else if !strings.HasPrefix(t, "//") {
			break
		}
		n++
	}
	return lines[:lastBlank+1]
}

// plusBuildArgs: the options of a `// +build` line.
func plusBuildArgs(line string) ([]string, bool) {
	t := strings.TrimSpace(line)
	if !strings.HasPrefix(t, "//") {
		return nil, false
	}
	w := strings.Fields(t[2:])
	if len(w) == 0 || w[0] != "+build" {
		return nil, false
	}
	return w[1:], true
}

func docShouldBuild(content []byte, tags map[string]bool) bool {
	for _, l := range headerLines(content) {
		opts, ok := plusBuildArgs(l)
		if !ok {
			continue
		}
		any := false
		for _, o := range opts {
			all := true
			for _, term := range strings.Split(o, ",") {
				if !docTerm(term, tags) {
					all = false
				}
			}
			any = any || all
		}
		if !any {
			return false
		}
	}
	return true
}

// ---------------------------------------------------------------- oracle 2: go/build/constraint

// constraintShouldBuild evaluates the header with go/build/constraint on the domain where today's
// constraint package and the documented plus-build rules coincide.  Excluded: tags["*"] (not a
// go/build notion); a bare plus-build line or a malformed term when it
// is negated ("!a-b": constraint rewrites it to !ignore = true) or when tags["ignore"] is set
// (constraint rewrites malformed terms to the tag "ignore").
func constraintShouldBuild(content []byte, tags map[string]bool) (res bool, applicable bool) {
	if tags["*"] {
		return false, false
	}
	res = true
	for _, l := range headerLines(content) {
		t := strings.TrimSpace(l)
		if !constraint.IsPlusBuild(t) {
			if _, ok := plusBuildArgs(l); ok {
				return false, false // the two readings of "is a +build line" differ: not in the domain
			}
			continue
		}
		opts, ok := plusBuildArgs(l)
		if !ok {
			return false, false
		}
		if len(opts) == 0 && tags["ignore"] {
			return false, false // a bare "// +build" is rewritten to the tag "ignore" by constraint
		}
		for _, o := range opts {
			for _, term := range strings.Split(o, ",") {
				if !validTag(strings.TrimPrefix(term, "!")) && (strings.HasPrefix(term, "!") || tags["ignore"]) {
					return false, false
				}
			}
		}
		x, err := constraint.Parse(t)
		if err != nil {
			return false, false
		}
		if !x.Eval(func(tag string) bool { return selects(tags, tag) }) {
			res = false
		}
	}
	return res, true
}

// ---------------------------------------------------------------- oracle 3: go/build.Context.MatchFile

// tags that go/build treats specially (or that select other tags) are outside the common domain
var goBuildSpecial = setOf("unix cgo gc gccgo ios illumos boringcrypto wasip1 *")

func goBuildContext(tags []string, content []byte) (*build.Context, bool) {
	ctx := &build.Context{}
	for _, t := range tags {
		if goBuildSpecial[t] || strings.HasPrefix(t, "go1") || t == "" {
			return nil, false
		}
		if t == "android" {
			ctx.GOOS = "android"
		}
		ctx.BuildTags = append(ctx.BuildTags, t)
	}
	ctx.OpenFile = func(string) (io.ReadCloser, error) { return io.NopCloser(bytes.NewReader(content)), nil }
	ctx.JoinPath = func(elem ...string) string { return strings.Join(elem, "/") }
	return ctx, true
}

// goBuildMatchFile evaluates name (with the extension .s, so that go/build only reads the leading
// comments) and content with the toolchain's go/build.
func goBuildMatch(base string, content []byte, tags []string) (res bool, applicable bool) {
	if base == "" || strings.HasPrefix(base, "_") || strings.ContainsAny(base, "./\\") {
		return false, false
	}
	if bytes.Contains(content, []byte("go:build")) || bytes.Contains(content, []byte("unix")) || bytes.Contains(content, []byte("cgo")) {
		return false, false
	}
	ctx, ok := goBuildContext(tags, content)
	if !ok {
		return false, false
	}
	var err error
	out := common.Safely(func() string {
		res, err = ctx.MatchFile("d", base+".s")
		return ""
	})
	if out == "PANIC" || err != nil {
		return false, false
	}
	return res, true
}

// ---------------------------------------------------------------- cases

func plainASCII(b []byte) bool {
	for _, c := range b {
		if c >= 0x80 || c == 0 || c == 0x0b {
			return false
		}
	}
	return true
}

func modelable(content []byte) bool {
	// the model knows the letters and digits below U+0250 (generated table): a term containing a
	// letter or digit at or above U+0250 is accepted by Go and rejected by the model.
	for _, l := range headerLines(content) {
		opts, ok := plusBuildArgs(l)
		if !ok {
			continue
		}
		for _, o := range opts {
			for len(o) > 0 {
				r, n := utf8.DecodeRuneInString(o)
				if r >= 0x250 && r != utf8.RuneError && (unicode.IsLetter(r) || unicode.IsDigit(r)) {
					return false
				}
				o = o[n:]
			}
		}
	}
	return true
}

func (rn *runner) caseMF(name string, tags []string, src string) {
	rn.seen++
	res := rn.res
	res.Count("mf:src:" + src)
	tm := tagMap(tags)
	impl := implMF(name, tags)
	extra := map[string]string{"fn": "MatchFile", "tags": hexList(tags), "tags_text": fmt.Sprintf("%q", tags)}
	res.Case("mf:"+name+"|"+strings.Join(tags, ","), strings.Contains(name, "_"))
	res.Count("mf:impl:" + impl)
	// oracles
	want := fmt.Sprint(docMatchFile(name, tm))
	if impl != want {
		rn.violate("MatchFile/documented-rule", []byte(name), extra, impl, want,
			"MatchFile differs from the documented file-name rule (android selects linux; tags[\"*\"] accepts all)",
			func(c []byte) bool {
				return len(name) > 16 && implMF(string(c), tags) != fmt.Sprint(docMatchFile(string(c), tm))
			})
	}
	base, _, _ := strings.Cut(name, ".")
	if gb, ok := goBuildMatch(base, nil, tags); ok {
		res.Count("mf:oracle:go/build")
		if impl != fmt.Sprint(gb) {
			rn.violate("MatchFile/go-build", []byte(name), extra, impl, fmt.Sprint(gb),
				"MatchFile differs from go/build.Context.MatchFile on a name/tag set where the rules are the same", nil)
		}
	}
	if tm["*"] && impl != "true" {
		rn.violate("MatchFile/star", []byte(name), extra, impl, "true", "tags[\"*\"] must accept every file name", nil)
	}
	if rn.seen%4001 == 1 {
		res.Sample(map[string]any{"fn": "MatchFile", "name": name, "tags": tags, "impl": impl})
	}
	tg := hexList(tags)
	rn.add(pending{x: []byte(name), fn: "MatchFile", extra: extra, mk: func(x []byte) (string, string) {
		return strings.TrimSpace("mf " + common.Hex(x) + " " + tg), implMF(string(x), tags)
	}})
}

func (rn *runner) caseSB(content []byte, tags []string, src string) {
	rn.seen++
	res := rn.res
	res.Count("sb:src:" + src)
	tm := tagMap(tags)
	impl := implSB(content, tags)
	extra := map[string]string{"fn": "ShouldBuild", "tags": hexList(tags), "tags_text": fmt.Sprintf("%q", tags)}
	nb := 0
	for _, l := range headerLines(content) {
		if _, ok := plusBuildArgs(l); ok {
			nb++
		}
	}
	if len(content) > 20000 {
		// (the key of a large case is its digest)
		h := sha256.Sum256(content)
		res.Case(fmt.Sprintf("sb:%d:%x|%s", len(content), h[:12], strings.Join(tags, ",")), nb > 0)
	} else {
		res.Case("sb:"+string(content)+"|"+strings.Join(tags, ","), nb > 0)
	}
	res.Count("sb:impl:" + impl)
	res.Count(fmt.Sprintf("sb:+build-lines-in-header:%d", min(nb, 3)))
	want := fmt.Sprint(docShouldBuild(content, tm))
	if impl != want {
		// a large input gets a bounded number of shrinking steps (every step re-reads all of it)
		budget := 1 << 30
		if len(content) > 5000 {
			budget = 150
		}
		rn.violate("ShouldBuild/documented-rule", content, extra, impl, want,
			"ShouldBuild differs from the documented +build rules",
			func(c []byte) bool {
				if budget--; budget < 0 {
					return false
				}
				return implSB(c, tags) != fmt.Sprint(docShouldBuild(c, tm))
			})
	}
	if cr, ok := constraintShouldBuild(content, tm); ok {
		res.Count("sb:oracle:go/build/constraint")
		if impl != fmt.Sprint(cr) {
			budget := 1 << 30
			if len(content) > 5000 {
				budget = 150
			}
			rn.violate("ShouldBuild/constraint", content, extra, impl, fmt.Sprint(cr),
				"ShouldBuild differs from go/build/constraint (Parse + Eval with android=>linux) on the header's +build lines",
				func(c []byte) bool {
					if budget--; budget < 0 {
						return false
					}
					r, ok := constraintShouldBuild(c, tm)
					return ok && implSB(c, tags) != fmt.Sprint(r)
				})
		}
	}
	// go/build first cuts the file down to its leading comments with a byte-level scanner that
	// skips ' ', \t, \r, \n, \f only, whereas the header rule uses TrimSpace (which also knows \v and
	// the Unicode spaces): the two coincide on ASCII content without \v and NUL.
	if _, ok := constraintShouldBuild(content, tm); ok && plainASCII(content) {
		if gb, ok := goBuildMatch("x", content, tags); ok {
			res.Count("sb:oracle:go/build")
			if impl != fmt.Sprint(gb) {
				rn.violate("ShouldBuild/go-build", content, extra, impl, fmt.Sprint(gb),
					"ShouldBuild differs from go/build.Context.MatchFile reading the same bytes", nil)
			}
		}
	}
	if rn.seen%2003 == 1 {
		res.Sample(map[string]any{"fn": "ShouldBuild", "content": clip(string(content)), "tags": tags, "impl": impl})
	}
	if len(content) > sbModelMax {
		res.Count("sb:model-skipped(large input)")
		return
	}
	if !modelable(content) {
		res.Count("sb:not-modelled(tag letters >= U+0250)")
		return
	}
	tg := hexList(tags)
	rn.add(pending{x: content, fn: "ShouldBuild", extra: extra, mk: func(x []byte) (string, string) {
		return strings.TrimSpace("sb " + common.Hex(x) + " " + tg), implSB(x, tags)
	}})
}

// ---------------------------------------------------------------- generators

var nameTagSets = [][]string{
	{}, {"linux"}, {"android"}, {"*"}, {"linux", "amd64"}, {"android", "arm"}, {"windows", "386"},
	{"windows", "amd64", "foo"}, {"*", "ignore"}, {"ignore", "linux", "arm"}, {"linux", "android", "arm", "amd64", "386"},
	{"foo", "bar", "test"}, {"darwin", "arm64"},
}
var nameSegs = []string{"linux", "android", "windows", "amd64", "arm", "386", "foo", "bar", "test", ""}
var handNames = []string{"x_linux.go", "linux.go", "_linux.go", "x_linux", ".x_linux.go", "x__linux.go", "x_linux_.go",
	"x_test_linux.go", "x_linux_test_test.go", "x_linux.foo_arm.go", "x.y_linux.go", "x_linux_amd64_test.go", "x_android_arm.go",
	"x_linux_arm.s", "a_b_c_d_windows_386_test.go", "x_LINUX.go", "x_linux_test", "_test.go", "test.go", "x_test.go", "_.go", "",
	"x_darwin_arm64.go", "x_arm64_darwin.go", "x_plan9.go", "x_js_wasm.go", "x_solaris.go", "x_zos_s390x_test.go"}

var tagVocab = []string{"linux", "android", "windows", "arm", "amd64", "386", "foo", "bar", "ignore", "a_b", "x.y", "darwin", "é", "ßü9"}
var badTerms = []string{"!!foo", "!", "", "a-b", "!a-b", "a!b", "foo!", "\xff", "!\xff", "λ", "!λ", "é\xff", "\xc3", "a b", "+build", "*", "!*", "a/b"}

func genTerm(r *common.RNG) string {
	switch r.Intn(10) {
	case 0:
		return common.Pick(r, badTerms)
	case 1, 2, 3:
		return "!" + common.Pick(r, tagVocab)
	default:
		return common.Pick(r, tagVocab)
	}
}
func genOption(r *common.RNG) string {
	n := 1 + r.Intn(3)
	if r.Chance(1, 2) {
		n = 1
	}
	var ts []string
	for i := 0; i < n; i++ {
		ts = append(ts, genTerm(r))
	}
	return strings.Join(ts, ",")
}
func genBuildLine(r *common.RNG) string {
	lead := common.Pick(r, []string{"// +build", "// +build", "// +build", "//+build", "//  +build", "\t// +build", " //\t+build", "// +build\t"})
	n := r.Intn(4)
	var os []string
	for i := 0; i < n; i++ {
		os = append(os, genOption(r))
	}
	sep := common.Pick(r, []string{" ", " ", "  ", "\t"})
	l := lead
	if n > 0 {
		l += sep + strings.Join(os, sep)
	}
	return l + common.Pick(r, []string{"", "", "", " ", "\r"})
}

var otherLines = []string{"// a comment", "//", "// build linux", "// +buildx foo", "//+builds", "// + build foo", "/* +build foo */",
	"/*", "*/", "package p", "import \"x\"", "// +build", "x // +build foo", "/ / +build foo", "//go:build foo", "// Copyright",
	" // +build foo", "// +build foo", "/* c */ // +build foo", "//\t"}
var blankLines = []string{"", "", "", " ", "\t", "\r", " \t ", " ", "\v"}

func genBlock(r *common.RNG) []byte {
	var b []byte
	n := r.Intn(6)
	for i := 0; i < n; i++ {
		switch r.Intn(10) {
		case 0, 1, 2, 3, 4:
			b = append(b, genBuildLine(r)...)
		case 5, 6:
			b = append(b, common.Pick(r, blankLines)...)
		case 7:
			b = append(b, "// doc"...)
		default:
			b = append(b, common.Pick(r, otherLines)...)
		}
		b = append(b, '\n')
	}
	switch r.Intn(6) {
	case 0: // nothing after the block
	case 1:
		b = append(b, "package p\n"...)
	case 2:
		b = append(b, "\npackage p\n\n// +build foo\n\nfunc f() {}\n"...)
	case 3:
		b = append(b, common.Pick(r, blankLines)...)
	default:
		b = append(b, "\npackage p\n"...)
	}
	if r.Chance(1, 8) && len(b) > 0 && b[len(b)-1] == '\n' {
		b = b[:len(b)-1]
	}
	return b
}

func genTagSet(r *common.RNG) []string {
	switch r.Intn(8) {
	case 0:
		return nil
	case 1:
		return []string{"*"}
	}
	var ts []string
	for _, t := range tagVocab {
		if r.Chance(1, 3) {
			ts = append(ts, t)
		}
	}
	if r.Chance(1, 10) {
		ts = append(ts, "*")
	}
	return ts
}

// ---------------------------------------------------------------- the run

const randAlphabet = "// +build ,!\n\n \tlinuxa*"

func runC19(rn *runner) {
	f, res := rn.f, rn.res
	if f.Replay != "" {
		rp, err := common.LoadReplay(f.Replay)
		if err == nil && strings.HasPrefix(rp.Violation.Input["fn"], "Scan") {
			rn.replayScan(rp.Violation.Input)
		} else if err == nil {
			rn.replayC19(rp.Violation.Input)
		} else {
			res.Notes = append(res.Notes, "cannot load replay: "+err.Error())
		}
		return
	}
	// 1. corpus (replay-format JSON files)
	for _, p := range corpusFiles(f.Corpus) {
		if rp, err := common.LoadReplay(p); err == nil {
			rn.replayC19(rp.Violation.Input)
		}
	}
	// 2a. hand-picked names
	for _, n := range handNames {
		for _, ts := range nameTagSets {
			rn.caseMF(n, ts, "hand")
		}
	}
	// 2. exhaustive file names: <= 4 segments over the vocabulary, joined by '_', x 13 tag sets
	count := 0
	var rec func(segs []string, depth int)
	rec = func(segs []string, depth int) {
		if len(segs) > 0 {
			name := strings.Join(segs, "_") + ".go"
			for _, ts := range nameTagSets {
				rn.caseMF(name, ts, "exhaustive")
			}
			count++
		}
		if depth == 4 {
			return
		}
		for _, s := range nameSegs {
			rec(append(append([]string{}, segs...), s), depth+1)
		}
	}
	rec(nil, 0)
	// every known OS / arch token of the documented lists, alone and paired
	for os := range docOS {
		for _, ts := range nameTagSets {
			rn.caseMF("x_"+os+".go", ts, "known-tokens")
			rn.caseMF("x_"+os+"_arm_test.go", ts, "known-tokens")
		}
	}
	for arch := range docArch {
		for _, ts := range nameTagSets {
			rn.caseMF("x_"+arch+".go", ts, "known-tokens")
			rn.caseMF("x_linux_"+arch+".go", ts, "known-tokens")
		}
	}
	// 3. generated leading comment blocks
	r := common.NewRNG(f.Seed)
	nBlocks := 20000
	if f.Tier == "thorough" {
		nBlocks = 400000
	}
	for i := 0; i < nBlocks; i++ {
		rn.caseSB(genBlock(r), genTagSet(r), "generated")
	}
	// single +build lines x every vocabulary term x small tag sets (exhaustive over terms)
	terms := append([]string{}, badTerms...)
	for _, t := range tagVocab {
		terms = append(terms, t, "!"+t)
	}
	small := [][]string{{}, {"linux"}, {"android"}, {"*"}, {"ignore"}, {"*", "ignore"}, {"foo", "arm"}}
	for _, a := range terms {
		for _, b := range append([]string{""}, terms...) {
			line := "// +build " + a
			if b != "" {
				line += common.Pick(r, []string{",", " "}) + b
			}
			for _, ts := range small {
				rn.caseSB([]byte(line+"\n\npackage p\n"), ts, "term-pairs")
			}
		}
	}
	// 3b. sizes past internal limits
	for i, lb := range largeBlocks(f.Tier) {
		for _, ts := range largeTagSetsFor(f.Tier, i) {
			res.Count("sb:large:" + strings.SplitN(lb.name, "/", 2)[0])
			rn.caseSB([]byte(lb.content), ts, "large")
		}
	}
	// 4. malformed stream: random bytes over a +build alphabet
	nRand := 5000
	if f.Tier == "thorough" {
		nRand = 200000
	}
	for i := 0; i < nRand; i++ {
		n := r.Intn(40)
		b := make([]byte, n)
		for j := range b {
			if r.Chance(1, 12) {
				b[j] = byte(r.Intn(256))
			} else {
				b[j] = randAlphabet[r.Intn(len(randAlphabet))]
			}
		}
		rn.caseSB(b, genTagSet(r), "random")
	}
	// bytes.TrimSpace and strings.Fields (re-implemented in the model, Unicode spaces included):
	// every byte string of length <= 2, and of length 3 and 4 over the bytes that make up the
	// UTF-8 encodings of the Unicode spaces and their neighbours
	spaceBytes := []byte{' ', '\t', '\n', '\v', '\f', '\r', 'a', '/', '+', 0x00, 0x1c, 0x1f, 0x7f, 0x80, 0x81, 0x84, 0x85, 0x86, 0x8a, 0x8b, 0x9a, 0x9f, 0xa0, 0xa1, 0xa8, 0xa9, 0xaa, 0xaf,
		0xc2, 0xc3, 0xe1, 0xe2, 0xe3, 0xe0, 0xf0, 0xff}
	tsCase := func(x []byte) {
		x = append([]byte{}, x...)
		rn.seen++
		res.Count("trimspace/fields:cases")
		res.Case("ts:"+string(x), true)
		rn.add(pending{x: x, fn: "bytes.TrimSpace", extra: map[string]string{"fn": "TrimSpace"}, mk: func(c []byte) (string, string) {
			return "ts " + common.Hex(c), common.Hex(bytes.TrimSpace(c))
		}})
		rn.add(pending{x: x, fn: "strings.Fields", extra: map[string]string{"fn": "Fields"}, mk: func(c []byte) (string, string) {
			fs := strings.Fields(string(c))
			parts := []string{fmt.Sprint(len(fs))}
			for _, f := range fs {
				parts = append(parts, common.Hex([]byte(f)))
			}
			return "fl " + common.Hex(c), strings.Join(parts, " ")
		}})
	}
	tsCase(nil)
	for a := 0; a < 256; a++ {
		tsCase([]byte{byte(a)})
		for b := 0; b < 256; b++ {
			tsCase([]byte{byte(a), byte(b)})
		}
	}
	for _, a := range spaceBytes {
		for _, b := range spaceBytes {
			for _, c := range spaceBytes {
				tsCase([]byte{a, b, c})
				if f.Tier == "thorough" || (int(a)+int(b)+int(c))%7 == 0 {
					for _, d := range spaceBytes {
						tsCase([]byte{a, b, c, d})
					}
				}
			}
		}
	}
	// the consumer: ScanDir's choice of files on generated directories
	nDirs := 150
	if f.Tier == "thorough" {
		nDirs = 3000
	}
	runScan(rn, nDirs)
	res.Exhaustive = false
	res.Rule = fmt.Sprintf("corpus; MatchFile: every name of 1..4 '_'-joined segments over %q (+.go) (%d names), hand-picked names and every documented OS/arch token, each under %d tag sets; ShouldBuild: %d generated leading blocks (valid, negated and malformed terms, blank-line placement, non-+build comments, /* */ blocks, CR, NBSP) under random tag sets, all single/paired terms of the vocabulary under %d tag sets, %d random byte strings over a +build alphabet; "+largeRule()+". Non-trivial: a name containing '_' / a content with a +build line inside the header. Oracles: documented rule re-stated in Go (all cases), go/build/constraint and go/build.Context.MatchFile on their common domain (no tags[\"*\"], no unix/cgo/ios/illumos/go1.x/wasip1 tags, no negated malformed term, no malformed term when tags[\"ignore\"], no //go:build, base name not starting with '_' or '.'). TrimSpace/Fields: the model's trim_space and fields against bytes.TrimSpace and strings.Fields on every byte string of length <= 2 and on strings of length 3-4 over the bytes of the UTF-8 Unicode spaces and their neighbours. Consumers: "+scanRule,
		nameSegs, count, len(nameTagSets), nBlocks, len(small), nRand)
}

func (rn *runner) replayC19(in map[string]string) {
	tags := unHexList(in["tags"])
	x := common.UnHex(in["x"])
	if in["fn"] == "ShouldBuild" {
		rn.caseSB(x, tags, "replay")
	} else {
		rn.caseMF(string(x), tags, "replay")
	}
}

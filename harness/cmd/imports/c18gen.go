package main

import (
	"fmt"
	"strings"

	"verif/harness/common"
)

// The generator of valid Go files for C18 builds an abstract import section in the terms of
// the Coq grammar G (coq/theories/Imports/ReadGrammar.v), renders it in Go, and serialises it
// for the model, which answers with ITS rendering, wf_section and the paths of G.  So every
// generated file is (a) shown to be a member of the Coq grammar and (b) validated by go/parser.

type gTriv struct {
	kind byte // 's' one blank byte, 'l' line comment body, 'b' block comment body
	body string
}
type gItem struct {
	esc bool
	b   byte
}
type gLit struct {
	raw   bool
	body  string  // raw
	items []gItem // interpreted
}
type gSpec struct {
	name byte // 'n' none, 'd' dot, 'i' identifier
	id   string
	mid  []gTriv
	path gLit
}
type gTSpec struct {
	t  []gTriv
	sp gSpec
}
type gDecl struct {
	group bool
	t1    []gTriv
	sp    gSpec    // single
	specs []gTSpec // group
	tend  []gTriv
}
type gTDecl struct {
	t []gTriv
	d gDecl
}
type gSection struct {
	bom    bool
	t0, t1 []gTriv
	pkg    string
	decls  []gTDecl
	tend   []gTriv
}

// ---- rendering (Go side)

func renderTrivs(ts []gTriv) string {
	var b strings.Builder
	for _, t := range ts {
		switch t.kind {
		case 's':
			b.WriteString(t.body)
		case 'l':
			b.WriteString("//" + t.body + "\n")
		default:
			b.WriteString("/*" + t.body + "*/")
		}
	}
	return b.String()
}
func renderLit(l gLit) string {
	if l.raw {
		return "`" + l.body + "`"
	}
	var b strings.Builder
	b.WriteByte('"')
	for _, it := range l.items {
		if it.esc {
			b.WriteByte('\\')
		}
		b.WriteByte(it.b)
	}
	b.WriteByte('"')
	return b.String()
}
func renderSpec(s gSpec) string {
	n := ""
	switch s.name {
	case 'd':
		n = "."
	case 'i':
		n = s.id
	}
	return n + renderTrivs(s.mid) + renderLit(s.path)
}
func renderDecl(d gDecl) string {
	if !d.group {
		return "import" + renderTrivs(d.t1) + renderSpec(d.sp)
	}
	var b strings.Builder
	b.WriteString("import" + renderTrivs(d.t1) + "(")
	for _, ts := range d.specs {
		b.WriteString(renderTrivs(ts.t) + renderSpec(ts.sp))
	}
	b.WriteString(renderTrivs(d.tend) + ")")
	return b.String()
}
func (g *gSection) renderBody() string {
	var b strings.Builder
	b.WriteString(renderTrivs(g.t0) + "package" + renderTrivs(g.t1) + g.pkg)
	for _, td := range g.decls {
		b.WriteString(renderTrivs(td.t) + renderDecl(td.d))
	}
	b.WriteString(renderTrivs(g.tend))
	return b.String()
}
func (g *gSection) render() string {
	if g.bom {
		return string(bomBytes) + g.renderBody()
	}
	return g.renderBody()
}
func (g *gSection) paths() []string {
	var ps []string
	for _, td := range g.decls {
		if td.d.group {
			for _, ts := range td.d.specs {
				ps = append(ps, renderLit(ts.sp.path))
			}
		} else {
			ps = append(ps, renderLit(td.d.sp.path))
		}
	}
	return ps
}

// ---- serialisation for the model driver (see ocaml/imports/driver.ml, request "g")

func hx(s string) string { return common.Hex([]byte(s)) }

func serTrivs(ts []gTriv, out *[]string) {
	*out = append(*out, fmt.Sprint(len(ts)))
	for _, t := range ts {
		*out = append(*out, string(t.kind), hx(t.body))
	}
}
func serSpec(s gSpec, out *[]string) {
	switch s.name {
	case 'i':
		*out = append(*out, "i", hx(s.id))
	default:
		*out = append(*out, string(s.name))
	}
	serTrivs(s.mid, out)
	if s.path.raw {
		*out = append(*out, "r", hx(s.path.body))
	} else {
		*out = append(*out, "q", fmt.Sprint(len(s.path.items)))
		for _, it := range s.path.items {
			k := "p"
			if it.esc {
				k = "e"
			}
			*out = append(*out, k, hx(string([]byte{it.b})))
		}
	}
}
func (g *gSection) serialise(rest string) string {
	out := []string{"g", hx(rest)}
	if g.bom {
		out = append(out, "1")
	} else {
		out = append(out, "0")
	}
	serTrivs(g.t0, &out)
	serTrivs(g.t1, &out)
	out = append(out, hx(g.pkg), fmt.Sprint(len(g.decls)))
	for _, td := range g.decls {
		serTrivs(td.t, &out)
		if td.d.group {
			out = append(out, "g")
			serTrivs(td.d.t1, &out)
			out = append(out, fmt.Sprint(len(td.d.specs)))
			for _, ts := range td.d.specs {
				serTrivs(ts.t, &out)
				serSpec(ts.sp, &out)
			}
			serTrivs(td.d.tend, &out)
		} else {
			out = append(out, "1")
			serTrivs(td.d.t1, &out)
			serSpec(td.d.sp, &out)
		}
	}
	serTrivs(g.tend, &out)
	return strings.Join(out, " ")
}

// ---- generation: members of G that are also valid Go

func sp(s string) gTriv { return gTriv{'s', s} }

var inlineTrivs = []gTriv{sp(" "), sp(" "), sp("\t"), {'b', " c "}, {'b', ""}, {'b', "*"}, {'b', "/ x "}, {'b', " \"q\" `r` "}, {'b', " import ( "}}
var freeTrivs = []gTriv{sp(" "), sp(" "), sp("\n"), sp("\n"), sp("\t"), sp("\r"), {'l', " c"}, {'l', ""}, {'l', " import \"no\""}, {'l', " é ü"},
	{'l', "go:build x"}, {'l', " +build x"}, {'b', " c "}, {'b', ""}, {'b', "*"}, {'b', " a\n b "}, {'b', " import ( "}, {'b', "/ x "}}

func (g *gen18) some(from []gTriv, min int) []gTriv {
	n := min
	if g.r.Chance(1, 2) {
		n += g.r.Intn(3)
	}
	var ts []gTriv
	for i := 0; i < n; i++ {
		ts = append(ts, common.Pick(g.r, from))
	}
	return ts
}

// terminator: what go/parser needs between clauses: a newline (possibly from a line comment) or one ';'
func (g *gen18) terminator() []gTriv {
	ts := g.some(inlineTrivs, 0)
	switch g.r.Intn(6) {
	case 0:
		ts = append(ts, sp(";"))
	case 1:
		ts = append(ts, gTriv{'l', " c"})
	case 2:
		ts = append(ts, sp("\r"), sp("\n"))
	default:
		ts = append(ts, sp("\n"))
	}
	return append(ts, g.some(freeTrivs, 0)...)
}

func (g *gen18) lit() gLit {
	p := common.Pick(g.r, pathAtoms)
	switch g.r.Intn(6) {
	case 0:
		return gLit{raw: true, body: p}
	case 1: // escapes that denote valid path characters
		var items []gItem
		for i := 0; i < len(p); i++ {
			c := p[i]
			if c < 0x80 && g.r.Chance(1, 3) {
				var e string
				switch g.r.Intn(3) {
				case 0:
					e = fmt.Sprintf("x%02x", c)
				case 1:
					e = fmt.Sprintf("%03o", c)
				default:
					e = fmt.Sprintf("u%04x", c)
				}
				items = append(items, gItem{true, e[0]})
				for j := 1; j < len(e); j++ {
					items = append(items, gItem{false, e[j]})
				}
			} else {
				items = append(items, gItem{false, c})
			}
		}
		return gLit{items: items}
	default:
		var items []gItem
		for i := 0; i < len(p); i++ {
			items = append(items, gItem{false, p[i]})
		}
		return gLit{items: items}
	}
}

func (g *gen18) specAST() gSpec {
	s := gSpec{name: 'n', path: g.lit()}
	switch g.r.Intn(6) {
	case 0:
		s.name, s.mid = 'd', g.some(inlineTrivs, 0)
	case 1:
		s.name, s.id, s.mid = 'i', "_", g.some(inlineTrivs, 0)
	case 2, 3:
		s.name, s.id, s.mid = 'i', common.Pick(g.r, identAtoms), g.some(inlineTrivs, 0)
	}
	return s
}

func (g *gen18) section() (*gSection, string) {
	s := &gSection{bom: g.r.Chance(1, 8), t0: g.some(freeTrivs, 0), t1: g.some(freeTrivs, 1)}
	s.pkg = common.Pick(g.r, identAtoms)
	if s.pkg == "_" {
		s.pkg = "p"
	}
	rest := common.Pick(g.r, restAtoms)
	nd := g.r.Intn(4)
	for i := 0; i < nd; i++ {
		var d gDecl
		if g.r.Chance(1, 2) {
			d.group = true
			d.t1 = g.some(freeTrivs, 0)
			ns := g.r.Intn(4)
			for j := 0; j < ns; j++ {
				t := g.some(freeTrivs, 0)
				if j > 0 {
					t = g.terminator()
				}
				d.specs = append(d.specs, gTSpec{t, g.specAST()})
			}
			if ns > 0 && g.r.Chance(3, 4) {
				d.tend = g.terminator()
			} else {
				d.tend = g.some(freeTrivs, 0)
			}
		} else {
			d.sp = g.specAST()
			min := 0
			if d.sp.name == 'i' {
				min = 1
			}
			d.t1 = g.some(freeTrivs, min)
		}
		s.decls = append(s.decls, gTDecl{g.terminator(), d})
	}
	if rest != "" || g.r.Chance(1, 2) {
		s.tend = g.terminator()
	}
	return s, rest
}

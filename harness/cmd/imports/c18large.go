package main

import (
	"fmt"
	"strings"

	"verif/harness/common"
)

// largeCase is one big input; paths != nil means "a valid Go file with exactly these import
// literals" (checked against go/parser like every generated file).
type largeCase struct {
	name  string
	src   []byte
	paths []string
}

func manyImports(r *common.RNG, n int, style int) (string, []string) {
	var b strings.Builder
	var paths []string
	spec := func(i int) string {
		p := fmt.Sprintf("\"example.com/m%d/p%d\"", i%7, i)
		if i%5 == 3 {
			p = fmt.Sprintf("`example.com/r/p%d`", i)
		}
		paths = append(paths, p)
		switch (i + style) % 4 {
		case 0:
			return fmt.Sprintf("a%d %s", i, p)
		case 1:
			return p
		case 2:
			return "_ " + p
		default:
			return fmt.Sprintf("x_%d /* c */ %s", i, p)
		}
	}
	b.WriteString("// Package p.\npackage p\n\n")
	i := 0
	for i < n {
		if style%3 == 0 || (style%3 == 2 && r.Chance(1, 2)) {
			b.WriteString("import " + spec(i) + "\n")
			i++
		} else {
			k := 1 + r.Intn(400)
			if style%3 == 1 {
				k = n
			}
			b.WriteString("import (\n")
			for j := 0; j < k && i < n; j++ {
				b.WriteString("\t" + spec(i))
				if r.Chance(1, 10) {
					b.WriteString(" // c\n")
				} else if r.Chance(1, 12) {
					b.WriteString(";")
				} else {
					b.WriteString("\n")
				}
				i++
			}
			b.WriteString(")\n")
		}
	}
	b.WriteString("\nfunc f() {}\n")
	return b.String(), paths
}

func largeCases(r *common.RNG, round int) []largeCase {
	var cs []largeCase
	valid := func(name, src string, paths []string) {
		if paths == nil {
			paths = []string{}
		}
		cs = append(cs, largeCase{name, []byte(src), paths})
	}
	junk := func(name, src string) { cs = append(cs, largeCase{name, []byte(src), nil}) }
	big := 50000 + r.Intn(5000)
	long := func(c string, n int) string { return strings.Repeat(c, n) }

	// many imports
	for _, c := range []struct{ n, style int }{{600, 0}, {1500, 1}, {3000, 2}, {700 + r.Intn(300), 3 + round}} {
		src, paths := manyImports(r, c.n, c.style)
		valid(fmt.Sprintf("imports-%d-style%d", c.n, c.style%3), src, paths)
		if c.style == 0 {
			valid("imports+BOM", string(bomBytes)+src, paths)
		}
	}
	// very long tokens and trivia in a valid file
	valid("long-line-comment", "//"+long("c", big)+"\npackage p\nimport \"a\"\n//"+long(" x", big/2)+"\nimport b \"b\"\nvar x int\n", []string{`"a"`, `"b"`})
	valid("long-block-comment", "/*"+long("* /\n", big/4)+"*/package /*"+long("c", big)+"*/ p\nimport /*"+long("/", big)+"*/ \"a\"\n", []string{`"a"`})
	valid("long-identifiers", "package "+long("p", big)+"\nimport "+long("é", big/2)+" \"a\"\nimport (\n"+long("x1", big/2)+" \"b\"\n)\nfunc f() {}\n", []string{`"a"`, `"b"`})
	valid("long-interpreted-path", "package p\nimport \""+long("a/", big/2)+"b\"\nimport c \"c\"\n", []string{`"` + long("a/", big/2) + `b"`, `"c"`})
	valid("long-raw-path", "package p\nimport (\n\t`"+long("r", big)+"`\n\t. \"d\"\n)\n", []string{"`" + long("r", big) + "`", `"d"`})
	valid("blank-lines", long("\n", 20000)+"package p"+long("\n", 20000)+"import \"a\""+long("\n \t\r\n", 5000)+"import (\n"+long("\n", 20000)+"\"b\""+long("\n", 20000)+")\n"+long("\n", 12000)+"func f() {}\n",
		[]string{`"a"`, `"b"`})
	// not valid Go (stray semicolons), still read without error by ReadImports
	junk("semicolons", long(";", 20000)+"package p"+long(";", 20000)+"import \"a\""+long(";\n", 11000)+"import (;"+long(";", 20000)+"\"b\""+long(";", 20000)+")"+long(";", 12000)+"func f() {}\n")
	// long malformed inputs
	junk("unterminated-string", "package p\nimport \""+long("a", 20000+r.Intn(40000)))
	junk("unterminated-raw-string", "package p\nimport (\n\"a\"\n`"+long("b\n", 15000+r.Intn(10000)))
	junk("unterminated-escapes", "package p\nimport \""+long("\\\"", 12000+r.Intn(10000)))
	junk("unterminated-block-comment", "package p\nimport \"a\"\n/*"+long("* / ", 8000+r.Intn(8000)))
	junk("unterminated-comment-first", "/*"+long("x", 30000+r.Intn(30000)))
	junk("long-garbage-after-error", "package p\nimport x y\n"+long("import \"a\"\n", 3000))
	junk("long-not-go", long("i", 25000))
	junk("many-imports-then-NUL", "package p\n"+long("import \"a\"\n", 2500)+"\x00"+long("import \"b\"\n", 100))
	junk("nested-parens", "package p\nimport ("+long("(", 20000))
	return cs
}

package vsync

// The rest of "sync" and "sync/atomic" that a changed par/work.go is likely to reach for: typed atomics and the
// remaining function forms, the other sync.Map methods, Once, RWMutex, WaitGroup.  They follow the same scheme as
// the operations in vsync.go: a scheduling point in the fine modes (blocking operations: always), an entry in the
// event log carrying the object's identity for the happens-before checker.  The Coq model knows none of them: a
// copy that executes one produces a trace the model cannot follow, which the runner reports as a correspondence
// break, while the direct oracles keep judging the controlled runs.

type integer interface {
	~int32 | ~int64 | ~uint32 | ~uint64 | ~uintptr
}

func aLoad[T integer](p *T) T {
	s := cur
	if s.self() == nil {
		return *p
	}
	s.point(OpAtomicLoad, nil)
	v := *p
	s.logOp(Op{Kind: OpAtomicLoad, N: int64(v), Obj: p})
	return v
}

func aStore[T integer](p *T, v T) {
	s := cur
	if s.self() == nil {
		*p = v
		return
	}
	s.point(OpAtomicStore, nil)
	*p = v
	s.logOp(Op{Kind: OpAtomicStore, N: int64(v), Obj: p})
}

func aRMW[T integer](p *T, f func(old T) (T, bool)) (old T, done bool) {
	s := cur
	if s.self() != nil {
		s.point(OpAtomicRMW, nil)
	}
	old = *p
	nv, ok := f(old)
	if ok {
		*p = nv
	}
	if s.self() != nil {
		s.logOp(Op{Kind: OpAtomicRMW, N: int64(*p), R: int64(old), Hit: ok, Obj: p})
	}
	return old, ok
}

func aAdd[T integer](p *T, d T) T {
	old, _ := aRMW(p, func(o T) (T, bool) { return o + d, true })
	return old + d
}
func aSwap[T integer](p *T, v T) T {
	old, _ := aRMW(p, func(T) (T, bool) { return v, true })
	return old
}
func aCAS[T integer](p *T, o, n T) bool {
	_, ok := aRMW(p, func(c T) (T, bool) { return n, c == o })
	return ok
}

func LoadInt32(p *int32) int32                         { return aLoad(p) }
func LoadInt64(p *int64) int64                         { return aLoad(p) }
func LoadUint64(p *uint64) uint64                      { return aLoad(p) }
func LoadUintptr(p *uintptr) uintptr                   { return aLoad(p) }
func StoreInt32(p *int32, v int32)                     { aStore(p, v) }
func StoreInt64(p *int64, v int64)                     { aStore(p, v) }
func StoreUint64(p *uint64, v uint64)                  { aStore(p, v) }
func StoreUintptr(p *uintptr, v uintptr)               { aStore(p, v) }
func AddInt32(p *int32, d int32) int32                 { return aAdd(p, d) }
func AddInt64(p *int64, d int64) int64                 { return aAdd(p, d) }
func AddUint32(p *uint32, d uint32) uint32             { return aAdd(p, d) }
func AddUint64(p *uint64, d uint64) uint64             { return aAdd(p, d) }
func SwapInt32(p *int32, v int32) int32                { return aSwap(p, v) }
func SwapInt64(p *int64, v int64) int64                { return aSwap(p, v) }
func SwapUint32(p *uint32, v uint32) uint32            { return aSwap(p, v) }
func SwapUint64(p *uint64, v uint64) uint64            { return aSwap(p, v) }
func CompareAndSwapInt32(p *int32, o, n int32) bool    { return aCAS(p, o, n) }
func CompareAndSwapInt64(p *int64, o, n int64) bool    { return aCAS(p, o, n) }
func CompareAndSwapUint32(p *uint32, o, n uint32) bool { return aCAS(p, o, n) }
func CompareAndSwapUint64(p *uint64, o, n uint64) bool { return aCAS(p, o, n) }

type Int32 struct{ v int32 }

func (x *Int32) Load() int32                    { return aLoad(&x.v) }
func (x *Int32) Store(v int32)                  { aStore(&x.v, v) }
func (x *Int32) Add(d int32) int32              { return aAdd(&x.v, d) }
func (x *Int32) Swap(v int32) int32             { return aSwap(&x.v, v) }
func (x *Int32) CompareAndSwap(o, n int32) bool { return aCAS(&x.v, o, n) }

type Int64 struct{ v int64 }

func (x *Int64) Load() int64                    { return aLoad(&x.v) }
func (x *Int64) Store(v int64)                  { aStore(&x.v, v) }
func (x *Int64) Add(d int64) int64              { return aAdd(&x.v, d) }
func (x *Int64) Swap(v int64) int64             { return aSwap(&x.v, v) }
func (x *Int64) CompareAndSwap(o, n int64) bool { return aCAS(&x.v, o, n) }

type Uint32 struct{ v uint32 }

func (x *Uint32) Load() uint32                    { return aLoad(&x.v) }
func (x *Uint32) Store(v uint32)                  { aStore(&x.v, v) }
func (x *Uint32) Add(d uint32) uint32             { return aAdd(&x.v, d) }
func (x *Uint32) Swap(v uint32) uint32            { return aSwap(&x.v, v) }
func (x *Uint32) CompareAndSwap(o, n uint32) bool { return aCAS(&x.v, o, n) }

type Uint64 struct{ v uint64 }

func (x *Uint64) Load() uint64                    { return aLoad(&x.v) }
func (x *Uint64) Store(v uint64)                  { aStore(&x.v, v) }
func (x *Uint64) Add(d uint64) uint64             { return aAdd(&x.v, d) }
func (x *Uint64) Swap(v uint64) uint64            { return aSwap(&x.v, v) }
func (x *Uint64) CompareAndSwap(o, n uint64) bool { return aCAS(&x.v, o, n) }

type Bool struct{ v uint32 }

func b2u(b bool) uint32 {
	if b {
		return 1
	}
	return 0
}
func (x *Bool) Load() bool                    { return aLoad(&x.v) != 0 }
func (x *Bool) Store(v bool)                  { aStore(&x.v, b2u(v)) }
func (x *Bool) Swap(v bool) bool              { return aSwap(&x.v, b2u(v)) != 0 }
func (x *Bool) CompareAndSwap(o, n bool) bool { return aCAS(&x.v, b2u(o), b2u(n)) }

// Pointer is atomic.Pointer[T].
type Pointer[T any] struct{ p *T }

func (x *Pointer[T]) Load() *T {
	s := cur
	if s.self() == nil {
		return x.p
	}
	s.point(OpAtomicLoad, nil)
	v := x.p
	s.logOp(Op{Kind: OpAtomicLoad, Obj: x})
	return v
}
func (x *Pointer[T]) Store(v *T) {
	s := cur
	if s.self() == nil {
		x.p = v
		return
	}
	s.point(OpAtomicStore, nil)
	x.p = v
	s.logOp(Op{Kind: OpAtomicStore, Obj: x})
}
func (x *Pointer[T]) Swap(v *T) *T {
	s := cur
	if s.self() != nil {
		s.point(OpAtomicRMW, nil)
	}
	old := x.p
	x.p = v
	if s.self() != nil {
		s.logOp(Op{Kind: OpAtomicRMW, Hit: true, Obj: x})
	}
	return old
}
func (x *Pointer[T]) CompareAndSwap(o, n *T) bool {
	s := cur
	if s.self() != nil {
		s.point(OpAtomicRMW, nil)
	}
	ok := x.p == o
	if ok {
		x.p = n
	}
	if s.self() != nil {
		s.logOp(Op{Kind: OpAtomicRMW, Hit: ok, Obj: x})
	}
	return ok
}

// Value is atomic.Value (without its type-consistency panics).
type Value struct{ v any }

func (x *Value) Load() any {
	s := cur
	if s.self() == nil {
		return x.v
	}
	s.point(OpAtomicLoad, nil)
	v := x.v
	s.logOp(Op{Kind: OpAtomicLoad, Obj: x})
	return v
}
func (x *Value) Store(v any) {
	if v == nil {
		panic("sync/atomic: store of nil value into Value")
	}
	s := cur
	if s.self() == nil {
		x.v = v
		return
	}
	s.point(OpAtomicStore, nil)
	x.v = v
	s.logOp(Op{Kind: OpAtomicStore, Obj: x})
}

// ---------------------------------------------------------------- the other sync.Map methods

func (m *Map) mapOp(k OpKind, key any, f func() bool) {
	s := cur
	if s.self() != nil {
		s.point(k, nil)
	}
	if m.m == nil {
		m.m = map[any]any{}
	}
	hit := f()
	if s.self() != nil {
		s.logOp(Op{Kind: k, Key: key, Hit: hit, Obj: m})
	}
}

func (m *Map) set(key, value any) {
	if _, ok := m.m[key]; !ok {
		m.order = append(m.order, key)
	}
	m.m[key] = value
}

func (m *Map) del(key any) {
	if _, ok := m.m[key]; ok {
		delete(m.m, key)
		for i, k := range m.order {
			if k == key {
				m.order = append(m.order[:i:i], m.order[i+1:]...)
				break
			}
		}
	}
}

func (m *Map) Store(key, value any) {
	m.mapOp(OpMapStore, key, func() bool { m.set(key, value); return true })
}

func (m *Map) Swap(key, value any) (previous any, loaded bool) {
	m.mapOp(OpMapStore, key, func() bool { previous, loaded = m.m[key]; m.set(key, value); return loaded })
	return
}

func (m *Map) CompareAndSwap(key, old, new any) (swapped bool) {
	m.mapOp(OpMapStore, key, func() bool {
		if v, ok := m.m[key]; ok && v == old {
			m.m[key] = new
			swapped = true
		}
		return swapped
	})
	return
}

func (m *Map) Delete(key any) {
	m.mapOp(OpMapDelete, key, func() bool { _, ok := m.m[key]; m.del(key); return ok })
}

func (m *Map) LoadAndDelete(key any) (value any, loaded bool) {
	m.mapOp(OpMapDelete, key, func() bool { value, loaded = m.m[key]; m.del(key); return loaded })
	return
}

func (m *Map) CompareAndDelete(key, old any) (deleted bool) {
	m.mapOp(OpMapDelete, key, func() bool {
		if v, ok := m.m[key]; ok && v == old {
			m.del(key)
			deleted = true
		}
		return deleted
	})
	return
}

func (m *Map) Clear() {
	m.mapOp(OpMapClear, nil, func() bool { m.m = map[any]any{}; m.order = nil; return true })
}

// Range visits the entries in insertion order; every visited element is a scheduling point of its own (Range is
// not a snapshot: entries stored or deleted meanwhile may or may not be seen).
func (m *Map) Range(f func(key, value any) bool) {
	seen := map[any]bool{}
	for {
		var key, value any
		found := false
		m.mapOp(OpMapRange, nil, func() bool {
			for _, k := range m.order {
				if !seen[k] {
					key, value, found = k, m.m[k], true
					break
				}
			}
			return found
		})
		if !found {
			return
		}
		seen[key] = true
		if !f(key, value) {
			return
		}
	}
}

// ---------------------------------------------------------------- Once, RWMutex, WaitGroup

type Once struct {
	done bool
	m    Mutex
}

func (o *Once) Do(f func()) {
	o.m.Lock()
	defer o.m.Unlock()
	if !o.done {
		defer func() { o.done = true }()
		f()
	}
}

type RWMutex struct {
	w bool
	r int
}

func (m *RWMutex) acquire(ready func() bool, take func()) {
	s := cur
	if s.self() == nil {
		if !ready() {
			panic("vsync: unmanaged acquisition of a held RWMutex")
		}
		take()
		return
	}
	s.block(ready)
	take()
	s.logOp(Op{Kind: OpBlock, Obj: m})
}

func (m *RWMutex) release(put func()) {
	s := cur
	if s.self() != nil {
		s.point(OpRelease, nil)
	}
	put()
	if s.self() != nil {
		s.logOp(Op{Kind: OpRelease, Obj: m})
	}
}

func (m *RWMutex) Lock()  { m.acquire(func() bool { return !m.w && m.r == 0 }, func() { m.w = true }) }
func (m *RWMutex) RLock() { m.acquire(func() bool { return !m.w }, func() { m.r++ }) }
func (m *RWMutex) Unlock() {
	m.release(func() {
		if !m.w {
			panic("sync: Unlock of unlocked RWMutex")
		}
		m.w = false
	})
}
func (m *RWMutex) RUnlock() {
	m.release(func() {
		if m.r == 0 {
			panic("sync: RUnlock of unlocked RWMutex")
		}
		m.r--
	})
}
func (m *RWMutex) TryLock() bool {
	ok := false
	m.release(func() {
		if !m.w && m.r == 0 {
			m.w, ok = true, true
		}
	})
	return ok
}
func (m *RWMutex) TryRLock() bool {
	ok := false
	m.release(func() {
		if !m.w {
			m.r++
			ok = true
		}
	})
	return ok
}

type WaitGroup struct{ n int }

func (g *WaitGroup) Add(d int) {
	s := cur
	if s.self() != nil {
		s.point(OpRelease, nil)
	}
	g.n += d
	if g.n < 0 {
		panic("sync: negative WaitGroup counter")
	}
	if s.self() != nil {
		s.logOp(Op{Kind: OpRelease, Obj: g})
	}
}
func (g *WaitGroup) Done() { g.Add(-1) }
func (g *WaitGroup) Wait() {
	s := cur
	if s.self() == nil {
		if g.n != 0 {
			panic("vsync: unmanaged WaitGroup.Wait would block")
		}
		return
	}
	s.block(func() bool { return g.n == 0 })
	s.logOp(Op{Kind: OpBlock, Obj: g})
}

// ---------------------------------------------------------------- math/rand

func Int31n(n int32) int32 { return int32(Intn(int(n))) }
func Int63n(n int64) int64 { return int64(Intn(int(n))) }

// Package vsync is a drop-in shim for the parts of "sync", "sync/atomic" and
// "math/rand" that /repo/par/work.go uses (Mutex, Cond, Map, LoadUint32,
// StoreUint32, Intn), built on a cooperative scheduler: only one managed
// goroutine runs at a time, and it hands control back to the controller at
// every scheduling point, so an interleaving is a list of decisions (which
// thread runs next, what Intn answers, which waiter a Signal wakes) that can be
// enumerated, drawn from a PRNG, replayed, or taken from the Coq model.
//
// A state in which no managed goroutine is runnable and some have not returned
// is reported as a deadlock instead of being waited for.
//
// Two granularities:
//
//	Coarse: scheduling points are Lock, the re-acquisition after Cond.Wait,
//	        Yield and goroutine exit (one step = one critical section; this is
//	        the step of the par.Work model)
//	Fine:   every operation is a scheduling point (the step of the par.Cache model)
//
// When no scheduler is installed (or the caller is not a managed goroutine, as
// during single-threaded set-up) the operations act directly.
package vsync

import (
	"fmt"
	"runtime"
	"time"
)

// ---------------------------------------------------------------- scheduler

type OpKind int

const (
	OpStart OpKind = iota
	OpLock
	OpUnlock
	OpWait     // entering Cond.Wait (unlock + enqueue)
	OpWaitWake // re-acquiring the mutex after having been signalled
	OpSignal
	OpBroadcast
	OpIntn
	OpLoadU32
	OpStoreU32
	OpMapLoad
	OpMapLoadOrStore
	OpYield
	OpExit
	OpPostUnlock
	OpTryLock
	OpPlainStore
	OpPlainLoad
	OpSpawn
	OpAtomicLoad // the typed / additional atomics (sync/atomic beyond LoadUint32 and StoreUint32)
	OpAtomicStore
	OpAtomicRMW // Add, Swap, CompareAndSwap
	OpMapStore
	OpMapDelete
	OpMapClear
	OpMapRange // one visited element of Range
	OpBlock    // a blocking operation other than Mutex.Lock (RWMutex, WaitGroup.Wait): always a scheduling point
	OpRelease  // its releasing counterpart (RUnlock, WaitGroup.Done, ...)
)

var opNames = [...]string{"start", "lock", "unlock", "wait", "waitwake", "signal", "broadcast", "intn",
	"loadu32", "storeu32", "mapload", "maploadorstore", "yield", "exit", "postunlock", "trylock", "plainstore", "plainload", "spawn",
	"atomicload", "atomicstore", "atomicrmw", "mapstore", "mapdelete", "mapclear", "maprange", "block", "release"}

func (k OpKind) String() string { return opNames[k] }

// Op is one executed operation, as logged.
type Op struct {
	Kind OpKind
	N    int64  // Intn argument / value stored / value loaded
	R    int64  // Intn result
	Key  any    // map key
	Hit  bool   // map Load found / LoadOrStore loaded
	Woke []int  // threads woken by Signal / Broadcast
	Tag  string // Yield tag
	Obj  any    // identity of the object operated on (mutex / cond pointer, address, map), for the happens-before checker
}

// Event is one executed operation in global execution order (start segments included).
type Event struct {
	T  int
	Op Op
}

// Step is what one granted thread did until its next scheduling point.
type Step struct {
	T            int
	Ops          []Op
	Exited       bool
	EnabledAfter []int // threads with an enabled pending operation after the step
	// After: where every thread stands after the step, one byte per thread: 'L' about to Lock a mutex, 'p' parked in
	// Cond.Wait (not signalled), 'n' signalled, has not re-acquired the mutex yet, 'y' at a Yield, 'x' returned,
	// 'b' at another blocking operation, '.' at any other operation
	After []byte
}

// Note is a harness trace entry (vsync.Trace), with the index of the step during which it was emitted
// (-1: before the first step, i.e. while threads ran to their first scheduling point).
type Note struct {
	T    int
	Step int
	Text string
}

// Decision is one nondeterministic choice of a run with the alternatives that existed.
type Decision struct {
	Kind    string // "thread" | "intn" | "wake"
	Options []int  // thread ids (thread, wake) or 0..n-1 (intn)
	Chosen  int    // index into Options
	Cur     int    // thread that ran last (thread decisions): choosing another enabled one is a pre-emption
	CurOK   bool   // Cur is among Options
}

// Strategy makes the choices. Both functions return an index into options.
type Strategy interface {
	PickThread(options []int, cur int, curOK bool, step int) int
	Choose(kind string, t int, options []int) int
}

type Outcome struct {
	Steps     []Step
	Notes     []Note
	Decisions []Decision
	Deadlock  bool  // no thread runnable, some not returned
	Blocked   []int // the threads that had not returned then
	Panic     string
	StepLimit bool
	Stuck     bool // a goroutine blocked outside the shim (cannot be controlled)
	Threads   int
	Events    []Event // every logged operation, in execution order
	Mode      Mode
}

type pending struct {
	kind  OpKind
	mu    *Mutex
	ready func() bool // OpBlock: is the operation enabled now?
}

type thread struct {
	id       int
	grant    chan struct{}
	pend     pending
	done     bool
	notified bool
	body     func()
}

// Mode is the granularity of a run.
type Mode int

const (
	Coarse     Mode = iota // scheduling points: Lock, wake-up from Wait, Yield
	Fine                   // + before every other operation
	FineUnlock             // + once more right after every Unlock (the statements that follow a release can then be
	//                        separated from it: exposes shared accesses made after the lock was dropped)
)

type Sched struct {
	fine     bool
	postUnl  bool
	strat    Strategy
	threads  []*thread
	running  *thread
	yield    chan *thread
	steps    []Step
	curStep  *Step
	notes    []Note
	decs     []Decision
	aborted  bool
	panicMsg string
	maxSteps int
	events   []Event
}

// cur is the installed scheduler; set only by Run, which is not re-entrant.
var cur *Sched

type abortToken struct{}

func (s *Sched) self() *thread {
	if s == nil {
		return nil
	}
	return s.running
}

// isPoint: does this operation hand control to the controller before executing?
func (s *Sched) isPoint(k OpKind) bool {
	switch k {
	case OpLock, OpWaitWake, OpYield, OpBlock:
		return true
	}
	return s.fine
}

// point is called by the running managed goroutine before executing op k.
func (s *Sched) point(k OpKind, mu *Mutex) {
	t := s.running
	if !s.isPoint(k) {
		return
	}
	t.pend = pending{kind: k, mu: mu}
	s.yield <- t
	<-t.grant
	if s.aborted {
		runtime.Goexit()
	}
}

// block is a scheduling point at which the thread is enabled only while ready() holds.
func (s *Sched) block(ready func() bool) {
	t := s.running
	t.pend = pending{kind: OpBlock, ready: ready}
	s.yield <- t
	<-t.grant
	if s.aborted {
		runtime.Goexit()
	}
	if !ready() {
		panic("vsync: blocking operation granted while not enabled")
	}
}

func (s *Sched) logOp(o Op) {
	if s.running != nil {
		s.events = append(s.events, Event{T: s.running.id, Op: o})
	}
	if s.curStep != nil {
		s.curStep.Ops = append(s.curStep.Ops, o)
	}
}

func (s *Sched) choose(kind string, t int, options []int) int {
	i := s.strat.Choose(kind, t, options)
	if i < 0 || i >= len(options) {
		i = 0
	}
	s.decs = append(s.decs, Decision{Kind: kind, Options: append([]int{}, options...), Chosen: i})
	return i
}

func (s *Sched) enabledOf(t *thread) bool {
	if t.done {
		return false
	}
	switch t.pend.kind {
	case OpLock:
		return !t.pend.mu.held
	case OpWaitWake:
		return t.notified && !t.pend.mu.held
	case OpBlock:
		return t.pend.ready()
	}
	return true
}

func (s *Sched) spawn(body func()) *thread {
	t := &thread{id: len(s.threads), grant: make(chan struct{}), pend: pending{kind: OpStart}, body: body}
	s.threads = append(s.threads, t)
	go func() {
		defer func() {
			if r := recover(); r != nil {
				if _, ok := r.(abortToken); !ok && s.panicMsg == "" {
					s.panicMsg = fmt.Sprint(r)
				}
			}
			t.done = true
			t.pend = pending{kind: OpExit}
			if s.curStep != nil && s.running == t {
				s.curStep.Exited = true
			}
			s.yield <- t
		}()
		<-t.grant
		if s.aborted {
			runtime.Goexit()
		}
		t.body()
	}()
	return t
}

// resume lets t run until it yields again; false = it did not come back (blocked outside the shim).
func (s *Sched) resume(t *thread) bool {
	s.running = t
	t.grant <- struct{}{}
	select {
	case <-s.yield:
		s.running = nil
		return true
	case <-time.After(20 * time.Second):
		return false
	}
}

func (s *Sched) snapshot() []byte {
	b := make([]byte, len(s.threads))
	for i, t := range s.threads {
		switch {
		case t.done:
			b[i] = 'x'
		case t.pend.kind == OpLock:
			b[i] = 'L'
		case t.pend.kind == OpWaitWake && t.notified:
			b[i] = 'n'
		case t.pend.kind == OpWaitWake:
			b[i] = 'p'
		case t.pend.kind == OpYield:
			b[i] = 'y'
		case t.pend.kind == OpBlock:
			b[i] = 'b'
		default:
			b[i] = '.'
		}
	}
	return b
}

// Run executes the bodies as managed threads 0..len-1 (they may start more with Go) under the
// strategy and returns what happened. fine selects the granularity.
func Run(mode Mode, strat Strategy, maxSteps int, bodies ...func()) *Outcome {
	s := &Sched{fine: mode != Coarse, postUnl: mode == FineUnlock, strat: strat, yield: make(chan *thread), maxSteps: maxSteps}
	cur = s
	defer func() { cur = nil }()
	for _, b := range bodies {
		s.spawn(b)
	}
	out := &Outcome{Mode: mode}
	last := -1
	stuck := false
loop:
	for {
		// threads that have not started run to their first scheduling point (not a decision)
		for i := 0; i < len(s.threads); i++ {
			t := s.threads[i]
			if !t.done && t.pend.kind == OpStart {
				s.curStep = nil
				if !s.resume(t) {
					stuck = true
					break loop
				}
				if s.panicMsg != "" {
					break loop
				}
				i = -1 // it may have spawned threads with smaller index still unstarted (never, but cheap)
			}
		}
		var en []int
		alive := 0
		for _, t := range s.threads {
			if !t.done {
				alive++
				if s.enabledOf(t) {
					en = append(en, t.id)
				}
			}
		}
		if n := len(s.steps); n > 0 {
			s.steps[n-1].EnabledAfter = en
			s.steps[n-1].After = s.snapshot()
		}
		if alive == 0 {
			break
		}
		if len(en) == 0 {
			out.Deadlock = true
			for _, t := range s.threads {
				if !t.done {
					out.Blocked = append(out.Blocked, t.id)
				}
			}
			break
		}
		if len(s.steps) >= s.maxSteps {
			out.StepLimit = true
			break
		}
		curOK := false
		for _, e := range en {
			if e == last {
				curOK = true
			}
		}
		// options: the thread that ran last first (continuing it is not a pre-emption), then ascending
		opts := make([]int, 0, len(en))
		if curOK {
			opts = append(opts, last)
		}
		for _, e := range en {
			if !(curOK && e == last) {
				opts = append(opts, e)
			}
		}
		i := s.strat.PickThread(opts, last, curOK, len(s.steps))
		if i < 0 || i >= len(opts) {
			i = 0
		}
		s.decs = append(s.decs, Decision{Kind: "thread", Options: opts, Chosen: i, Cur: last, CurOK: curOK})
		t := s.threads[opts[i]]
		s.steps = append(s.steps, Step{T: t.id})
		s.curStep = &s.steps[len(s.steps)-1]
		if !s.resume(t) {
			stuck = true
			break
		}
		s.curStep = nil
		last = t.id
		if s.panicMsg != "" {
			break
		}
	}
	// release every goroutine that is still parked in the shim
	s.aborted = true
	s.curStep = nil
	if !stuck {
		for _, t := range s.threads {
			if !t.done {
				s.resume(t)
			}
		}
	}
	out.Steps, out.Notes, out.Decisions = s.steps, s.notes, s.decs
	out.Panic, out.Stuck, out.Threads = s.panicMsg, stuck, len(s.threads)
	out.Events = s.events
	return out
}

// ---------------------------------------------------------------- API for the harness

// Go replaces the go statement in the instrumented copy.
func Go(f func()) {
	s := cur
	if s.self() == nil {
		go f()
		return
	}
	t := s.spawn(f)
	s.logOp(Op{Kind: OpSpawn, R: int64(t.id)})
}

// Yield is an explicit scheduling point (used by the harness's user functions).
func Yield(tag string) {
	s := cur
	if s.self() == nil {
		return
	}
	s.point(OpYield, nil)
	s.logOp(Op{Kind: OpYield, Tag: tag})
}

// Self returns the id of the running managed thread (-1 outside).
func Self() int {
	if t := cur.self(); t != nil {
		return t.id
	}
	return -1
}

// Trace records a harness event in the run's log.
func Trace(text string) {
	s := cur
	t := s.self()
	if t == nil {
		return
	}
	idx := -1
	if s.curStep != nil {
		idx = len(s.steps) - 1
	}
	s.notes = append(s.notes, Note{T: t.id, Step: idx, Text: text})
}

// ---------------------------------------------------------------- sync

type Locker interface {
	Lock()
	Unlock()
}

type Mutex struct{ held bool }

func (m *Mutex) Lock() {
	s := cur
	if s.self() == nil {
		if m.held {
			panic("vsync: unmanaged Lock of a held mutex")
		}
		m.held = true
		return
	}
	s.point(OpLock, m)
	if m.held {
		panic("vsync: Lock granted while held")
	}
	m.held = true
	s.logOp(Op{Kind: OpLock, Obj: m})
}

// TryLock never blocks: it is an ordinary (fine-grained) scheduling point.
func (m *Mutex) TryLock() bool {
	s := cur
	if s.self() == nil {
		if m.held {
			return false
		}
		m.held = true
		return true
	}
	s.point(OpTryLock, nil)
	ok := !m.held
	if ok {
		m.held = true
	}
	s.logOp(Op{Kind: OpTryLock, Hit: ok, Obj: m})
	return ok
}

func (m *Mutex) Unlock() {
	s := cur
	if s.self() == nil {
		if !m.held {
			panic("sync: unlock of unlocked mutex")
		}
		m.held = false
		return
	}
	s.point(OpUnlock, m)
	if !m.held {
		panic("sync: unlock of unlocked mutex")
	}
	m.held = false
	s.logOp(Op{Kind: OpUnlock, Obj: m})
	if s.postUnl {
		s.point(OpPostUnlock, nil)
		s.logOp(Op{Kind: OpPostUnlock})
	}
}

type Cond struct {
	L       Locker
	waiters []*thread
}

func NewCond(l Locker) *Cond { return &Cond{L: l} }

func (c *Cond) mutex() *Mutex {
	m, ok := c.L.(*Mutex)
	if !ok {
		panic("vsync: Cond.L is not a *vsync.Mutex")
	}
	return m
}

func (c *Cond) Wait() {
	s := cur
	t := s.self()
	if t == nil {
		panic("vsync: Cond.Wait outside a managed goroutine")
	}
	m := c.mutex()
	s.point(OpWait, m)
	if !m.held {
		panic("sync: unlock of unlocked mutex")
	}
	m.held = false
	t.notified = false
	c.waiters = append(c.waiters, t)
	s.logOp(Op{Kind: OpWait, Obj: m})
	// blocked until notified and the mutex is free: always a scheduling point
	t.pend = pending{kind: OpWaitWake, mu: m}
	s.yield <- t
	<-t.grant
	if s.aborted {
		runtime.Goexit()
	}
	if m.held || !t.notified {
		panic("vsync: Wait resumed while not runnable")
	}
	m.held = true
	s.logOp(Op{Kind: OpWaitWake, Obj: m})
}

func (c *Cond) Signal() {
	s := cur
	t := s.self()
	if t == nil {
		return
	}
	s.point(OpSignal, nil)
	o := Op{Kind: OpSignal}
	if len(c.waiters) > 0 {
		ids := make([]int, len(c.waiters))
		for i, w := range c.waiters {
			ids[i] = w.id
		}
		i := 0
		if len(ids) > 1 {
			i = s.choose("wake", t.id, ids) // sync.Cond wakes the longest waiter (index 0); any is allowed
		}
		w := c.waiters[i]
		c.waiters = append(c.waiters[:i:i], c.waiters[i+1:]...)
		w.notified = true
		o.Woke = []int{w.id}
	}
	s.logOp(o)
}

func (c *Cond) Broadcast() {
	s := cur
	if s.self() == nil {
		return
	}
	s.point(OpBroadcast, nil)
	o := Op{Kind: OpBroadcast}
	for _, w := range c.waiters {
		w.notified = true
		o.Woke = append(o.Woke, w.id)
	}
	c.waiters = nil
	s.logOp(o)
}

// Map provides the two sync.Map methods par.Cache uses.
type Map struct {
	m     map[any]any
	order []any // keys in insertion order (Range is deterministic)
}

func (m *Map) Load(key any) (value any, ok bool) {
	s := cur
	if s.self() != nil {
		s.point(OpMapLoad, nil)
	}
	value, ok = m.m[key]
	if s.self() != nil {
		s.logOp(Op{Kind: OpMapLoad, Key: key, Hit: ok, Obj: m})
	}
	return
}

func (m *Map) LoadOrStore(key, value any) (actual any, loaded bool) {
	s := cur
	if s.self() != nil {
		s.point(OpMapLoadOrStore, nil)
	}
	if m.m == nil {
		m.m = map[any]any{}
	}
	actual, loaded = m.m[key]
	if !loaded {
		m.m[key] = value
		m.order = append(m.order, key)
		actual = value
	}
	if s.self() != nil {
		s.logOp(Op{Kind: OpMapLoadOrStore, Key: key, Hit: loaded, Obj: m})
	}
	return
}

// ---------------------------------------------------------------- sync/atomic

func LoadUint32(addr *uint32) uint32 {
	s := cur
	if s.self() == nil {
		return *addr
	}
	s.point(OpLoadU32, nil)
	v := *addr
	s.logOp(Op{Kind: OpLoadU32, N: int64(v), Obj: addr})
	return v
}

func StoreUint32(addr *uint32, val uint32) {
	s := cur
	if s.self() == nil {
		*addr = val
		return
	}
	s.point(OpStoreU32, nil)
	*addr = val
	s.logOp(Op{Kind: OpStoreU32, N: int64(val), Obj: addr})
}

// ---------------------------------------------------------------- math/rand

func Intn(n int) int {
	if n <= 0 {
		panic("invalid argument to Intn")
	}
	s := cur
	t := s.self()
	if t == nil {
		return 0
	}
	s.point(OpIntn, nil)
	if n > 1<<16 {
		n = 1 << 16 // any answer below the argument is allowed; keep the option list small
	}
	opts := make([]int, n)
	for i := range opts {
		opts[i] = i
	}
	r := 0
	if n > 1 {
		r = s.choose("intn", t.id, opts)
	}
	s.logOp(Op{Kind: OpIntn, N: int64(n), R: int64(r)})
	return r
}

// ---------------------------------------------------------------- plain (non-atomic) accesses

// PlainStore / PlainLoad stand for an ordinary assignment to / read of a shared variable in the instrumented
// copy (pargen rewrites `e.result = v` and reads of e.result into them).  They are scheduling points in the
// fine modes, so the accesses can be separated from the synchronisation operations around them, and they are
// logged with the address, so that the runner can check that conflicting accesses are ordered by
// happens-before.
func PlainStore[T any](p *T, v T) {
	s := cur
	if s.self() == nil {
		*p = v
		return
	}
	s.point(OpPlainStore, nil)
	*p = v
	s.logOp(Op{Kind: OpPlainStore, Obj: p})
}

func PlainLoad[T any](p *T) T {
	s := cur
	if s.self() == nil {
		return *p
	}
	s.point(OpPlainLoad, nil)
	v := *p
	s.logOp(Op{Kind: OpPlainLoad, Obj: p})
	return v
}

// Touch records a plain access to a shared variable without being a scheduling point: pargen inserts it in front
// of every statement of the Work methods that reads or writes one of Work's ordinary fields (todo, added,
// waiting, running, f), so that the runner's happens-before checker can verify the lock discipline that the
// model's "one critical section = one step" rests on.
func Touch[T any](p *T, write bool) {
	s := cur
	if s.self() == nil {
		return
	}
	k := OpPlainLoad
	if write {
		k = OpPlainStore
	}
	s.logOp(Op{Kind: k, Obj: p, Tag: "touch"})
}

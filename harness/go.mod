module verif/harness

go 1.23

require (
	github.com/rogpeppe/go-internal v0.0.0
	golang.org/x/mod v0.21.0
	golang.org/x/sys v0.26.0
	golang.org/x/tools v0.26.0
)

replace github.com/rogpeppe/go-internal => /repo

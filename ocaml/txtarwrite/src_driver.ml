(* Driver of the functions of txtar/archive.go and cmd/txtar-c/savedir.go TRANSLATED from the
   source (coq/extracted/txtarwrite/src.ml, from Gen/TxtarWriteWorldSrc.v run over the
   file-system model by TxtarWrite/SrcWalk.v; built by ocaml/build_src.sh into
   bin/model_txtarwrite_src).  All strings are hex ("-" = empty).  Requests:
     srcwrite <cwd> <dir> <nfs> (<path> D|F <data>)* <nfiles> (<name> <data>)*
         -> <res> <n> (<path> D|F <data>)*   the translated txtar.Write over the model's file
            system (same request and answer as `write` of the hand-written model's driver),
            or PANIC | OUTOFFUEL
     srcsavedirtree <quote 0|1> <all 0|1> <n> (<relpath> <data>)* <m> (<relpath of a directory>)*
         -> <hex of format (the archive)>: filepath.Walk (hand-modelled, SrcWalk.walk_root) over the
            tree, calling the TRANSLATED walk function of txtar-c, which reads the files from a
            file system holding the tree at /d; or ERR | PANIC | OUTOFFUEL
   <res> = ok | outside | mkdir:<errno> | open:<errno> | fuel *)
let errno_s = function EEXIST -> "EEXIST" | ENOENT -> "ENOENT" | ENOTDIR -> "ENOTDIR"
  | EISDIR -> "EISDIR" | EINVAL -> "EINVAL"
let res_s = function
  | WOk -> "ok" | WOutside -> "outside" | WOutOfFuel -> "fuel"
  | WErr (OpMkdir, e) -> "mkdir:" ^ errno_s e
  | WErr (OpOpen, e) -> "open:" ^ errno_s e
let path_of_hex h : path = resolve [] (bytes_of_hex h)
let path_string (p : path) : string =
  if p = [] then "/" else String.concat "" (List.map (fun c -> "/" ^ string_of_bytes c) p)
let hex_of_string s = hex_of_bytes (bytes_of_string s)
let rec take_fs n l acc =
  if n = 0 then (List.rev acc, l) else
  match l with
  | p :: k :: d :: r ->
      let node = if k = "D" then Dir else File (bytes_of_hex d) in
      take_fs (n - 1) r ((path_of_hex p, node) :: acc)
  | _ -> failwith "bad fs"
let rec take_files n l acc =
  if n = 0 then (List.rev acc, l) else
  match l with
  | a :: d :: r -> take_files (n - 1) r ((bytes_of_hex a, bytes_of_hex d) :: acc)
  | _ -> failwith "bad files"
let show_fs (fs : fsys) =
  let seen = Hashtbl.create 64 in
  let items = List.filter_map (fun (p, n) ->
    let s = path_string p in
    if Hashtbl.mem seen s then None else (Hashtbl.add seen s (); Some (s, n))) fs in
  let items = List.sort (fun (a, _) (b, _) -> compare a b) items in
  string_of_int (List.length items) ^
  String.concat "" (List.map (fun (s, n) ->
    " " ^ hex_of_string s ^ (match n with Dir -> " D -" | File d -> " F " ^ hex_of_bytes d)) items)
let bool01 s = (s = "1")
let rec build_tree (items : (byte list list * byte list option) list) : (byte list * rnode) list =
  let names = List.fold_left (fun acc (p, _) ->
    match p with n :: _ when not (List.mem n acc) -> acc @ [n] | _ -> acc) [] items in
  List.map (fun n ->
    let subs = List.filter_map (fun (p, v) -> match p with
      | h :: t when h = n -> Some (t, v) | _ -> None) items in
    match List.find_opt (fun (t, v) -> t = [] && v <> None) subs with
    | Some (_, Some d) -> (n, RFile d)
    | _ -> (n, RDir (build_tree (List.filter (fun (t, _) -> t <> []) subs)))) names
let rec take_dirs n l acc =
  if n = 0 then List.rev acc else
  match l with d :: r -> take_dirs (n - 1) r (bytes_of_hex d :: acc) | [] -> failwith "bad dirs"
(* the file system that holds the tree at /d: every file, every directory named, every ancestor *)
let root_d = bytes_of_string "/d"
let rec prefixes = function [] -> [] | x :: r -> [x] :: List.map (fun p -> x :: p) (prefixes r)
let tree_fs (files : (byte list * byte list) list) (dirs : byte list list) : fsys =
  let d = resolve [] root_d in
  let fentries = List.map (fun (p, data) -> (d @ split_sep p, File data)) files in
  let anc p = List.map (fun q -> (d @ q, Dir)) (prefixes (split_sep p)) in
  let proper p = match List.rev (prefixes (split_sep p)) with [] -> [] | _ :: r -> List.map (fun q -> (d @ q, Dir)) r in
  fentries @ ((d, Dir) :: List.concat_map (fun (p, _) -> proper p) files) @ List.concat_map anc dirs
let handle = function
  | "srcwrite" :: cwd :: dir :: nfs :: r ->
      let (fs, r) = take_fs (int_of_string nfs) r [] in
      (match r with
       | nf :: r ->
           let (files, _) = take_files (int_of_string nf) r [] in
           (match src_write_model (path_of_hex cwd) fs { comment = []; files = files } (bytes_of_hex dir) with
            | Ok (fs', res) -> res_s res ^ " " ^ show_fs fs'
            | Panic -> "PANIC" | OutOfFuel -> "OUTOFFUEL")
       | [] -> "BAD-REQUEST")
  | "srcsavedirtree" :: q :: a :: n :: r ->
      let (files, r) = take_files (int_of_string n) r [] in
      let dirs = (match r with m :: r -> take_dirs (int_of_string m) r [] | [] -> []) in
      let items = List.map (fun (p, d) -> (split_sep p, Some d)) files
                @ List.map (fun p -> (split_sep p, None)) dirs in
      let fl = { f_quote = bool01 q; f_all = bool01 a } in
      (match src_savedir_walk [] fl (tree_fs files dirs) root_d (rsort_tree (build_tree items)) with
       | Ok ((_, Some arch), WNil) -> hex_of_bytes (format arch)
       | Ok _ -> "ERR" | Panic -> "PANIC" | OutOfFuel -> "OUTOFFUEL")
  | _ -> "BAD-REQUEST"
let () = serve handle

(* txtar.Write / txtar-c / txtar-x model driver (group txtarwrite).  All strings are hex
   ("-" = empty).  Paths of file-system objects are absolute path strings.  Requests:
     clean <p> | dir <p> | parent <p>      -> <hex>
     join <a> <b>                          -> <hex>
     isabs <p>                             -> true|false
     write <cwd> <dir> <nfs> (<path> D|F <data>)* <nfiles> (<name> <data>)*
                                           -> <res> <n> (<path> D|F <data>)*   (sorted by path)
     extract <cwd> <dir> <nfs> (<path> D|F <data>)* <input>
                                           -> same
     savedir <quote 0|1> <all 0|1> <n> (<relpath> <data>)*
                                           -> <hex of the bytes txtar-c prints>
     savedirtree <quote> <all> <n> (<relpath> <data>)* <m> (<relpath of a directory>)*
                                           -> <hex of format (savedir_tree ...)>: the same through the
                                              rose-tree walk (empty directories included)
     swrite <cwd> <dir> <nfs> (<path> D|F|L <data or link target>)* <nfiles> (<name> <data>)*
                                           -> <res> <n> (<path> D|F|L <data or target>)*   (model with symbolic links)
     entryname <dir argument> <relpath>    -> <hex: the archive name txtar-c gives the file>
     mode <umask decimal> D|F              -> <decimal permission bits of a created object>
     restore <archive bytes> <name> <stored>
                                           -> ok <hex> | err
     writef <cwd> <dir> <nfs> (<path> D|F <data>)* <nfiles> (<name> <data>)* <nfaults> (<entry index> mkdir|open|close|short:<k>)*
                                           -> <res'> <n> (<path> D|F <data>)* T <m> (O:<path> | W:<path>:<len> | C:<path>)*
                                              Write with descriptors and injected failures (write_f): the events on
                                              the created files in program order
     xmain <cwd> <nfs> (<path> D|F <data>)* <nargs> <arg>* <stdin>
                                           -> <res''> <n> (<path> D|F <data>)*   (txtar_x_main: flag parsing, file argument or stdin)
     cmain <nargs> <arg>* <n> (<relpath> <data>)*
                                           -> <hex of the bytes txtar-c prints> | usage   (txtar_c_main)
   <res> = ok | outside | mkdir:<errno> | open:<errno> | fuel
   <res'> = <res> | fault:mkdir | fault:open | fault:write | fault:close
   <res''> = <res> | read:<errno> | usage *)
let errno_s = function EEXIST -> "EEXIST" | ENOENT -> "ENOENT" | ENOTDIR -> "ENOTDIR"
  | EISDIR -> "EISDIR" | EINVAL -> "EINVAL"
let res_s = function
  | WOk -> "ok" | WOutside -> "outside" | WOutOfFuel -> "fuel"
  | WErr (OpMkdir, e) -> "mkdir:" ^ errno_s e
  | WErr (OpOpen, e) -> "open:" ^ errno_s e
let path_of_hex h : path = resolve [] (bytes_of_hex h)
let path_string (p : path) : string =
  if p = [] then "/" else String.concat "" (List.map (fun c -> "/" ^ string_of_bytes c) p)
let hex_of_string s = hex_of_bytes (bytes_of_string s)
let rec take_fs n l acc =
  if n = 0 then (List.rev acc, l) else
  match l with
  | p :: k :: d :: r ->
      let node = if k = "D" then Dir else File (bytes_of_hex d) in
      take_fs (n - 1) r ((path_of_hex p, node) :: acc)
  | _ -> failwith "bad fs"
let rec take_files n l acc =
  if n = 0 then (List.rev acc, l) else
  match l with
  | a :: d :: r -> take_files (n - 1) r ((bytes_of_hex a, bytes_of_hex d) :: acc)
  | _ -> failwith "bad files"
let show_fs (fs : fsys) =
  (* first binding wins *)
  let seen = Hashtbl.create 64 in
  let items = List.filter_map (fun (p, n) ->
    let s = path_string p in
    if Hashtbl.mem seen s then None else (Hashtbl.add seen s (); Some (s, n))) fs in
  let items = List.sort (fun (a, _) (b, _) -> compare a b) items in
  string_of_int (List.length items) ^
  String.concat "" (List.map (fun (s, n) ->
    " " ^ hex_of_string s ^ (match n with Dir -> " D -" | File d -> " F " ^ hex_of_bytes d)) items)
let serrno_s = function S_EEXIST -> "EEXIST" | S_ENOENT -> "ENOENT" | S_ENOTDIR -> "ENOTDIR"
  | S_ELOOP -> "ELOOP" | S_EINVAL -> "EINVAL"
let sres_s = function
  | SOk -> "ok" | SOutside -> "outside" | SOutOfFuel -> "fuel"
  | SErrMkdir e -> "mkdir:" ^ serrno_s e | SErrOpen e -> "open:" ^ serrno_s e
let rec take_sfs n l acc =
  if n = 0 then (List.rev acc, l) else
  match l with
  | p :: k :: d :: r ->
      let node = if k = "D" then SDir else if k = "L" then SLink (bytes_of_hex d) else SFile (bytes_of_hex d) in
      take_sfs (n - 1) r ((path_of_hex p, node) :: acc)
  | _ -> failwith "bad sfs"
let show_sfs (fs : sfsys) =
  let seen = Hashtbl.create 64 in
  let items = List.filter_map (fun (p, n) ->
    let s = path_string p in
    if Hashtbl.mem seen s then None else (Hashtbl.add seen s (); Some (s, n))) fs in
  let items = List.sort (fun (a, _) (b, _) -> compare a b) items in
  string_of_int (List.length items) ^
  String.concat "" (List.map (fun (s, n) ->
    " " ^ hex_of_string s ^ (match n with SDir -> " D -" | SFile d -> " F " ^ hex_of_bytes d
                                        | SLink t -> " L " ^ hex_of_bytes t)) items)
let bool01 s = (s = "1")
(* build the rose tree from (elements, Some data | None = directory) items *)
let rec build_tree (items : (byte list list * byte list option) list) : (byte list * rnode) list =
  let names = List.fold_left (fun acc (p, _) ->
    match p with n :: _ when not (List.mem n acc) -> acc @ [n] | _ -> acc) [] items in
  List.map (fun n ->
    let subs = List.filter_map (fun (p, v) -> match p with
      | h :: t when h = n -> Some (t, v) | _ -> None) items in
    match List.find_opt (fun (t, v) -> t = [] && v <> None) subs with
    | Some (_, Some d) -> (n, RFile d)
    | _ -> (n, RDir (build_tree (List.filter (fun (t, _) -> t <> []) subs)))) names
let rec take_dirs n l acc =
  if n = 0 then List.rev acc else
  match l with d :: r -> take_dirs (n - 1) r (bytes_of_hex d :: acc) | [] -> failwith "bad dirs"
let fres_s = function
  | FR r -> res_s r
  | FFault IoMkdir -> "fault:mkdir" | FFault IoOpen -> "fault:open"
  | FFault IoWrite -> "fault:write" | FFault IoClose -> "fault:close"
let xres_s = function
  | XR r -> res_s r | XReadErr e -> "read:" ^ errno_s e | XUsageExit -> "usage"
let ev_s = function
  | EvOpen p -> "O:" ^ hex_of_string (path_string p)
  | EvWrite (p, n) -> "W:" ^ hex_of_string (path_string p) ^ ":" ^ string_of_int (int_of_nat n)
  | EvClose p -> "C:" ^ hex_of_string (path_string p)
let rec take_faults n l acc =
  if n = 0 then List.rev acc else
  match l with
  | i :: k :: r ->
      let ft = match String.split_on_char ':' k with
        | ["mkdir"] -> FMkdir | ["open"] -> FOpen | ["close"] -> FClose
        | ["short"; m] -> FShort (nat_of_int (int_of_string m))
        | _ -> failwith "bad fault" in
      take_faults (n - 1) r ((int_of_string i, ft) :: acc)
  | _ -> failwith "bad faults"
let rec take_args n l acc =
  if n = 0 then (List.rev acc, l) else
  match l with a :: r -> take_args (n - 1) r (bytes_of_hex a :: acc) | [] -> failwith "bad args"
let () = serve (function
  | ["clean"; p] -> hex_of_bytes (clean (bytes_of_hex p))
  | ["dir"; p] -> hex_of_bytes (dir_of (bytes_of_hex p))
  | ["parent"; p] -> hex_of_bytes (parent_str (bytes_of_hex p))
  | ["join"; a; b] -> hex_of_bytes (join (bytes_of_hex a) (bytes_of_hex b))
  | ["isabs"; p] -> string_of_bool (is_abs (bytes_of_hex p))
  | "write" :: cwd :: dir :: nfs :: r ->
      let (fs, r) = take_fs (int_of_string nfs) r [] in
      (match r with
       | nf :: r ->
           let (files, _) = take_files (int_of_string nf) r [] in
           let (fs', res) = write (path_of_hex cwd) fs (bytes_of_hex dir) { comment = []; files = files } in
           res_s res ^ " " ^ show_fs fs'
       | [] -> "BAD-REQUEST")
  | "writef" :: cwd :: dir :: nfs :: r ->
      let (fs, r) = take_fs (int_of_string nfs) r [] in
      (match r with
       | nf :: r ->
           let (files, r) = take_files (int_of_string nf) r [] in
           let faults = (match r with m :: r -> take_faults (int_of_string m) r [] | [] -> []) in
           let world (i : nat) = (match List.assoc_opt (int_of_nat i) faults with Some ft -> ft | None -> FNone) in
           let ((fs', res), tr) = write_f world (path_of_hex cwd) fs (bytes_of_hex dir) { comment = []; files = files } in
           fres_s res ^ " " ^ show_fs fs' ^ " T " ^ string_of_int (List.length tr) ^
           String.concat "" (List.map (fun e -> " " ^ ev_s e) tr)
       | [] -> "BAD-REQUEST")
  | "xmain" :: cwd :: nfs :: r ->
      let (fs, r) = take_fs (int_of_string nfs) r [] in
      (match r with
       | na :: r ->
           let (args, r) = take_args (int_of_string na) r [] in
           (match r with
            | [stdin] ->
                let (fs', res) = txtar_x_main (path_of_hex cwd) fs args (bytes_of_hex stdin) in
                xres_s res ^ " " ^ show_fs fs'
            | _ -> "BAD-REQUEST")
       | [] -> "BAD-REQUEST")
  | "cmain" :: na :: r ->
      let (args, r) = take_args (int_of_string na) r [] in
      (match r with
       | n :: r ->
           let (files, _) = take_files (int_of_string n) r [] in
           let t = List.map (fun (p, d) -> (split_sep p, d)) files in
           (match txtar_c_main args t with Some b -> hex_of_bytes b | None -> "usage")
       | [] -> "BAD-REQUEST")
  | "extract" :: cwd :: dir :: nfs :: r ->
      let (fs, r) = take_fs (int_of_string nfs) r [] in
      (match r with
       | [input] ->
           let (fs', res) = extract (path_of_hex cwd) fs (bytes_of_hex dir) (bytes_of_hex input) in
           res_s res ^ " " ^ show_fs fs'
       | _ -> "BAD-REQUEST")
  | "savedir" :: q :: a :: n :: r ->
      let (files, _) = take_files (int_of_string n) r [] in
      let t = List.map (fun (p, d) -> (split_sep p, d)) files in
      hex_of_bytes (txtar_c { f_quote = bool01 q; f_all = bool01 a } t)
  | "swrite" :: cwd :: dir :: nfs :: r ->
      let (fs, r) = take_sfs (int_of_string nfs) r [] in
      (match r with
       | nf :: r ->
           let (files, _) = take_files (int_of_string nf) r [] in
           let (fs', res) = s_write (path_of_hex cwd) fs (bytes_of_hex dir) files in
           sres_s res ^ " " ^ show_sfs fs'
       | [] -> "BAD-REQUEST")
  | "savedirtree" :: q :: a :: n :: r ->
      let (files, r) = take_files (int_of_string n) r [] in
      let dirs = (match r with m :: r -> take_dirs (int_of_string m) r [] | [] -> []) in
      let items = List.map (fun (p, d) -> (split_sep p, Some d)) files
                @ List.map (fun p -> (split_sep p, None)) dirs in
      hex_of_bytes (format (savedir_tree { f_quote = bool01 q; f_all = bool01 a } (build_tree items)))
  | ["entryname"; d; p] -> hex_of_bytes (entry_name (clean (bytes_of_hex d)) (split_sep (bytes_of_hex p)))
  | ["mode"; u; k] ->
      string_of_int (int_of_n (created_mode (n_of_int (int_of_string u)) (if k = "D" then Dir else File [])))
  | ["restore"; arch; name; stored] ->
      (match restored (parse (bytes_of_hex arch)).comment (bytes_of_hex name) (bytes_of_hex stored) with
       | Some b -> "ok " ^ hex_of_bytes b | None -> "err")
  | _ -> "BAD-REQUEST")

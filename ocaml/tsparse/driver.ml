(* C02 model driver (stateful: one testscript environment at a time).  Requests:
     reset <cd> <var>*     -> ok                      state := setup_env vars, ts.cd := cd
     line <hex>            -> fail | args <word>*     ts_step: parse the line; an env line updates the state
     parse <hex>           -> fail | args <word>*     ts_parse only
     setenv <k> <v>        -> ok                      TestScript.Setenv
     getenv <name>*        -> v <value>*
     child                 -> none | env <entry>*     child_env state cd
     childlookup <name>    -> none | some <hex>       child_lookup in child_env (none also when child_env fails)
     expand <hex>          -> <hex>                   TestScript.expand
     quotemeta <hex>       -> <hex>
     reliteral <hex>       -> none | some <hex>
     utf8 <hex>            -> true|false
     sqline <word>*        -> <hex>                   join_sp (map sq ws)
     inquote <hex>         -> true|false              in_quote_after l false
     pwdkey                -> <hex>
     consts                -> <separator bytes> <quote byte>   (the regenerated literals of the tokenizer)
     cmp <neg> <env> <name1> <name2> <text1> <text2> -> true|false   do_cmd_cmp in the current state (neg, env: 0|1)
     holds <line> <k> <v>  -> true|false              c02_holds_on state cd line k v
     script <hex>          -> <n> [; fail | ; args <word>*]*   run_script: the whole script text is cut into
                                                      lines by the model and every line goes through ts_step
                                                      (the state is updated); one result per line, in order
     split <hex>           -> <n> <length>*           script_lines_tr only: number of lines and their lengths
     cd <hex>              -> ok                      hstep (HCd dir): ts.cd := dir
     listing               -> none | l <key>=<value>* env_listing (key and value in hex, joined by "=")
     histholds <name>*     -> true|false|untracked    the requests since the last reset, read as a history
                                                      (line -> hcmd_of_line, setenv -> HSetenv, cd -> HCd):
                                                      hrun of that history from the reset state is the current
                                                      state, and history_holds is true for every name *)
let st = ref (setup_env [])
let cd = ref []
(* the history since the last reset (newest first), the reset state, and whether every state change
   since then is in the history (a script request is not) *)
let hist : hcmd list ref = ref []
let vars0 : byte list list ref = ref []
let cd0 : byte list ref = ref []
let tracked = ref true
let hexes l = String.concat " " (List.map hex_of_bytes l)
let show_args = function
  | None -> "fail"
  | Some ws -> if ws = [] then "args" else "args " ^ hexes ws
let () = serve (function
  | "reset" :: c :: vars ->
      cd := bytes_of_hex c; vars0 := List.map bytes_of_hex vars; cd0 := !cd; hist := []; tracked := true;
      st := setup_env !vars0; "ok"
  | ["line"; x] ->
      hist := hcmd_of_line !st (bytes_of_hex x) :: !hist;
      let (s, r) = ts_step !st (bytes_of_hex x) in st := s; show_args r
  | ["parse"; x] -> show_args (ts_parse !st (bytes_of_hex x))
  | ["setenv"; k; v] ->
      hist := HSetenv (bytes_of_hex k, bytes_of_hex v) :: !hist;
      st := setenv (bytes_of_hex k) (bytes_of_hex v) !st; "ok"
  | "histholds" :: names ->
      if not !tracked then "untracked" else begin
        let h = List.rev !hist in
        let s = hrun h { hs_env = setup_env !vars0; hs_cd = !cd0 } in
        string_of_bool (hstate_eqb s { hs_env = !st; hs_cd = !cd }
                        && List.for_all (fun n -> history_holds h !vars0 !cd0 (bytes_of_hex n)) names)
      end
  | "getenv" :: names -> String.concat " " ("v" :: List.map (fun n -> hex_of_bytes (getenv !st (bytes_of_hex n))) names)
  | ["child"] -> (match child_env !st !cd with None -> "none" | Some l -> if l = [] then "env" else "env " ^ hexes l)
  | ["childlookup"; n] ->
      (match child_env !st !cd with
       | None -> "none"
       | Some l -> (match child_lookup (bytes_of_hex n) l with None -> "none" | Some v -> "some " ^ hex_of_bytes v))
  | ["expand"; x] -> hex_of_bytes (expand !st (bytes_of_hex x))
  | ["quotemeta"; x] -> hex_of_bytes (quote_meta (bytes_of_hex x))
  | ["reliteral"; x] -> (match re_literal (bytes_of_hex x) with None -> "none" | Some s -> "some " ^ hex_of_bytes s)
  | ["utf8"; x] -> string_of_bool (utf8_ok (bytes_of_hex x))
  | "sqline" :: ws -> hex_of_bytes (join_sp (List.map (fun w -> sq (bytes_of_hex w)) ws))
  | ["inquote"; x] -> string_of_bool (in_quote_after (bytes_of_hex x) false)
  | ["pwdkey"] -> hex_of_bytes pwd_key
  | ["cmp"; neg; env; n1; n2; t1; t2] ->
      string_of_bool (do_cmd_cmp !st (neg = "1") (env = "1") (bytes_of_hex n1) (bytes_of_hex n2) (bytes_of_hex t1) (bytes_of_hex t2))
  | ["holds"; l; k; v] -> string_of_bool (c02_holds_on !st !cd (bytes_of_hex l) (bytes_of_hex k) (bytes_of_hex v))
  | ["script"; x] ->
      let (s, rs) = run_script !st (bytes_of_hex x) in
      st := s; tracked := false;
      String.concat " ; " (string_of_int (List.length rs) :: List.map show_args rs)
  | ["split"; x] ->
      let ls = script_lines_tr (bytes_of_hex x) in
      String.concat " " (string_of_int (List.length ls) :: List.map (fun l -> string_of_int (List.length l)) ls)
  | ["cd"; d] ->
      hist := HCd (bytes_of_hex d) :: !hist;
      let s = hstep { hs_env = !st; hs_cd = !cd } (HCd (bytes_of_hex d)) in
      st := s.hs_env; cd := s.hs_cd; "ok"
  | ["listing"] ->
      (match env_listing !st with
       | None -> "none"
       | Some l -> String.concat " " ("l" :: List.map (fun (k, v) -> hex_of_bytes k ^ "=" ^ hex_of_bytes v) l))
  | ["consts"] -> hex_of_bytes ts_sep_bytes ^ " " ^ hex_of_bytes [ts_quote]
  | _ -> "BAD-REQUEST")
